/-
  IQE.Lemmas.VectorSearchShape — the projection chain below the Sort, for C43_canonical_shape: what `walk` (the rule's loop through
  column-only projections down to the scan) extracts is what the chain MEANS (`meaning`): the rows are the prefiltered table rows with
  columns picked, each top-level output column is the scan column the rule names for it, and the sort key's column is the scan column the
  rule resolved — provided names are pairwise distinct ignoring case at every level (`chainOk`).
-/
import IQE.Engine.VectorSearch
namespace IQE.Lemmas.VectorSearchShape
open IQE.Engine IQE.Engine.PlanWf IQE.Engine.VectorSearch

/-! ### lists of options -/

theorem allSome_spec {α : Type} : ∀ (l : List (Option α)) (r : List α), allSome l = some r →
    r.length = l.length ∧ ∀ (i : Nat) (h : i < l.length) (h' : i < r.length), l[i] = some r[i]
  | [], r, h => by simp [allSome] at h; subst h; simp
  | none :: xs, r, h => by simp [allSome] at h
  | some x :: xs, r, h => by
    simp only [allSome, Option.map_eq_some_iff] at h
    obtain ⟨r', hr', rfl⟩ := h
    obtain ⟨hl, hi⟩ := allSome_spec xs r' hr'
    refine ⟨by simp [hl], ?_⟩
    intro i h h'
    cases i with
    | zero => rfl
    | succ i => simpa using hi i (by simpa using h) (by simpa using h')

theorem allSome_of_forall {α : Type} : ∀ (l : List (Option α)) (r : List α), r.length = l.length →
    (∀ (i : Nat) (h : i < l.length) (h' : i < r.length), l[i] = some r[i]) → allSome l = some r
  | [], r, hl, _ => by cases r <;> simp_all [allSome]
  | x :: xs, [], hl, _ => by simp at hl
  | x :: xs, y :: ys, hl, hi => by
    have h0 := hi 0 (by simp) (by simp)
    simp only [List.getElem_cons_zero] at h0
    subst h0
    have := allSome_of_forall xs ys (by simpa using hl) (fun i h h' => by
      have := hi (i + 1) (by simpa using h) (by simpa using h')
      simpa only [List.getElem_cons_succ] using this)
    simp [allSome, this]

/-! ### findIdx / colIndex -/

theorem findIdx_some {α : Type} (p : α → Bool) : ∀ (l : List α) (i : Nat), findIdx p l = some i →
    ∃ h : i < l.length, p l[i] = true ∧ ∀ k (hk : k < i), p (l[k]'(by omega)) = false
  | [], i, h => by simp [findIdx] at h
  | x :: xs, i, h => by
    unfold findIdx at h
    by_cases hp : p x = true
    · simp only [hp, if_true, Option.some.injEq] at h
      subst h
      exact ⟨by simp, by simpa using hp, by intro k hk; omega⟩
    · simp only [hp] at h
      cases hfx : findIdx p xs with
      | none => simp [hfx] at h
      | some j =>
      rw [hfx] at h
      simp at h
      have hj := hfx
      subst h
      obtain ⟨hlt, hpj, hall⟩ := findIdx_some p xs j hj
      refine ⟨by simp; omega, by simpa using hpj, ?_⟩
      intro k hk
      cases k with
      | zero => simpa using hp
      | succ k => simpa using hall k (by omega)

theorem findIdx_of_first {α : Type} (p : α → Bool) : ∀ (l : List α) (i : Nat) (h : i < l.length), p l[i] = true →
    (∀ k (hk : k < i), p (l[k]'(by omega)) = false) → findIdx p l = some i
  | [], i, h, _, _ => by simp at h
  | x :: xs, 0, _, hp, _ => by simp only [List.getElem_cons_zero] at hp; simp [findIdx, hp]
  | x :: xs, i + 1, h, hp, hall => by
    have h0 := hall 0 (by omega)
    simp only [List.getElem_cons_zero] at h0
    have := findIdx_of_first p xs i (by simpa using h) (by simpa using hp) (fun k hk => by simpa using hall (k + 1) (by omega))
    simp [findIdx, h0, this]

/-! ### names ignoring ASCII case -/

theorem eqci_iff (a b : String) : eqIgnoreAsciiCase a b = true ↔ lc a = lc b := by simp [eqIgnoreAsciiCase, lc]

theorem nodup_getElem_ne {α : Type} {l : List α} (h : l.Nodup) (i j : Nat) (hi : i < l.length) (hj : j < l.length) (hij : i ≠ j) : l[i] ≠ l[j] := by
  have hp := List.pairwise_iff_getElem.1 h
  rcases Nat.lt_or_gt_of_ne hij with hlt | hgt
  · exact hp i j hi hj hlt
  · exact fun e => hp j i hj hi hgt e.symm

theorem find_key {β : Type} : ∀ (l : List (String × β)) (j : Nat) (hj : j < l.length) (n : String),
    (l.map (fun e => lc e.1)).Nodup → lc l[j].1 = lc n → l.find? (fun e => eqIgnoreAsciiCase e.1 n) = some l[j]
  | [], j, hj, _, _, _ => by simp at hj
  | x :: xs, 0, _, n, _, hn => by
    simp only [List.getElem_cons_zero] at hn
    simp [List.find?, (eqci_iff x.1 n).2 hn]
  | x :: xs, j + 1, hj, n, hnd, hn => by
    simp only [List.getElem_cons_succ] at hn ⊢
    have hx : eqIgnoreAsciiCase x.1 n = false := by
      cases hxe : eqIgnoreAsciiCase x.1 n with
      | false => rfl
      | true =>
        exfalso
        have h1 : lc x.1 = lc n := (eqci_iff _ _).1 hxe
        have := nodup_getElem_ne hnd 0 (j + 1) (by simp) (by simpa using hj) (by omega)
        simp only [List.getElem_map, List.getElem_cons_zero, List.getElem_cons_succ] at this
        exact this (h1.trans hn.symm)
    have hnd' : (xs.map (fun e => lc e.1)).Nodup := by
      simp only [List.map_cons, List.nodup_cons] at hnd; exact hnd.2
    simp only [List.find?, hx]
    exact find_key xs j (by simpa using hj) n hnd' hn

theorem colIndex_some (s : Schema) (name : String) (m : Nat) (h : colIndex s name = some m) : ∃ hm : m < s.length, s[m].name = name := by
  obtain ⟨hm, hp, _⟩ := findIdx_some _ s m h
  exact ⟨hm, by simpa using hp⟩

theorem colIndex_of_nodup (s : Schema) (hn : (s.map (fun f => lc f.name)).Nodup) (m : Nat) (h : m < s.length) : colIndex s s[m].name = some m := by
  apply findIdx_of_first _ s m h (by simp)
  intro k hk
  have := nodup_getElem_ne hn k m (by simp; omega) (by simpa using h) (by omega)
  simp only [List.getElem_map] at this
  cases hb : (s[k].name == s[m].name) with
  | false => rfl
  | true =>
    exfalso
    have : s[k].name = s[m].name := by simpa using hb
    rename_i hne
    exact hne (by rw [this])

/-! ### picking columns -/

theorem pick_getD (idx : List Nat) (r : VRow) (m : Nat) (h : m < idx.length) : (pick idx r).getD m .null = r.getD idx[m] .null := by
  simp [pick, List.getD_eq_getElem?_getD, h]

theorem pick_pick (idx1 idx2 : List Nat) (r : VRow) (h : ∀ m ∈ idx2, m < idx1.length) :
    pick idx2 (pick idx1 r) = pick (idx2.map (fun m => idx1.getD m 0)) r := by
  simp only [pick, List.map_map]
  apply List.map_congr_left
  intro m hm
  have hlt := h m hm
  simp [List.getD_eq_getElem?_getD, hlt]

/-- what the walk establishes about the chain below the Sort -/
def WalkSem (pred : List PExpr → Schema → VRow → Bool) (cat : List VTable) (v : String) (n : Nat)
    (a2s : List (String × String)) (hit : ScanHit) (sCur : Schema) (rowsCur : List VRow) : Prop :=
  ∃ (t : VTable) (idxCur : List Nat), cat.find? (fun t => t.name == hit.table) = some t ∧
    rowsCur = (t.rows.filter (pred hit.filter hit.scanSchema)).map (pick idxCur) ∧
    idxCur.length = sCur.length ∧
    hit.a2s.map (·.1) = a2s.map (·.1) ∧
    (∀ (j : Nat) (hj : j < a2s.length) (hj' : j < hit.a2s.length) (m : Nat), colIndex sCur a2s[j].2 = some m →
        ∃ hm : m < idxCur.length, colIndex hit.scanSchema hit.a2s[j].2 = some idxCur[m]) ∧
    (∃ f, uniqueByName hit.scanSchema hit.column = some f ∧ vecDim f.ty = some n) ∧
    hit.column = ((hit.a2s.find? (fun e => eqIgnoreAsciiCase e.1 v)).map (·.2)).getD v

theorem projectSchema_spec (s : Schema) : ∀ (idx : List Nat), (∀ i ∈ idx, i < s.length) →
    (projectSchema s idx).length = idx.length ∧
    ∀ (m : Nat) (h : m < idx.length) (h' : m < (projectSchema s idx).length), ∃ hv : idx[m] < s.length, (projectSchema s idx)[m] = s[idx[m]]
  | [], _ => by simp [projectSchema]
  | i :: is, hv => by
    have hi : i < s.length := hv i (by simp)
    obtain ⟨hl, hg⟩ := projectSchema_spec s is (fun x hx => hv x (by simp [hx]))
    have e : projectSchema s (i :: is) = s[i] :: projectSchema s is := by
      simp [projectSchema, hi]
    rw [e]
    refine ⟨by simp [hl], ?_⟩
    intro m h h'
    cases m with
    | zero => exact ⟨hi, rfl⟩
    | succ m =>
      obtain ⟨hv', he⟩ := hg m (by simpa using h) (by simpa using h')
      exact ⟨by simpa using hv', by simpa using he⟩

theorem noCiDup_iff (names : List String) : noCiDup names = true ↔ (names.map lc).Nodup := by simp [noCiDup]

theorem walkSem_scan (pred : List PExpr → Schema → VRow → Bool) (litInts : List Nat → List Int) (cat : List VTable) (v : String) (n : Nat)
    (a2s : List (String × String)) (table : String) (schema : Schema) (proj : Option (List Nat)) (filter : List PExpr)
    (hit : ScanHit) (sCur : Schema) (rowsCur : List VRow)
    (hw : walk v n a2s (.scan table schema proj filter) = some hit)
    (hm : meaning pred litInts cat (.scan table schema proj filter) = some (sCur, rowsCur))
    (hok : chainOk (.scan table schema proj filter) = true) : WalkSem pred cat v n a2s hit sCur rowsCur := by
  simp only [walk] at hw
  split at hw
  · cases hw
  · rename_i f hf
    split at hw
    · cases hw
    · rename_i d hd
      split at hw
      · rename_i hdn
        have hdn' : d = n := by simpa using hdn
        subst hdn'
        cases hw
        simp only [meaning] at hm
        split at hm
        · cases hm
        · rename_i t ht
          simp only [Option.some.injEq, Prod.mk.injEq] at hm
          obtain ⟨hs, hr⟩ := hm
          simp only [chainOk, Bool.and_eq_true] at hok
          obtain ⟨hnd, hproj⟩ := hok
          have hnd' := (noCiDup_iff _).1 hnd
          have hvalid : ∀ i ∈ proj.getD (List.range schema.length), i < schema.length := by
            cases proj with
            | none => intro i hi; simpa using hi
            | some idx => intro i hi; simpa using (List.all_eq_true.1 hproj) i hi
          obtain ⟨hlen, hget⟩ := projectSchema_spec schema _ hvalid
          refine ⟨t, proj.getD (List.range schema.length), ht, hr.symm, ?_, rfl, ?_, ⟨f, hf, hd⟩, rfl⟩
          · rw [← hs, hlen]
          · intro j hj hj' m hcm
            subst hs
            obtain ⟨hm1, hm2⟩ := colIndex_some _ _ _ hcm
            have hmi : m < (proj.getD (List.range schema.length)).length := by rw [← hlen]; exact hm1
            obtain ⟨hv', he⟩ := hget m hmi hm1
            refine ⟨hmi, ?_⟩
            rw [he] at hm2
            have hnd2 : (schema.map (fun f => lc f.name)).Nodup := by rw [List.map_map] at hnd'; exact hnd'
            have := colIndex_of_nodup schema hnd2 _ hv'
            rw [hm2] at this
            exact this
      · cases hw

theorem walkSem_project (pred : List PExpr → Schema → VRow → Bool) (litInts : List Nat → List Int) (cat : List VTable) (v : String) (n : Nat)
    (a2s a2s' level : List (String × String)) (exprs : List PExpr) (s : Schema) (i : Plan)
    (hit : ScanHit) (sCur : Schema) (rowsCur : List VRow)
    (hl : projectLevel exprs s = some level) (hc : compose a2s level = some a2s')
    (hm : meaning pred litInts cat (.project exprs s i) = some (sCur, rowsCur))
    (hok : chainOk (.project exprs s i) = true)
    (ih : ∀ sI rowsI, meaning pred litInts cat i = some (sI, rowsI) → WalkSem pred cat v n a2s' hit sI rowsI) :
    WalkSem pred cat v n a2s hit sCur rowsCur := by
  -- the semantic side
  simp only [meaning] at hm
  split at hm
  · cases hm
  · rename_i si rowsI hmi
    split at hm
    · cases hm
    · rename_i cs hcs
      split at hm
      · cases hm
      · rename_i idxP hidx
        simp only [Option.some.injEq, Prod.mk.injEq] at hm
        obtain ⟨hs, hr⟩ := hm
        subst hs
        -- the rule's side
        simp only [projectLevel, hcs] at hl
        split at hl
        · rename_i hle
          simp only [Option.some.injEq] at hl
          simp only [chainOk, Bool.and_eq_true, beq_iff_eq] at hok
          obtain ⟨⟨hnd, hlen⟩, _⟩ := hok
          have hnd' := (noCiDup_iff _).1 hnd
          obtain ⟨hcsl, _⟩ := allSome_spec _ _ hcs
          have hcslen : cs.length = s.length := by rw [hcsl, List.length_map, hlen]
          obtain ⟨hidxl, hidxg⟩ := allSome_spec _ _ hidx
          have hidxlen : idxP.length = cs.length := by rw [hidxl, List.length_map]
          obtain ⟨hal, hag⟩ := allSome_spec _ _ hc
          have hal' : a2s'.length = a2s.length := by rw [hal, List.length_map]
          obtain ⟨t, idxI, ht, hrows, hlenI, hfst, hcl, hvec, hcol⟩ := ih si rowsI hmi
          have hvalid : ∀ m ∈ idxP, m < idxI.length := by
            intro m hm
            obtain ⟨k, hk, rfl⟩ := List.mem_iff_getElem.1 hm
            have := hidxg k (by rw [List.length_map]; omega) hk
            simp only [List.getElem_map] at this
            obtain ⟨h1, _⟩ := colIndex_some _ _ _ this
            omega
          have hlevlen : level.length = s.length := by rw [← hl]; simp [hcslen]
          have hfst' : a2s'.map (·.1) = a2s.map (·.1) := by
            apply List.ext_getElem (by simp [hal'])
            intro j h1 h2
            simp only [List.getElem_map]
            have := hag j (by simpa using h2) (by simpa using h1)
            simp only [List.getElem_map, Option.map_eq_some_iff] at this
            obtain ⟨x, _, hx⟩ := this
            rw [← hx]
          refine ⟨t, idxP.map (fun m => idxI.getD m 0), ht, ?_, ?_, hfst.trans hfst', ?_, hvec, hcol⟩
          · rw [← hr, hrows, List.map_map]
            apply List.map_congr_left
            intro r _
            exact pick_pick idxI idxP r hvalid
          · rw [List.length_map, hidxlen, hcslen]
          · intro j hj hj' m hcm
            obtain ⟨hm1, hm2⟩ := colIndex_some _ _ _ hcm
            have hmc : m < cs.length := by omega
            have hmp : m < idxP.length := by omega
            have hml : m < level.length := by omega
            have hlevm : level[m] = (s[m].name, cs[m]) := by
              subst hl; simp
            have hfind : level.find? (fun l => eqIgnoreAsciiCase l.1 a2s[j].2) = some level[m] := by
              apply find_key level m hml
              · have : level.map (fun e => lc e.1) = (s.map (·.name)).map lc := by
                  subst hl
                  apply List.ext_getElem (by simp [hcslen])
                  intro k h1 h2
                  simp
                rw [this]; exact hnd'
              · rw [hlevm, hm2]
            have hj2 : j < a2s'.length := by omega
            have ha := hag j (by simpa using hj) hj2
            simp only [List.getElem_map, hfind, Option.map_some, Option.some.injEq] at ha
            have ha2 : a2s'[j].2 = cs[m] := by rw [← ha, hlevm]
            have hi := hidxg m (by rw [List.length_map]; exact hmc) hmp
            simp only [List.getElem_map] at hi
            rw [← ha2] at hi
            obtain ⟨hm', hres⟩ := hcl j hj2 hj' idxP[m] hi
            refine ⟨by rw [List.length_map]; exact hmp, ?_⟩
            rw [hres]
            simp [List.getD_eq_getElem?_getD, hm']
        · cases hl

theorem walk_sem (pred : List PExpr → Schema → VRow → Bool) (litInts : List Nat → List Int) (cat : List VTable) (v : String) (n : Nat) :
    ∀ (a2s : List (String × String)) (cur : Plan) (hit : ScanHit) (sCur : Schema) (rowsCur : List VRow),
      walk v n a2s cur = some hit → meaning pred litInts cat cur = some (sCur, rowsCur) → chainOk cur = true →
      WalkSem pred cat v n a2s hit sCur rowsCur := by
  apply walk.induct v n (motive := fun a2s cur => ∀ (hit : ScanHit) (sCur : Schema) (rowsCur : List VRow),
      walk v n a2s cur = some hit → meaning pred litInts cat cur = some (sCur, rowsCur) → chainOk cur = true →
      WalkSem pred cat v n a2s hit sCur rowsCur)
  · intro a2s exprs s i hl hit sCur rowsCur hw; simp [walk, hl] at hw
  · intro a2s exprs s i level hl hc hit sCur rowsCur hw; simp [walk, hl, hc] at hw
  · intro a2s exprs s i level hl a2s' hc ih hit sCur rowsCur hw hm hok
    simp only [walk, hl, hc] at hw
    have hoki : chainOk i = true := by
      simp only [chainOk, Bool.and_eq_true] at hok; exact hok.2
    exact walkSem_project pred litInts cat v n a2s a2s' level exprs s i hit sCur rowsCur hl hc hm hok
      (fun sI rowsI hmi => ih hit sI rowsI hw hmi hoki)
  · intro a2s table schema proj filter _ hu hit sCur rowsCur hw
    simp only [walk] at hw
    rw [show uniqueByName schema _ = none from hu] at hw
    cases hw
  · intro a2s table schema proj filter _ f hu hd hit sCur rowsCur hw
    simp only [walk] at hw
    rw [show uniqueByName schema _ = some f from hu] at hw
    simp only [hd] at hw
    cases hw
  · intro a2s table schema proj filter _ f hu d hd hdn hit sCur rowsCur hw hm hok
    exact walkSem_scan pred litInts cat v n a2s table schema proj filter hit sCur rowsCur hw hm hok
  · intro a2s table schema proj filter _ f hu d hd hdn hit sCur rowsCur hw
    simp only [walk] at hw
    rw [show uniqueByName schema _ = some f from hu] at hw
    simp only [hd, hdn] at hw
    cases hw
  · intro t a2s h1 h2 hit sCur rowsCur hw
    unfold walk at hw
    split at hw
    · exact absurd rfl (h1 _ _ _)
    · exact absurd rfl (h2 _ _ _ _)
    · cases hw

/-! ### the matcher's gates, inverted; the meaning of an accepted plan -/

theorem canonicalKnn_inv (p : Plan) (s : KnnSpec) (h : canonicalKnn p = some s) :
    ∃ (key : PExpr) (tag : String) (a0 a1 ce : PExpr) (rel : Option String) (v : String) (hit : ScanHit),
      p = .limit s.skip (some s.k) (.sort [key] [(s.desc, false)] s.input) ∧ s.k ≠ 0 ∧
      stripAlias key = .op "fn" tag [a0, a1] ∧ DistFn.ofName tag = some s.fn ∧ s.desc = s.fn.nearestDesc ∧
      splitArgs a0 a1 = some (ce, s.query) ∧ stripAlias ce = .col rel v ∧
      walk v s.query.length ((schemaOf s.input).map (fun f => (f.name, f.name))) s.input = some hit ∧
      s.table = hit.table ∧ s.column = hit.column ∧ s.filter = hit.filter ∧ s.scanSchema = hit.scanSchema ∧
      s.outputs = (hit.a2s.map (·.2)).zip (schemaOf s.input) ∧ s.sortKey = key := by
  unfold canonicalKnn at h
  split at h
  · rename_i skip fetch key desc nf input
    split at h
    · cases h
    · rename_i hf
      split at h
      · cases h
      · rename_i hnf
        split at h
        · rename_i tag a0 a1 hk
          split at h
          · cases h
          · rename_i f hfn
            split at h
            · cases h
            · rename_i hd
              split at h
              · cases h
              · rename_i ce q hsp
                split at h
                · rename_i rel v hce
                  dsimp only at h
                  split at h
                  · cases h
                  · rename_i hit hw
                    simp only [Option.some.injEq] at h
                    subst h
                    have hnf' : nf = false := by simpa using hnf
                    subst hnf'
                    have hd' : desc = f.nearestDesc := by simpa using hd
                    refine ⟨key, tag, a0, a1, ce, rel, v, hit, rfl, ?_, hk, hfn, hd', hsp, hce, hw, rfl, rfl, rfl, rfl, rfl, rfl⟩
                    simpa using hf
                · cases h
        · cases h
  · cases h

theorem canonical_meaning (pred : List PExpr → Schema → VRow → Bool) (litInts : List Nat → List Int) (cat : List VTable)
    (p : Plan) (s : KnnSpec) (sch : Schema) (out : List VRow)
    (hc : canonicalKnn p = some s) (hm : meaning pred litInts cat p = some (sch, out))
    (hok : chainOk s.input = true) (htop : noCiDup ((schemaOf s.input).map (·.name)) = true)
    (hsch : ∀ si rows, meaning pred litInts cat s.input = some (si, rows) → si = schemaOf s.input)
    (hcat : ∀ t, cat.find? (fun t => t.name == s.table) = some t → t.schema = s.scanSchema) :
    knnAnswer pred litInts cat s = some out := by
  obtain ⟨key, tag, a0, a1, ce, rel, v, hit, hp, hk0, hkey, hfn, hdesc, hsp, hce, hw, htab, hcolm, hfil, hss, hout, _⟩ := canonicalKnn_inv p s hc
  subst hp
  simp only [meaning] at hm
  split at hm
  · cases hm
  · rename_i si0 sorted hsort
    simp only [Option.some.injEq, Prod.mk.injEq] at hm
    obtain ⟨_, hout'⟩ := hm
    split at hsort
    · cases hsort
    · rename_i si rowsI hmi
      rw [hkey] at hsort
      simp only [hfn, hsp, hce] at hsort
      split at hsort
      · rename_i ci hci
        simp only [Option.some.injEq, Prod.mk.injEq] at hsort
        obtain ⟨_, hsorted⟩ := hsort
        have hsi := hsch si rowsI hmi
        subst hsi
        obtain ⟨t, idxI, ht, hrows, hlenI, hfst, hcl, _, hcol⟩ := walk_sem pred litInts cat v s.query.length _ s.input hit _ rowsI hw hmi hok
        have hnd : ((schemaOf s.input).map (fun f => lc f.name)).Nodup := by
          have := (noCiDup_iff _).1 htop
          rw [List.map_map] at this; exact this
        have hal : hit.a2s.length = (schemaOf s.input).length := by
          have := congrArg List.length hfst
          simpa using this
        -- every top-level output column j is scan column hit.a2s[j].2
        have hcols : ∀ (j : Nat) (hj : j < (schemaOf s.input).length), ∃ hj' : j < idxI.length,
            colIndex hit.scanSchema (hit.a2s[j]'(by omega)).2 = some idxI[j] := by
          intro j hj
          have h0 := colIndex_of_nodup _ hnd j hj
          have := hcl j (by simpa using hj) (by omega) j (by simpa using h0)
          exact this
        -- the key column
        obtain ⟨hci1, hci2⟩ := colIndex_some _ _ _ hci
        obtain ⟨hciI, hkeycol⟩ := hcols ci hci1
        have hfind : hit.a2s.find? (fun e => eqIgnoreAsciiCase e.1 v) = some (hit.a2s[ci]'(by omega)) := by
          apply find_key hit.a2s ci (by omega) v
          · have : hit.a2s.map (fun e => lc e.1) = (schemaOf s.input).map (fun f => lc f.name) := by
              have := congrArg (List.map lc) hfst
              simp only [List.map_map] at this
              exact this
            rw [this]; exact hnd
          · have : (hit.a2s[ci]'(by omega)).1 = (schemaOf s.input)[ci].name := by
              have := List.getElem_of_eq hfst (i := ci) (by simp; omega)
              simpa using this
            rw [this, hci2]
        have hcolumn : colIndex hit.scanSchema hit.column = some idxI[ci] := by
          rw [hcol, hfind]; simpa using hkeycol
        -- the answer computed on the table
        have htS := hcat t (by rw [htab]; exact ht)
        have hidx : allSome (s.outputs.map (fun o => colIndex hit.scanSchema o.1)) = some idxI := by
          apply allSome_of_forall
          · simp [hout, hal, hlenI]
          · intro j h1 h2
            have hj : j < (schemaOf s.input).length := by omega
            obtain ⟨_, hc'⟩ := hcols j hj
            simp only [List.getElem_map, hout, List.getElem_zip]
            exact hc'
        simp only [knnAnswer, htab, ht, htS, hss, hcolm, hcolumn, hidx, hfil]
        rw [← hout', ← hsorted, hrows]
        congr 1
        rw [List.map_take, List.map_drop]
        congr 2
        apply List.map_mergeSort
        intro a _ b _
        simp only [nearLe, rowLe, rowKey, hdesc]
        rw [pick_getD idxI a ci hciI, pick_getD idxI b ci hciI]
      · cases hsort

end IQE.Lemmas.VectorSearchShape
