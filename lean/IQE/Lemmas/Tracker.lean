/-
  Lemmas for C07_tracker: the inductive invariant of the shared match-tracker protocol and its preservation by
  every atomic step of every partition (IQE.Engine.Tracker).  Core `List` only.
-/
import IQE.Engine.Tracker
namespace IQE.Engine.Tracker

/-! ### list helpers -/

theorem countP_set {α : Type} (p : α → Bool) : ∀ (l : List α) (t : Nat) (x y : α), l[t]? = some y →
    (l.set t x).countP p + (if p y then 1 else 0) = l.countP p + (if p x then 1 else 0) := by
  intro l
  induction l with
  | nil => intro t x y h; simp at h
  | cons a l ih =>
    intro t x y h
    cases t with
    | zero =>
      simp only [List.getElem?_cons_zero, Option.some.injEq] at h
      subst h
      simp only [List.set_cons_zero, List.countP_cons]
      omega
    | succ t =>
      simp only [List.getElem?_cons_succ] at h
      have := ih t x y h
      simp only [List.set_cons_succ, List.countP_cons]
      omega

theorem countP_lt_of_not {α : Type} (p : α → Bool) (l : List α) (t : Nat) (y : α) (h : l[t]? = some y)
    (hp : p y = false) : l.countP p < l.length := by
  have hle := List.countP_le_length (p := p) (l := l)
  rcases Nat.lt_or_ge (l.countP p) l.length with h1 | h1
  · exact h1
  · have heq : l.countP p = l.length := by omega
    have := (List.countP_eq_length.mp heq) y (List.mem_iff_getElem?.mpr ⟨t, h⟩)
    simp [hp] at this

theorem sum_map_set (f : Pc → Nat) : ∀ (l : List Pc) (t : Nat) (x y : Pc), l[t]? = some y →
    ((l.set t x).map f).sum + f y = (l.map f).sum + f x := by
  intro l
  induction l with
  | nil => intro t x y h; simp at h
  | cons a l ih =>
    intro t x y h
    cases t with
    | zero =>
      simp only [List.getElem?_cons_zero, Option.some.injEq] at h
      subst h
      simp only [List.set_cons_zero, List.map_cons, List.sum_cons]
      omega
    | succ t =>
      simp only [List.getElem?_cons_succ] at h
      have := ih t x y h
      simp only [List.set_cons_succ, List.map_cons, List.sum_cons]
      omega

theorem getD_set_true (bits : List Bool) (b i : Nat) :
    (bits.set b true).getD i false = true ↔ (i = b ∧ b < bits.length) ∨ bits.getD i false = true := by
  simp only [List.getD_eq_getElem?_getD, List.getElem?_set]
  by_cases h : b = i
  · subst h
    by_cases hl : b < bits.length
    · simp [hl]
    · have : bits[b]? = none := by simp; omega
      simp [hl]
  · have h' : ¬ i = b := fun e => h e.symm
    simp [h, h']

/-- the predicate "no partition matched build row `i`" -/
def free (ms : List (List Nat)) (i : Nat) : Bool := ms.all (fun m => !m.contains i)

theorem free_eq_false (ms : List (List Nat)) (i : Nat) : free ms i = false ↔ ∃ m ∈ ms, i ∈ m := by
  unfold free
  constructor
  · intro h
    induction ms with
    | nil => simp at h
    | cons m ms ih =>
      simp only [List.all_cons, Bool.and_eq_false_iff] at h
      rcases h with h | h
      · exact ⟨m, List.mem_cons_self .., by simpa using h⟩
      · obtain ⟨m', hm', hi⟩ := ih h
        exact ⟨m', List.mem_cons_of_mem _ hm', hi⟩
  · intro ⟨m, hm, hi⟩
    apply Bool.eq_false_iff.mpr
    intro hall
    have := (List.all_eq_true.mp hall) m hm
    simp [hi] at this

theorem unmatched_eq (B : Nat) (ms : List (List Nat)) : unmatched B ms = (List.range B).filter (free ms) := rfl

/-! ### the invariant -/

/-- what must hold of partition `t`'s own stores, given its program counter -/
def PubOk (B : Nat) (bits : List Bool) (m : List Nat) : Pc → Prop
  | .publish todo => ∃ pre, m = pre ++ todo ∧ ∀ b ∈ pre, b < B → bits.getD b false = true
  | _ => ∀ b ∈ m, b < B → bits.getD b false = true

structure Inv (B : Nat) (ms : List (List Nat)) (c : Cfg) : Prop where
  len_pcs : c.pcs.length = ms.length
  len_bits : c.bits.length = B
  /-- the counter counts exactly the partitions that have performed their `fetch_add` -/
  completed_eq : c.completed = c.pcs.countP (fun pc => !pc.isPublish)
  /-- a set flag was matched by some partition -/
  bits_sound : ∀ i, c.bits.getD i false = true → free ms i = false
  /-- every partition's own stores are in place up to its program counter -/
  bits_complete : ∀ (t : Nat) m pc, ms[t]? = some m → c.pcs[t]? = some pc → PubOk B c.bits m pc
  /-- scanning / having emitted happens in exactly one partition, and only once the counter is full -/
  emit_count : c.pcs.countP Pc.isEmitter = if c.completed = ms.length ∧ 0 < ms.length then 1 else 0
  scan_ok : ∀ (t : Nat) i acc, c.pcs[t]? = some (.scan i acc) → i ≤ B ∧ acc = (List.range i).filter (free ms)
  fin_ok : ∀ (t : Nat) l, c.pcs[t]? = some (.finished (some l)) → l = unmatched B ms

theorem inv_init (B : Nat) (ms : List (List Nat)) : Inv B ms (init B ms) := by
  refine ⟨by simp [init], by simp [init], ?_, ?_, ?_, ?_, ?_, ?_⟩
  · simp only [init]
    rw [List.countP_eq_zero.mpr]
    intro a ha
    obtain ⟨m, _, rfl⟩ := List.mem_map.mp ha
    simp [Pc.isPublish]
  · intro i h
    simp only [init, List.getD_eq_getElem?_getD, List.getElem?_replicate] at h
    split at h <;> simp at h
  · intro t m pc hm hpc
    simp only [init, List.getElem?_map, hm, Option.map_some, Option.some.injEq] at hpc
    subst hpc
    exact ⟨[], by simp, by simp⟩
  · have h0 : (init B ms).pcs.countP Pc.isEmitter = 0 := by
      simp only [init]
      rw [List.countP_eq_zero]
      intro a ha
      obtain ⟨m, _, rfl⟩ := List.mem_map.mp ha
      simp [Pc.isEmitter]
    rw [h0]
    have : ¬ (0 = ms.length ∧ 0 < ms.length) := by omega
    simp [init, this]
  · intro t i acc h
    simp only [init, List.getElem?_map] at h
    cases hm : ms[t]? <;> simp [hm] at h
  · intro t l h
    simp only [init, List.getElem?_map] at h
    cases hm : ms[t]? <;> simp [hm] at h

/-- Once the counter is full every partition has published, so the flags are final. -/
theorem Inv.bits_final {B ms c} (I : Inv B ms c) (hfull : c.completed = ms.length) (i : Nat) (hi : i < B) :
    c.bits.getD i false = true ↔ free ms i = false := by
  constructor
  · exact I.bits_sound i
  · intro hf
    obtain ⟨m, hm, him⟩ := (free_eq_false ms i).mp hf
    obtain ⟨t, ht⟩ := List.mem_iff_getElem?.mp hm
    have htlt : t < c.pcs.length := by
      rw [I.len_pcs]
      rcases Nat.lt_or_ge t ms.length with h | h
      · exact h
      · have : ms[t]? = none := by simp; omega
        simp [this] at ht
    have hall : c.pcs.countP (fun pc => !pc.isPublish) = c.pcs.length := by
      rw [← I.completed_eq, hfull, I.len_pcs]
    have hpc : c.pcs[t]? = some c.pcs[t] := by simp [htlt]
    have hnp := (List.countP_eq_length.mp hall) c.pcs[t] (List.mem_iff_getElem?.mpr ⟨t, hpc⟩)
    have hok := I.bits_complete t m c.pcs[t] ht hpc
    cases hcase : c.pcs[t] with
    | publish todo => simp [hcase, Pc.isPublish] at hnp
    | scan j acc => rw [hcase] at hok; exact hok i him hi
    | finished e => rw [hcase] at hok; exact hok i him hi

theorem Inv.completed_full_of_emitter {B ms c} (I : Inv B ms c) (t : Nat) (pc : Pc) (h : c.pcs[t]? = some pc)
    (he : pc.isEmitter = true) : c.completed = ms.length := by
  have hpos : 0 < c.pcs.countP Pc.isEmitter :=
    List.countP_pos_iff.mpr ⟨pc, List.mem_iff_getElem?.mpr ⟨t, h⟩, he⟩
  have := I.emit_count
  split at this
  · rename_i hc; exact hc.1
  · omega

theorem pubOk_mono {B : Nat} {bits bits' : List Bool} (hmono : ∀ i, bits.getD i false = true → bits'.getD i false = true)
    (m : List Nat) (pc : Pc) (h : PubOk B bits m pc) : PubOk B bits' m pc := by
  cases pc with
  | publish todo =>
    obtain ⟨pre, e, hp⟩ := h
    exact ⟨pre, e, fun b hb hB => hmono b (hp b hb hB)⟩
  | scan i acc => exact fun b hb hB => hmono b (h b hb hB)
  | finished e => exact fun b hb hB => hmono b (h b hb hB)


theorem countP_set_same {α : Type} (p : α → Bool) (l : List α) (t : Nat) (x y : α) (h : l[t]? = some y)
    (hxy : p x = p y) : (l.set t x).countP p = l.countP p := by
  have := countP_set p l t x y h
  rw [hxy] at this
  omega

theorem countP_set_gain {α : Type} (p : α → Bool) (l : List α) (t : Nat) (x y : α) (h : l[t]? = some y)
    (hy : p y = false) (hx : p x = true) : (l.set t x).countP p = l.countP p + 1 := by
  have := countP_set p l t x y h
  simp only [hy, hx, if_true, Bool.false_eq_true, if_false] at this
  omega

theorem lt_of_getElem? {α : Type} {l : List α} {t : Nat} {y : α} (h : l[t]? = some y) : t < l.length := by
  rcases Nat.lt_or_ge t l.length with h1 | h1
  · exact h1
  · have : l[t]? = none := by simp; omega
    simp [this] at h

theorem get_set {α : Type} {l : List α} {t : Nat} {y : α} (h : l[t]? = some y) (x : α) (t' : Nat) :
    (l.set t x)[t']? = if t = t' then some x else l[t']? := by
  have htlt := lt_of_getElem? h
  by_cases e : t = t'
  · subst e
    rw [List.getElem?_set_self htlt]
    simp
  · rw [List.getElem?_set_ne e]
    simp [e]

/-- frame: replacing partition `t`'s pc by a pc of the same kind w.r.t. publishing/emitting, without touching the
    flags or the counter, keeps everything that does not speak about `t`. -/
theorem inv_frame {B ms c} (I : Inv B ms c) (t : Nat) (y x : Pc) (hpc : c.pcs[t]? = some y)
    (hpub : (!x.isPublish) = (!y.isPublish)) (hemit : x.isEmitter = y.isEmitter)
    (hcomplete : ∀ m, ms[t]? = some m → PubOk B c.bits m x)
    (hscan : ∀ i acc, x = .scan i acc → i ≤ B ∧ acc = (List.range i).filter (free ms))
    (hfin : ∀ l, x = .finished (some l) → l = unmatched B ms) :
    Inv B ms { c with pcs := c.pcs.set t x } := by
  refine ⟨by simpa using I.len_pcs, I.len_bits, ?_, I.bits_sound, ?_, ?_, ?_, ?_⟩
  · show c.completed = (c.pcs.set t x).countP (fun pc => !pc.isPublish)
    rw [countP_set_same (fun pc => !pc.isPublish) c.pcs t x y hpc hpub]
    exact I.completed_eq
  · intro t' m' pc' hm' hpc'
    simp only [get_set hpc] at hpc'
    by_cases e : t = t'
    · subst e
      simp only [if_true, Option.some.injEq] at hpc'
      subst hpc'
      exact hcomplete m' hm'
    · simp only [e, if_false] at hpc'
      exact I.bits_complete t' m' pc' hm' hpc'
  · show (c.pcs.set t x).countP Pc.isEmitter = _
    rw [countP_set_same Pc.isEmitter c.pcs t x y hpc hemit]
    exact I.emit_count
  · intro t' i acc h
    simp only [get_set hpc] at h
    by_cases e : t = t'
    · simp only [e, if_true, Option.some.injEq] at h
      exact hscan i acc h
    · simp only [e, if_false] at h
      exact I.scan_ok t' i acc h
  · intro t' l h
    simp only [get_set hpc] at h
    by_cases e : t = t'
    · simp only [e, if_true, Option.some.injEq] at h
      exact hfin l h
    · simp only [e, if_false] at h
      exact I.fin_ok t' l h

theorem ms_get {B ms c} (I : Inv B ms c) {t : Nat} {y : Pc} (hpc : c.pcs[t]? = some y) : ∃ m, ms[t]? = some m := by
  have : t < ms.length := by rw [← I.len_pcs]; exact lt_of_getElem? hpc
  exact ⟨ms[t], by simp [this]⟩

/-- one `store(true)` -/
theorem inv_publish {B ms c} (I : Inv B ms c) (t b : Nat) (rest : List Nat)
    (hpc : c.pcs[t]? = some (.publish (b :: rest))) :
    Inv B ms { c with bits := c.bits.set b true, pcs := c.pcs.set t (.publish rest) } := by
  have hmono : ∀ i, c.bits.getD i false = true → (c.bits.set b true).getD i false = true :=
    fun i h => (getD_set_true c.bits b i).mpr (Or.inr h)
  obtain ⟨m, hm⟩ := ms_get I hpc
  obtain ⟨pre, hpre, hprebits⟩ := I.bits_complete t m _ hm hpc
  refine ⟨by simpa using I.len_pcs, by simpa using I.len_bits, ?_, ?_, ?_, ?_, ?_, ?_⟩
  · show c.completed = (c.pcs.set t (.publish rest)).countP (fun pc => !pc.isPublish)
    rw [countP_set_same (fun pc => !pc.isPublish) c.pcs t (.publish rest) _ hpc rfl]
    exact I.completed_eq
  · intro i h
    rcases (getD_set_true c.bits b i).mp h with ⟨rfl, _⟩ | h
    · exact (free_eq_false ms i).mpr ⟨m, List.mem_iff_getElem?.mpr ⟨t, hm⟩, by simp [hpre]⟩
    · exact I.bits_sound i h
  · intro t' m' pc' hm' hpc'
    simp only [get_set hpc] at hpc'
    by_cases e : t = t'
    · subst e
      simp only [if_true, Option.some.injEq] at hpc'
      subst hpc'
      rw [hm] at hm'; cases hm'
      refine ⟨pre ++ [b], by simp [hpre], ?_⟩
      intro x hx hB
      rcases List.mem_append.mp hx with hx | hx
      · exact hmono x (hprebits x hx hB)
      · simp only [List.mem_singleton] at hx
        subst hx
        exact (getD_set_true c.bits x x).mpr (Or.inl ⟨rfl, by rw [I.len_bits]; exact hB⟩)
    · simp only [e, if_false] at hpc'
      exact pubOk_mono hmono m' pc' (I.bits_complete t' m' pc' hm' hpc')
  · show (c.pcs.set t (.publish rest)).countP Pc.isEmitter = _
    rw [countP_set_same Pc.isEmitter c.pcs t (.publish rest) _ hpc rfl]
    exact I.emit_count
  · intro t' i acc h
    simp only [get_set hpc] at h
    by_cases e : t = t'
    · simp [e] at h
    · simp only [e, if_false] at h
      exact I.scan_ok t' i acc h
  · intro t' l h
    simp only [get_set hpc] at h
    by_cases e : t = t'
    · simp [e] at h
    · simp only [e, if_false] at h
      exact I.fin_ok t' l h

/-- the `fetch_add`: `x` is the pc it leads to (`scan 0 []` iff it returned `n - 1`) -/
theorem inv_incr {B ms c} (I : Inv B ms c) (t : Nat) (hpc : c.pcs[t]? = some (.publish []))
    (x : Pc) (hx : x = if c.completed + 1 = c.pcs.length then Pc.scan 0 [] else Pc.finished none) :
    Inv B ms { c with completed := c.completed + 1, pcs := c.pcs.set t x } := by
  obtain ⟨m, hm⟩ := ms_get I hpc
  obtain ⟨pre, hpre, hprebits⟩ := I.bits_complete t m _ hm hpc
  simp only [List.append_nil] at hpre
  subst hpre
  have htlt := lt_of_getElem? hpc
  have hlt : c.completed < c.pcs.length := by
    rw [I.completed_eq]
    exact countP_lt_of_not _ c.pcs t _ hpc rfl
  have hnoemit : c.pcs.countP Pc.isEmitter = 0 := by
    rw [I.emit_count]
    have : ¬ (c.completed = ms.length ∧ 0 < ms.length) := by
      rw [← I.len_pcs]; omega
    simp [this]
  have hxnp : (fun pc : Pc => !pc.isPublish) x = true := by
    subst hx; split <;> rfl
  refine ⟨by simpa using I.len_pcs, I.len_bits, ?_, I.bits_sound, ?_, ?_, ?_, ?_⟩
  · show c.completed + 1 = (c.pcs.set t x).countP (fun pc => !pc.isPublish)
    rw [countP_set_gain (fun pc => !pc.isPublish) c.pcs t x _ hpc rfl hxnp, I.completed_eq]
  · intro t' m' pc' hm' hpc'
    simp only [get_set hpc] at hpc'
    by_cases e : t = t'
    · subst e
      simp only [if_true, Option.some.injEq] at hpc'
      rw [hm] at hm'; cases hm'
      subst hpc'
      subst hx
      split <;> exact hprebits
    · simp only [e, if_false] at hpc'
      exact I.bits_complete t' m' pc' hm' hpc'
  · show (c.pcs.set t x).countP Pc.isEmitter = if c.completed + 1 = ms.length ∧ 0 < ms.length then 1 else 0
    rw [← I.len_pcs]
    by_cases hfull : c.completed + 1 = c.pcs.length
    · have hxe : x = Pc.scan 0 [] := by rw [hx]; simp [hfull]
      rw [countP_set_gain Pc.isEmitter c.pcs t x _ hpc rfl (by rw [hxe]; rfl), hnoemit]
      have : 0 < c.pcs.length := by omega
      simp [hfull, this]
    · have hxe : x = Pc.finished none := by rw [hx]; simp [hfull]
      rw [countP_set_same Pc.isEmitter c.pcs t x _ hpc (by rw [hxe]; rfl), hnoemit]
      simp [hfull]
  · intro t' i acc h
    simp only [get_set hpc] at h
    by_cases e : t = t'
    · simp only [e, if_true, Option.some.injEq] at h
      rw [hx] at h
      split at h
      · cases h; exact ⟨Nat.zero_le _, by simp⟩
      · cases h
    · simp only [e, if_false] at h
      exact I.scan_ok t' i acc h
  · intro t' l h
    simp only [get_set hpc] at h
    by_cases e : t = t'
    · simp only [e, if_true, Option.some.injEq] at h
      rw [hx] at h
      split at h <;> cases h
    · simp only [e, if_false] at h
      exact I.fin_ok t' l h

/-- **Preservation**: every atomic action of every partition keeps the invariant. -/
theorem inv_step {B ms c c'} (I : Inv B ms c) (t : Nat) (hs : step c t = some c') : Inv B ms c' := by
  unfold step at hs
  cases hpc : c.pcs[t]? with
  | none => simp [hpc] at hs
  | some pc =>
    cases pc with
    | finished e => simp [hpc] at hs
    | publish todo =>
      cases todo with
      | cons b rest =>
        simp only [hpc, Option.some.injEq] at hs
        subst hs
        exact inv_publish I t b rest hpc
      | nil =>
        simp only [hpc, Option.some.injEq] at hs
        subst hs
        exact inv_incr I t hpc _ rfl
    | scan i acc =>
      have hfull := I.completed_full_of_emitter t _ hpc rfl
      obtain ⟨hiB, hacc⟩ := I.scan_ok t i acc hpc
      obtain ⟨m, hm⟩ := ms_get I hpc
      have hold := I.bits_complete t m _ hm hpc
      simp only [hpc] at hs
      by_cases hi : i < c.bits.length
      · simp only [hi, if_true, Option.some.injEq] at hs
        subst hs
        refine inv_frame I t _ _ hpc rfl rfl (fun m' hm' => by rw [hm] at hm'; cases hm'; exact hold) ?_ ?_
        · intro i' acc' h
          simp only [Pc.scan.injEq] at h
          obtain ⟨rfl, rfl⟩ := h
          rw [I.len_bits] at hi
          refine ⟨hi, ?_⟩
          rw [List.range_succ, List.filter_append, ← hacc]
          have hb := I.bits_final hfull i hi
          by_cases hbit : c.bits.getD i false = true
          · have := hb.mp hbit
            rw [if_pos hbit]
            simp [this]
          · have hf : free ms i = true := by
              cases hfr : free ms i
              · exact absurd (hb.mpr hfr) hbit
              · rfl
            rw [if_neg hbit]
            simp [hf]
        · intro l h; cases h
      · simp only [hi, if_false, Option.some.injEq] at hs
        subst hs
        refine inv_frame I t _ _ hpc rfl rfl (fun m' hm' => by rw [hm] at hm'; cases hm'; exact hold) ?_ ?_
        · intro i' acc' h; cases h
        · intro l h
          simp only [Pc.finished.injEq, Option.some.injEq] at h
          subst h
          rw [I.len_bits] at hi
          have : i = B := by omega
          subst this
          rw [hacc]; rfl

theorem inv_reach {B ms c} (h : Reach (init B ms) c) : Inv B ms c := by
  induction h with
  | refl => exact inv_init B ms
  | tail _ hs ih =>
    obtain ⟨t, ht⟩ := hs
    exact inv_step ih t ht

/-! ### termination measure -/

theorem step_bits_length {c c' : Cfg} {t : Nat} (hs : step c t = some c') : c'.bits.length = c.bits.length := by
  unfold step at hs
  cases hpc : c.pcs[t]? with
  | none => simp [hpc] at hs
  | some pc =>
    cases pc with
    | finished e => simp [hpc] at hs
    | publish todo =>
      cases todo <;> simp only [hpc, Option.some.injEq] at hs <;> subst hs <;> simp
    | scan i acc =>
      simp only [hpc] at hs
      split at hs <;> simp only [Option.some.injEq] at hs <;> subst hs <;> rfl

/-- every atomic action strictly decreases the measure: no execution is longer than `measure (init …)` -/
theorem measure_step {c c' : Cfg} {t : Nat} (hs : step c t = some c') : measure c' < measure c := by
  have hlen := step_bits_length hs
  unfold measure
  rw [hlen]
  unfold step at hs
  cases hpc : c.pcs[t]? with
  | none => simp [hpc] at hs
  | some pc =>
    cases pc with
    | finished e => simp [hpc] at hs
    | publish todo =>
      cases todo with
      | cons b rest =>
        simp only [hpc, Option.some.injEq] at hs
        subst hs
        have := sum_map_set (Pc.fuel c.bits.length) c.pcs t (.publish rest) _ hpc
        simp only [Pc.fuel, List.length_cons] at this ⊢
        omega
      | nil =>
        simp only [hpc, Option.some.injEq] at hs
        subst hs
        by_cases hfull : c.completed + 1 = c.pcs.length
        · have := sum_map_set (Pc.fuel c.bits.length) c.pcs t (Pc.scan 0 []) _ hpc
          simp only [hfull, if_true, Pc.fuel, List.length_nil] at this ⊢
          omega
        · have := sum_map_set (Pc.fuel c.bits.length) c.pcs t (Pc.finished none) _ hpc
          simp only [hfull, if_false, Pc.fuel, List.length_nil] at this ⊢
          omega
    | scan i acc =>
      simp only [hpc] at hs
      by_cases hi : i < c.bits.length
      · simp only [hi, if_true, Option.some.injEq] at hs
        subst hs
        have := sum_map_set (Pc.fuel c.bits.length) c.pcs t
          (.scan (i + 1) (if c.bits.getD i false then acc else acc ++ [i])) _ hpc
        simp only [Pc.fuel] at this ⊢
        omega
      · simp only [hi, if_false, Option.some.injEq] at hs
        subst hs
        have := sum_map_set (Pc.fuel c.bits.length) c.pcs t (.finished (some acc)) _ hpc
        simp only [Pc.fuel] at this ⊢
        omega

/-- a partition is disabled iff it has returned (or does not exist): the protocol never blocks -/
theorem step_none_iff (c : Cfg) (t : Nat) :
    step c t = none ↔ (c.pcs[t]? = none ∨ ∃ e, c.pcs[t]? = some (.finished e)) := by
  unfold step
  cases hpc : c.pcs[t]? with
  | none => simp
  | some pc =>
    cases pc with
    | finished e => simp
    | publish todo => cases todo <;> simp
    | scan i acc => simp only; split <;> simp

/-! ### emissions -/

theorem emissions_length_le (pcs : List Pc) :
    (pcs.filterMap Pc.emitted).length
      ≤ pcs.countP Pc.isEmitter := by
  induction pcs with
  | nil => simp
  | cons a l ih =>
    simp only [List.filterMap_cons, List.countP_cons]
    cases a with
    | publish todo => simp [Pc.isEmitter, Pc.emitted]; exact ih
    | scan i acc => simp [Pc.isEmitter, Pc.emitted]; omega
    | finished e =>
      cases e with
      | none => simp [Pc.isEmitter, Pc.emitted]; exact ih
      | some l => simp [Pc.isEmitter, Pc.emitted]; omega

theorem emissions_length_eq_of_finished (pcs : List Pc) (h : ∀ pc ∈ pcs, pc.isFinished = true) :
    (pcs.filterMap Pc.emitted).length
      = pcs.countP Pc.isEmitter := by
  induction pcs with
  | nil => simp
  | cons a l ih =>
    have ih' := ih (fun pc hpc => h pc (List.mem_cons_of_mem _ hpc))
    have ha := h a (List.mem_cons_self ..)
    simp only [List.filterMap_cons, List.countP_cons]
    cases a with
    | publish todo => simp [Pc.isFinished] at ha
    | scan i acc => simp [Pc.isFinished] at ha
    | finished e =>
      cases e with
      | none => simp [Pc.isEmitter, Pc.emitted]; exact ih'
      | some l => simp [Pc.isEmitter, Pc.emitted]; omega

end IQE.Engine.Tracker
