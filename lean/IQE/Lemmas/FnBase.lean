/- IQE.Lemmas.FnBase — C36: from_base ∘ to_base = id. -/
import IQE.Spec.Fn.Math
namespace IQE.Spec.Fn

theorem digitVal_digitChar : ∀ d : Fin 36, digitVal (digitChar d.val) = some d.val ∧ digitChar d.val ≠ '-' ∧ digitChar d.val ≠ '+' := by decide

theorem digitsVal_append (b : Nat) (l1 l2 : List Char) (acc : Nat) :
    digitsVal b (l1 ++ l2) acc = (digitsVal b l1 acc).bind (digitsVal b l2) := by
  induction l1 generalizing acc with
  | nil => rfl
  | cons c cs ih =>
    simp only [List.cons_append, digitsVal]
    split
    · split
      · exact ih _
      · rfl
    · rfl

theorem natDigits_val (b : Nat) (hb2 : 2 ≤ b) (hb36 : b ≤ 36) : ∀ (f n acc : Nat), n < b ^ (f + 1) →
    digitsVal b ((natDigits b (f + 1) n).map digitChar) acc = some (acc * b ^ (natDigits b (f + 1) n).length + n) ∧ (natDigits b (f + 1) n) ≠ [] := by
  intro f
  induction f with
  | zero =>
    intro n acc h
    have hn : n < b := by simpa using h
    unfold natDigits
    simp only [hn, if_true, List.map_cons, List.map_nil, digitsVal]
    have := (digitVal_digitChar ⟨n, by omega⟩).1
    simp only [this, hn, if_true]
    simp
  | succ f ih =>
    intro n acc h
    unfold natDigits
    by_cases hn : n < b
    · simp only [hn, if_true, List.map_cons, List.map_nil, digitsVal]
      have := (digitVal_digitChar ⟨n, by omega⟩).1
      simp only [this, hn, if_true]
      simp
    · simp only [hn, if_false]
      have hq : n / b < b ^ (f + 1) := by
        rw [Nat.pow_succ] at h
        exact Nat.div_lt_of_lt_mul (by rw [Nat.mul_comm]; exact h)
      obtain ⟨ih1, ih2⟩ := ih (n / b) acc hq
      refine ⟨?_, by simp⟩
      rw [List.map_append, digitsVal_append, ih1]
      have hm : n % b < b := Nat.mod_lt _ (by omega)
      have hdv : digitVal (digitChar (n % b)) = some (n % b) := (digitVal_digitChar ⟨n % b, by omega⟩).1
      simp only [Option.bind, List.map_cons, List.map_nil, digitsVal, hdv, hm, if_true, List.length_append, List.length_singleton]
      congr 1
      rw [Nat.pow_succ]
      have hdm := Nat.div_add_mod n b
      clear hdv ih1 ih2 hq ih
      generalize b ^ (natDigits b (f + 1) (n / b)).length = P at *
      generalize n / b = q at *
      generalize n % b = r at *
      subst hdm
      grind

theorem natDigits_lt (b : Nat) (hb : 0 < b) : ∀ (f n : Nat), ∀ d ∈ natDigits b f n, d < b := by
  intro f
  induction f with
  | zero => intro n d hd; simp [natDigits] at hd
  | succ f ih =>
    intro n d hd
    unfold natDigits at hd
    split at hd
    · simp at hd; omega
    · simp only [List.mem_append, List.mem_singleton] at hd
      rcases hd with hd | hd
      · exact ih _ d hd
      · subst hd; exact Nat.mod_lt _ hb

theorem fromBase_toBase (x r : Int) (hr : radixOk r = true) (hx : inI64 x = true) (s : List Char) (h : toBase x r = some s) :
    fromBase s r = some x := by
  have hr' : 2 ≤ r ∧ r ≤ 36 := by simpa [radixOk] using hr
  have hb2 : 2 ≤ r.toNat := by omega
  have hb36 : r.toNat ≤ 36 := by omega
  have hx' : -9223372036854775808 ≤ x ∧ x ≤ 9223372036854775807 := by
    unfold inI64 i64Min i64Max at hx
    rw [Bool.and_eq_true, decide_eq_true_iff, decide_eq_true_iff] at hx; exact hx
  have hlt : x.natAbs < r.toNat ^ 70 := by
    have h1 : x.natAbs < 2 ^ 70 := by omega
    exact Nat.lt_of_lt_of_le h1 (Nat.pow_le_pow_left hb2 70)
  obtain ⟨hval, hne⟩ := natDigits_val r.toNat hb2 hb36 69 x.natAbs 0 hlt
  unfold toBase at h
  simp only [hr, if_true, Option.some.injEq] at h
  unfold fromBase
  simp only [hr, if_true]
  generalize hds : (natDigits r.toNat 70 x.natAbs).map digitChar = ds at *
  have hdne : ds ≠ [] := by subst hds; simpa using hne
  by_cases hneg : x < 0
  · simp only [hneg, if_true] at h
    subst h
    have he : ds.isEmpty = false := by cases ds <;> simp_all
    simp only [he, hval, Bool.false_eq_true, if_false, if_true]
    simp
    have : inI64 (-(x.natAbs : Int)) = true := by
      have : -(x.natAbs : Int) = x := by omega
      rw [this]; exact hx
    simp [this]; omega
  · simp only [hneg, if_false] at h
    subst h
    -- first digit is neither '-' nor '+'
    obtain ⟨c, cs, hcs⟩ : ∃ c cs, ds = c :: cs := by cases ds with | nil => contradiction | cons c cs => exact ⟨c, cs, rfl⟩
    have hc : c ≠ '-' ∧ c ≠ '+' := by
      subst hds
      cases hnd : natDigits r.toNat 70 x.natAbs with
      | nil => exact absurd hnd hne
      | cons d0 rest =>
        rw [hnd] at hcs; simp at hcs
        have hd0 : d0 < r.toNat := natDigits_lt r.toNat (by omega) 70 x.natAbs d0 (by rw [hnd]; simp)
        have := digitVal_digitChar ⟨d0, by omega⟩
        rw [← hcs.1]; exact ⟨this.2.1, this.2.2⟩
    subst hcs
    split
    · rename_i heq; simp at heq; exact absurd heq.1 hc.1
    · rename_i heq; simp at heq; exact absurd heq.1 hc.2
    · simp only [List.isEmpty_cons, Bool.false_eq_true, if_false, hval]
      have : inI64 (x.natAbs : Int) = true := by
        have : (x.natAbs : Int) = x := by omega
        rw [this]; exact hx
      simp [this]; omega

end IQE.Spec.Fn
