/- IQE.Lemmas.FnDate — C36: civil_from_days and days_from_civil are mutually inverse on the proleptic Gregorian calendar. -/
import IQE.Lemmas.FnDate0
import IQE.Spec.Fn.Date
namespace IQE.Spec.Fn

/-- the year-of-era facts in the form `omega` can use, over Int -/
theorem yoe_int (doe yoe : Int) (h0 : 0 ≤ doe) (h1 : doe ≤ 146096)
    (hy : yoe = (doe - doe / 1460 + doe / 36524 - doe / 146096) / 365) :
    0 ≤ yoe ∧ yoe ≤ 399 ∧ 365 * yoe + yoe / 4 - yoe / 100 ≤ doe ∧
      doe - (365 * yoe + yoe / 4 - yoe / 100) ≤ 365 ∧
      (doe - (365 * yoe + yoe / 4 - yoe / 100) = 365 → (yoe + 1) % 4 = 0 ∧ ((yoe + 1) % 100 ≠ 0 ∨ yoe = 399)) := by
  obtain ⟨a, b, c⟩ := yoe_spec doe.toNat (by omega)
  have hyN : yoe = (yoeN doe.toNat : Int) := by rw [hy]; unfold yoeN; omega
  unfold marchN at b c
  clear hy
  generalize yoeN doe.toNat = y at *
  subst hyN
  have h4 : (y + 1) / 4 = y / 4 ∨ (y + 1) / 4 = y / 4 + 1 := by omega
  have h100 : (y + 1) / 100 = y / 100 ∨ (y + 1) / 100 = y / 100 + 1 := by omega
  split at c <;> rcases h4 with h4 | h4 <;> rcases h100 with h100 | h100 <;> omega

/-- month/day arithmetic of the March-based year, and reassembly of the day number -/
theorem civil_flat (era doe yoe : Int) (hy0 : 0 ≤ yoe) (hy1 : yoe ≤ 399)
    (hlo : 365 * yoe + yoe / 4 - yoe / 100 ≤ doe) (hhi : doe - (365 * yoe + yoe / 4 - yoe / 100) ≤ 365) :
    daysOfCivil
      (if (if (5 * (doe - (365 * yoe + yoe / 4 - yoe / 100)) + 2) / 153 < 10 then (5 * (doe - (365 * yoe + yoe / 4 - yoe / 100)) + 2) / 153 + 3
           else (5 * (doe - (365 * yoe + yoe / 4 - yoe / 100)) + 2) / 153 - 9) ≤ 2 then yoe + era * 400 + 1 else yoe + era * 400)
      (if (5 * (doe - (365 * yoe + yoe / 4 - yoe / 100)) + 2) / 153 < 10 then (5 * (doe - (365 * yoe + yoe / 4 - yoe / 100)) + 2) / 153 + 3
           else (5 * (doe - (365 * yoe + yoe / 4 - yoe / 100)) + 2) / 153 - 9)
      (doe - (365 * yoe + yoe / 4 - yoe / 100) - (153 * ((5 * (doe - (365 * yoe + yoe / 4 - yoe / 100)) + 2) / 153) + 2) / 5 + 1)
    = era * 146097 + doe - 719468 := by
  generalize hdy : doe - (365 * yoe + yoe / 4 - yoe / 100) = doy at *
  have hmp : 0 ≤ (5 * doy + 2) / 153 ∧ (5 * doy + 2) / 153 ≤ 11 := by omega
  generalize hmpd : (5 * doy + 2) / 153 = mp at *
  have hmpc : mp = 0 ∨ mp = 1 ∨ mp = 2 ∨ mp = 3 ∨ mp = 4 ∨ mp = 5 ∨ mp = 6 ∨ mp = 7 ∨ mp = 8 ∨ mp = 9 ∨ mp = 10 ∨ mp = 11 := by omega
  unfold daysOfCivil
  rcases hmpc with h | h | h | h | h | h | h | h | h | h | h | h <;> subst h <;> simp <;> omega

theorem days_of_civil_of_days (z : Int) :
    daysOfCivil (civilOfDays z).1 (civilOfDays z).2.1 (civilOfDays z).2.2 = z := by
  have hdoe0 : 0 ≤ (z + 719468) - (z + 719468) / 146097 * 146097 := by omega
  have hdoe1 : (z + 719468) - (z + 719468) / 146097 * 146097 ≤ 146096 := by omega
  obtain ⟨hy0, hy1, hlo, hhi, _⟩ := yoe_int _ _ hdoe0 hdoe1 rfl
  have := civil_flat ((z + 719468) / 146097) _ _ hy0 hy1 hlo hhi
  simp only [civilOfDays]
  rw [this]; omega

theorem marchI_mono (a b : Int) (h : a ≤ b) (_ha : 0 ≤ a) : 365 * a + a / 4 - a / 100 ≤ 365 * b + b / 4 - b / 100 := by
  omega
theorem marchI_step (a b : Int) (h : a + 1 ≤ b) (ha : 0 ≤ a) :
    365 * (a + 1) + (a + 1) / 4 - (a + 1) / 100 ≤ 365 * b + b / 4 - b / 100 := marchI_mono (a + 1) b h (by omega)

/-- recovering the year of era from a day inside it -/
theorem yoe_recover (yoe doy : Int) (hy0 : 0 ≤ yoe) (hy1 : yoe ≤ 399) (hd0 : 0 ≤ doy) (hd1 : doy ≤ 365)
    (hleap : doy = 365 → (yoe + 1) % 4 = 0 ∧ ((yoe + 1) % 100 ≠ 0 ∨ yoe = 399)) :
    let doe := 365 * yoe + yoe / 4 - yoe / 100 + doy
    0 ≤ doe ∧ doe ≤ 146096 ∧ (doe - doe / 1460 + doe / 36524 - doe / 146096) / 365 = yoe := by
  intro doe
  have hb0 : 0 ≤ doe := by simp only [doe]; omega
  have hb1 : doe ≤ 146096 := by
    have := marchI_mono yoe 399 hy1 hy0
    simp only [doe]
    by_cases h399 : yoe = 399
    · subst h399; omega
    · have := marchI_step yoe 399 (by omega) hy0
      omega
  refine ⟨hb0, hb1, ?_⟩
  obtain ⟨a0, a1, alo, ahi, aleap⟩ := yoe_int doe _ hb0 hb1 rfl
  generalize (doe - doe / 1460 + doe / 36524 - doe / 146096) / 365 = y' at *
  by_cases hlt : y' < yoe
  · have := marchI_step y' yoe (by omega) a0
    have h4 : (y' + 1) / 4 = y' / 4 ∨ (y' + 1) / 4 = y' / 4 + 1 := by omega
    have h100 : (y' + 1) / 100 = y' / 100 ∨ (y' + 1) / 100 = y' / 100 + 1 := by omega
    simp only [doe] at *
    by_cases h365 : 365 * yoe + yoe / 4 - yoe / 100 + doy - (365 * y' + y' / 4 - y' / 100) = 365
    · have := aleap h365
      rcases h4 with h4 | h4 <;> rcases h100 with h100 | h100 <;> omega
    · omega
  · by_cases hgt : yoe < y'
    · have := marchI_step yoe y' (by omega) hy0
      have h4 : (yoe + 1) / 4 = yoe / 4 ∨ (yoe + 1) / 4 = yoe / 4 + 1 := by omega
      have h100 : (yoe + 1) / 100 = yoe / 100 ∨ (yoe + 1) / 100 = yoe / 100 + 1 := by omega
      simp only [doe] at *
      by_cases h365 : doy = 365
      · have := hleap h365
        rcases h4 with h4 | h4 <;> rcases h100 with h100 | h100 <;> omega
      · omega
    · omega

theorem civil_flat2 (era doe yoe doy mp d : Int) (h0 : 0 ≤ doe) (h1 : doe ≤ 146096)
    (hyoe : (doe - doe / 1460 + doe / 36524 - doe / 146096) / 365 = yoe)
    (hdoy : doe - (365 * yoe + yoe / 4 - yoe / 100) = doy) (hmp : (5 * doy + 2) / 153 = mp)
    (hd : doy - (153 * mp + 2) / 5 + 1 = d) :
    civilOfDays (era * 146097 + doe - 719468) =
      (if (if mp < 10 then mp + 3 else mp - 9) ≤ 2 then yoe + era * 400 + 1 else yoe + era * 400,
       if mp < 10 then mp + 3 else mp - 9, d) := by
  have he : (era * 146097 + doe - 719468 + 719468) / 146097 = era := by omega
  have hde : era * 146097 + doe - 719468 + 719468 - era * 146097 = doe := by omega
  simp only [civilOfDays, he, hde, hyoe, hdoy, hmp, hd]

set_option maxHeartbeats 4000000 in
theorem civil_of_days_of_civil (y m d : Int) (hv : validCivil y m d) : civilOfDays (daysOfCivil y m d) = (y, m, d) := by
  obtain ⟨hm1, hm12, hd1, hdm⟩ := hv
  -- March-based year, year of era, month index, day of year
  generalize hyy : (if m ≤ 2 then y - 1 else y) = y2
  generalize hera : y2 / 400 = era
  generalize hyoe : y2 - era * 400 = yoe
  generalize hmp : (if m > 2 then m - 3 else m + 9) = mp
  generalize hdoy : (153 * mp + 2) / 5 + d - 1 = doy
  have hy0 : 0 ≤ yoe := by omega
  have hy1 : yoe ≤ 399 := by omega
  have hmp0 : 0 ≤ mp ∧ mp ≤ 11 := by split at hmp <;> omega
  -- leap year in terms of the year of era
  have hleapF : mp = 11 → (isLeap y = true ↔ ((yoe + 1) % 4 = 0 ∧ ((yoe + 1) % 100 ≠ 0 ∨ yoe = 399))) := by
    intro h11
    have hm2 : m = 2 := by split at hmp <;> omega
    have : y2 = y - 1 := by rw [← hyy]; simp [hm2]
    unfold isLeap
    simp only [Bool.and_eq_true, Bool.or_eq_true, decide_eq_true_eq]
    constructor <;> intro h <;> omega
  have hdoyB : 0 ≤ doy ∧ doy ≤ 365 ∧ (doy = 365 → (yoe + 1) % 4 = 0 ∧ ((yoe + 1) % 100 ≠ 0 ∨ yoe = 399)) := by
    unfold daysInMonth at hdm
    have hmc : mp = 0 ∨ mp = 1 ∨ mp = 2 ∨ mp = 3 ∨ mp = 4 ∨ mp = 5 ∨ mp = 6 ∨ mp = 7 ∨ mp = 8 ∨ mp = 9 ∨ mp = 10 ∨ mp = 11 := by omega
    rcases hmc with h | h | h | h | h | h | h | h | h | h | h | h <;> subst h
    all_goals (first
      | (have hm' : m = 2 := by (split at hmp <;> omega)
         have hl := hleapF rfl
         subst hm'
         simp only [if_true] at hdm
         by_cases hlp : isLeap y = true
         · simp only [hlp, if_true] at hdm
           have := hl.mp hlp
           omega
         · simp only [hlp] at hdm
           refine ⟨by omega, by omega, ?_⟩
           intro h; simp at hdm; omega)
      | (split at hmp <;> (try omega) <;> (split at hdm <;> (try omega) <;> split at hdm <;> omega)))
  obtain ⟨hdoy0, hdoy1, hdl⟩ := hdoyB
  obtain ⟨hb0, hb1, hrec⟩ := yoe_recover yoe doy hy0 hy1 hdoy0 hdoy1 hdl
  have hz : daysOfCivil y m d = era * 146097 + (365 * yoe + yoe / 4 - yoe / 100 + doy) - 719468 := by
    unfold daysOfCivil
    simp only [hyy, hera, hyoe, hmp, hdoy]
    omega
  have hmpr : (5 * doy + 2) / 153 = mp ∧ doy - (153 * mp + 2) / 5 + 1 = d := by
    unfold daysInMonth at hdm
    have hmc : mp = 0 ∨ mp = 1 ∨ mp = 2 ∨ mp = 3 ∨ mp = 4 ∨ mp = 5 ∨ mp = 6 ∨ mp = 7 ∨ mp = 8 ∨ mp = 9 ∨ mp = 10 ∨ mp = 11 := by omega
    rcases hmc with h | h | h | h | h | h | h | h | h | h | h | h <;> subst h <;>
      (split at hmp <;> (try omega) <;> (split at hdm <;> (try omega) <;> (try split at hdm) <;> omega))
  rw [hz, civil_flat2 era _ yoe doy mp d hb0 hb1 hrec (by omega) hmpr.1 hmpr.2]
  have hmm : (if mp < 10 then mp + 3 else mp - 9) = m := by split at hmp <;> split <;> omega
  rw [hmm]
  congr 1
  split at hyy <;> split <;> omega

end IQE.Spec.Fn
