import IQE.Engine.VecCodec
namespace IQE.Engine.VecCodec

variable {α : Type} [Inhabited α]

theorem slots_length (a : Arr α) (h : a.WF) : a.slots.length = a.len := by
  unfold Arr.slots Arr.WF at *
  simp only [List.length_take, List.length_drop]; omega

theorem slots_getElem (a : Arr α) (h : a.WF) (i : Nat) (hi : i < a.slots.length) : a.slots[i] = a.slot i := by
  have hl := slots_length a h
  unfold Arr.slots Arr.slot Arr.WF at *
  have : a.off + i < a.buf.length := by omega
  simp [List.getElem_take, List.getElem_drop, List.getD_eq_getElem?_getD, this]

/-- index-coverage: reading `slot(off+i)` for `i in 0..len` enumerates the window, for every offset and length -/
theorem range_map_slot (a : Arr α) (h : a.WF) : (List.range a.len).map a.slot = a.slots := by
  apply List.ext_getElem
  · simp [slots_length a h]
  · intro i h1 h2
    simp [slots_getElem a h i h2]

theorem map_range_getD {β : Type} (n : Nat) (g : Nat → β) (d : β) (F : Nat → β → γ) :
    (List.range n).map (fun i => F i (((List.range n).map g).getD i d)) = (List.range n).map (fun i => F i (g i)) := by
  apply List.map_congr_left
  intro i hi
  have : i < n := by simpa using hi
  simp [List.getD_eq_getElem?_getD, this]

theorem zipWith_map_same {β γ δ : Type} (l : List β) (g h : β → γ) (f : γ → γ → δ) :
    List.zipWith f (l.map g) (l.map h) = l.map (fun x => f (g x) (h x)) := by
  induction l with
  | nil => rfl
  | cons x xs ih => simp [ih]

theorem zipIdx_map_range {β γ : Type} (l : List β) (F : β → Nat → γ) :
    l.zipIdx.map (fun p => F p.1 p.2) = List.zipWith F l (List.range l.length) := by
  apply List.ext_getElem
  · simp
  · intro i h1 h2
    simp


/-! list-level facts about the loop bodies -/

theorem filterMap_congr_mem {β γ : Type} (l : List β) (f g : β → Option γ) (h : ∀ x ∈ l, f x = g x) :
    l.filterMap f = l.filterMap g := by
  induction l with
  | nil => rfl
  | cons x xs ih =>
    have hx := h x (by simp)
    have := ih (fun y hy => h y (by simp [hy]))
    simp [List.filterMap_cons, hx, this]


theorem count_fold (l : List (Slot α)) (c : Nat) :
    l.foldl (fun c s => if s.1 then c + 1 else c) c = c + arrowCount (logical l) := by
  induction l generalizing c with
  | nil => simp [arrowCount, logical]
  | cons s rest ih =>
    rcases s with ⟨v, x⟩
    have h1 := ih c
    have h2 := ih (c + 1)
    cases v <;> simp_all [List.foldl_cons, arrowCount, logical, opt] <;> omega

theorem sum_fold (add : α → α → α) (l : List (Slot α)) (z : α) (b : Bool) :
    l.foldl (fun (acc : α × Bool) s => if s.1 then (add acc.1 s.2, true) else acc) (z, b)
      = (((logical l).filterMap id).foldl add z, b || !((logical l).filterMap id).isEmpty) := by
  induction l generalizing z b with
  | nil => simp [logical]
  | cons s rest ih =>
    rcases s with ⟨v, x⟩
    have h1 := ih z b
    have h2 := ih (add z x) true
    cases v <;> simp_all [List.foldl_cons, logical, opt]

theorem filter_zip (mask : List Bool) (L : List (Option α)) :
    (mask.zip L).filterMap (fun p => if p.1 then some p.2 else none) = arrowFilter L mask := by
  induction mask generalizing L with
  | nil => cases L <;> simp [arrowFilter]
  | cons p ps ih =>
    cases L with
    | nil => simp [arrowFilter]
    | cons o os =>
      have := ih os
      cases p <;> simp_all [arrowFilter]


/-! encode / decode -/

theorem range_map_getD (l : List (Slot α)) (d : Slot α) : (List.range l.length).map (fun k => l.getD k d) = l := by
  apply List.ext_getElem
  · simp
  · intro i h1 h2
    have : i < l.length := by simpa using h1
    simp [List.getD_eq_getElem?_getD, this]

theorem logical_replicate (n : Nat) (x : α) : logical (List.replicate n (true, x)) = List.replicate n (some x) := by
  simp [logical, opt]

theorem logical_const (l : List (Slot α)) (x0 : α) (h : ∀ x ∈ l, x.1 = true ∧ x.2 = x0) :
    logical l = List.replicate l.length (some x0) := by
  induction l with
  | nil => rfl
  | cons y ys ih =>
    have hy := h y (by simp)
    have := ih (fun z hz => h z (by simp [hz]))
    rcases y with ⟨v, x⟩
    simp_all [logical, opt, List.replicate_succ]

end IQE.Engine.VecCodec
