/-
  IQE.Lemmas.Typing — soundness of `Spec.typeOf` w.r.t. `Spec.eval` (progress + preservation in one statement):
  a typed expression, evaluated in an environment that conforms to the context, yields a value of its type
  (or NULL), or one of the *dynamic* errors (division by zero, overflow, cardinality, unsupported) — never a
  type error and never an out-of-range column / subquery reference.
-/
import IQE.Spec.Typing
namespace IQE.Spec
open IQE

/-- `x` is a value satisfying `Q`, or a dynamic error -/
def Safe {α : Type} (Q : α → Prop) : Except Err α → Prop
  | .ok v => Q v
  | .error e => Err.isStatic e = false

abbrev Good (σ : STy) (x : Except Err Val) : Prop := Safe (fun v => valHasTy v σ = true) x
abbrev GoodList (σs : List STy) (x : Except Err (List Val)) : Prop := Safe (fun vs => valsHaveTys vs σs = true) x

theorem Safe.bind {α β : Type} {Q : α → Prop} {R : β → Prop} {x : Except Err α} {f : α → Except Err β}
    (hx : Safe Q x) (hf : ∀ v, Q v → Safe R (f v)) : Safe R (x >>= f) := by
  cases x with
  | error e => exact hx
  | ok v => exact hf v hx

theorem Safe.mono {α : Type} {Q R : α → Prop} {x : Except Err α} (hx : Safe Q x) (h : ∀ v, Q v → R v) : Safe R x := by
  cases x with
  | error e => exact hx
  | ok v => exact h v hx

theorem Safe.pure {α : Type} {Q : α → Prop} {v : α} (h : Q v) : Safe Q (Pure.pure v : Except Err α) := h

/-- what the context must guarantee about the two callbacks of `EvalCtx` -/
structure CtxOk (cx : EvalCtx) (Γ : TyCtx) : Prop where
  sub : ∀ k ts env', Γ.subs[k]? = some ts → envHasTys env' Γ.env = true →
    Safe (fun t => ∀ r ∈ t, rowHasTys r ts = true) (cx.runSub k env')
  fn : ∀ name vs σs σ, Γ.fnTy name σs = some σ → valsHaveTys vs σs = true → Good σ (cx.fn name vs)

/-! ### values and types -/

theorem valHasTy_null (σ : STy) : valHasTy .null σ = true := by cases σ <;> rfl

theorem valHasTy_iff (v : Val) (σ : STy) : valHasTy v σ = true ↔ v = .null ∨ v.tyOf = σ := by
  cases v <;> cases σ <;> simp [valHasTy, Val.tyOf]

theorem valHasTy_tyOf (v : Val) : valHasTy v v.tyOf = true := by
  rw [valHasTy_iff]; exact Or.inr rfl

theorem bool_of_isBoolTy {v : Val} {σ : STy} (hv : valHasTy v σ = true) (hb : isBoolTy σ = true) :
    v = .null ∨ ∃ b, v = .bool b := by
  rcases (valHasTy_iff v σ).1 hv with h | h
  · exact Or.inl h
  · subst h; cases v <;> simp_all [isBoolTy, Val.tyOf]

theorem str_of_isStrTy {v : Val} {σ : STy} (hv : valHasTy v σ = true) (hb : isStrTy σ = true) :
    v = .null ∨ ∃ s, v = .str s := by
  rcases (valHasTy_iff v σ).1 hv with h | h
  · exact Or.inl h
  · subst h; cases v <;> simp_all [isStrTy, Val.tyOf]

theorem valHasTy_join_left {v : Val} {σ ρ τ : STy} (hv : valHasTy v σ = true) (hj : joinTy σ ρ = some τ) :
    valHasTy v τ = true := by
  rcases (valHasTy_iff v σ).1 hv with h | h
  · subst h; exact valHasTy_null τ
  · subst h
    cases hσ : v.tyOf with
    | none => cases v <;> simp_all [Val.tyOf, valHasTy_null]
    | some a =>
      rw [hσ] at hj
      cases ρ with
      | none => simp [joinTy] at hj; subst hj; rw [valHasTy_iff]; exact Or.inr hσ
      | some b =>
        simp only [joinTy] at hj
        split at hj
        · simp at hj; subst hj; rw [valHasTy_iff]; exact Or.inr hσ
        · cases hj

theorem valHasTy_join_right {v : Val} {σ ρ τ : STy} (hv : valHasTy v ρ = true) (hj : joinTy σ ρ = some τ) :
    valHasTy v τ = true := by
  rcases (valHasTy_iff v ρ).1 hv with h | h
  · subst h; exact valHasTy_null τ
  · subst h
    cases hρ : v.tyOf with
    | none => cases v <;> simp_all [Val.tyOf, valHasTy_null]
    | some b =>
      rw [hρ] at hj
      cases σ with
      | none => simp [joinTy] at hj; subst hj; rw [valHasTy_iff]; exact Or.inr hρ
      | some a =>
        simp only [joinTy] at hj
        split at hj
        · rename_i hab
          simp at hj; subst hj; subst hab; rw [valHasTy_iff]; exact Or.inr hρ
        · cases hj

/-! ### comparison -/

theorem cmp3_ok (fo : FloatOps) {a b : Val} {σ ρ : STy} (ha : valHasTy a σ = true) (hb : valHasTy b ρ = true)
    (hc : comparableTy σ ρ = true) : ∃ o, Val.cmp3 fo a b = .ok o := by
  rcases (valHasTy_iff a σ).1 ha with h | h
  · subst h; exact ⟨none, by cases b <;> rfl⟩
  rcases (valHasTy_iff b ρ).1 hb with h' | h'
  · subst h'; exact ⟨none, by cases a <;> rfl⟩
  subst h; subst h'
  cases a <;> cases b <;>
    simp_all [Val.tyOf, comparableTy, numericTy, Val.cmp3, Val.cmpNonNull, Except.map]

theorem compareOp_good (fo : FloatOps) (op : BinOp) {a b : Val} {σ ρ : STy} (ha : valHasTy a σ = true)
    (hb : valHasTy b ρ = true) (hc : comparableTy σ ρ = true) : Good (some .bool) (compareOp fo op a b) := by
  obtain ⟨o, ho⟩ := cmp3_ok fo ha hb hc
  unfold compareOp
  rw [ho]
  cases o <;> simp [Good, Safe, bind, Except.bind, pure, Except.pure, valHasTy, Val.tyOf]

theorem compareOp_boolish (fo : FloatOps) (op : BinOp) {a b : Val} (h : ∃ o, Val.cmp3 fo a b = .ok o) :
    ∃ r, compareOp fo op a b = .ok r ∧ (r = .null ∨ ∃ t, r = .bool t) := by
  obtain ⟨o, ho⟩ := h
  unfold compareOp
  rw [ho]
  cases o <;> simp [bind, Except.bind, pure, Except.pure]

/-! ### three-valued connectives -/

theorem and3_boolish {a b : Val} (ha : a = .null ∨ ∃ t, a = .bool t) (hb : b = .null ∨ ∃ t, b = .bool t) :
    ∃ r, Val.and3 a b = .ok r ∧ (r = .null ∨ ∃ t, r = .bool t) := by
  rcases ha with rfl | ⟨x, rfl⟩ <;> rcases hb with rfl | ⟨y, rfl⟩
  · simp [Val.and3]
  · cases y <;> simp [Val.and3]
  · cases x <;> simp [Val.and3]
  · cases x <;> cases y <;> simp [Val.and3]

theorem or3_boolish {a b : Val} (ha : a = .null ∨ ∃ t, a = .bool t) (hb : b = .null ∨ ∃ t, b = .bool t) :
    ∃ r, Val.or3 a b = .ok r ∧ (r = .null ∨ ∃ t, r = .bool t) := by
  rcases ha with rfl | ⟨x, rfl⟩ <;> rcases hb with rfl | ⟨y, rfl⟩
  · simp [Val.or3]
  · cases y <;> simp [Val.or3]
  · cases x <;> simp [Val.or3]
  · cases x <;> cases y <;> simp [Val.or3]

theorem not3_boolish {a : Val} (ha : a = .null ∨ ∃ t, a = .bool t) :
    ∃ r, Val.not3 a = .ok r ∧ (r = .null ∨ ∃ t, r = .bool t) := by
  rcases ha with rfl | ⟨x, rfl⟩ <;> simp [Val.not3]

theorem good_bool_of_boolish {x : Except Err Val} (h : ∃ r, x = .ok r ∧ (r = .null ∨ ∃ t, r = .bool t)) :
    Good (some .bool) x := by
  obtain ⟨r, rfl, hr⟩ := h
  rcases hr with rfl | ⟨t, rfl⟩ <;> simp [Good, Safe, valHasTy, Val.tyOf]

theorem boolish_of_good {v : Val} (h : valHasTy v (some .bool) = true) : v = .null ∨ ∃ t, v = .bool t :=
  bool_of_isBoolTy h rfl

/-- the optional negation at the end of IN / BETWEEN -/
theorem negate_good {r : Val} (neg : Bool) (hr : r = .null ∨ ∃ t, r = .bool t) :
    Good (some .bool) (if neg then Val.not3 r else Pure.pure r) := by
  cases neg with
  | false => exact good_bool_of_boolish ⟨r, rfl, hr⟩
  | true => exact good_bool_of_boolish (not3_boolish hr)

/-! ### arithmetic, unary operators, casts -/

theorem checkI64_good (i : Int) : Good (some .int) (Val.checkI64 i) := by
  unfold Val.checkI64; split <;> simp [Good, Safe, valHasTy, Val.tyOf, Err.isStatic]

theorem arithInt_good (op : Val.Arith) (a b : Int) : Good (some .int) (Val.arithInt op a b) := by
  cases op <;> simp only [Val.arithInt]
  · exact checkI64_good _
  · exact checkI64_good _
  · exact checkI64_good _
  · split
    · simp [Good, Safe, Err.isStatic]
    · exact checkI64_good _
  · split
    · simp [Good, Safe, Err.isStatic]
    · exact checkI64_good _

theorem arithF64_good (fo : FloatOps) (op : Val.Arith) (a b : F64) : Good (some .f64) (Val.arithF64 fo op a b) := by
  cases op <;> simp [Val.arithF64, Good, Safe, valHasTy, Val.tyOf, Err.isStatic]

theorem arith_good (fo : FloatOps) (op : Val.Arith) {a b : Val} {σ ρ τ : STy} (ha : valHasTy a σ = true)
    (hb : valHasTy b ρ = true) (ht : arithTy op σ ρ = some τ) : Good τ (Val.arith fo op a b) := by
  rcases (valHasTy_iff a σ).1 ha with h | h
  · subst h
    have : Val.arith fo op .null b = .ok .null := by cases b <;> rfl
    rw [this]; exact valHasTy_null τ
  rcases (valHasTy_iff b ρ).1 hb with h' | h'
  · subst h'
    have : Val.arith fo op a .null = .ok .null := by cases a <;> rfl
    rw [this]; exact valHasTy_null τ
  subst h; subst h'
  cases a <;> cases b <;> simp only [Val.tyOf, arithTy] at ht <;> try (cases ht)
  all_goals first
    | (simp only [Val.arith]; exact arithInt_good _ _ _)
    | (simp only [Val.arith]; exact arithF64_good _ _ _ _)
    | (exact valHasTy_null _)
    | (cases op <;> simp at ht <;> subst ht <;> simp [Val.arith, Good, Safe, valHasTy, Val.tyOf])

theorem unVal_good (fo : FloatOps) (op : UnOp) {a : Val} {σ τ : STy} (ha : valHasTy a σ = true)
    (ht : unTy op σ = some τ) : Good τ (unVal fo op a) := by
  cases op with
  | not =>
    simp only [unTy] at ht
    split at ht
    · rename_i hb
      cases ht
      rcases bool_of_isBoolTy ha hb with rfl | ⟨t, rfl⟩
      · exact valHasTy_null _
      · rcases (valHasTy_iff _ _).1 ha with h | h
        · cases h
        · subst h; simp [unVal, Val.not3, Good, Safe, valHasTy, Val.tyOf]
    · cases ht
  | isNull => simp only [unTy] at ht; cases ht; simp [unVal, Good, Safe, valHasTy, Val.tyOf]
  | isNotNull => simp only [unTy] at ht; cases ht; simp [unVal, Good, Safe, valHasTy, Val.tyOf]
  | neg =>
    rcases (valHasTy_iff a σ).1 ha with h | h
    · subst h; exact valHasTy_null τ
    · subst h
      cases a <;> simp only [Val.tyOf, unTy] at ht <;> try (cases ht)
      · exact valHasTy_null _
      · exact checkI64_good _
      · simp [unVal, Good, Safe, valHasTy, Val.tyOf]

theorem castVal_good (fo : FloatOps) (v : Val) (ty : Ty) : Good (some ty) (castVal fo v ty) := by
  cases v <;> cases ty <;> simp only [castVal] <;>
    first
      | (simp [Good, Safe, valHasTy, Val.tyOf, Err.isStatic]; done)
      | exact checkI64_good _
      | (split <;> first | exact checkI64_good _ | simp [Good, Safe, Err.isStatic])

theorem binVal_good (fo : FloatOps) (op : BinOp) {a b : Val} {σ ρ τ : STy} (ha : valHasTy a σ = true)
    (hb : valHasTy b ρ = true) (ht : binTy op σ ρ = some τ) : Good τ (binVal fo op a b) := by
  cases op <;> simp only [binTy] at ht <;> simp only [binVal]
  case add => exact arith_good fo _ ha hb ht
  case sub => exact arith_good fo _ ha hb ht
  case mul => exact arith_good fo _ ha hb ht
  case div => exact arith_good fo _ ha hb ht
  case mod => exact arith_good fo _ ha hb ht
  case and =>
    split at ht
    · rename_i h; simp at h; cases ht
      exact good_bool_of_boolish (and3_boolish (bool_of_isBoolTy ha h.1) (bool_of_isBoolTy hb h.2))
    · cases ht
  case or =>
    split at ht
    · rename_i h; simp at h; cases ht
      exact good_bool_of_boolish (or3_boolish (bool_of_isBoolTy ha h.1) (bool_of_isBoolTy hb h.2))
    · cases ht
  case like =>
    split at ht
    · rename_i h; simp at h; cases ht
      rcases str_of_isStrTy ha h.1 with rfl | ⟨s, rfl⟩ <;> rcases str_of_isStrTy hb h.2 with rfl | ⟨p, rfl⟩ <;>
        simp [Good, Safe, valHasTy, Val.tyOf]
    · cases ht
  case notLike =>
    split at ht
    · rename_i h; simp at h; cases ht
      rcases str_of_isStrTy ha h.1 with rfl | ⟨s, rfl⟩ <;> rcases str_of_isStrTy hb h.2 with rfl | ⟨p, rfl⟩ <;>
        simp [Good, Safe, valHasTy, Val.tyOf]
    · cases ht
  case concat =>
    split at ht
    · rename_i h; simp at h; cases ht
      rcases str_of_isStrTy ha h.1 with rfl | ⟨s, rfl⟩ <;> rcases str_of_isStrTy hb h.2 with rfl | ⟨p, rfl⟩ <;>
        simp [Good, Safe, valHasTy, Val.tyOf]
    · cases ht
  all_goals
    split at ht
    · rename_i h; cases ht; exact compareOp_good fo _ ha hb h
    · cases ht

/-! ### IN lists -/

theorem inVals_boolish (fo : FloatOps) (x : Val) (vs : List Val) (h : ∀ v ∈ vs, ∃ o, Val.cmp3 fo x v = .ok o) :
    ∃ r, inVals fo x vs = .ok r ∧ (r = .null ∨ ∃ t, r = .bool t) := by
  induction vs with
  | nil => exact ⟨.bool false, rfl, Or.inr ⟨false, rfl⟩⟩
  | cons v vs ih =>
    obtain ⟨here, hh, hb⟩ := compareOp_boolish fo .eq (h v (List.mem_cons_self))
    obtain ⟨rest, hr, hrb⟩ := ih (fun w hw => h w (List.mem_cons_of_mem _ hw))
    obtain ⟨r, ho, hob⟩ := or3_boolish hb hrb
    refine ⟨r, ?_, hob⟩
    simp [inVals, hh, hr, ho, bind, Except.bind]

theorem all_comparable (fo : FloatOps) {x : Val} {σ : STy} (hx : valHasTy x σ = true) :
    ∀ (vs : List Val) (σs : List STy), valsHaveTys vs σs = true → σs.all (comparableTy σ) = true →
      ∀ v ∈ vs, ∃ o, Val.cmp3 fo x v = .ok o
  | [], _, _, _ => fun v hv => by cases hv
  | v :: vs, [], h, _ => by simp [valsHaveTys] at h
  | v :: vs, ρ :: σs, h, hall => by
    simp [valsHaveTys] at h
    simp at hall
    intro w hw
    rcases List.mem_cons.1 hw with rfl | hw
    · exact cmp3_ok fo hx h.1 hall.1
    · exact all_comparable fo hx vs σs h.2 (by simpa using hall.2) w hw

/-! ### rows and environments -/

theorem rowHasTys_get : ∀ (r : Row) (ts : List Ty) (i : Nat) (τ : Ty), rowHasTys r ts = true → ts[i]? = some τ →
    ∃ v, r[i]? = some v ∧ valHasTy v (some τ) = true
  | [], [], i, τ, _, h => by simp at h
  | [], _ :: _, _, _, h, _ => by simp [rowHasTys] at h
  | _ :: _, [], _, _, h, _ => by simp [rowHasTys] at h
  | v :: vs, t :: ts, 0, τ, h, hi => by
    simp [rowHasTys] at h; simp at hi; subst hi; exact ⟨v, by simp, h.1⟩
  | v :: vs, t :: ts, i + 1, τ, h, hi => by
    simp [rowHasTys] at h; simp at hi
    simpa using rowHasTys_get vs ts i τ h.2 hi

theorem envHasTys_get : ∀ (env : Env) (tss : List (List Ty)) (d : Nat) (ts : List Ty), envHasTys env tss = true →
    tss[d]? = some ts → ∃ r, env[d]? = some r ∧ rowHasTys r ts = true
  | _, [], d, ts, _, h => by simp at h
  | [], _ :: _, _, _, h, _ => by simp [envHasTys] at h
  | r :: rs, t :: tss, 0, ts, h, hd => by
    simp [envHasTys] at h; simp at hd; subst hd; exact ⟨r, by simp, h.1⟩
  | r :: rs, t :: tss, d + 1, ts, h, hd => by
    simp [envHasTys] at h; simp at hd
    simpa using envHasTys_get rs tss d ts h.2 hd

theorem getCol_good {env : Env} {tss : List (List Ty)} (he : envHasTys env tss = true) {d i : Nat} {ts : List Ty} {τ : Ty}
    (hd : tss[d]? = some ts) (hi : ts[i]? = some τ) : Good (some τ) (getCol env d i) := by
  obtain ⟨r, hr, hrow⟩ := envHasTys_get env tss d ts he hd
  obtain ⟨v, hv, hty⟩ := rowHasTys_get r ts i τ hrow hi
  simp [getCol, hr, hv, Good, Safe, hty]

theorem headD_hasTy {r : Row} {ts : List Ty} (h : rowHasTys r ts = true) : valHasTy (r.headD .null) ts.head? = true := by
  cases r <;> cases ts <;> simp_all [rowHasTys, valHasTy]

/-! ### the main induction -/

section
variable (cx : EvalCtx) (Γ : TyCtx) (env : Env) (hc : CtxOk cx Γ) (he : envHasTys env Γ.env = true)
include hc he

mutual
theorem eval_good : ∀ (e : Expr) (σ : STy), typeOf Γ e = some σ → Good σ (eval cx env e)
  | .lit v, σ, h => by
    simp only [typeOf] at h; cases h
    rw [eval]; exact valHasTy_tyOf v
  | .col i, σ, h => by
    simp only [typeOf] at h
    split at h
    · rename_i ts hts
      split at h
      · rename_i τ hτ; cases h; rw [eval]; exact getCol_good he hts hτ
      · cases h
    · cases h
  | .outer d i, σ, h => by
    simp only [typeOf] at h
    split at h
    · rename_i ts hts
      split at h
      · rename_i τ hτ; cases h; rw [eval]; exact getCol_good he hts hτ
      · cases h
    · cases h
  | .un op e, σ, h => by
    simp only [typeOf] at h
    split at h
    · rename_i σe hσe
      rw [eval]
      exact Safe.bind (eval_good e σe hσe) (fun v hv => unVal_good cx.fo op hv h)
    · cases h
  | .bin op a b, σ, h => by
    simp only [typeOf] at h
    split at h
    · rename_i σa σb ha hb
      rw [eval]
      exact Safe.bind (eval_good a σa ha) (fun x hx =>
        Safe.bind (eval_good b σb hb) (fun y hy => binVal_good cx.fo op hx hy h))
    · cases h
  | .inList e items neg, σ, h => by
    simp only [typeOf] at h
    split at h
    · rename_i σe σs hσe hσs
      split at h
      · rename_i hall
        cases h
        rw [eval]
        refine Safe.bind (eval_good e σe hσe) (fun x hx => ?_)
        refine Safe.bind (evalList_good items σs hσs) (fun vs hvs => ?_)
        obtain ⟨r, hr, hrb⟩ := inVals_boolish cx.fo x vs (all_comparable cx.fo hx vs σs hvs hall)
        rw [hr]
        exact negate_good neg hrb
      · cases h
    · cases h
  | .between e lo hi neg, σ, h => by
    simp only [typeOf] at h
    split at h
    · rename_i σe σl σh hσe hσl hσh
      split at h
      · rename_i hcmp
        simp at hcmp
        cases h
        rw [eval]
        refine Safe.bind (eval_good e σe hσe) (fun x hx => ?_)
        refine Safe.bind (eval_good lo σl hσl) (fun l hl => ?_)
        refine Safe.bind (eval_good hi σh hσh) (fun u hu => ?_)
        obtain ⟨a, ha, hab⟩ := compareOp_boolish cx.fo .ge (cmp3_ok cx.fo hx hl hcmp.1)
        obtain ⟨b, hb, hbb⟩ := compareOp_boolish cx.fo .le (cmp3_ok cx.fo hx hu hcmp.2)
        obtain ⟨r, hr, hrb⟩ := and3_boolish hab hbb
        rw [ha, hb]
        simp only [bind, Except.bind, hr]
        exact negate_good neg hrb
      · cases h
    · cases h
  | .case_ arms, σ, h => by
    simp only [typeOf] at h
    rw [eval]; exact evalCase_good arms σ h
  | .coalesce es, σ, h => by
    simp only [typeOf] at h
    rw [eval]; exact evalCoalesce_good es σ h
  | .nullif a b, σ, h => by
    simp only [typeOf] at h
    split at h
    · rename_i σa σb ha hb
      split at h
      · rename_i hcmp
        cases h
        rw [eval]
        refine Safe.bind (eval_good a _ ha) (fun x hx => ?_)
        refine Safe.bind (eval_good b _ hb) (fun y hy => ?_)
        obtain ⟨r, hr, hrb⟩ := compareOp_boolish cx.fo .eq (cmp3_ok cx.fo hx hy hcmp)
        rw [hr]
        simp only [bind, Except.bind]
        split
        · exact valHasTy_null _
        · exact hx
      · cases h
    · cases h
  | .cast e ty, σ, h => by
    simp only [typeOf] at h
    split at h
    · rename_i σe hσe
      cases h
      rw [eval]
      exact Safe.bind (eval_good e σe hσe) (fun v _ => castVal_good cx.fo v ty)
    · cases h
  | .fn name args, σ, h => by
    simp only [typeOf] at h
    split at h
    · rename_i σs hσs
      rw [eval]
      exact Safe.bind (evalList_good args σs hσs) (fun vs hvs => hc.fn name vs σs σ h hvs)
    · cases h
  | .exists_ sub neg, σ, h => by
    simp only [typeOf] at h
    split at h
    · rename_i ts hts
      cases h
      rw [eval]
      exact Safe.bind (hc.sub sub ts env hts he) (fun t _ => by simp [Safe, Pure.pure, Except.pure, valHasTy, Val.tyOf])
    · cases h
  | .inSub e sub neg, σ, h => by
    simp only [typeOf] at h
    split at h
    · rename_i σe ts hσe hts
      split at h
      · rename_i hcmp
        cases h
        rw [eval]
        refine Safe.bind (eval_good e σe hσe) (fun x hx => ?_)
        refine Safe.bind (hc.sub sub ts env hts he) (fun t ht => ?_)
        have hall : ∀ v ∈ t.map (fun r => r.headD .null), ∃ o, Val.cmp3 cx.fo x v = .ok o := by
          intro v hv
          obtain ⟨r, hr, rfl⟩ := List.mem_map.1 hv
          exact cmp3_ok cx.fo hx (headD_hasTy (ht r hr)) hcmp
        obtain ⟨r, hr, hrb⟩ := inVals_boolish cx.fo x _ hall
        rw [hr]
        exact negate_good neg hrb
      · cases h
    · cases h
  | .scalarSub sub, σ, h => by
    simp only [typeOf] at h
    split at h
    · rename_i ts hts
      cases h
      rw [eval]
      refine Safe.bind (hc.sub sub ts env hts he) (fun t ht => ?_)
      match t, ht with
      | [], _ => exact valHasTy_null _
      | [r], ht => exact headD_hasTy (ht r (by simp))
      | _ :: _ :: _, _ => simp [Safe, Err.isStatic]
    · cases h

theorem evalList_good : ∀ (es : List Expr) (σs : List STy), typeOfList Γ es = some σs → GoodList σs (evalList cx env es)
  | [], σs, h => by
    simp only [typeOfList] at h; cases h
    rw [evalList]; simp [GoodList, Safe, valsHaveTys]
  | e :: es, σs, h => by
    simp only [typeOfList] at h
    split at h
    · rename_i σ ρs hσ hρs
      cases h
      rw [evalList]
      refine Safe.bind (eval_good e σ hσ) (fun v hv => ?_)
      refine Safe.bind (evalList_good es ρs hρs) (fun vs hvs => ?_)
      simp [Safe, Pure.pure, Except.pure, valsHaveTys, hv, hvs]
    · cases h

theorem evalCase_good : ∀ (arms : List Expr) (σ : STy), typeOfCase Γ arms = some σ → Good σ (evalCase cx env arms)
  | [], σ, h => by
    rw [evalCase]; exact valHasTy_null σ
  | [e], σ, h => by
    simp only [typeOfCase] at h
    rw [evalCase]; exact eval_good e σ h
  | c :: t :: rest, σ, h => by
    simp only [typeOfCase] at h
    split at h
    · rename_i σc σt σr hσc hσt hσr
      split at h
      · rename_i hb
        rw [evalCase]
        refine Safe.bind (eval_good c σc hσc) (fun v hv => ?_)
        rcases bool_of_isBoolTy hv hb with rfl | ⟨b, rfl⟩
        · exact Safe.mono (evalCase_good rest σr hσr) (fun w hw => valHasTy_join_right hw h)
        · cases b
          · exact Safe.mono (evalCase_good rest σr hσr) (fun w hw => valHasTy_join_right hw h)
          · exact Safe.mono (eval_good t σt hσt) (fun w hw => valHasTy_join_left hw h)
      · cases h
    · cases h

theorem evalCoalesce_good : ∀ (es : List Expr) (σ : STy), typeOfCoalesce Γ es = some σ → Good σ (evalCoalesce cx env es)
  | [], σ, h => by
    rw [evalCoalesce]; exact valHasTy_null σ
  | e :: es, σ, h => by
    simp only [typeOfCoalesce] at h
    split at h
    · rename_i σe ρ hσe hρ
      rw [evalCoalesce]
      refine Safe.bind (eval_good e σe hσe) (fun v hv => ?_)
      cases v with
      | null => exact Safe.mono (evalCoalesce_good es ρ hρ) (fun w hw => valHasTy_join_right hw h)
      | _ => exact valHasTy_join_left hv h
    · cases h
end
end

end IQE.Spec
