/-
  IQE.Lemmas.WindowNtile — NTILE: the engine's closed formula (window.rs, `WindowFunc::Ntile`) picks, for every position of a
  partition, the bucket the declarative definition assigns (`Spec.Win.ntileBuckets`: the first `n % b` buckets hold `n / b + 1` rows,
  the others `n / b`).
-/
import IQE.Spec.Window
namespace IQE.Lemmas.WindowNtile
open IQE IQE.Spec List

/-- consecutive blocks: `g t` copies of `t + 1` for `t = 0 … m-1` -/
def blocks (g : Nat → Nat) (m : Nat) : List Nat := (List.range m).flatMap fun t => List.replicate (g t) (t + 1)

/-- rows before block `t` -/
def pre (g : Nat → Nat) : Nat → Nat
  | 0 => 0
  | t + 1 => pre g t + g t

theorem blocks_succ (g : Nat → Nat) (m : Nat) : blocks g (m + 1) = blocks g m ++ List.replicate (g m) (m + 1) := by
  simp [blocks, List.range_succ, List.flatMap_append]

theorem length_blocks (g : Nat → Nat) (m : Nat) : (blocks g m).length = pre g m := by
  induction m with
  | zero => rfl
  | succ m ih => rw [blocks_succ, length_append, ih, length_replicate]; rfl

theorem pre_mono (g : Nat → Nat) (t m : Nat) (h : t ≤ m) : pre g t ≤ pre g m := by
  induction m with
  | zero => have : t = 0 := by omega
            subst this; exact Nat.le_refl _
  | succ m ih =>
    by_cases e : t = m + 1
    · subst e; exact Nat.le_refl _
    · have := ih (by omega)
      simp only [pre]; omega

/-- position `p` inside block `t` reads `t + 1` -/
theorem blocks_getD (g : Nat → Nat) (m t p : Nat) (ht : t < m) (h1 : pre g t ≤ p) (h2 : p < pre g (t + 1)) :
    (blocks g m).getD p 0 = t + 1 := by
  induction m with
  | zero => omega
  | succ m ih =>
    rw [blocks_succ]
    by_cases htm : t < m
    · have hlt : p < (blocks g m).length := by
        rw [length_blocks]
        exact Nat.lt_of_lt_of_le h2 (pre_mono g (t + 1) m (by omega))
      rw [List.getD_eq_getElem?_getD, List.getElem?_append_left hlt, ← List.getD_eq_getElem?_getD]
      exact ih htm
    · have e : t = m := by omega
      subst e
      have hge : (blocks g t).length ≤ p := by rw [length_blocks]; exact h1
      rw [List.getD_eq_getElem?_getD, List.getElem?_append_right hge, length_blocks]
      have : p - pre g t < g t := by simp only [pre] at h2; omega
      rw [List.getElem?_replicate_of_lt this]
      rfl

/-- bucket sizes of NTILE(b) over n rows -/
def gsize (n b : Nat) (t : Nat) : Nat := n / b + (if t < n % b then 1 else 0)

theorem pre_gsize (n b t : Nat) : pre (gsize n b) t = t * (n / b) + min t (n % b) := by
  induction t with
  | zero => simp [pre]
  | succ t ih =>
    simp only [pre, ih, gsize]
    rw [Nat.succ_mul]
    split <;> omega

theorem ntileBuckets_eq_blocks (n b : Nat) : Win.ntileBuckets n b = blocks (gsize n b) (min b n) := rfl

/-- the engine's formula -/
def engineNtile (n b p : Nat) : Nat :=
  let size := n / b
  let rem := n % b
  let big := rem * (size + 1)
  if size == 0 then p + 1 else if p < big then p / (size + 1) + 1 else rem + (p - big) / size + 1

/-- NTILE: for every row position `p` of a partition of `n` rows and every bucket count `b > 0`, the engine's closed formula is
    the bucket number the declarative bucket list holds at `p`. -/
theorem ntile_eq (n b p : Nat) (hb : 0 < b) (hp : p < n) : (Win.ntileBuckets n b).getD p 0 = engineNtile n b p := by
  rw [ntileBuckets_eq_blocks]
  have hdm := Nat.div_add_mod n b
  have hmod : n % b < b := Nat.mod_lt n hb
  unfold engineNtile
  simp only
  by_cases hs : n / b = 0
  · -- fewer rows than buckets: one row per bucket
    have hnb : n < b := by
      rcases Nat.lt_or_ge n b with h | h
      · exact h
      · have := Nat.div_pos h hb; omega
    have hrem : n % b = n := Nat.mod_eq_of_lt hnb
    simp only [hs, beq_self_eq_true, if_true]
    apply blocks_getD _ _ p p (by omega)
    · rw [pre_gsize, hs, hrem]; simp; omega
    · rw [pre_gsize, hs, hrem]; simp; omega
  · have hspos : 0 < n / b := Nat.pos_of_ne_zero hs
    have hsne : (n / b == 0) = false := by simpa using hs
    simp only [hsne, Bool.false_eq_true, if_false]
    have hbn : b ≤ n := by
      rcases Nat.lt_or_ge n b with h | h
      · have := Nat.div_eq_of_lt h; omega
      · exact h
    have hmin : min b n = b := by omega
    rw [hmin]
    by_cases hbig : p < n % b * (n / b + 1)
    · simp only [hbig, if_true]
      -- t = p / (size+1) < rem
      have ht : p / (n / b + 1) < n % b := (Nat.div_lt_iff_lt_mul (by omega)).2 hbig
      have h1 : p / (n / b + 1) * (n / b + 1) ≤ p := Nat.div_mul_le_self p (n / b + 1)
      have h2 : p < (p / (n / b + 1) + 1) * (n / b + 1) := by
        have := Nat.lt_mul_div_succ p (by omega : 0 < n / b + 1)
        rw [Nat.mul_comm (p / (n / b + 1) + 1) (n / b + 1)]
        exact this
      have e1 : p / (n / b + 1) * (n / b + 1) = p / (n / b + 1) * (n / b) + p / (n / b + 1) := by rw [Nat.mul_succ]
      have e2 : (p / (n / b + 1) + 1) * (n / b + 1) = (p / (n / b + 1) + 1) * (n / b) + (p / (n / b + 1) + 1) := by rw [Nat.mul_succ]
      apply blocks_getD _ _ (p / (n / b + 1)) p (by omega)
      · rw [pre_gsize]
        generalize p / (n / b + 1) = t at *
        generalize n % b = rm at *
        generalize n / b = sz at *
        have : min t rm = t := by omega
        rw [this]; omega
      · rw [pre_gsize]
        generalize p / (n / b + 1) = t at *
        generalize n % b = rm at *
        generalize n / b = sz at *
        have : min (t + 1) rm = t + 1 := by omega
        rw [this]; omega
    · simp only [hbig, if_false]
      have hge : n % b * (n / b + 1) ≤ p := by omega
      have hbigeq : n % b * (n / b + 1) = n % b * (n / b) + n % b := by rw [Nat.mul_succ]
      have hq1 : (p - n % b * (n / b + 1)) / (n / b) * (n / b) ≤ p - n % b * (n / b + 1) := Nat.div_mul_le_self _ _
      have hq2 : p - n % b * (n / b + 1) < ((p - n % b * (n / b + 1)) / (n / b) + 1) * (n / b) := by
        have := Nat.lt_mul_div_succ (p - n % b * (n / b + 1)) hspos
        rw [Nat.mul_comm ((p - n % b * (n / b + 1)) / (n / b) + 1) (n / b)]
        exact this
      -- q < b - rem
      have hqlt : (p - n % b * (n / b + 1)) / (n / b) < b - n % b := by
        apply (Nat.div_lt_iff_lt_mul hspos).2
        have e : (b - n % b) * (n / b) = b * (n / b) - n % b * (n / b) := Nat.sub_mul _ _ _
        have hle : n % b * (n / b) ≤ b * (n / b) := Nat.mul_le_mul_right _ (by omega)
        rw [e]
        generalize n % b * (n / b) = A at *
        generalize b * (n / b) = B at *
        omega
      have e3 : (n % b + (p - n % b * (n / b + 1)) / (n / b)) * (n / b) =
          n % b * (n / b) + (p - n % b * (n / b + 1)) / (n / b) * (n / b) := Nat.add_mul _ _ _
      have e4 : (n % b + (p - n % b * (n / b + 1)) / (n / b) + 1) * (n / b) =
          n % b * (n / b) + ((p - n % b * (n / b + 1)) / (n / b) + 1) * (n / b) := by
        rw [Nat.add_assoc, Nat.add_mul]
      apply blocks_getD _ _ (n % b + (p - n % b * (n / b + 1)) / (n / b)) p (by omega)
      · rw [pre_gsize, e3]
        generalize (p - n % b * (n / b + 1)) / (n / b) * (n / b) = Q at *
        generalize ((p - n % b * (n / b + 1)) / (n / b) + 1) * (n / b) = Q1 at *
        generalize (p - n % b * (n / b + 1)) / (n / b) = q at *
        generalize n % b * (n / b) = A at *
        have : min (n % b + q) (n % b) = n % b := by omega
        rw [this]; omega
      · rw [pre_gsize, e4]
        generalize (p - n % b * (n / b + 1)) / (n / b) * (n / b) = Q at *
        generalize ((p - n % b * (n / b + 1)) / (n / b) + 1) * (n / b) = Q1 at *
        generalize (p - n % b * (n / b + 1)) / (n / b) = q at *
        generalize n % b * (n / b) = A at *
        have : min (n % b + q + 1) (n % b) = n % b := by omega
        rw [this]; omega

end IQE.Lemmas.WindowNtile
