/-
  IQE.Lemmas.LimitStream — the LimitExec stream loop (IQE.Engine.SortLimit.runParts) around the TRANSLATED
  `LimitState::take_from` / `satisfied` (IQE.Gen.Limit) emits exactly the rows `skip … skip+fetch` of the
  concatenated input, for every cut of the input into partitions and batches; it never overflows `usize`
  nor slices out of bounds; and it opens exactly the partitions that start before the limit is satisfied.
-/
import IQE.Lemmas.LimitStep
namespace IQE.Lemmas.LimitStream
open IQE IQE.Gen.Limit IQE.Engine.SortLimit

/-! ### the invariant: after `c` input rows the counters are what OFFSET / LIMIT prescribe -/

/-- rows emitted after `c` input rows under `fetch` -/
def fetchedAt (skip : Int) (fetch : Option Int) (c : Int) : Int :=
  match fetch with
  | some n => min n (max 0 (c - skip))
  | none => max 0 (c - skip)

structure Inv (st : LimitState) (c : Int) : Prop where
  c_nonneg : 0 ≤ c
  skip_nonneg : 0 ≤ st.skip
  fetch_nonneg : ∀ n, st.fetch = some n → 0 ≤ n
  skipped_eq : st.skipped = min st.skip c
  fetched_eq : st.fetched = fetchedAt st.skip st.fetch c

theorem inv_init (skip : Nat) (fetch : Option Nat) : Inv (initState skip fetch) 0 := by
  refine ⟨by omega, by simp [initState], ?_, ?_, ?_⟩
  · intro n h; cases fetch <;> simp [initState] at h; omega
  · simp [initState]; omega
  · cases fetch <;> simp [initState, fetchedAt] <;> omega

theorem satisfied_iff (st : LimitState) : st.satisfied = true ↔ ∃ n, st.fetch = some n ∧ n ≤ st.fetched := by
  unfold LimitState.satisfied
  cases h : st.fetch with
  | none => simp
  | some n => simp [Rs.ge, Rs.Cmp.le]

/-- one batch of `len` rows starting at input row `c` -/
theorem step_spec (st : LimitState) (c : Int) (off len : Int) (hinv : Inv st c) (hlen : 0 ≤ len) :
    Inv (st.take_from ⟨off, len⟩).1 (c + len) ∧
    (st.take_from ⟨off, len⟩).1.skip = st.skip ∧ (st.take_from ⟨off, len⟩).1.fetch = st.fetch ∧
    st.fetched ≤ (st.take_from ⟨off, len⟩).1.fetched ∧
    (st.take_from ⟨off, len⟩).2 =
      (if (st.take_from ⟨off, len⟩).1.fetched = st.fetched then none
       else some ⟨off + (st.skip + st.fetched - c), (st.take_from ⟨off, len⟩).1.fetched - st.fetched⟩) := by
  obtain ⟨h0, h1, h2, h3, h4⟩ := hinv
  have hsk : st.skipped ≤ st.skip := by omega
  rw [take_from_eq st ⟨off, len⟩ hsk hlen]
  cases hf : st.fetch with
  | none =>
    simp only [hf, fetchedAt, skOf, emitOf] at h4 ⊢
    refine ⟨⟨by omega, h1, by simp [hf], ?_, ?_⟩, trivial, trivial, by omega, ?_⟩
    · simp only; omega
    · simp only [hf, fetchedAt]; omega
    · (repeat' split) <;> first | (exfalso; omega) | rfl | (simp; omega)
  | some n =>
    have hn := h2 n hf
    simp only [hf, fetchedAt, skOf, emitOf] at h4 ⊢
    refine ⟨⟨by omega, h1, by simpa [hf] using hn, ?_, ?_⟩, trivial, trivial, by omega, ?_⟩
    · simp only; omega
    · simp only [hf, fetchedAt]; omega
    · (repeat' split) <;> first | (exfalso; omega) | rfl | (simp; omega)

/-! ### rows denoted by slices -/

theorem rowsOf_append {α : Type} (xs : List α) (a n m : Int) (ha : 0 ≤ a) (hn : 0 ≤ n) (hm : 0 ≤ m) :
    rowsOf xs ⟨a, n⟩ ++ rowsOf xs ⟨a + n, m⟩ = rowsOf xs ⟨a, n + m⟩ := by
  unfold rowsOf
  simp only
  have e1 : (a + n).toNat = a.toNat + n.toNat := by omega
  have e2 : (n + m).toNat = n.toNat + m.toNat := by omega
  rw [e1, e2, List.take_add, ← List.drop_drop]

theorem rowsOf_zero {α : Type} (xs : List α) (a : Int) : rowsOf xs ⟨a, 0⟩ = [] := by simp [rowsOf]

/-- the rows between two counter states -/
def between {α : Type} (xs : List α) (st st' : LimitState) : List α :=
  rowsOf xs ⟨st.skip + st.fetched, st'.fetched - st.fetched⟩

/-! ### one partition stream -/

theorem drain_spec {α : Type} (xs : List α) (ls : List Nat) (st : LimitState) (c : Nat) (hinv : Inv st c)
    (hU1 : st.skip ≤ Rs.USIZE_MAX) (hU2 : (c : Int) + ls.sum ≤ Rs.USIZE_MAX) :
    let r := drain st (layoutFrom c ls)
    (∃ c' : Nat, Inv r.1 c' ∧ c ≤ c' ∧ c' ≤ c + ls.sum ∧ (c' = c + ls.sum ∨ r.1.satisfied = true)) ∧
    r.1.skip = st.skip ∧ r.1.fetch = st.fetch ∧ st.fetched ≤ r.1.fetched ∧
    r.2.flatMap (rowsOf xs) = between xs st r.1 ∧
    drainInRange st (layoutFrom c ls) := by
  induction ls generalizing st c with
  | nil =>
    have e : drain st (layoutFrom c []) = (st, []) := rfl
    rw [show drainInRange st (layoutFrom c []) = True from rfl]
    simp only [e]
    refine ⟨⟨c, hinv, by omega, by simp, Or.inl (by simp)⟩, trivial, trivial, by omega, ?_, trivial⟩
    simp [rowsOf, between]
  | cons n ns ih =>
    by_cases hs : st.satisfied = true
    · have e : drain st (layoutFrom c (n :: ns)) = (st, []) := by simp [layoutFrom, drain, hs]
      have e2 : drainInRange st (layoutFrom c (n :: ns)) := by simp [layoutFrom, drainInRange, hs]
      simp only [e]
      refine ⟨⟨c, hinv, by omega, by omega, Or.inr hs⟩, trivial, trivial, by omega, ?_, e2⟩
      simp [rowsOf, between]
    · have hsf : st.satisfied = false := by simpa using hs
      have e : drain st (layoutFrom c (n :: ns)) =
          ((drain (st.take_from ⟨c, n⟩).1 (layoutFrom (c + n) ns)).1,
           (st.take_from ⟨c, n⟩).2.toList ++ (drain (st.take_from ⟨c, n⟩).1 (layoutFrom (c + n) ns)).2) := by
        simp [layoutFrom, drain, hsf]
      have e2 : drainInRange st (layoutFrom c (n :: ns)) =
          (LimitState.take_from_inRange st ⟨c, n⟩ ∧ drainInRange (st.take_from ⟨c, n⟩).1 (layoutFrom (c + n) ns)) := by
        simp [layoutFrom, drainInRange, hsf]
      rw [e2]
      simp only [e, List.sum_cons]
      have hstep := step_spec st c c n hinv (by omega)
      obtain ⟨hinv', hskip, hfetch, hmono, hout⟩ := hstep
      have hinv'' : Inv (st.take_from ⟨c, n⟩).1 ((c + n : Nat) : Int) := by
        have : ((c + n : Nat) : Int) = (c : Int) + (n : Int) := by omega
        rw [this]; exact hinv'
      have hfc : st.fetched ≤ c := by
        have := hinv.fetched_eq; have := hinv.c_nonneg; have := hinv.skip_nonneg
        cases hf : st.fetch with
        | none => simp only [hf, fetchedAt] at *; omega
        | some m => simp only [hf, fetchedAt] at *; omega
      have := ih (st.take_from ⟨c, n⟩).1 (c + n) hinv'' (by rw [hskip]; exact hU1)
        (by simp only [List.sum_cons] at hU2; omega)
      obtain ⟨⟨c', hi, h1, h2, h3⟩, hsk, hfe, hmo, hrows, hrange⟩ := this
      refine ⟨⟨c', hi, by omega, by omega, ?_⟩, by rw [hsk, hskip], by rw [hfe, hfetch], by omega, ?_, ?_⟩
      · rcases h3 with h3 | h3
        · left; omega
        · right; exact h3
      · rw [List.flatMap_append, hrows, hout]
        have hs0 : 0 ≤ st.skip := hinv.skip_nonneg
        have hf0 : 0 ≤ st.fetched := by
          have := hinv.fetched_eq; have := hinv.c_nonneg
          cases hf : st.fetch with
          | none => simp only [hf, fetchedAt] at *; omega
          | some m => have := hinv.fetch_nonneg m hf; simp only [hf, fetchedAt] at *; omega
        simp only [between]
        split
        · rename_i heq
          simp only [Option.toList_none, List.flatMap_nil, List.nil_append, hskip, heq]
        · simp only [Option.toList_some, List.flatMap_cons, List.flatMap_nil, List.append_nil, hskip]
          have e : (c : Int) + (st.skip + st.fetched - c) = st.skip + st.fetched := by omega
          rw [e]
          have := rowsOf_append xs (st.skip + st.fetched) ((st.take_from ⟨c, n⟩).1.fetched - st.fetched)
            ((drain (st.take_from ⟨c, n⟩).1 (layoutFrom (c + n) ns)).1.fetched - (st.take_from ⟨c, n⟩).1.fetched)
            (by omega) (by omega) (by omega)
          have e2 : st.skip + st.fetched + ((st.take_from ⟨c, n⟩).1.fetched - st.fetched) =
              st.skip + (st.take_from ⟨c, n⟩).1.fetched := by omega
          have e3 : (st.take_from ⟨c, n⟩).1.fetched - st.fetched +
              ((drain (st.take_from ⟨c, n⟩).1 (layoutFrom (c + n) ns)).1.fetched - (st.take_from ⟨c, n⟩).1.fetched) =
              (drain (st.take_from ⟨c, n⟩).1 (layoutFrom (c + n) ns)).1.fetched - st.fetched := by omega
          rw [e2, e3] at this
          exact this
      · refine ⟨?_, hrange⟩
        have hsk0 : 0 ≤ st.skipped := by
          have := hinv.skipped_eq; have := hinv.c_nonneg; have := hinv.skip_nonneg; omega
        have hsk1 : st.skipped ≤ st.skip := by have := hinv.skipped_eq; omega
        have hf0 : 0 ≤ st.fetched := by
          have := hinv.fetched_eq; have := hinv.c_nonneg
          cases hf : st.fetch with
          | none => simp only [hf, fetchedAt] at *; omega
          | some m => have := hinv.fetch_nonneg m hf; simp only [hf, fetchedAt] at *; omega
        exact take_from_inRange_of st ⟨c, n⟩ hsk0 hsk1 (by simp) hf0 hU1 (by simp only [List.sum_cons] at hU2; simp only; omega)

/-! ### the whole loop over partitions -/

/-- is the limit satisfied once `c` input rows have been consumed? -/
def satisfiedAt (skip : Nat) (fetch : Option Nat) (c : Nat) : Bool :=
  match fetch with
  | some n => n == 0 || decide (skip + n ≤ c)
  | none => false

/-- the partitions the loop opens: partition `i` is opened iff the rows of the partitions before it do not
    already satisfy the limit -/
def openedSpec (skip : Nat) (fetch : Option Nat) (c : Nat) : List (List Nat) → Nat
  | [] => 0
  | p :: ps => if satisfiedAt skip fetch c then 0 else openedSpec skip fetch (c + p.sum) ps + 1

def partsTotal (parts : List (List Nat)) : Nat := (parts.map List.sum).sum

theorem satisfied_of_inv (st : LimitState) (c : Nat) (skip : Nat) (fetch : Option Nat) (hinv : Inv st c)
    (hsk : st.skip = skip) (hfe : st.fetch = fetch.map Int.ofNat) :
    st.satisfied = satisfiedAt skip fetch c := by
  have h4 := hinv.fetched_eq
  cases fetch with
  | none =>
    simp only [Option.map_none] at hfe
    simp [LimitState.satisfied, hfe, satisfiedAt]
  | some n =>
    simp only [Option.map_some, Int.ofNat_eq_natCast] at hfe
    simp only [LimitState.satisfied, hfe, satisfiedAt, Rs.ge, Rs.Cmp.le]
    simp only [hfe, fetchedAt, hsk] at h4
    by_cases hn : n = 0
    · subst hn; simp; omega
    · have : (n == 0) = false := by simpa using hn
      simp only [this, Bool.false_or]
      rw [h4]
      by_cases hle : skip + n ≤ c
      · simp [hle]; omega
      · simp [hle]; omega

theorem runParts_spec {α : Type} (xs : List α) (skip : Nat) (fetch : Option Nat) (parts : List (List Nat))
    (st : LimitState) (c c₀ : Nat) (hinv : Inv st c₀) (hc : c₀ ≤ c) (hcs : c₀ = c ∨ st.satisfied = true)
    (hsk : st.skip = skip) (hfe : st.fetch = fetch.map Int.ofNat)
    (hU1 : (skip : Int) ≤ Rs.USIZE_MAX) (hU2 : (c : Int) + partsTotal parts ≤ Rs.USIZE_MAX) :
    let r := runParts st (layoutParts c parts)
    (∃ c' : Nat, Inv r.1 c' ∧ c' ≤ c + partsTotal parts ∧ (c' = c + partsTotal parts ∨ r.1.satisfied = true)) ∧
    r.1.skip = st.skip ∧ r.1.fetch = st.fetch ∧ st.fetched ≤ r.1.fetched ∧
    r.2.1.flatMap (rowsOf xs) = between xs st r.1 ∧
    r.2.2 = (if st.satisfied then 0 else openedSpec skip fetch c parts) ∧
    runPartsInRange st (layoutParts c parts) := by
  induction parts generalizing st c c₀ with
  | nil =>
    have e : runParts st (layoutParts c []) = (st, [], 0) := rfl
    rw [show runPartsInRange st (layoutParts c []) = True from rfl]
    simp only [e]
    have hz : partsTotal [] = 0 := rfl
    refine ⟨⟨c₀, hinv, by omega, ?_⟩, trivial, trivial, by omega, by simp [rowsOf, between], ?_, trivial⟩
    · rcases hcs with h | h
      · left; omega
      · right; exact h
    · simp [openedSpec]
  | cons p ps ih =>
    have hpt : partsTotal (p :: ps) = p.sum + partsTotal ps := by simp [partsTotal]
    by_cases hs : st.satisfied = true
    · have e : runParts st (layoutParts c (p :: ps)) = (st, [], 0) := by simp [layoutParts, runParts, hs]
      have e2 : runPartsInRange st (layoutParts c (p :: ps)) := by simp [layoutParts, runPartsInRange, hs]
      simp only [e]
      refine ⟨⟨c₀, hinv, by omega, Or.inr hs⟩, trivial, trivial, by omega, by simp [rowsOf, between], by simp [hs], e2⟩
    · have hc0 : c₀ = c := by rcases hcs with h | h; exact h; exact absurd h hs
      subst hc0
      have hsf : st.satisfied = false := by simpa using hs
      have e : runParts st (layoutParts c₀ (p :: ps)) =
          ((runParts (drain st (layoutFrom c₀ p)).1 (layoutParts (c₀ + p.sum) ps)).1,
           (drain st (layoutFrom c₀ p)).2 ++ (runParts (drain st (layoutFrom c₀ p)).1 (layoutParts (c₀ + p.sum) ps)).2.1,
           (runParts (drain st (layoutFrom c₀ p)).1 (layoutParts (c₀ + p.sum) ps)).2.2 + 1) := by
        simp [layoutParts, runParts, hsf]
      have e2 : runPartsInRange st (layoutParts c₀ (p :: ps)) =
          (drainInRange st (layoutFrom c₀ p) ∧ runPartsInRange (drain st (layoutFrom c₀ p)).1 (layoutParts (c₀ + p.sum) ps)) := by
        simp [layoutParts, runPartsInRange, hsf]
      rw [e2]
      simp only [e, hsf]
      have hd := drain_spec xs p st c₀ hinv (by rw [hsk]; exact hU1) (by rw [hpt] at hU2; omega)
      obtain ⟨⟨c', hi, h1, h2, h3⟩, hdsk, hdfe, hdmo, hdrows, hdrange⟩ := hd
      have := ih (drain st (layoutFrom c₀ p)).1 (c₀ + p.sum) c' hi h2
        (by rcases h3 with h | h; exact Or.inl h; exact Or.inr h) (by rw [hdsk, hsk]) (by rw [hdfe, hfe])
        (by rw [hpt] at hU2; omega)
      obtain ⟨⟨c'', hi', g2, g3⟩, rsk, rfe, rmo, rrows, ropen, rrange⟩ := this
      refine ⟨⟨c'', hi', by omega, ?_⟩, by rw [rsk, hdsk], by rw [rfe, hdfe], by omega, ?_, ?_, hdrange, rrange⟩
      · rcases g3 with g | g
        · left; omega
        · right; exact g
      · rw [List.flatMap_append, hdrows, rrows]
        simp only [between, hdsk]
        have hs0 : 0 ≤ st.skip := hinv.skip_nonneg
        have hf0 : 0 ≤ st.fetched := by
          have := hinv.fetched_eq; have := hinv.c_nonneg
          cases hf : st.fetch with
          | none => simp only [hf, fetchedAt] at *; omega
          | some m => have := hinv.fetch_nonneg m hf; simp only [hf, fetchedAt] at *; omega
        have := rowsOf_append xs (st.skip + st.fetched) ((drain st (layoutFrom c₀ p)).1.fetched - st.fetched)
          ((runParts (drain st (layoutFrom c₀ p)).1 (layoutParts (c₀ + p.sum) ps)).1.fetched - (drain st (layoutFrom c₀ p)).1.fetched)
          (by omega) (by omega) (by omega)
        have e2 : st.skip + st.fetched + ((drain st (layoutFrom c₀ p)).1.fetched - st.fetched) =
            st.skip + (drain st (layoutFrom c₀ p)).1.fetched := by omega
        have e3 : (drain st (layoutFrom c₀ p)).1.fetched - st.fetched +
            ((runParts (drain st (layoutFrom c₀ p)).1 (layoutParts (c₀ + p.sum) ps)).1.fetched - (drain st (layoutFrom c₀ p)).1.fetched) =
            (runParts (drain st (layoutFrom c₀ p)).1 (layoutParts (c₀ + p.sum) ps)).1.fetched - st.fetched := by omega
        rw [e2, e3] at this
        exact this
      · rw [ropen]
        have hsat0 : satisfiedAt skip fetch c₀ = false := by
          rw [← satisfied_of_inv st c₀ skip fetch hinv hsk hfe]; simpa using hs
        simp only [openedSpec, hsat0, Bool.false_eq_true, if_false]
        by_cases hs' : (drain st (layoutFrom c₀ p)).1.satisfied = true
        · -- satisfied inside this partition: the next one starts satisfied as well
          simp only [hs', if_true]
          have hsat : satisfiedAt skip fetch c' = true := by
            rw [← satisfied_of_inv _ c' skip fetch hi (by rw [hdsk, hsk]) (by rw [hdfe, hfe])]; exact hs'
          have hmono : satisfiedAt skip fetch (c₀ + p.sum) = true := by
            cases fetch with
            | none => simp [satisfiedAt] at hsat
            | some n =>
              simp only [satisfiedAt, Bool.or_eq_true, beq_iff_eq, decide_eq_true_eq] at hsat ⊢
              rcases hsat with h | h
              · exact Or.inl h
              · exact Or.inr (by omega)
          cases ps with
          | nil => simp [openedSpec]
          | cons q qs => simp [openedSpec, hmono]
        · have hc' : c' = c₀ + p.sum := by rcases h3 with h | h; exact h; exact absurd h hs'
          simp only [hs', Bool.false_eq_true, if_false]

end IQE.Lemmas.LimitStream
