import IQE.Engine.VecDist
namespace IQE.Engine.VecDist

/-- index coverage of `chunks_exact`: the chunks followed by the remainder are the slice, each element exactly once —
    for every chunk size, every length (and every fuel). -/
theorem chunksGo_cover {α : Type} (n fuel : Nat) (l : List α) :
    (chunksGo n fuel l).1.flatten ++ (chunksGo n fuel l).2 = l := by
  induction fuel generalizing l with
  | zero => simp [chunksGo]
  | succ fuel ih =>
    unfold chunksGo
    split
    · simp
    · simp only [List.flatten_cons, List.append_assoc, ih, List.take_append_drop]

/-- every chunk has exactly `n` elements -/
theorem chunksGo_chunk_len {α : Type} (n fuel : Nat) (l : List α) : ∀ c ∈ (chunksGo n fuel l).1, c.length = n := by
  induction fuel generalizing l with
  | zero => simp [chunksGo]
  | succ fuel ih =>
    unfold chunksGo
    split
    · simp
    · rename_i h
      intro c hc
      simp only [List.mem_cons] at hc
      rcases hc with rfl | hc
      · simp only [List.length_take]; omega
      · exact ih _ c hc

/-- with enough fuel the remainder is shorter than a chunk -/
theorem chunksGo_rem_len {α : Type} (n fuel : Nat) (hn : 0 < n) (l : List α) (hf : l.length ≤ fuel) :
    (chunksGo n fuel l).2.length < n := by
  induction fuel generalizing l with
  | zero =>
    have : l.length = 0 := by omega
    simp [chunksGo, this, hn]
  | succ fuel ih =>
    unfold chunksGo
    split
    · assumption
    · apply ih; simp only [List.length_drop]; omega

theorem sum_map_add (l : List Nat) (g h : Nat → Int) :
    (l.map fun i => g i + h i).sum = (l.map g).sum + (l.map h).sum := by
  induction l with
  | nil => simp
  | cons x xs ih => simp only [List.map_cons, List.sum_cons, ih]; omega

theorem range_map_getD_int (l : List Int) : (List.range l.length).map (fun i => l.getD i 0) = l := by
  apply List.ext_getElem
  · simp
  · intro i h1 h2
    have : i < l.length := by simpa using h1
    simp [List.getD_eq_getElem?_getD, this]

theorem range_map_zipWith (term : Int → Int → Int) (x y : List Int) (h : x.length = y.length) :
    (List.range x.length).map (fun i => term (x.getD i 0) (y.getD i 0)) = List.zipWith term x y := by
  apply List.ext_getElem
  · simp [h]
  · intro i h1 h2
    have hx : i < x.length := by simpa using h1
    have hy : i < y.length := by omega
    simp [List.getD_eq_getElem?_getD, hx, hy]

/-- one pass of the lane loop adds the chunk's terms to the lanes' total and keeps the lane count -/
theorem lanesStep_sum (L : Nat) (term : Int → Int → Int) (acc x y : List Int)
    (ha : acc.length = L) (hx : x.length = L) (hy : y.length = L) :
    (lanesStep L term acc x y).sum = acc.sum + (List.zipWith term x y).sum ∧ (lanesStep L term acc x y).length = L := by
  constructor
  · unfold lanesStep
    rw [sum_map_add]
    have e1 := range_map_getD_int acc
    have e2 := range_map_zipWith term x y (by omega)
    rw [ha] at e1; rw [hx] at e2
    rw [e1, e2]
  · simp [lanesStep]

theorem foldl_rem (term : Int → Int → Int) (a b : List Int) (s : Int) :
    (a.zip b).foldl (fun s p => s + term p.1 p.2) s = s + (List.zipWith term a b).sum := by
  induction a generalizing b s with
  | nil => simp
  | cons x xs ih =>
    cases b with
    | nil => simp
    | cons y ys => simp only [List.zip_cons_cons, List.foldl_cons, ih, List.zipWith_cons_cons, List.sum_cons]; omega

/-- regrouping: lanes × chunks ∪ remainder sums every term exactly once -/
theorem chunked_go (L : Nat) (term : Int → Int → Int) (fuel : Nat) (a b acc : List Int)
    (hab : a.length = b.length) (hacc : acc.length = L) :
    ((chunksGo L fuel a).2.zip (chunksGo L fuel b).2).foldl (fun s p => s + term p.1 p.2)
      (((chunksGo L fuel a).1.zip (chunksGo L fuel b).1).foldl (fun acc p => lanesStep L term acc p.1 p.2) acc).sum
    = acc.sum + (List.zipWith term a b).sum := by
  induction fuel generalizing a b acc with
  | zero => simp [chunksGo, foldl_rem]
  | succ fuel ih =>
    unfold chunksGo
    by_cases h : a.length < L
    · have h' : b.length < L := by omega
      simp [h, h', foldl_rem]
    · have h' : ¬ b.length < L := by omega
      simp only [h, h', if_false, List.zip_cons_cons, List.foldl_cons]
      have hs := lanesStep_sum L term acc (a.take L) (b.take L) hacc
        (by simp only [List.length_take]; omega) (by simp only [List.length_take]; omega)
      rw [ih (a.drop L) (b.drop L) _ (by simp [hab]) hs.2, hs.1]
      have hz : List.zipWith term a b = List.zipWith term (a.take L) (b.take L) ++ List.zipWith term (a.drop L) (b.drop L) := by
        rw [← List.zipWith_append (by simp [hab]), List.take_append_drop, List.take_append_drop]
      rw [hz, List.sum_append]; omega

theorem chunked_eq (L : Nat) (term : Int → Int → Int) (a b : List Int) (hab : a.length = b.length) :
    chunked L term a b = (List.zipWith term a b).sum := by
  unfold chunked chunksExact
  have := chunked_go L term a.length a b (List.replicate L 0) hab (by simp)
  rw [← hab]
  simp only [this]
  have : (List.replicate L (0 : Int)).sum = 0 := by
    induction L with
    | zero => rfl
    | succ n ih => simp [List.replicate_succ]
  omega

theorem sq_nonneg (x : Int) : 0 ≤ x * x := by
  rcases Int.le_total 0 x with h | h
  · exact Int.mul_nonneg h h
  · have : x * x = (-x) * (-x) := by rw [Int.neg_mul_neg]
    rw [this]; exact Int.mul_nonneg (by omega) (by omega)

theorem sumsq_zero_iff (a : List Int) : dotSpec a a = 0 ↔ ∀ x ∈ a, x = 0 := by
  unfold dotSpec
  induction a with
  | nil => simp
  | cons x xs ih =>
    have hx : 0 ≤ x * x := sq_nonneg x
    have hxs : 0 ≤ (List.zipWith dotTerm xs xs).sum := by
      clear ih
      induction xs with
      | nil => simp
      | cons y ys ihy =>
        have : 0 ≤ y * y := sq_nonneg y
        simp only [List.zipWith_cons_cons, List.sum_cons, dotTerm]; omega
    simp only [List.zipWith_cons_cons, List.sum_cons, dotTerm, List.mem_cons, forall_eq_or_imp]
    constructor
    · intro h
      have h1 : x * x = 0 := by omega
      have h2 : (List.zipWith dotTerm xs xs).sum = 0 := by omega
      exact ⟨by rcases Int.mul_eq_zero.mp h1 with h | h <;> exact h, ih.mp h2⟩
    · rintro ⟨rfl, h⟩
      have := ih.mpr h
      omega

theorem slice_row (c : Col) (off len i : Nat) (hi : i < len) : (c.slice off len).row i = c.row (off + i) := by
  unfold Col.row Col.slice
  simp only
  rw [List.drop_take, List.drop_drop, List.take_take]
  have h1 : (i + 1) * c.dim ≤ len * c.dim := Nat.mul_le_mul_right _ hi
  have h2 : (i + 1) * c.dim = i * c.dim + c.dim := by rw [Nat.add_mul]; simp
  have h3 : (off + i) * c.dim = off * c.dim + i * c.dim := Nat.add_mul ..
  rw [h3]
  congr 1
  omega

theorem slice_isNull (c : Col) (off len i : Nat) (hi : i < len) : (c.slice off len).isNull i = c.isNull (off + i) := by
  unfold Col.isNull Col.slice
  simp [List.getD_eq_getElem?_getD, hi]

end IQE.Engine.VecDist
