/-
  IQE.Lemmas.WindowPeers — peer ranges.  Over a list sorted under a total preorder `le`, with `eq` deciding ties,
  the range of adjacent-equal rows around position `p` (what arrow's `partition` kernel + `peer_of` give the engine) is
  exactly the set of rows tied with row `p`; hence
      peerStart p = #{ rows strictly before row p in the order }      (RANK − 1)
      peerEnd   p = #{ rows before or tied with row p }               (CUME_DIST · n)
-/
import IQE.Engine.Window
import IQE.Lemmas.Sorting
namespace IQE.Lemmas.WindowPeers
open IQE IQE.Engine.Window IQE.Lemmas.Sorting

variable {α : Type} [Inhabited α]

/-- the hypotheses shared by the lemmas: `l` sorted under the total preorder `le`, `eq` = tie -/
structure SortedTies (le eq : α → α → Bool) (l : List α) : Prop where
  trans : ∀ a b c, le a b → le b c → le a c
  total : ∀ a b, le a b || le b a
  eq_iff : ∀ a b, eq a b = (le a b && le b a)
  sorted : ∀ i j, i < j → j < l.length → le (l.getD i default) (l.getD j default) = true

theorem sortedTies_of_pairwise {le eq : α → α → Bool} {l : List α}
    (trans : ∀ a b c, le a b → le b c → le a c) (total : ∀ a b, le a b || le b a)
    (eq_iff : ∀ a b, eq a b = (le a b && le b a)) (hs : l.Pairwise (fun a b => le a b)) : SortedTies le eq l := by
  refine ⟨trans, total, eq_iff, ?_⟩
  intro i j hij hj
  rw [List.getD_eq_getElem?_getD, List.getD_eq_getElem?_getD, List.getElem?_eq_getElem (by omega), List.getElem?_eq_getElem hj]
  exact (List.pairwise_iff_getElem.1 hs) i j (by omega) hj hij

variable {le eq : α → α → Bool} {l : List α}

theorem getD_eq (l : List α) (j : Nat) (hj : j < l.length) : l.getD j default = l[j] := by
  simp [List.getD_eq_getElem?_getD, List.getElem?_eq_getElem hj]

theorem SortedTies.refl (h : SortedTies le eq l) (a : α) : le a a = true := le_refl_of_total h.total a

theorem SortedTies.le_of_le (h : SortedTies le eq l) (i j : Nat) (hij : i ≤ j) (hj : j < l.length) :
    le (l.getD i default) (l.getD j default) = true := by
  by_cases e : i = j
  · subst e; exact h.refl _
  · exact h.sorted i j (by omega) hj

/-! ### start of the peer range -/

theorem peerStart_le (p : Nat) : peerStart eq l p ≤ p := by
  induction p with
  | zero => simp [peerStart]
  | succ p ih => simp only [peerStart]; split <;> omega

theorem peerStart_tied (h : SortedTies le eq l) (p : Nat) :
    ∀ j, peerStart eq l p ≤ j → j ≤ p → Tied le (l.getD j default) (l.getD p default) := by
  induction p with
  | zero =>
    intro j _ hj
    have : j = 0 := by omega
    subst this; exact ⟨h.refl _, h.refl _⟩
  | succ p ih =>
    intro j hj1 hj2
    simp only [peerStart] at hj1
    by_cases hjp : j = p + 1
    · subst hjp; exact ⟨h.refl _, h.refl _⟩
    · split at hj1
      · rename_i he
        rw [h.eq_iff] at he
        have hadj : Tied le (l.getD p default) (l.getD (p + 1) default) := by simpa [Tied] using he
        exact (ih j hj1 (by omega)).trans h.trans hadj
      · omega

theorem peerStart_boundary (h : SortedTies le eq l) (p : Nat) (hp : p < l.length) :
    peerStart eq l p = 0 ∨ le (l.getD (peerStart eq l p) default) (l.getD (peerStart eq l p - 1) default) = false := by
  induction p with
  | zero => left; rfl
  | succ p ih =>
    simp only [peerStart]
    split
    · exact ih (by omega)
    · rename_i he
      right
      have he' : eq (l.getD p default) (l.getD (p + 1) default) = false := by simpa using he
      have hle := h.sorted p (p + 1) (by omega) hp
      rw [h.eq_iff, hle, Bool.true_and] at he'
      simpa using he'

/-- rows before the peer range are strictly before row `p` in the order -/
theorem lt_of_lt_peerStart (h : SortedTies le eq l) (p : Nat) (hp : p < l.length) (j : Nat) (hj : j < peerStart eq l p) :
    le (l.getD j default) (l.getD p default) = true ∧ le (l.getD p default) (l.getD j default) = false := by
  have hsp := peerStart_le (eq := eq) (l := l) p
  refine ⟨h.le_of_le j p (by omega) hp, ?_⟩
  rcases peerStart_boundary h p hp with h0 | hb
  · omega
  · by_cases hc : le (l.getD p default) (l.getD j default) = true
    · -- l[s] ≤ l[p] ≤ l[j] ≤ l[s-1]  contradicts the boundary
      have t := peerStart_tied h p (peerStart eq l p) (Nat.le_refl _) hsp
      have h1 := h.trans _ _ _ t.1 hc
      have h2 := h.le_of_le j (peerStart eq l p - 1) (by omega) (by omega)
      have := h.trans _ _ _ h1 h2
      rw [hb] at this; cases this
    · simpa using hc

/-- RANK − 1: the peer range starts after exactly the rows that sort strictly before row `p` -/
theorem peerStart_eq_countP_lt (h : SortedTies le eq l) (p : Nat) (hp : p < l.length) :
    peerStart eq l p = l.countP (fun x => le x (l.getD p default) && !le (l.getD p default) x) := by
  have hsp := peerStart_le (eq := eq) (l := l) p
  have hsplit : l.countP (fun x => le x (l.getD p default) && !le (l.getD p default) x) =
      (l.take (peerStart eq l p)).countP (fun x => le x (l.getD p default) && !le (l.getD p default) x) +
      (l.drop (peerStart eq l p)).countP (fun x => le x (l.getD p default) && !le (l.getD p default) x) := by
    rw [← List.countP_append, List.take_append_drop]
  have hall : (l.take (peerStart eq l p)).countP (fun x => le x (l.getD p default) && !le (l.getD p default) x) =
      (l.take (peerStart eq l p)).length := by
    rw [List.countP_eq_length]
    intro x hx
    obtain ⟨j, hj, rfl⟩ := List.mem_take_iff_getElem.1 hx
    have hj' : j < peerStart eq l p := by omega
    have := lt_of_lt_peerStart h p hp j hj'
    rw [getD_eq l j (by omega)] at this
    show (le l[j] (l.getD p default) && !le (l.getD p default) l[j]) = true
    rw [this.1, this.2]; rfl
  have hzero : (l.drop (peerStart eq l p)).countP (fun x => le x (l.getD p default) && !le (l.getD p default) x) = 0 := by
    rw [List.countP_eq_zero]
    intro x hx
    obtain ⟨j, hj, rfl⟩ := List.mem_drop_iff_getElem.1 hx
    have hj2 : peerStart eq l p + j < l.length := by omega
    have hge : le (l.getD p default) (l.getD (peerStart eq l p + j) default) = true := by
      by_cases hjp : peerStart eq l p + j ≤ p
      · exact (peerStart_tied h p _ (by omega) hjp).2
      · exact h.le_of_le p _ (by omega) hj2
    rw [getD_eq l _ hj2] at hge
    show ¬ (le l[peerStart eq l p + j] (l.getD p default) && !le (l.getD p default) l[peerStart eq l p + j]) = true
    rw [hge]; simp
  rw [hsplit, hall, hzero, List.length_take]
  omega

/-! ### end of the peer range -/

theorem peerEndFrom_spec (h : SortedTies le eq l) (fuel p : Nat) (hp : p < l.length) (hf : l.length - p ≤ fuel + 1) :
    p < peerEndFrom eq l p fuel ∧ peerEndFrom eq l p fuel ≤ l.length ∧
    (∀ j, p ≤ j → j < peerEndFrom eq l p fuel → Tied le (l.getD p default) (l.getD j default)) ∧
    (peerEndFrom eq l p fuel = l.length ∨
      le (l.getD (peerEndFrom eq l p fuel) default) (l.getD (peerEndFrom eq l p fuel - 1) default) = false) := by
  induction fuel generalizing p with
  | zero =>
    have : l.length = p + 1 := by omega
    simp only [peerEndFrom]
    refine ⟨by omega, by omega, ?_, Or.inl this.symm⟩
    intro j hj1 hj2
    have : j = p := by omega
    subst this; exact ⟨h.refl _, h.refl _⟩
  | succ fuel ih =>
    simp only [peerEndFrom]
    by_cases hc : (decide (p + 1 < l.length) && eq (l.getD p default) (l.getD (p + 1) default)) = true
    · simp only [hc, if_true]
      simp only [Bool.and_eq_true, decide_eq_true_eq] at hc
      obtain ⟨hlt, he⟩ := hc
      rw [h.eq_iff] at he
      have hadj : Tied le (l.getD p default) (l.getD (p + 1) default) := by simpa [Tied] using he
      obtain ⟨a1, a2, a3, a4⟩ := ih (p + 1) hlt (by omega)
      refine ⟨by omega, a2, ?_, a4⟩
      intro j hj1 hj2
      by_cases hjp : j = p
      · subst hjp; exact ⟨h.refl _, h.refl _⟩
      · exact hadj.trans h.trans (a3 j (by omega) hj2)
    · have hc' : (decide (p + 1 < l.length) && eq (l.getD p default) (l.getD (p + 1) default)) = false := by simpa using hc
      simp only [hc', Bool.false_eq_true, if_false]
      refine ⟨by omega, by omega, ?_, ?_⟩
      · intro j hj1 hj2
        have : j = p := by omega
        subst this; exact ⟨h.refl _, h.refl _⟩
      · by_cases hlt : p + 1 < l.length
        · right
          simp only [hlt, decide_true, Bool.true_and] at hc'
          have hle := h.sorted p (p + 1) (by omega) hlt
          rw [h.eq_iff, hle, Bool.true_and] at hc'
          simpa using hc'
        · left; omega

theorem peerEnd_spec (h : SortedTies le eq l) (p : Nat) (hp : p < l.length) :
    p < peerEnd eq l p ∧ peerEnd eq l p ≤ l.length ∧
    (∀ j, p ≤ j → j < peerEnd eq l p → Tied le (l.getD p default) (l.getD j default)) ∧
    (peerEnd eq l p = l.length ∨ le (l.getD (peerEnd eq l p) default) (l.getD (peerEnd eq l p - 1) default) = false) :=
  peerEndFrom_spec h (l.length - p) p hp (by omega)

/-- CUME_DIST · n: the peer range ends after exactly the rows that sort before or with row `p` -/
theorem peerEnd_eq_countP_le (h : SortedTies le eq l) (p : Nat) (hp : p < l.length) :
    peerEnd eq l p = l.countP (fun x => le x (l.getD p default)) := by
  obtain ⟨e1, e2, e3, e4⟩ := peerEnd_spec h p hp
  have hsplit : l.countP (fun x => le x (l.getD p default)) =
      (l.take (peerEnd eq l p)).countP (fun x => le x (l.getD p default)) + (l.drop (peerEnd eq l p)).countP (fun x => le x (l.getD p default)) := by
    rw [← List.countP_append, List.take_append_drop]
  have hall : (l.take (peerEnd eq l p)).countP (fun x => le x (l.getD p default)) = (l.take (peerEnd eq l p)).length := by
    rw [List.countP_eq_length]
    intro x hx
    obtain ⟨j, hj, rfl⟩ := List.mem_take_iff_getElem.1 hx
    have hj' : j < peerEnd eq l p := by omega
    have : le (l.getD j default) (l.getD p default) = true := by
      by_cases hjp : j ≤ p
      · exact h.le_of_le j p hjp hp
      · exact (e3 j (by omega) hj').2
    rw [getD_eq l j (by omega)] at this
    simpa using this
  have hzero : (l.drop (peerEnd eq l p)).countP (fun x => le x (l.getD p default)) = 0 := by
    rw [List.countP_eq_zero]
    intro x hx hxc
    obtain ⟨j, hj, rfl⟩ := List.mem_drop_iff_getElem.1 hx
    have hj2 : peerEnd eq l p + j < l.length := by omega
    rcases e4 with hend | hb
    · omega
    · -- l[e] ≤ l[e+j] ≤ l[p] ≤ l[e-1] contradicts the boundary
      have h1 := h.le_of_le (peerEnd eq l p) (peerEnd eq l p + j) (by omega) hj2
      have hxc' : le (l.getD (peerEnd eq l p + j) default) (l.getD p default) = true := by
        rw [getD_eq l _ hj2]
        simpa using hxc
      have h2 := (e3 (peerEnd eq l p - 1) (by omega) (by omega)).1
      have := h.trans _ _ _ (h.trans _ _ _ h1 hxc') h2
      rw [hb] at this; cases this
  rw [hsplit, hall, hzero, List.length_take]
  omega

/-! ### DENSE_RANK: peer boundaries = distinct tie classes before the row -/

/-- first occurrences of the tie classes (the shape of `Spec.Win.distinctKeys`) -/
def distinctBy (tied : α → α → Bool) : List α → List α
  | [] => []
  | k :: ks => k :: (distinctBy tied ks).filter (fun k' => !tied k' k)

theorem mem_of_mem_distinctBy (tied : α → α → Bool) : ∀ (l : List α) (x : α), x ∈ distinctBy tied l → x ∈ l
  | [], x, h => by simp [distinctBy] at h
  | k :: ks, x, h => by
    simp only [distinctBy, List.mem_cons, List.mem_filter] at h
    rcases h with rfl | ⟨h, _⟩
    · simp
    · exact List.mem_cons_of_mem _ (mem_of_mem_distinctBy tied ks x h)

/-- a block of mutually tied rows contributes exactly its first row -/
theorem distinctBy_block (tied : α → α → Bool) (c : α) (hsymm : ∀ a b, tied a b = tied b a)
    (htrans : ∀ a b d, tied a b = true → tied b d = true → tied a d = true) :
    ∀ (B : List α) (b0 : α), (∀ x ∈ b0 :: B, tied x c = true) → distinctBy tied (b0 :: B) = [b0] := by
  intro B b0 hB
  simp only [distinctBy, List.cons.injEq, true_and, List.filter_eq_nil_iff]
  intro x hx
  have hxB : x ∈ B := mem_of_mem_distinctBy tied B x hx
  have h1 := hB x (by simp [hxB])
  have h2 := hB b0 (by simp)
  have : tied x b0 = true := htrans x c b0 h1 (by rw [hsymm]; exact h2)
  simp [this]

/-- rows not tied with the block in front of it keep their representatives; the block adds one -/
theorem distinctBy_append_block (tied : α → α → Bool) (c : α) (hsymm : ∀ a b, tied a b = tied b a)
    (htrans : ∀ a b d, tied a b = true → tied b d = true → tied a d = true) (B : List α) (b0 : α)
    (hB : ∀ x ∈ b0 :: B, tied x c = true) :
    ∀ (A : List α), (∀ a ∈ A, tied a c = false) → distinctBy tied (A ++ b0 :: B) = distinctBy tied A ++ [b0]
  | [], _ => by simpa [distinctBy] using distinctBy_block tied c hsymm htrans B b0 hB
  | a :: A, hA => by
    have ih := distinctBy_append_block tied c hsymm htrans B b0 hB A (fun x hx => hA x (by simp [hx]))
    simp only [List.cons_append, distinctBy, ih, List.filter_append]
    have hb0 : tied b0 a = false := by
      by_cases h : tied b0 a = true
      · have h2 := hB b0 (by simp)
        have : tied a c = true := htrans a b0 c (by rw [hsymm]; exact h) h2
        rw [hA a (by simp)] at this; cases this
      · simpa using h
    simp [hb0]

theorem filter_eq_take_of_prefix (q : α → Bool) (l : List α) (s : Nat) (hs : s ≤ l.length)
    (hpre : ∀ j (h : j < l.length), j < s → q l[j] = true) (hpost : ∀ j (h : j < l.length), s ≤ j → q l[j] = false) :
    l.filter q = l.take s := by
  conv => lhs; rw [← List.take_append_drop s l]
  rw [List.filter_append]
  have h1 : (l.take s).filter q = l.take s := by
    rw [List.filter_eq_self]
    intro x hx
    obtain ⟨j, hj, rfl⟩ := List.mem_take_iff_getElem.1 hx
    exact hpre j (by omega) (by omega)
  have h2 : (l.drop s).filter q = [] := by
    rw [List.filter_eq_nil_iff]
    intro x hx
    obtain ⟨j, hj, rfl⟩ := List.mem_drop_iff_getElem.1 hx
    have := hpost (s + j) (by omega) (by omega)
    simp [this]
  rw [h1, h2, List.append_nil]

theorem boundariesIn_succ (l : List α) (p : Nat) :
    boundariesIn eq l 0 (p + 1) = boundariesIn eq l 0 p + (if eq (l.getD p default) (l.getD (p + 1) default) then 0 else 1) := by
  unfold boundariesIn
  simp only [Nat.zero_add, Nat.sub_zero]
  rw [List.range'_concat, List.filter_append, List.length_append]
  simp only [List.filter_cons, List.filter_nil]
  have e : 1 + 1 * p - 1 = p := by omega
  have e2 : 1 + 1 * p = p + 1 := by omega
  rw [e, e2]
  cases eq (l.getD p default) (l.getD (p + 1) default) <;> simp

/-- DENSE_RANK − 1: the number of peer boundaries of the partition up to row `p` is the number of distinct tie classes among
    the rows before the peer range of `p` -/
theorem boundariesIn_eq_distinct (h : SortedTies le eq l) (p : Nat) (hp : p < l.length) :
    boundariesIn eq l 0 p = (distinctBy eq (l.take (peerStart eq l p))).length := by
  have hsymm : ∀ a b, eq a b = eq b a := by intro a b; rw [h.eq_iff, h.eq_iff, Bool.and_comm]
  have htrans : ∀ a b d, eq a b = true → eq b d = true → eq a d = true := by
    intro a b d h1 h2
    rw [h.eq_iff] at h1 h2 ⊢
    simp only [Bool.and_eq_true] at h1 h2 ⊢
    exact ⟨h.trans _ _ _ h1.1 h2.1, h.trans _ _ _ h2.2 h1.2⟩
  induction p with
  | zero => simp [boundariesIn, peerStart, distinctBy]
  | succ p ih =>
    have ihp := ih (by omega)
    rw [boundariesIn_succ]
    by_cases he : eq (l.getD p default) (l.getD (p + 1) default) = true
    · simp only [he, if_true, Nat.add_zero, peerStart]
      exact ihp
    · have he' : eq (l.getD p default) (l.getD (p + 1) default) = false := by simpa using he
      simp only [he', Bool.false_eq_true, if_false, peerStart]
      rw [ihp]
      -- take (p+1) l = take s l ++ block, the block = rows s … p, all tied with row p
      have hsp := peerStart_le (eq := eq) (l := l) p
      have hsplit : l.take (p + 1) = l.take (peerStart eq l p) ++ (l.drop (peerStart eq l p)).take (p + 1 - peerStart eq l p) := by
        have := List.take_append_drop (peerStart eq l p) (l.take (p + 1))
        rw [List.take_take, Nat.min_eq_left (by omega), List.drop_take] at this
        exact this.symm
      have hblock : (l.drop (peerStart eq l p)).take (p + 1 - peerStart eq l p) ≠ [] := by
        intro hnil
        have := congrArg List.length hnil
        simp at this; omega
      obtain ⟨b0, B, hB⟩ := List.exists_cons_of_ne_nil hblock
      rw [hsplit, hB]
      have hBt : ∀ x ∈ b0 :: B, eq x (l.getD p default) = true := by
        intro x hx
        rw [← hB] at hx
        obtain ⟨j, hj, rfl⟩ := List.mem_take_iff_getElem.1 hx
        simp only [List.getElem_drop]
        have hj' : j < p + 1 - peerStart eq l p := by simp at hj; omega
        have ht := peerStart_tied h p (peerStart eq l p + j) (by omega) (by omega)
        rw [getD_eq l _ (by omega)] at ht
        rw [h.eq_iff, ht.1, ht.2]; rfl
      have hAt : ∀ a ∈ l.take (peerStart eq l p), eq a (l.getD p default) = false := by
        intro a ha
        obtain ⟨j, hj, rfl⟩ := List.mem_take_iff_getElem.1 ha
        have hlt := lt_of_lt_peerStart h p (by omega) j (by omega)
        rw [getD_eq l j (by omega)] at hlt
        rw [h.eq_iff, hlt.2]; simp
      rw [distinctBy_append_block eq (l.getD p default) hsymm htrans B b0 hBt _ hAt]
      simp

end IQE.Lemmas.WindowPeers
