import IQE.Engine.Dechunk
namespace IQE.Engine.Dechunk
open IQE.Text IQE

/-! ### splitCrlf -/

theorem splitCrlf_nil : splitCrlf [] = none := rfl
theorem splitCrlf_one (a : UInt8) : splitCrlf [a] = none := rfl
theorem splitCrlf_cons2 (a b : UInt8) (t : List UInt8) :
    splitCrlf (a :: b :: t) = if a == CR && b == LF then some ([], t)
      else match splitCrlf (b :: t) with
        | none => none
        | some (l, r) => some (a :: l, r) := by
  conv => lhs; unfold splitCrlf
  rfl

theorem splitCrlf_append (l rest : List UInt8) (h : splitCrlf l = none) :
    splitCrlf (l ++ CR :: LF :: rest) = some (l, rest) := by
  induction l with
  | nil => simp [splitCrlf_cons2]
  | cons a t ih =>
    cases t with
    | nil =>
      simp [splitCrlf_cons2, CR, LF]
    | cons b t' =>
      rw [splitCrlf_cons2] at h
      split at h
      · simp at h
      · rename_i hc
        have h2 : splitCrlf (b :: t') = none := by
          cases hs : splitCrlf (b :: t') with
          | none => rfl
          | some p => rw [hs] at h; simp at h
        have := ih h2
        simp only [List.cons_append] at this ⊢
        rw [splitCrlf_cons2, if_neg hc, this]

theorem splitCrlf_length {b l r : List UInt8} (h : splitCrlf b = some (l, r)) : b.length = l.length + 2 + r.length := by
  induction b generalizing l r with
  | nil => simp [splitCrlf_nil] at h
  | cons a t ih =>
    cases t with
    | nil => simp [splitCrlf_one] at h
    | cons c t' =>
      rw [splitCrlf_cons2] at h
      split at h
      · simp at h; obtain ⟨rfl, rfl⟩ := h; simp; omega
      · cases hs : splitCrlf (c :: t') with
        | none => rw [hs] at h; simp at h
        | some p =>
          obtain ⟨l', r'⟩ := p
          rw [hs] at h
          simp at h
          obtain ⟨rfl, rfl⟩ := h
          have := ih hs
          simp at this ⊢
          omega

/-! ### the accumulator and the fuel -/

def Outcome.prepend (pre : List UInt8) : Outcome → Outcome
  | .some b => .some (pre ++ b)
  | .none => .none
  | .panic => .panic

theorem go_out (dev : Dev) : ∀ (n : Nat) (b out : List UInt8), go dev n b out = (go dev n b []).prepend out := by
  intro n
  induction n with
  | zero => intro b out; simp [go, Outcome.prepend]
  | succ n ih =>
    intro b out
    simp only [go]
    cases splitCrlf b with
    | none => simp [Outcome.prepend]
    | some p =>
      obtain ⟨line, b'⟩ := p
      simp only
      cases sizeOfLine dev line with
      | none => simp [Outcome.prepend]
      | some size =>
        simp only
        repeat' split
        all_goals try simp [Outcome.prepend]
        rw [ih _ (out ++ _), ih _ (List.take size b')]
        cases go dev n (List.drop (size + 2) b') [] <;> simp [Outcome.prepend]

/-- Any fuel above the input length gives the same answer: the loop of the Rust code always terminates. -/
theorem go_fuel (dev : Dev) : ∀ (n m : Nat) (b out : List UInt8), b.length < n → b.length < m → go dev n b out = go dev m b out := by
  intro n
  induction n with
  | zero => intro m b out h; omega
  | succ n ih =>
    intro m b out hn hm
    cases m with
    | zero => omega
    | succ m =>
      simp only [go]
      cases hs : splitCrlf b with
      | none => rfl
      | some p =>
        obtain ⟨line, b'⟩ := p
        have hl := splitCrlf_length hs
        simp only
        cases sizeOfLine dev line with
        | none => rfl
        | some size =>
          simp only
          repeat' split
          all_goals try rfl
          apply ih
          · simp; omega
          · simp; omega

theorem go_never_panics (dev : Dev) (hd : dev.uncheckedAdd = false) : ∀ (n : Nat) (b out : List UInt8), go dev n b out ≠ .panic := by
  intro n
  induction n with
  | zero => intro b out; simp [go]
  | succ n ih =>
    intro b out
    simp only [go]
    cases splitCrlf b with
    | none => simp
    | some p =>
      obtain ⟨line, b'⟩ := p
      simp only
      cases sizeOfLine dev line with
      | none => simp
      | some size =>
        simp only [hd]
        repeat' split
        all_goals first | exact ih _ _ | simp_all

/-! ### size lines written by a conforming encoder -/

theorem dropWhile_eq_self {α} (p : α → Bool) : ∀ l : List α, (∀ x ∈ l.head?, p x = false) → l.dropWhile p = l
  | [], _ => rfl
  | a :: t, h => by
    have : p a = false := h a (by simp)
    simp [List.dropWhile, this]

theorem isHex_not_ws (c : Char) (h : isHex c = true) : isWs c = false := by
  simp only [isHex, isWs, Bool.or_eq_true, Bool.and_eq_true, decide_eq_true_eq, beq_iff_eq] at *
  simp only [Bool.or_eq_false_iff, Bool.and_eq_false_iff, decide_eq_false_iff_not, beq_eq_false_iff_ne]
  omega

theorem trim_hex (l : List Char) (h : l.all isHex = true) : trim l = l := by
  have hw : ∀ c ∈ l, isWs c = false := fun c hc => isHex_not_ws c (List.all_eq_true.1 h c hc)
  unfold trim trimEnd trimStart
  rw [dropWhile_eq_self isWs l (fun x hx => hw x (List.mem_of_mem_head? hx))]
  rw [dropWhile_eq_self isWs l.reverse (fun x hx => hw x (List.mem_reverse.1 (List.mem_of_mem_head? hx)))]
  simp

theorem hex_is_ascii (c : Char) (h : isHex c = true) : c.toNat < 0x80 := by
  simp only [isHex, Bool.or_eq_true, Bool.and_eq_true, decide_eq_true_eq] at h
  omega

theorem byteChar_asciiByte (c : Char) (h : c.toNat < 0x80) : Utf8.byteChar (c.toNat.toUInt8) = c := by
  unfold Utf8.byteChar
  have : c.toNat.toUInt8.toNat = c.toNat := by
    simp [Nat.toUInt8, UInt8.toNat, UInt8.ofNat]
    omega
  rw [this]
  exact Char.ofNat_toNat c

theorem asciiBytes_hex (l : List Char) (h : l.all isHex = true) :
    (Utf8.asciiBytes l).all Utf8.isAsciiByte = true ∧ (Utf8.asciiBytes l).map Utf8.byteChar = l ∧
    (∀ b ∈ Utf8.asciiBytes l, b ≠ SEMI) := by
  induction l with
  | nil => simp [Utf8.asciiBytes]
  | cons c t ih =>
    simp only [List.all_cons, Bool.and_eq_true] at h
    obtain ⟨i1, i2, i3⟩ := ih h.2
    have hc := hex_is_ascii c h.1
    have hb : c.toNat.toUInt8.toNat = c.toNat := by
      simp [Nat.toUInt8, UInt8.toNat, UInt8.ofNat]; omega
    refine ⟨?_, ?_, ?_⟩
    · simp only [Utf8.asciiBytes, List.map_cons, List.all_cons, Bool.and_eq_true]
      exact ⟨by simp [Utf8.isAsciiByte, hb]; omega, i1⟩
    · simp only [Utf8.asciiBytes, List.map_cons] at i2 ⊢
      rw [byteChar_asciiByte c hc, i2]
    · intro b hb'
      simp only [Utf8.asciiBytes, List.map_cons, List.mem_cons] at hb'
      rcases hb' with rfl | hb'
      · intro hsemi
        have : c.toNat.toUInt8.toNat = 59 := by rw [hsemi]; rfl
        rw [hb] at this
        have h1 := h.1
        simp only [isHex, Bool.or_eq_true, Bool.and_eq_true, decide_eq_true_eq] at h1
        omega
      · exact i3 b hb'

theorem takeWhile_append_stop {α} (p : α → Bool) (l r : List α) (hl : ∀ x ∈ l, p x = true) (hr : ∀ x ∈ r.head?, p x = false) :
    (l ++ r).takeWhile p = l := by
  induction l with
  | nil =>
    cases r with
    | nil => rfl
    | cons a t => simp [List.takeWhile, hr a (by simp)]
  | cons a t ih =>
    simp [List.takeWhile, hl a (by simp)]
    exact ih (fun x hx => hl x (by simp [hx]))

/-- the size line of a conforming chunk parses to the value of its hex text -/
theorem sizeOfLine_ok (st : List Char) (ext : List UInt8) (hne : st.isEmpty = false) (hh : st.all isHex = true)
    (he : (ext.isEmpty || ext.head? == some SEMI) = true) (hv : hexVal st < usizeBound) :
    sizeOfLine Dev.fixed (Utf8.asciiBytes st ++ ext) = some (hexVal st) := by
  obtain ⟨a1, a2, a3⟩ := asciiBytes_hex st hh
  have hf : sizeField Dev.fixed (Utf8.asciiBytes st ++ ext) = Utf8.asciiBytes st := by
    simp only [sizeField, Dev.fixed]
    apply takeWhile_append_stop
    · intro x hx; simpa using a3 x hx
    · intro x hx
      cases ext with
      | nil => simp at hx
      | cons e t =>
        simp at hx he
        subst hx; simp [he]
  unfold sizeOfLine
  rw [hf, Utf8.decode_ascii _ a1, a2]
  simp only [trim_hex st hh]
  unfold parseHexUsize
  have hplus : stripPlus st = st := by
    cases st with
    | nil => rfl
    | cons c t =>
      have hcx : isHex c = true := by simp only [List.all_cons, Bool.and_eq_true] at hh; exact hh.1
      have : c ≠ '+' := by
        intro h; subst h; simp [isHex] at hcx
      unfold stripPlus
      split
      · rename_i heq; injection heq with h1 h2; exact absurd h1 this
      · rfl
  simp only [hplus, hne, hh, hv]
  simp

/-! ### one conforming chunk is consumed by one iteration -/

theorem encodeChunk_length (c : Chunk) : (encodeChunk c).length = c.sizeText.length + c.ext.length + c.data.length + 4 := by
  simp [encodeChunk, Utf8.asciiBytes]; omega

theorem line_noCrlf (st : List Char) (ext : List UInt8) (hh : st.all isHex = true)
    (he : (ext.isEmpty || ext.head? == some SEMI) = true) (hx : splitCrlf ext = none) :
    splitCrlf (Utf8.asciiBytes st ++ ext) = none := by
  induction st with
  | nil => simpa [Utf8.asciiBytes] using hx
  | cons c t ih =>
    simp only [List.all_cons, Bool.and_eq_true] at hh
    have iht := ih hh.2
    have hc := hex_is_ascii c hh.1
    have hb : c.toNat.toUInt8.toNat = c.toNat := by
      simp [Nat.toUInt8, UInt8.toNat, UInt8.ofNat]; omega
    have hcr : (c.toNat.toUInt8 == CR) = false := by
      apply beq_eq_false_iff_ne.2
      intro h
      have : c.toNat.toUInt8.toNat = 13 := by rw [h]; rfl
      rw [hb] at this
      have h1 := hh.1
      simp only [isHex, Bool.or_eq_true, Bool.and_eq_true, decide_eq_true_eq] at h1
      omega
    simp only [Utf8.asciiBytes, List.map_cons, List.cons_append] at iht ⊢
    cases hrest : (List.map (fun c => c.toNat.toUInt8) t ++ ext) with
    | nil => exact splitCrlf_one _
    | cons d r =>
      rw [hrest] at iht
      rw [splitCrlf_cons2, iht]
      simp [hcr]

theorem go_chunk (c : Chunk) (hc : chunkOk c = true) (n : Nat) (rest out : List UInt8) :
    go Dev.fixed (n + 1) (encodeChunk c ++ rest) out = go Dev.fixed n rest (out ++ c.data) := by
  simp only [chunkOk, extOk, Bool.and_eq_true, Bool.not_eq_true', beq_iff_eq, decide_eq_true_eq, Option.isNone_iff_eq_none] at hc
  obtain ⟨⟨⟨⟨⟨h1, h2⟩, h3⟩, h4⟩, h5⟩, h6, h7⟩ := hc
  have hline := line_noCrlf c.sizeText c.ext h2 h6 h7
  have hsplit : splitCrlf (encodeChunk c ++ rest) = some (Utf8.asciiBytes c.sizeText ++ c.ext, c.data ++ [CR, LF] ++ rest) := by
    have := splitCrlf_append (Utf8.asciiBytes c.sizeText ++ c.ext) (c.data ++ [CR, LF] ++ rest) hline
    simpa [encodeChunk, List.append_assoc] using this
  have hsize := sizeOfLine_ok c.sizeText c.ext h1 h2 h6 (by rw [h3]; omega)
  have hne : c.data.length ≠ 0 := by
    intro h0; have := List.eq_nil_of_length_eq_zero h0; simp [this] at h4
  simp only [go, hsplit, hsize, h3]
  have e1 : ¬ (c.data.length == 0) = true := by simpa using hne
  have e2 : ¬ (c.data.length + 2 ≥ usizeBound) := by omega
  have e3 : ¬ ((c.data ++ [CR, LF] ++ rest).length < c.data.length + 2) := by
    simp only [List.length_append, List.length_cons, List.length_nil]; omega
  have e4 : (List.drop c.data.length (c.data ++ [CR, LF] ++ rest)).take 2 = [CR, LF] := by
    simp [List.append_assoc]
  have e5 : List.drop (c.data.length + 2) (c.data ++ [CR, LF] ++ rest) = rest := by
    rw [List.append_assoc, ← List.drop_drop]
    simp
  have e6 : List.take c.data.length (c.data ++ [CR, LF] ++ rest) = c.data := by
    simp [List.append_assoc]
  simp only [e1, e2, e3, e4, e5, e6, Dev.fixed]
  simp

/-- Any number of conforming chunks in front of `t` are consumed, one loop iteration each. -/
theorem go_chunks (chunks : List Chunk) (hc : chunks.all chunkOk = true) :
    ∀ (k : Nat) (t out : List UInt8),
      go Dev.fixed (chunks.length + k) (chunks.flatMap encodeChunk ++ t) out = go Dev.fixed k t (out ++ chunks.flatMap (·.data)) := by
  induction chunks with
  | nil => intro k t out; simp
  | cons c cs ih =>
    intro k t out
    simp only [List.all_cons, Bool.and_eq_true] at hc
    have : (c :: cs).length + k = (cs.length + k) + 1 := by simp; omega
    rw [this]
    simp only [List.flatMap_cons, List.append_assoc]
    rw [go_chunk c hc.1, ih hc.2]
    simp [List.append_assoc]

theorem flatMap_encode_length_ge (chunks : List Chunk) : chunks.length ≤ (chunks.flatMap encodeChunk).length := by
  induction chunks with
  | nil => simp
  | cons c cs ih =>
    simp only [List.flatMap_cons, List.length_append, List.length_cons, encodeChunk_length]
    omega

/-- **Prefix law**: conforming chunks followed by anything decode to their data followed by what the rest decodes to. -/
theorem dechunk_prefix (chunks : List Chunk) (hc : chunks.all chunkOk = true) (t : List UInt8) :
    dechunk Dev.fixed (chunks.flatMap encodeChunk ++ t) = (dechunk Dev.fixed t).prepend (chunks.flatMap (·.data)) := by
  unfold dechunk
  have hlen := flatMap_encode_length_ge chunks
  have : (chunks.flatMap encodeChunk ++ t).length + 1 = chunks.length + ((chunks.flatMap encodeChunk).length - chunks.length + t.length + 1) := by
    rw [List.length_append]; omega
  rw [this, go_chunks chunks hc, go_out]
  rw [go_fuel Dev.fixed _ (t.length + 1) t [] (by omega) (by omega)]
  simp

/-! ### the last-chunk line -/

theorem hexVal_zeros_aux : ∀ (l : List Char), l.all (· == '0') = true → l.foldl (fun acc c => acc * 16 + hexDigitVal c) 0 = 0
  | [], _ => rfl
  | c :: t, h => by
    simp only [List.all_cons, Bool.and_eq_true, beq_iff_eq] at h
    obtain ⟨rfl, ht⟩ := h
    have : (0 * 16 + hexDigitVal '0') = 0 := by decide
    simp only [List.foldl_cons, this]
    exact hexVal_zeros_aux t (by simpa using ht)

theorem zeros_hex (l : List Char) (h : l.all (· == '0') = true) : l.all isHex = true := by
  rw [List.all_eq_true] at h ⊢
  intro c hc
  have : c = '0' := by simpa using h c hc
  subst this; decide

/-- a last-chunk line (`0…0 [;ext] CRLF`) ends the body, whatever follows it -/
theorem dechunk_last (zeros : List Char) (ext tail : List UInt8) (hz : zerosOk zeros = true) (he : extOk ext = true) :
    dechunk Dev.fixed (Utf8.asciiBytes zeros ++ ext ++ [CR, LF] ++ tail) = .some [] := by
  simp only [zerosOk, extOk, Bool.and_eq_true, Bool.not_eq_true', Option.isNone_iff_eq_none] at hz he
  have hh := zeros_hex zeros hz.2
  have hv : hexVal zeros = 0 := hexVal_zeros_aux zeros hz.2
  have hline := line_noCrlf zeros ext hh he.1 he.2
  have hsplit : splitCrlf (Utf8.asciiBytes zeros ++ ext ++ [CR, LF] ++ tail) = some (Utf8.asciiBytes zeros ++ ext, tail) := by
    have := splitCrlf_append (Utf8.asciiBytes zeros ++ ext) tail hline
    simpa [List.append_assoc] using this
  have hsize := sizeOfLine_ok zeros ext hz.1 hh he.1 (by rw [hv]; decide)
  unfold dechunk
  simp only [go, hsplit, hsize, hv]
  simp

/-! ### malformed size fields -/

theorem classify_lead_lo {n need acc lo hi : Nat} (h : Utf8.classify n = .lead need acc lo hi) : 0x80 ≤ lo ∧ need ≠ 0 := by
  unfold Utf8.classify at h
  repeat' split at h
  all_goals first | (injection h with h1 h2 h3 h4; omega) | (simp at h)

theorem mem_decodeGo (b : UInt8) (hb : b.toNat < 0x80) :
    ∀ (l : List UInt8) (need acc lo hi : Nat) (cs : List Char), (need ≠ 0 → 0x80 ≤ lo) →
      Utf8.decodeGo l need acc lo hi = some cs → b ∈ l → Utf8.byteChar b ∈ cs := by
  intro l
  induction l with
  | nil => intro _ _ _ _ _ _ _ hm; simp at hm
  | cons x rest ih =>
    intro need acc lo hi cs hlo hd hm
    unfold Utf8.decodeGo at hd
    simp only at hd
    split at hd
    · -- need = 0
      split at hd
      · rename_i c hcl
        cases hr : Utf8.decodeGo rest 0 0 0 0 with
        | none => rw [hr] at hd; simp at hd
        | some cs' =>
          rw [hr] at hd; simp at hd; subst hd
          rcases List.mem_cons.1 hm with rfl | hm'
          · rw [Utf8.classify_ascii _ hb] at hcl
            injection hcl with hcl
            subst hcl
            exact List.mem_cons_self
          · exact List.mem_cons_of_mem _ (ih 0 0 0 0 cs' (by simp) hr hm')
      · rename_i need' acc' lo' hi' hcl
        have hx : b ≠ x := by
          intro h; subst h; rw [Utf8.classify_ascii _ hb] at hcl; simp at hcl
        have hm' : b ∈ rest := by
          rcases List.mem_cons.1 hm with h | h
          · exact absurd h hx
          · exact h
        exact ih need' acc' lo' hi' cs (fun _ => (classify_lead_lo hcl).1) hd hm'
      · simp at hd
    · rename_i hneed
      have hneed' : need ≠ 0 := by simpa using hneed
      split at hd
      · rename_i hrange
        have hx : b ≠ x := by
          intro h; subst h
          have := hlo hneed'
          simp only [Bool.and_eq_true, decide_eq_true_eq] at hrange
          omega
        have hm' : b ∈ rest := by
          rcases List.mem_cons.1 hm with h | h
          · exact absurd h hx
          · exact h
        split at hd
        · cases hr : Utf8.decodeGo rest 0 0 0 0 with
          | none => rw [hr] at hd; simp at hd
          | some cs' =>
            rw [hr] at hd; simp at hd; subst hd
            exact List.mem_cons_of_mem _ (ih 0 0 0 0 cs' (by simp) hr hm')
        · exact ih _ _ _ _ cs (fun _ => by omega) hd hm'
      · simp at hd

theorem mem_dropWhile {α} (p : α → Bool) (c : α) (hc : p c = false) : ∀ l : List α, c ∈ l → c ∈ l.dropWhile p
  | [], h => by simp at h
  | a :: t, h => by
    by_cases hpa : p a = true
    · have hne : c ≠ a := by intro e; subst e; rw [hc] at hpa; simp at hpa
      have : c ∈ t := by
        rcases List.mem_cons.1 h with e | e
        · exact absurd e hne
        · exact e
      simp only [List.dropWhile, hpa]
      exact mem_dropWhile p c hc t this
    · have : p a = false := by simpa using hpa
      simp only [List.dropWhile, this]
      exact h

theorem mem_trim (c : Char) (hc : isWs c = false) (l : List Char) (h : c ∈ l) : c ∈ trim l := by
  unfold trim trimEnd trimStart
  apply List.mem_reverse.1
  rw [List.reverse_reverse]
  apply mem_dropWhile isWs c hc
  apply List.mem_reverse.2
  exact mem_dropWhile isWs c hc l h

/-- an ASCII byte that is neither a hex digit, nor white space, nor `+` -/
def badSizeByte (b : UInt8) : Bool :=
  b.toNat < 0x80 && !isHex (Utf8.byteChar b) && !isWs (Utf8.byteChar b) && b != 43

theorem parseHexUsize_bad (l : List Char) (c : Char) (hm : c ∈ l) (hp : c ≠ '+') (hh : isHex c = false) : parseHexUsize l = none := by
  have hs : c ∈ stripPlus l := by
    unfold stripPlus
    split
    · rename_i rest
      rcases List.mem_cons.1 hm with e | e
      · exact absurd e hp
      · exact e
    · exact hm
  unfold parseHexUsize
  simp only
  split
  · rfl
  · split
    · rename_i hall
      have := List.all_eq_true.1 hall c hs
      rw [hh] at this; simp at this
    · rfl

theorem sizeOfLine_bad (dev : Dev) (line : List UInt8) (b : UInt8) (hm : b ∈ sizeField dev line) (hb : badSizeByte b = true) :
    sizeOfLine dev line = none := by
  simp only [badSizeByte, Bool.and_eq_true, decide_eq_true_eq, Bool.not_eq_true', bne_iff_ne] at hb
  obtain ⟨⟨⟨h1, h2⟩, h3⟩, h4⟩ := hb
  unfold sizeOfLine
  cases hd : Utf8.decode (sizeField dev line) with
  | none => rfl
  | some cs =>
    simp only
    have hc := mem_decodeGo b h1 _ 0 0 0 0 cs (by simp) hd hm
    apply parseHexUsize_bad (trim cs) (Utf8.byteChar b) (mem_trim _ h3 cs hc) _ h2
    intro h
    apply h4
    have : (Utf8.byteChar b).toNat = 43 := by rw [h]; rfl
    rw [Utf8.toNat_byteChar b h1] at this
    exact UInt8.toNat_inj.1 (by rw [this]; rfl)

end IQE.Engine.Dechunk
