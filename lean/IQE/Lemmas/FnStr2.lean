/- IQE.Lemmas.FnStr2 — C36 lemmas: hamming distance is a metric, chr/codepoint, Luhn. -/
import IQE.Spec.Fn.Str
namespace IQE.Spec.Fn

-- hamming
theorem hammingGo_comm (a b : List Char) : hammingGo a b = hammingGo b a := by
  induction a generalizing b with
  | nil => cases b <;> simp [hammingGo]
  | cons x xs ih =>
    cases b with
    | nil => simp [hammingGo]
    | cons y ys => simp only [hammingGo]; rw [ih ys]; by_cases h : x = y <;> simp [h, eq_comm]
theorem hammingGo_self (a : List Char) : hammingGo a a = 0 := by
  induction a with
  | nil => rfl
  | cons x xs ih => simp [hammingGo, ih]
theorem hammingGo_eq_zero (a b : List Char) (hl : a.length = b.length) (h : hammingGo a b = 0) : a = b := by
  induction a generalizing b with
  | nil => cases b <;> simp_all
  | cons x xs ih =>
    cases b with
    | nil => simp at hl
    | cons y ys =>
      simp only [hammingGo] at h
      by_cases hxy : x = y
      · subst hxy; simp at h; rw [ih ys (by simpa using hl) h]
      · simp [hxy] at h
theorem hammingGo_triangle (a b c : List Char) (h1 : a.length = b.length) (h2 : b.length = c.length) :
    hammingGo a c ≤ hammingGo a b + hammingGo b c := by
  induction a generalizing b c with
  | nil => cases c <;> simp [hammingGo]
  | cons x xs ih =>
    cases b with
    | nil => simp at h1
    | cons y ys =>
      cases c with
      | nil => simp at h2
      | cons z zs =>
        simp only [hammingGo]
        have := ih ys zs (by simpa using h1) (by simpa using h2)
        by_cases hxz : x = z <;> by_cases hxy : x = y <;> by_cases hyz : y = z <;> simp [hxz, hxy, hyz] <;> first | omega | (subst_vars; contradiction)
theorem hammingGo_le (a b : List Char) : hammingGo a b ≤ a.length := by
  induction a generalizing b with
  | nil => simp [hammingGo]
  | cons x xs ih => cases b with
    | nil => simp [hammingGo]
    | cons y ys => simp only [hammingGo, List.length_cons]; have := ih ys; split <;> omega

-- chr / codepoint
theorem ofNat_toNat_valid (n : Nat) (h : n.isValidChar) : (Char.ofNat n).toNat = n := by
  unfold Char.ofNat; simp [h, Char.ofNatAux, Char.toNat]
theorem codepoint_chr (n : Int) (s : List Char) (h : chrS n = some s) : codepointS s = some n := by
  unfold chrS at h
  split at h
  · rename_i hv
    simp at h; subst h
    simp only [codepointS]
    have hv' : (0 ≤ n ∧ n < 0xD800) ∨ (0xE000 ≤ n ∧ n ≤ 0x10FFFF) := by
      unfold validCodePoint at hv
      simpa using hv
    have : n.toNat.isValidChar := by
      unfold Nat.isValidChar; omega
    rw [ofNat_toNat_valid _ this]; congr 1; omega
  · simp at h
theorem chr_codepoint (c : Char) : chrS (c.toNat : Int) = some [c] := by
  have hv := c.valid
  unfold chrS validCodePoint
  have h2 : (c.toNat : Int).toNat = c.toNat := by simp
  have hvalid : c.toNat.isValidChar := hv
  have : (0 ≤ (c.toNat : Int) ∧ (c.toNat : Int) < 0xD800) ∨ (0xE000 ≤ (c.toNat : Int) ∧ (c.toNat : Int) ≤ 0x10FFFF) := by
    unfold Nat.isValidChar at hvalid; omega
  have hd : ((decide (0 ≤ (c.toNat : Int)) && decide ((c.toNat : Int) < 0xD800)) || (decide (0xE000 ≤ (c.toNat : Int)) && decide ((c.toNat : Int) ≤ 0x10FFFF))) = true := by
    simpa using this
  rw [if_pos hd, h2, Char.ofNat_toNat]

-- luhn
theorem luhn_generated (body : List Nat) :
    luhnSum ((body ++ [luhnDigit body]).reverse) false % 10 = 0 := by
  simp only [List.reverse_append, List.reverse_cons, List.reverse_nil, List.nil_append, List.cons_append, luhnSum]
  unfold luhnDigit
  simp
  omega

theorem digit_char_facts : ∀ d : Fin 10, isDigitC (Char.ofNat (48 + d.val)) = true ∧ (Char.ofNat (48 + d.val)).toNat - 48 = d.val := by decide
theorem luhnDigit_lt (body : List Nat) : luhnDigit body < 10 := by unfold luhnDigit; omega
theorem luhnCheck_generated (body : List Nat) (hb : ∀ d ∈ body, d < 10) :
    luhnCheck ((body ++ [luhnDigit body]).map (fun d => Char.ofNat (48 + d))) = some true := by
  have hall : ∀ d ∈ body ++ [luhnDigit body], d < 10 := by
    intro d hd; simp only [List.mem_append, List.mem_singleton] at hd
    rcases hd with hd | hd
    · exact hb d hd
    · subst hd; exact luhnDigit_lt body
  generalize hl : body ++ [luhnDigit body] = l at hall
  have hne : l ≠ [] := by subst hl; simp
  have hdig : (l.map (fun d => Char.ofNat (48 + d))).all isDigitC = true := by
    simp only [List.all_map, List.all_eq_true]; intro d hd; exact (digit_char_facts ⟨d, hall d hd⟩).1
  have hback : (l.map (fun d => Char.ofNat (48 + d))).reverse.map (fun c => c.toNat - 48) = l.reverse := by
    rw [← List.map_reverse, List.map_map]
    conv => rhs; rw [← List.map_id l.reverse]
    apply List.map_congr_left
    intro d hd
    exact (digit_char_facts ⟨d, hall d (by simpa using hd)⟩).2
  unfold luhnCheck
  have he : (l.map (fun d => Char.ofNat (48 + d))).isEmpty = false := by cases l <;> simp_all
  simp only [he, hdig, Bool.not_true, Bool.or_self, Bool.false_eq_true, if_false, hback]
  subst hl
  rw [luhn_generated]; rfl
end IQE.Spec.Fn
