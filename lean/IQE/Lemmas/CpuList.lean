import IQE.Engine.CpuList
namespace IQE.Engine.CpuList

theorem mem_dedup (x : Nat) : ∀ l : List Nat, x ∈ dedup l ↔ x ∈ l := by
  intro l
  fun_induction dedup l with
  | case1 => simp
  | case2 a => simp
  | case3 a b rest h ih =>
    have : a = b := by simpa using h
    subst this
    rw [ih]; simp
  | case4 a b rest h ih =>
    simp only [List.mem_cons] at ih ⊢
    rw [ih]

theorem dedup_head_le (a : Nat) (l : List Nat) (h : ∀ y ∈ l, a ≤ y) : ∀ y ∈ dedup l, a ≤ y := by
  intro y hy; exact h y ((mem_dedup y l).1 hy)

theorem dedup_strict : ∀ l : List Nat, l.Pairwise (· ≤ ·) → (dedup l).Pairwise (· < ·) := by
  intro l
  fun_induction dedup l with
  | case1 => intro _; exact List.Pairwise.nil
  | case2 a => intro _; simp
  | case3 a b rest h ih =>
    intro hp
    exact ih (List.Pairwise.of_cons hp)
  | case4 a b rest h ih =>
    intro hp
    have hp' := List.Pairwise.of_cons hp
    have hrel : ∀ y ∈ b :: rest, a ≤ y := fun y hy => List.rel_of_pairwise_cons hp hy
    refine List.Pairwise.cons ?_ (ih hp')
    intro y hy
    have hy' : y ∈ b :: rest := (mem_dedup y _).1 hy
    have hab : a ≤ b := hrel b (List.mem_cons_self)
    have hne : a ≠ b := by simpa using h
    have hby : b ≤ y := by
      rcases List.mem_cons.1 hy' with rfl | hr
      · exact Nat.le_refl _
      · exact List.rel_of_pairwise_cons hp' hr
    omega

end IQE.Engine.CpuList
