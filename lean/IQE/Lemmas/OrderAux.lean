/-
  IQE.Lemmas.OrderAux — glue between `Spec.cmpKeys` on typed key-carrying rows and the lawful comparator
  `KeyOrder.leT`, and the Boolean acceptance helpers of `Spec.Acceptable`, used by Props C25 / C08 / C26.
-/
import IQE.Lemmas.SortModel
import IQE.Spec.Acceptable
namespace IQE.Lemmas.OrderAux
open IQE IQE.Spec IQE.Engine.SortLimit
open IQE.Lemmas.Sorting IQE.Lemmas.KeyOrder IQE.Lemmas.SortModel

/-- every key vector is typed by `tys` -/
def KeysTyped (tys : List Ty) (xs : List Keyed) : Prop := ∀ x ∈ xs, Typed tys x.1

/-- the lawful comparator on key-carrying rows -/
def leKT (flags : List (Bool × Bool)) (a b : Keyed) : Bool := leT flags a.1 b.1

theorem leKT_trans (flags : List (Bool × Bool)) : ∀ a b c : Keyed, leKT flags a b → leKT flags b c → leKT flags a c :=
  fun a b c => leT_trans flags a.1 b.1 c.1
theorem leKT_total (flags : List (Bool × Bool)) : ∀ a b : Keyed, (leKT flags a b || leKT flags b a) = true :=
  fun a b => leT_total flags a.1 b.1

theorem leKeyed_eq_leKT (fo : FloatOps) (flags : List (Bool × Bool)) (tys : List Ty) (hlen : flags.length ≤ tys.length)
    (a b : Keyed) (ha : Typed tys a.1) (hb : Typed tys b.1) : leKeyed fo flags a b = leKT flags a b := by
  simp only [leKeyed, leKT, leT, cmpKeys_eq_T fo flags tys a.1 b.1 hlen ha hb]

theorem sortKeyed_eq_T (fo : FloatOps) (flags : List (Bool × Bool)) (tys : List Ty) (xs : List Keyed)
    (hlen : flags.length ≤ tys.length) (ht : KeysTyped tys xs) :
    sortKeyed fo flags xs = xs.mergeSort (leKT flags) :=
  mergeSort_cmpKeys_eq fo flags tys (fun x : Keyed => x.1) xs hlen ht

theorem keysPointwiseEq_iff (fo : FloatOps) (flags : List (Bool × Bool)) (a b : List (List Val)) :
    keysPointwiseEq fo flags a b = true ↔
      a.length = b.length ∧ ∀ (i : Nat) (h₁ : i < a.length) (h₂ : i < b.length), cmpKeys fo flags a[i] b[i] = .eq := by
  induction a generalizing b with
  | nil => cases b <;> simp [keysPointwiseEq]
  | cons x xs ih =>
    cases b with
    | nil => simp [keysPointwiseEq]
    | cons y ys =>
      simp only [keysPointwiseEq, Bool.and_eq_true, beq_iff_eq, ih, List.length_cons, Nat.add_right_cancel_iff]
      constructor
      · rintro ⟨h0, hl, hr⟩
        refine ⟨hl, ?_⟩
        intro i h₁ h₂
        cases i with
        | zero => simpa using h0
        | succ j =>
          simp only [List.getElem_cons_succ]
          exact hr j (by simpa using h₁) (by simpa using h₂)
      · rintro ⟨hl, hr⟩
        refine ⟨by simpa using hr 0 (by simp) (by simp), hl, ?_⟩
        intro i h₁ h₂
        have := hr (i + 1) (by simpa using h₁) (by simpa using h₂)
        simpa only [List.getElem_cons_succ] using this

theorem mem_of_subBag : ∀ (a b : Table), subBag a b = true → ∀ r ∈ a, r ∈ b
  | [], _, _, r, hr => by cases hr
  | x :: xs, b, h, r, hr => by
    simp only [subBag, Bool.and_eq_true] at h
    rcases List.mem_cons.1 hr with rfl | hr'
    · simpa using h.1
    · have := mem_of_subBag xs (removeFirst x b) h.2 r hr'
      have hsub : ∀ (t : Table) (y : Row), y ∈ removeFirst x t → y ∈ t := by
        intro t
        induction t with
        | nil => intro y hy; simp [removeFirst] at hy
        | cons z zs ih =>
          intro y hy
          simp only [removeFirst] at hy
          split at hy
          · exact List.mem_cons_of_mem _ hy
          · rcases List.mem_cons.1 hy with rfl | hy'
            · exact List.mem_cons_self
            · exact List.mem_cons_of_mem _ (ih y hy')
      exact hsub b r this

end IQE.Lemmas.OrderAux
