/-
  IQE.Lemmas.Pruning — soundness of the range tables (`eval_range*`, `definite_table`, `flip_op`; hand copies proved equal to the translated ones in IQE.Props.C05)
  and of the hand model of the recursive pruning functions built on them (IQE.Engine.Pruning).
-/
import IQE.Engine.Pruning
import IQE.Lemmas.F64Order
namespace IQE.Engine.Pruning
open IQE

/-! ### integer tables -/

theorem eval_range_sound (op : BinaryOp) (val mn mx v : Int) (h1 : mn ≤ v) (h2 : v ≤ mx) (h : satI op v val = true) :
    eval_range op val mn mx = true := by
  cases op <;> simp_all [eval_range, evalRangeG, satI, Rs.Cmp.le, Rs.Cmp.lt, Rs.Cmp.eq, Rs.gt, Rs.ge] <;> omega

theorem eval_range_i32_sound (op : BinaryOp) (val mn mx v : Int) (h1 : mn ≤ v) (h2 : v ≤ mx) (h : satI op v val = true) :
    eval_range_i32 op val mn mx = true := by
  cases op <;> simp_all [eval_range_i32, evalRangeG, satI, Rs.Cmp.le, Rs.Cmp.lt, Rs.Cmp.eq, Rs.gt, Rs.ge] <;> omega

theorem definiteInt_sound (op : BinaryOp) (val mn mx v : Int) (h1 : mn ≤ v) (h2 : v ≤ mx) (h : definiteInt op mn mx val = true) :
    satI op v val = true := by
  cases op <;> simp_all [definiteInt, satI] <;> omega

theorem satI_flip (op : BinaryOp) (a b : Int) (hop : isCmpOp op = true) : satI (flip_op op) a b = satI op b a := by
  cases op <;> simp_all [flip_op, satI, isCmpOp] <;> omega

theorem isCmpOp_flip (op : BinaryOp) : isCmpOp (flip_op op) = isCmpOp op := by cases op <;> rfl

/-! ### float tables: IEEE on statistics, total order in the predicate -/

/-- an ordinary float: not NaN and not the negative zero (so that IEEE comparison and the total order agree on every pair) -/
def fOk (x : F64) : Prop := x.isNaN = false ∧ (x.isZero = true → x.signBit = false)

theorem keys_ok {a b : F64} (ha : fOk a) (hb : fOk b) :
    (a.ieeeKey < b.ieeeKey ↔ a.totalKey < b.totalKey) ∧ (a.ieeeKey = b.ieeeKey ↔ a.totalKey = b.totalKey) := by
  obtain ⟨_, za⟩ := ha
  obtain ⟨_, zb⟩ := hb
  simp only [F64.isZero, beq_iff_eq] at za zb
  have := F64.mag_lt a; have := F64.mag_lt b
  unfold F64.ieeeKey F64.totalKey
  cases ha' : a.signBit <;> cases hb' : b.signBit <;> simp_all <;> omega

/-- IEEE comparison of the statistics tables in terms of integer keys -/
theorem ieee_lt {a b : F64} (ha : a.isNaN = false) (hb : b.isNaN = false) : Rs.Cmp.lt a b = decide (a.ieeeKey < b.ieeeKey) := by
  simp [Rs.Cmp.lt, F64.lt, ha, hb]
theorem ieee_le {a b : F64} (ha : a.isNaN = false) (hb : b.isNaN = false) : Rs.Cmp.le a b = decide (a.ieeeKey ≤ b.ieeeKey) := by
  simp [Rs.Cmp.le, F64.le, ha, hb]
theorem ieee_eq {a b : F64} (ha : a.isNaN = false) (hb : b.isNaN = false) : Rs.Cmp.eq a b = decide (a.ieeeKey = b.ieeeKey) := by
  simp [Rs.Cmp.eq, F64.eq, ha, hb]

theorem eval_range_f64_sound (op : BinaryOp) (val mn mx v : F64) (hmn : mn.isNaN = false) (hmx : mx.isNaN = false)
    (hv : fOk v) (hval : fOk val) (h1 : F64.le mn v = true) (h2 : F64.le v mx = true) (h : satF op v val = true) :
    eval_range_f64 op val mn mx = true := by
  have hk := keys_ok hv hval
  have hk' := keys_ok hval hv
  simp only [F64.le, hmn, hmx, hv.1, Bool.not_false, Bool.true_and, decide_eq_true_eq] at h1 h2
  cases op <;> simp_all [eval_range_f64, evalRangeG, satF, satI, ieee_lt, ieee_le, ieee_eq, Rs.gt, Rs.ge, hval.1] <;> omega

theorem definite_table_sound (op : BinaryOp) (val mn mx v : F64) (hmn : mn.isNaN = false) (hmx : mx.isNaN = false)
    (hv : fOk v) (hval : fOk val) (h1 : F64.le mn v = true) (h2 : F64.le v mx = true) (h : definite_table op mn mx val = true) :
    satF op v val = true := by
  have hk := keys_ok hv hval
  have hk' := keys_ok hval hv
  simp only [F64.le, hmn, hmx, hv.1, Bool.not_false, Bool.true_and, decide_eq_true_eq] at h1 h2
  cases op <;> simp_all [definite_table, satF, satI, ieee_lt, ieee_le, ieee_eq, Rs.gt, Rs.ge, hval.1] <;> omega

theorem satF_flip (op : BinaryOp) (a b : F64) (hop : isCmpOp op = true) : satF (flip_op op) a b = satF op b a :=
  satI_flip op _ _ hop

/-! ### byte-string order (Rust `&str` comparison) -/

theorem u8_tri (a b : UInt8) : a < b ∨ a = b ∨ b < a := by
  rcases Nat.lt_trichotomy a.toNat b.toNat with h | h | h
  · exact Or.inl (UInt8.lt_iff_toNat_lt.mpr h)
  · exact Or.inr (Or.inl (UInt8.toNat_inj.mp h))
  · exact Or.inr (Or.inr (UInt8.lt_iff_toNat_lt.mpr h))

theorem u8_asymm {a b : UInt8} (h : a < b) : ¬ b < a := by
  rw [UInt8.lt_iff_toNat_lt] at *; omega

theorem u8_irrefl (a : UInt8) : ¬ a < a := by rw [UInt8.lt_iff_toNat_lt]; omega

theorem u8_trans {a b c : UInt8} (h1 : a < b) (h2 : b < c) : a < c := by
  rw [UInt8.lt_iff_toNat_lt] at *; omega

theorem bytesLt_cons (a b : UInt8) (as bs : List UInt8) :
    Rs.bytesLt (a :: as) (b :: bs) = if a < b then true else if b < a then false else Rs.bytesLt as bs := by
  simp [Rs.bytesLt, GT.gt]

theorem bytesLt_tri : ∀ (a b : List UInt8), Rs.bytesLt a b = true ∨ a = b ∨ Rs.bytesLt b a = true := by
  intro a
  induction a with
  | nil => intro b; cases b <;> simp [Rs.bytesLt]
  | cons x xs ih =>
    intro b
    cases b with
    | nil => simp [Rs.bytesLt]
    | cons y ys =>
      rw [bytesLt_cons, bytesLt_cons]
      rcases u8_tri x y with h | h | h
      · simp [h]
      · subst h
        simp only [u8_irrefl, if_false]
        rcases ih ys with h' | h' | h'
        · exact Or.inl h'
        · exact Or.inr (Or.inl (by rw [h']))
        · exact Or.inr (Or.inr h')
      · simp [h, u8_asymm h]

theorem bytesLt_asymm : ∀ (a b : List UInt8), Rs.bytesLt a b = true → Rs.bytesLt b a = false := by
  intro a
  induction a with
  | nil => intro b h; cases b <;> simp_all [Rs.bytesLt]
  | cons x xs ih =>
    intro b h
    cases b with
    | nil => simp [Rs.bytesLt] at h
    | cons y ys =>
      rw [bytesLt_cons] at h ⊢
      rcases u8_tri x y with hxy | hxy | hxy
      · simp [hxy, u8_asymm hxy]
      · subst hxy; simp only [u8_irrefl, if_false] at h ⊢; exact ih ys h
      · simp [hxy, u8_asymm hxy] at h

theorem bytesLt_trans : ∀ (a b c : List UInt8), Rs.bytesLt a b = true → Rs.bytesLt b c = true → Rs.bytesLt a c = true := by
  intro a
  induction a with
  | nil => intro b c h1 h2; cases b <;> cases c <;> simp_all [Rs.bytesLt]
  | cons x xs ih =>
    intro b c h1 h2
    cases b with
    | nil => simp [Rs.bytesLt] at h1
    | cons y ys =>
      cases c with
      | nil => simp [Rs.bytesLt] at h2
      | cons z zs =>
        rw [bytesLt_cons] at h1 h2 ⊢
        rcases u8_tri x y with hxy | hxy | hxy
        · rcases u8_tri y z with hyz | hyz | hyz
          · simp [u8_trans hxy hyz]
          · subst hyz; simp [hxy]
          · simp [hyz, u8_asymm hyz] at h2
        · subst hxy
          simp only [u8_irrefl, if_false] at h1
          rcases u8_tri x z with hyz | hyz | hyz
          · simp [hyz]
          · subst hyz; simp only [u8_irrefl, if_false] at h2 ⊢; exact ih ys zs h1 h2
          · simp [hyz, u8_asymm hyz] at h2
        · simp [hxy, u8_asymm hxy] at h1

theorem bytes_le_lt {a b c : List UInt8} (h1 : Rs.bytesLe a b = true) (h2 : Rs.bytesLt b c = true) : Rs.bytesLt a c = true := by
  simp only [Rs.bytesLe, Bool.not_eq_true'] at h1
  rcases bytesLt_tri a b with h | h | h
  · exact bytesLt_trans _ _ _ h h2
  · subst h; exact h2
  · rw [h] at h1; cases h1

theorem bytes_lt_le {a b c : List UInt8} (h1 : Rs.bytesLt a b = true) (h2 : Rs.bytesLe b c = true) : Rs.bytesLt a c = true := by
  simp only [Rs.bytesLe, Bool.not_eq_true'] at h2
  rcases bytesLt_tri b c with h | h | h
  · exact bytesLt_trans _ _ _ h1 h
  · subst h; exact h1
  · rw [h] at h2; cases h2

theorem bytes_le_trans {a b c : List UInt8} (h1 : Rs.bytesLe a b = true) (h2 : Rs.bytesLe b c = true) : Rs.bytesLe a c = true := by
  simp only [Rs.bytesLe, Bool.not_eq_true']
  cases h : Rs.bytesLt c a
  · rfl
  · have := bytes_lt_le h h1
    have h3 := bytesLt_asymm _ _ this
    simp only [Rs.bytesLe, Bool.not_eq_true'] at h2
    -- c < b and b ≤ c is impossible
    rw [this] at h2; cases h2

theorem bytes_le_antisymm {a b : List UInt8} (h1 : Rs.bytesLe a b = true) (h2 : Rs.bytesLe b a = true) : a = b := by
  simp only [Rs.bytesLe, Bool.not_eq_true'] at h1 h2
  rcases bytesLt_tri a b with h | h | h
  · rw [h] at h2; cases h2
  · exact h
  · rw [h] at h1; cases h1

theorem eval_range_str_sound (op : BinaryOp) (val mn mx v : Rs.Str) (h1 : Rs.bytesLe mn.utf8 v.utf8 = true) (h2 : Rs.bytesLe v.utf8 mx.utf8 = true)
    (h : satS op v val = true) : eval_range_str op val mn mx = true := by
  cases op <;> simp only [satS, eval_range_str, evalRangeG, Rs.Cmp.le, Rs.Cmp.lt, Rs.Cmp.eq, Rs.gt, Rs.ge, Bool.and_eq_true, decide_eq_true_eq] at h ⊢ <;> try trivial
  · subst h; exact ⟨h1, h2⟩
  · simp only [Bool.not_eq_true', Bool.and_eq_false_iff, decide_eq_false_iff_not, ne_eq]
    by_cases hm : mn = val
    · right; intro hx
      apply h
      rw [hm] at h1; rw [hx] at h2
      cases v; cases val
      simp only [Rs.Str.mk.injEq]
      exact bytes_le_antisymm h2 h1
    · exact Or.inl hm
  · exact bytes_le_lt h1 h
  · exact bytes_le_trans h1 h
  · exact bytes_lt_le h h2
  · exact bytes_le_trans h h2

/-! ### what statistics promise (`StatsOf`) and the float side conditions -/

def Stats.isInt : Stats → Bool
  | .int64 _ _ => true | .int32 _ _ => true | _ => false
def Stats.isDouble : Stats → Bool
  | .double _ _ => true | _ => false
def Stats.isBytes : Stats → Bool
  | .bytes _ _ => true | _ => false
/-- statistics of column `c` against the rows of its row group: min / max bound every non-NULL value under the column's order,
    `null_count = 0` is exact, and the cells have the statistics' physical type -/
structure ColOK (rows : List (List Cell)) (c : Nat) (cm : ColMeta) : Prop where
  nulls : cm.nullCount = some 0 → ∀ row ∈ rows, row.getD c .null ≠ .null
  ints : ∀ mn mx, cm.stats.intBounds = some (mn, mx) → ∀ row ∈ rows, ∀ v, row.getD c .null = .int v → mn ≤ v ∧ v ≤ mx
  doubles : ∀ mn mx, cm.stats = .double (some mn) (some mx) → mn.isNaN = false ∧ mx.isNaN = false ∧
      ∀ row ∈ rows, ∀ x, row.getD c .null = .f64 x → F64.le mn x = true ∧ F64.le x mx = true
  bytes : ∀ mn mx, cm.stats = .bytes (some (some mn)) (some (some mx)) →
      ∀ row ∈ rows, ∀ s, row.getD c .null = .str s → Rs.bytesLe mn.utf8 s.utf8 = true ∧ Rs.bytesLe s.utf8 mx.utf8 = true
  tyInt : cm.stats.isInt = true → ∀ row ∈ rows, row.getD c .null = .null ∨ ∃ v, row.getD c .null = .int v
  tyDouble : cm.stats.isDouble = true → ∀ row ∈ rows, row.getD c .null = .null ∨ ∃ x, row.getD c .null = .f64 x
  tyBytes : cm.stats.isBytes = true → ∀ row ∈ rows, row.getD c .null = .null ∨ ∃ s, row.getD c .null = .str s

def StatsOf (rows : List (List Cell)) (rg : Rg) : Prop := ∀ c cm, rg[c]? = some (some cm) → ColOK rows c cm

/-- the stated float hypothesis: no NaN and no negative zero among the cells (so IEEE statistics and total-order predicates agree),
    and `ofInt` (`as f64`) is monotone and produces ordinary floats -/
structure Tame (ofInt : Int → F64) (rows : List (List Cell)) : Prop where
  cells : ∀ row ∈ rows, ∀ c x, row.getD c .null = .f64 x → fOk x
  ofIntOk : ∀ n, fOk (ofInt n)
  mono : ∀ a b, a ≤ b → F64.le (ofInt a) (ofInt b) = true

def litOk (o : Opd) : Prop := ∀ x, o = .lit (.f64 x) → fOk x

def LitsOk : PE → Prop
  | .cmp _ l r => litOk l ∧ litOk r
  | .and a b => LitsOk a ∧ LitsOk b
  | .or a b => LitsOk a ∧ LitsOk b
  | .not e => LitsOk e
  | .between e lo hi _ => litOk e ∧ litOk lo ∧ litOk hi
  | .inList e items _ => litOk e ∧ ∀ i ∈ items, litOk i
  | .other => True

/-! ### comparisons -/

theorem satS_flip (op : BinaryOp) (a b : Rs.Str) (hop : isCmpOp op = true) : satS (flip_op op) a b = satS op b a := by
  cases op <;> simp_all [flip_op, satS, isCmpOp, eq_comm]

theorem cmpCells_flip (ofInt : Int → F64) (op : BinaryOp) (hop : isCmpOp op = true) (a b : Cell) :
    cmpCells ofInt (flip_op op) a b = cmpCells ofInt op b a := by
  cases a <;> cases b <;> simp [cmpCells, satI_flip _ _ _ hop, satF_flip _ _ _ hop, satS_flip _ _ _ hop]

theorem colLit_spec {l r : Opd} {c : Nat} {lit : Lit} {fl : Bool} (h : colLit l r = some (c, lit, fl)) :
    (l = .col c ∧ r = .lit lit ∧ fl = false) ∨ (l = .lit lit ∧ r = .col c ∧ fl = true) := by
  cases l <;> cases r <;> simp [colLit] at h
  · obtain ⟨rfl, rfl, rfl⟩ := h; exact Or.inl ⟨rfl, rfl, rfl⟩
  · obtain ⟨rfl, rfl, rfl⟩ := h; exact Or.inr ⟨rfl, rfl, rfl⟩

/-- the comparison as "column (effective op) literal" -/
theorem sem_colLit (ofInt : Int → F64) (oth : List Cell → Cell) (row : List Cell) {l r : Opd} {c : Nat} {lit : Lit} {fl : Bool}
    (h : colLit l r = some (c, lit, fl)) (op : BinaryOp) (hop : isCmpOp op = true) :
    cmpCells ofInt op (l.val oth row) (r.val oth row) = cmpCells ofInt (if fl then flip_op op else op) (row.getD c .null) lit.cell := by
  rcases colLit_spec h with ⟨rfl, rfl, rfl⟩ | ⟨rfl, rfl, rfl⟩
  · simp [Opd.val]
  · simp [Opd.val, cmpCells_flip ofInt op hop]

theorem litOk_colLit {l r : Opd} {c : Nat} {lit : Lit} {fl : Bool} (h : colLit l r = some (c, lit, fl)) (hl : litOk l) (hr : litOk r) :
    ∀ x, lit = .f64 x → fOk x := by
  intro x hx
  rcases colLit_spec h with ⟨_, rfl, _⟩ | ⟨rfl, _, _⟩
  · exact hr x (by rw [hx])
  · exact hl x (by rw [hx])

theorem tables_noncmp (dev : Dev) (st : Stats) (eop : BinaryOp) (he : isCmpOp eop = false) :
    (∀ v, checkI64 st eop v = true) ∧ (∀ v, checkI32 dev st eop v = true) ∧ (∀ v, checkF64 st eop v = true) ∧ (∀ v, checkUtf8 st eop v = true) := by
  refine ⟨fun v => ?_, fun v => ?_, fun v => ?_, fun v => ?_⟩
  · unfold checkI64; split <;> (try rfl) <;> cases eop <;> simp_all [isCmpOp, eval_range, evalRangeG]
  · unfold checkI32; split <;> (try rfl) <;> (try split) <;> cases eop <;> simp_all [isCmpOp, eval_range, eval_range_i32, evalRangeG]
  · unfold checkF64; split <;> (try rfl) <;> cases eop <;> simp_all [isCmpOp, eval_range_f64, evalRangeG]
  · unfold checkUtf8; split <;> (try rfl) <;> cases eop <;> simp_all [isCmpOp, eval_range_str, evalRangeG]

theorem checkComparison_noncmp (dev : Dev) (l r : Opd) (op : BinaryOp) (rg : Rg) (hop : isCmpOp op = false) :
    checkComparison dev l op r rg = true := by
  unfold checkComparison
  cases hcl : colLit l r with
  | none => rfl
  | some t =>
    obtain ⟨c, lit, fl⟩ := t
    simp only
    cases hrg : rg[c]? with
    | none => rfl
    | some o =>
      cases o with
      | none => rfl
      | some cm =>
        simp only
        have hf : isCmpOp (if fl = true then flip_op op else op) = false := by cases fl <;> simp [isCmpOp_flip, hop]
        obtain ⟨h1, h2, h3, h4⟩ := tables_noncmp dev cm.stats _ hf
        cases lit <;> simp [h1, h2, h3, h4]

theorem intBounds_spec {st : Stats} {mn mx : Int} (h : st.intBounds = some (mn, mx)) :
    (st = .int64 (some mn) (some mx) ∨ st = .int32 (some mn) (some mx)) ∧ st.isInt = true := by
  unfold Stats.intBounds at h
  split at h <;> simp at h <;> obtain ⟨rfl, rfl⟩ := h <;> simp [Stats.isInt]

/-- column-vs-literal, integer statistics -/
theorem int_case {ofInt : Int → F64} {rows : List (List Cell)} {c : Nat} {cm : ColMeta} (hc : ColOK rows c cm)
    {row : List Cell} (hrow : row ∈ rows) {mn mx : Int} (hb : cm.stats.intBounds = some (mn, mx)) {eop : BinaryOp} {v : Int}
    (h : cmpCells ofInt eop (row.getD c .null) (.int v) = some true) :
    ∃ a, row.getD c .null = .int a ∧ mn ≤ a ∧ a ≤ mx ∧ satI eop a v = true := by
  rcases hc.tyInt (intBounds_spec hb).2 row hrow with hn | ⟨a, ha⟩
  · rw [hn] at h; simp [cmpCells] at h
  · obtain ⟨h1, h2⟩ := hc.ints mn mx hb row hrow a ha
    rw [ha] at h
    exact ⟨a, ha, h1, h2, by simpa [cmpCells] using h⟩

/-- `check_comparison` is sound for the intended algorithm: a row on which `l op r` is TRUE keeps its row group -/
theorem checkComparison_sound (ofInt : Int → F64) (oth : List Cell → Cell) {rows : List (List Cell)} {rg : Rg}
    (hst : StatsOf rows rg) (ht : Tame ofInt rows) {row : List Cell} (hrow : row ∈ rows) (l r : Opd) (hl : litOk l) (hr : litOk r)
    (op : BinaryOp) (hop : isCmpOp op = true) (h : cmpCells ofInt op (l.val oth row) (r.val oth row) = some true) :
    checkComparison Dev.none l op r rg = true := by
  unfold checkComparison
  cases hcl : colLit l r with
  | none => rfl
  | some t =>
    obtain ⟨c, lit, fl⟩ := t
    simp only
    cases hrg : rg[c]? with
    | none => rfl
    | some o =>
      cases o with
      | none => rfl
      | some cm =>
        simp only
        have hc := hst c cm hrg
        rw [sem_colLit ofInt oth row hcl op hop] at h
        generalize (if fl = true then flip_op op else op) = eop at h ⊢
        have hlit := litOk_colLit hcl hl hr
        cases lit with
        | i64 v =>
          simp only [Lit.cell] at h
          simp only [checkI64]
          split <;> try rfl
          all_goals (
            rename_i mn mx hstats
            have hb : cm.stats.intBounds = some (mn, mx) := by rw [hstats]; rfl
            obtain ⟨a, _, h1, h2, hs⟩ := int_case hc hrow hb h
            exact eval_range_sound _ _ _ _ a h1 h2 hs)
        | ts v =>
          simp only [Lit.cell] at h
          simp only [checkI64]
          split <;> try rfl
          all_goals (
            rename_i mn mx hstats
            have hb : cm.stats.intBounds = some (mn, mx) := by rw [hstats]; rfl
            obtain ⟨a, _, h1, h2, hs⟩ := int_case hc hrow hb h
            exact eval_range_sound _ _ _ _ a h1 h2 hs)
        | i32 v =>
          simp only [Lit.cell] at h
          simp only [checkI32, Dev.none, Bool.false_eq_true, if_false]
          split <;> try rfl
          · rename_i mn mx hstats
            have hb : cm.stats.intBounds = some (mn, mx) := by rw [hstats]; rfl
            obtain ⟨a, _, h1, h2, hs⟩ := int_case hc hrow hb h
            exact eval_range_i32_sound _ _ _ _ a h1 h2 hs
          · rename_i mn mx hstats
            have hb : cm.stats.intBounds = some (mn, mx) := by rw [hstats]; rfl
            obtain ⟨a, _, h1, h2, hs⟩ := int_case hc hrow hb h
            exact eval_range_sound _ _ _ _ a h1 h2 hs
        | date v =>
          simp only [Lit.cell] at h
          simp only [checkI32, Dev.none, Bool.false_eq_true, if_false]
          split <;> try rfl
          · rename_i mn mx hstats
            have hb : cm.stats.intBounds = some (mn, mx) := by rw [hstats]; rfl
            obtain ⟨a, _, h1, h2, hs⟩ := int_case hc hrow hb h
            exact eval_range_i32_sound _ _ _ _ a h1 h2 hs
          · rename_i mn mx hstats
            have hb : cm.stats.intBounds = some (mn, mx) := by rw [hstats]; rfl
            obtain ⟨a, _, h1, h2, hs⟩ := int_case hc hrow hb h
            exact eval_range_sound _ _ _ _ a h1 h2 hs
        | f64 v =>
          simp only [Lit.cell] at h
          simp only [checkF64]
          split <;> try rfl
          rename_i mn mx hstats
          obtain ⟨hmn, hmx, hbnd⟩ := hc.doubles mn mx hstats
          rcases hc.tyDouble (by simp [Stats.isDouble, hstats]) row hrow with hn | ⟨x, hx⟩
          · rw [hn] at h; simp [cmpCells] at h
          · obtain ⟨h1, h2⟩ := hbnd row hrow x hx
            rw [hx] at h
            exact eval_range_f64_sound _ _ _ _ x hmn hmx (ht.cells row hrow c x hx) (hlit v rfl) h1 h2 (by simpa [cmpCells] using h)
        | str v =>
          simp only [Lit.cell] at h
          simp only [checkUtf8]
          split <;> try rfl
          rename_i mn mx hstats
          rcases hc.tyBytes (by simp [Stats.isBytes, hstats]) row hrow with hn | ⟨x, hx⟩
          · rw [hn] at h; simp [cmpCells] at h
          · obtain ⟨h1, h2⟩ := hc.bytes mn mx hstats row hrow x hx
            rw [hx] at h
            exact eval_range_str_sound _ _ _ _ x h1 h2 (by simpa [cmpCells] using h)
        | other => rfl

/-! ### `definite_comparison` -/

theorem definiteInt_cmp {op : BinaryOp} {mn mx v : Int} (h : definiteInt op mn mx v = true) : isCmpOp op = true := by
  cases op <;> simp_all [definiteInt, isCmpOp]
theorem definite_table_cmp {op : BinaryOp} {mn mx v : F64} (h : definite_table op mn mx v = true) : isCmpOp op = true := by
  cases op <;> simp_all [definite_table, isCmpOp]

theorem floatBounds_spec {ofInt : Int → F64} {st : Stats} {mn mx : F64} (h : st.floatBounds ofInt = some (mn, mx)) :
    (∃ a b, st.intBounds = some (a, b) ∧ mn = ofInt a ∧ mx = ofInt b) ∨ st = .double (some mn) (some mx) := by
  unfold Stats.floatBounds at h
  split at h <;> simp at h
  · obtain ⟨rfl, rfl⟩ := h; exact Or.inl ⟨_, _, rfl, rfl, rfl⟩
  · obtain ⟨rfl, rfl⟩ := h; exact Or.inl ⟨_, _, rfl, rfl, rfl⟩
  · obtain ⟨rfl, rfl⟩ := h; exact Or.inr rfl

theorem float?_spec {ofInt : Int → F64} {lit : Lit} {v : F64} (h : lit.float? ofInt = some v) :
    (∃ n, lit.int? = some n ∧ lit.cell = .int n ∧ v = ofInt n) ∨ lit = .f64 v := by
  cases lit <;> simp [Lit.float?] at h <;> subst h <;> simp [Lit.int?, Lit.cell]

theorem int?_cell {lit : Lit} {n : Int} (h : lit.int? = some n) : lit.cell = .int n := by
  cases lit <;> simp [Lit.int?] at h <;> subst h <;> rfl

/-- the tail of `definite_comparison`, intended algorithm: if it says yes, `cell eop literal` is TRUE for every non-NULL cell -/
theorem definiteCore_sound (ofInt : Int → F64) {rows : List (List Cell)} {c : Nat} {cm : ColMeta} (hc : ColOK rows c cm) (ht : Tame ofInt rows)
    (lit : Lit) (hlit : ∀ x, lit = .f64 x → fOk x) (eop : BinaryOp) (h : definiteCore Dev.none ofInt cm.stats lit eop = true)
    {row : List Cell} (hrow : row ∈ rows) (hnn : row.getD c .null ≠ .null) :
    isCmpOp eop = true ∧ cmpCells ofInt eop (row.getD c .null) lit.cell = some true := by
  unfold definiteCore at h
  split at h
  · rename_i mn mx v hib hil
    simp only [Dev.none, Bool.false_eq_true, if_false] at h
    refine ⟨definiteInt_cmp h, ?_⟩
    rcases hc.tyInt (intBounds_spec hib).2 row hrow with hn | ⟨a, ha⟩
    · exact absurd hn hnn
    · obtain ⟨h1, h2⟩ := hc.ints mn mx hib row hrow a ha
      rw [ha, int?_cell hil]
      simp [cmpCells, definiteInt_sound _ _ _ _ a h1 h2 h]
  · split at h
    · rename_i _ _ hno _ _ mn mx v hfb hfl
      refine ⟨definite_table_cmp h, ?_⟩
      rcases floatBounds_spec hfb with ⟨a, b, hib, rfl, rfl⟩ | hst
      · -- integer statistics, so the literal is a float (an integer literal was handled above)
        rcases float?_spec hfl with ⟨n, hn, _, _⟩ | rfl
        · exact absurd hn (fun hh => hno a b n hib hh)
        · rcases hc.tyInt (intBounds_spec hib).2 row hrow with hn | ⟨x, hx⟩
          · exact absurd hn hnn
          · obtain ⟨h1, h2⟩ := hc.ints a b hib row hrow x hx
            rw [hx]
            simp only [Lit.cell, cmpCells, Option.some.injEq]
            exact definite_table_sound _ _ _ _ (ofInt x) (ht.ofIntOk a).1 (ht.ofIntOk b).1 (ht.ofIntOk x) (hlit v rfl)
              (ht.mono _ _ h1) (ht.mono _ _ h2) h
      · obtain ⟨hmn, hmx, hbnd⟩ := hc.doubles mn mx hst
        rcases hc.tyDouble (by simp [Stats.isDouble, hst]) row hrow with hn | ⟨x, hx⟩
        · exact absurd hn hnn
        · obtain ⟨h1, h2⟩ := hbnd row hrow x hx
          rw [hx]
          rcases float?_spec hfl with ⟨n, _, hcell, rfl⟩ | rfl
          · rw [hcell]
            simp only [cmpCells, Option.some.injEq]
            exact definite_table_sound _ _ _ _ x hmn hmx (ht.cells row hrow c x hx) (ht.ofIntOk n) h1 h2 h
          · simp only [Lit.cell, cmpCells, Option.some.injEq]
            exact definite_table_sound _ _ _ _ x hmn hmx (ht.cells row hrow c x hx) (hlit v rfl) h1 h2 h
    · cases h

/-- `definite_comparison` is sound for the intended algorithm -/
theorem definiteComparison_sound (ofInt : Int → F64) (oth : List Cell → Cell) {rows : List (List Cell)} {rg : Rg}
    (hst : StatsOf rows rg) (ht : Tame ofInt rows) (l r : Opd) (hl : litOk l) (hr : litOk r) (op : BinaryOp)
    (h : definiteComparison Dev.none ofInt l op r rg = true) :
    isCmpOp op = true ∧ ∀ row ∈ rows, cmpCells ofInt op (l.val oth row) (r.val oth row) = some true := by
  unfold definiteComparison at h
  cases hcl : colLit l r with
  | none => simp [hcl] at h
  | some t =>
    obtain ⟨c, lit, fl⟩ := t
    simp only [hcl] at h
    cases hrg : rg[c]? with
    | none => simp [hrg] at h
    | some o =>
      cases o with
      | none => simp [hrg] at h
      | some cm =>
        simp only [hrg] at h
        split at h
        · cases h
        · rename_i hnc
          have hn0 : cm.nullCount = some 0 := by simpa using hnc
          have hc := hst c cm hrg
          have hlit := litOk_colLit hcl hl hr
          have hop : isCmpOp op = true := by
            cases hrows : rows with
            | nil =>
              -- no rows: read the operator off the table
              unfold definiteCore at h
              split at h
              · simp only [Dev.none, Bool.false_eq_true, if_false] at h
                have := definiteInt_cmp h
                cases fl <;> simp_all [isCmpOp_flip]
              · split at h
                · have := definite_table_cmp h
                  cases fl <;> simp_all [isCmpOp_flip]
                · cases h
            | cons row rest =>
              have hrow : row ∈ rows := by rw [hrows]; exact List.mem_cons_self ..
              have := (definiteCore_sound ofInt hc ht lit hlit _ h hrow (hc.nulls hn0 row hrow)).1
              cases fl <;> simp_all [isCmpOp_flip]
          refine ⟨hop, fun row hrow => ?_⟩
          rw [sem_colLit ofInt oth row hcl op hop]
          exact (definiteCore_sound ofInt hc ht lit hlit _ h hrow (hc.nulls hn0 row hrow)).2

/-! ### the recursive functions -/

theorem and3o_true {a b : Option Bool} : and3o a b = some true ↔ a = some true ∧ b = some true := by
  cases a <;> cases b <;> (try rename_i x; cases x) <;> (try rename_i y; cases y) <;> simp [and3o]
theorem or3o_true {a b : Option Bool} : or3o a b = some true ↔ a = some true ∨ b = some true := by
  cases a <;> cases b <;> (try rename_i x; cases x) <;> (try rename_i y; cases y) <;> simp [or3o]
theorem not3o_true {a : Option Bool} : not3o a = some true ↔ a = some false := by
  cases a <;> (try rename_i x; cases x) <;> simp [not3o]

section
variable (ofInt : Int → F64) (oth : List Cell → Cell) (othP : List Cell → Option Bool)

/-- `row_group_definitely_matches` (intended algorithm) says yes only if the predicate is TRUE on every row -/
theorem definitely_sound {rows : List (List Cell)} {rg : Rg} (hst : StatsOf rows rg) (ht : Tame ofInt rows) :
    ∀ (e : PE), LitsOk e → definitelyMatches Dev.none ofInt rg e = true → ∀ row ∈ rows, sem ofInt oth othP row e = some true := by
  intro e
  induction e with
  | cmp op l r =>
    intro hl h row hrow
    simp only [definitelyMatches] at h
    obtain ⟨hop, hall⟩ := definiteComparison_sound ofInt oth hst ht l r hl.1 hl.2 op h
    simp only [sem, hop, if_true]; exact hall row hrow
  | and a b iha ihb =>
    intro hl h row hrow
    simp only [definitelyMatches, Bool.and_eq_true] at h
    simp only [sem, and3o_true]
    exact ⟨iha hl.1 h.1 row hrow, ihb hl.2 h.2 row hrow⟩
  | or a b iha ihb =>
    intro hl h row hrow
    simp only [definitelyMatches, Bool.or_eq_true] at h
    simp only [sem, or3o_true]
    rcases h with h | h
    · exact Or.inl (iha hl.1 h row hrow)
    · exact Or.inr (ihb hl.2 h row hrow)
  | not e _ => intro _ h; simp [definitelyMatches] at h
  | between e lo hi neg =>
    intro hl h row hrow
    cases neg
    · simp only [definitelyMatches, Bool.and_eq_true] at h
      obtain ⟨_, h1⟩ := definiteComparison_sound ofInt oth hst ht e lo hl.1 hl.2.1 _ h.1
      obtain ⟨_, h2⟩ := definiteComparison_sound ofInt oth hst ht e hi hl.1 hl.2.2 _ h.2
      simp only [sem, Bool.false_eq_true, if_false, and3o_true]
      exact ⟨h1 row hrow, h2 row hrow⟩
    · simp [definitelyMatches] at h
  | inList e items neg => intro _ h; simp [definitelyMatches] at h
  | other => intro _ h; simp [definitelyMatches] at h

theorem inSem_true {x : Cell} : ∀ {vs : List Cell}, inSem ofInt x vs = some true → ∃ v ∈ vs, cmpCells ofInt .Eq x v = some true := by
  intro vs
  induction vs with
  | nil => intro h; simp [inSem] at h
  | cons v vs ih =>
    intro h
    simp only [inSem, or3o_true] at h
    rcases h with h | h
    · exact ⟨v, List.mem_cons_self .., h⟩
    · obtain ⟨w, hw, hc⟩ := ih h
      exact ⟨w, List.mem_cons_of_mem _ hw, hc⟩

/-- `row_group_might_match` (intended algorithm) never says no for a row group that holds a row on which the predicate is TRUE -/
theorem might_sound {rows : List (List Cell)} {rg : Rg} (hst : StatsOf rows rg) (ht : Tame ofInt rows) :
    ∀ (e : PE), LitsOk e → (∃ row ∈ rows, sem ofInt oth othP row e = some true) → mightMatch Dev.none ofInt rg e = true := by
  intro e
  induction e with
  | cmp op l r =>
    intro hl ⟨row, hrow, h⟩
    simp only [mightMatch]
    cases hop : isCmpOp op
    · exact checkComparison_noncmp _ _ _ _ _ hop
    · simp only [sem, hop, if_true] at h
      exact checkComparison_sound ofInt oth hst ht hrow l r hl.1 hl.2 op hop h
  | and a b iha ihb =>
    intro hl ⟨row, hrow, h⟩
    simp only [sem, and3o_true] at h
    simp only [mightMatch, Bool.and_eq_true]
    exact ⟨iha hl.1 ⟨row, hrow, h.1⟩, ihb hl.2 ⟨row, hrow, h.2⟩⟩
  | or a b iha ihb =>
    intro hl ⟨row, hrow, h⟩
    simp only [sem, or3o_true] at h
    simp only [mightMatch, Bool.or_eq_true]
    rcases h with h | h
    · exact Or.inl (iha hl.1 ⟨row, hrow, h⟩)
    · exact Or.inr (ihb hl.2 ⟨row, hrow, h⟩)
  | not e _ =>
    intro hl ⟨row, hrow, h⟩
    simp only [sem, not3o_true] at h
    simp only [mightMatch, Bool.not_eq_true']
    cases hd : definitelyMatches Dev.none ofInt rg e
    · rfl
    · have := definitely_sound ofInt oth othP hst ht e hl hd row hrow
      rw [h] at this; cases this
  | between e lo hi neg =>
    intro hl ⟨row, hrow, h⟩
    cases neg
    · simp only [sem, Bool.false_eq_true, if_false, and3o_true] at h
      simp only [mightMatch, Bool.false_eq_true, if_false, Bool.and_eq_true]
      exact ⟨checkComparison_sound ofInt oth hst ht hrow e lo hl.1 hl.2.1 _ rfl h.1,
             checkComparison_sound ofInt oth hst ht hrow e hi hl.1 hl.2.2 _ rfl h.2⟩
    · simp [mightMatch]
  | inList e items neg =>
    intro hl ⟨row, hrow, h⟩
    cases neg
    · simp only [sem, Bool.false_eq_true, if_false] at h
      obtain ⟨v, hv, hc⟩ := inSem_true ofInt h
      obtain ⟨it, hit, rfl⟩ := List.mem_map.mp hv
      simp only [mightMatch, Bool.false_eq_true, if_false, List.any_eq_true]
      exact ⟨it, hit, checkComparison_sound ofInt oth hst ht hrow e it hl.1 (hl.2 it hit) _ rfl hc⟩
    · simp [mightMatch]
  | other => intro _ _; rfl

/-- the row filter on a predicate: rows on which it is TRUE -/
def keepRows (e : PE) (rows : List (List Cell)) : List (List Cell) :=
  rows.filter (fun row => sem ofInt oth othP row e == some true)

/-- pruning never changes the filtered answer: the row groups `prune_row_groups` drops contribute no row -/
theorem prune_invariant (e : PE) (hl : LitsOk e) : ∀ (data : List (Rg × List (List Cell))),
    (∀ d ∈ data, StatsOf d.2 d.1 ∧ Tame ofInt d.2) →
    (data.filter (fun d => mightMatch Dev.none ofInt d.1 e)).flatMap (fun d => keepRows ofInt oth othP e d.2)
      = data.flatMap (fun d => keepRows ofInt oth othP e d.2) := by
  intro data
  induction data with
  | nil => intro _; rfl
  | cons d ds ih =>
    intro h
    have ihd := ih (fun x hx => h x (List.mem_cons_of_mem _ hx))
    obtain ⟨hst, ht⟩ := h d (List.mem_cons_self ..)
    simp only [List.filter_cons, List.flatMap_cons]
    cases hm : mightMatch Dev.none ofInt d.1 e
    · -- pruned: it had no matching row
      have hempty : keepRows ofInt oth othP e d.2 = [] := by
        simp only [keepRows, List.filter_eq_nil_iff, beq_iff_eq]
        intro row hrow hsem
        have := might_sound ofInt oth othP hst ht e hl ⟨row, hrow, hsem⟩
        rw [hm] at this; cases this
      simp [hempty, ihd]
    · simp [ihd]

/-- dropping the row filter for a "definitely matching" row group keeps exactly its rows -/
theorem definite_keeps_all {rows : List (List Cell)} {rg : Rg} (hst : StatsOf rows rg) (ht : Tame ofInt rows) (e : PE) (hl : LitsOk e)
    (h : definitelyMatches Dev.none ofInt rg e = true) : keepRows ofInt oth othP e rows = rows := by
  simp only [keepRows, List.filter_eq_self, beq_iff_eq]
  exact fun row hrow => definitely_sound ofInt oth othP hst ht e hl h row hrow
end

end IQE.Engine.Pruning
