/-
  IQE.Lemmas.Pruning — soundness of the TRANSLATED range tables (`Gen.Pruning.eval_range*`, `definite_table`, `flip_op`)
  and of the hand model of the recursive pruning functions built on them (IQE.Engine.Pruning).
-/
import IQE.Engine.Pruning
import IQE.Lemmas.F64Order
namespace IQE.Engine.Pruning
open IQE
open IQE.Gen.Pruning (BinaryOp flip_op eval_range eval_range_i32 eval_range_f64 eval_range_str definite_table)

/-! ### integer tables -/

theorem eval_range_sound (op : BinaryOp) (val mn mx v : Int) (h1 : mn ≤ v) (h2 : v ≤ mx) (h : satI op v val = true) :
    eval_range op val mn mx = true := by
  cases op <;> simp_all [eval_range, satI, Rs.Cmp.le, Rs.Cmp.lt, Rs.Cmp.eq, Rs.gt, Rs.ge] <;> omega

theorem eval_range_i32_sound (op : BinaryOp) (val mn mx v : Int) (h1 : mn ≤ v) (h2 : v ≤ mx) (h : satI op v val = true) :
    eval_range_i32 op val mn mx = true := by
  cases op <;> simp_all [eval_range_i32, satI, Rs.Cmp.le, Rs.Cmp.lt, Rs.Cmp.eq, Rs.gt, Rs.ge] <;> omega

theorem definiteInt_sound (op : BinaryOp) (val mn mx v : Int) (h1 : mn ≤ v) (h2 : v ≤ mx) (h : definiteInt op mn mx val = true) :
    satI op v val = true := by
  cases op <;> simp_all [definiteInt, satI] <;> omega

theorem satI_flip (op : BinaryOp) (a b : Int) (hop : isCmpOp op = true) : satI (flip_op op) a b = satI op b a := by
  cases op <;> simp_all [flip_op, satI, isCmpOp] <;> omega

theorem isCmpOp_flip (op : BinaryOp) : isCmpOp (flip_op op) = isCmpOp op := by cases op <;> rfl

/-! ### float tables: IEEE on statistics, total order in the predicate -/

/-- an ordinary float: not NaN and not the negative zero (so that IEEE comparison and the total order agree on every pair) -/
def fOk (x : F64) : Prop := x.isNaN = false ∧ (x.isZero = true → x.signBit = false)

theorem keys_ok {a b : F64} (ha : fOk a) (hb : fOk b) :
    (a.ieeeKey < b.ieeeKey ↔ a.totalKey < b.totalKey) ∧ (a.ieeeKey = b.ieeeKey ↔ a.totalKey = b.totalKey) := by
  obtain ⟨_, za⟩ := ha
  obtain ⟨_, zb⟩ := hb
  simp only [F64.isZero, beq_iff_eq] at za zb
  have := F64.mag_lt a; have := F64.mag_lt b
  unfold F64.ieeeKey F64.totalKey
  cases ha' : a.signBit <;> cases hb' : b.signBit <;> simp_all <;> omega

/-- IEEE comparison of the statistics tables in terms of integer keys -/
theorem ieee_lt {a b : F64} (ha : a.isNaN = false) (hb : b.isNaN = false) : Rs.Cmp.lt a b = decide (a.ieeeKey < b.ieeeKey) := by
  simp [Rs.Cmp.lt, F64.lt, ha, hb]
theorem ieee_le {a b : F64} (ha : a.isNaN = false) (hb : b.isNaN = false) : Rs.Cmp.le a b = decide (a.ieeeKey ≤ b.ieeeKey) := by
  simp [Rs.Cmp.le, F64.le, ha, hb]
theorem ieee_eq {a b : F64} (ha : a.isNaN = false) (hb : b.isNaN = false) : Rs.Cmp.eq a b = decide (a.ieeeKey = b.ieeeKey) := by
  simp [Rs.Cmp.eq, F64.eq, ha, hb]

theorem eval_range_f64_sound (op : BinaryOp) (val mn mx v : F64) (hmn : mn.isNaN = false) (hmx : mx.isNaN = false)
    (hv : fOk v) (hval : fOk val) (h1 : F64.le mn v = true) (h2 : F64.le v mx = true) (h : satF op v val = true) :
    eval_range_f64 op val mn mx = true := by
  have hk := keys_ok hv hval
  have hk' := keys_ok hval hv
  simp only [F64.le, hmn, hmx, hv.1, Bool.not_false, Bool.true_and, decide_eq_true_eq] at h1 h2
  cases op <;> simp_all [eval_range_f64, satF, satI, ieee_lt, ieee_le, ieee_eq, Rs.gt, Rs.ge, hval.1] <;> omega

theorem definite_table_sound (op : BinaryOp) (val mn mx v : F64) (hmn : mn.isNaN = false) (hmx : mx.isNaN = false)
    (hv : fOk v) (hval : fOk val) (h1 : F64.le mn v = true) (h2 : F64.le v mx = true) (h : definite_table op mn mx val = true) :
    satF op v val = true := by
  have hk := keys_ok hv hval
  have hk' := keys_ok hval hv
  simp only [F64.le, hmn, hmx, hv.1, Bool.not_false, Bool.true_and, decide_eq_true_eq] at h1 h2
  cases op <;> simp_all [definite_table, satF, satI, ieee_lt, ieee_le, ieee_eq, Rs.gt, Rs.ge, hval.1] <;> omega

theorem satF_flip (op : BinaryOp) (a b : F64) (hop : isCmpOp op = true) : satF (flip_op op) a b = satF op b a :=
  satI_flip op _ _ hop

/-! ### byte-string order (Rust `&str` comparison) -/

theorem u8_tri (a b : UInt8) : a < b ∨ a = b ∨ b < a := by
  rcases Nat.lt_trichotomy a.toNat b.toNat with h | h | h
  · exact Or.inl (UInt8.lt_iff_toNat_lt.mpr h)
  · exact Or.inr (Or.inl (UInt8.toNat_inj.mp h))
  · exact Or.inr (Or.inr (UInt8.lt_iff_toNat_lt.mpr h))

theorem u8_asymm {a b : UInt8} (h : a < b) : ¬ b < a := by
  rw [UInt8.lt_iff_toNat_lt] at *; omega

theorem u8_irrefl (a : UInt8) : ¬ a < a := by rw [UInt8.lt_iff_toNat_lt]; omega

theorem u8_trans {a b c : UInt8} (h1 : a < b) (h2 : b < c) : a < c := by
  rw [UInt8.lt_iff_toNat_lt] at *; omega

theorem bytesLt_cons (a b : UInt8) (as bs : List UInt8) :
    Rs.bytesLt (a :: as) (b :: bs) = if a < b then true else if b < a then false else Rs.bytesLt as bs := by
  simp [Rs.bytesLt, GT.gt]

theorem bytesLt_tri : ∀ (a b : List UInt8), Rs.bytesLt a b = true ∨ a = b ∨ Rs.bytesLt b a = true := by
  intro a
  induction a with
  | nil => intro b; cases b <;> simp [Rs.bytesLt]
  | cons x xs ih =>
    intro b
    cases b with
    | nil => simp [Rs.bytesLt]
    | cons y ys =>
      rw [bytesLt_cons, bytesLt_cons]
      rcases u8_tri x y with h | h | h
      · simp [h]
      · subst h
        simp only [u8_irrefl, if_false]
        rcases ih ys with h' | h' | h'
        · exact Or.inl h'
        · exact Or.inr (Or.inl (by rw [h']))
        · exact Or.inr (Or.inr h')
      · simp [h, u8_asymm h]

theorem bytesLt_asymm : ∀ (a b : List UInt8), Rs.bytesLt a b = true → Rs.bytesLt b a = false := by
  intro a
  induction a with
  | nil => intro b h; cases b <;> simp_all [Rs.bytesLt]
  | cons x xs ih =>
    intro b h
    cases b with
    | nil => simp [Rs.bytesLt] at h
    | cons y ys =>
      rw [bytesLt_cons] at h ⊢
      rcases u8_tri x y with hxy | hxy | hxy
      · simp [hxy, u8_asymm hxy]
      · subst hxy; simp only [u8_irrefl, if_false] at h ⊢; exact ih ys h
      · simp [hxy, u8_asymm hxy] at h

theorem bytesLt_trans : ∀ (a b c : List UInt8), Rs.bytesLt a b = true → Rs.bytesLt b c = true → Rs.bytesLt a c = true := by
  intro a
  induction a with
  | nil => intro b c h1 h2; cases b <;> cases c <;> simp_all [Rs.bytesLt]
  | cons x xs ih =>
    intro b c h1 h2
    cases b with
    | nil => simp [Rs.bytesLt] at h1
    | cons y ys =>
      cases c with
      | nil => simp [Rs.bytesLt] at h2
      | cons z zs =>
        rw [bytesLt_cons] at h1 h2 ⊢
        rcases u8_tri x y with hxy | hxy | hxy
        · rcases u8_tri y z with hyz | hyz | hyz
          · simp [u8_trans hxy hyz]
          · subst hyz; simp [hxy]
          · simp [hyz, u8_asymm hyz] at h2
        · subst hxy
          simp only [u8_irrefl, if_false] at h1
          rcases u8_tri x z with hyz | hyz | hyz
          · simp [hyz]
          · subst hyz; simp only [u8_irrefl, if_false] at h2 ⊢; exact ih ys zs h1 h2
          · simp [hyz, u8_asymm hyz] at h2
        · simp [hxy, u8_asymm hxy] at h1

theorem bytes_le_lt {a b c : List UInt8} (h1 : Rs.bytesLe a b = true) (h2 : Rs.bytesLt b c = true) : Rs.bytesLt a c = true := by
  simp only [Rs.bytesLe, Bool.not_eq_true'] at h1
  rcases bytesLt_tri a b with h | h | h
  · exact bytesLt_trans _ _ _ h h2
  · subst h; exact h2
  · rw [h] at h1; cases h1

theorem bytes_lt_le {a b c : List UInt8} (h1 : Rs.bytesLt a b = true) (h2 : Rs.bytesLe b c = true) : Rs.bytesLt a c = true := by
  simp only [Rs.bytesLe, Bool.not_eq_true'] at h2
  rcases bytesLt_tri b c with h | h | h
  · exact bytesLt_trans _ _ _ h1 h
  · subst h; exact h1
  · rw [h] at h2; cases h2

theorem bytes_le_trans {a b c : List UInt8} (h1 : Rs.bytesLe a b = true) (h2 : Rs.bytesLe b c = true) : Rs.bytesLe a c = true := by
  simp only [Rs.bytesLe, Bool.not_eq_true']
  cases h : Rs.bytesLt c a
  · rfl
  · have := bytes_lt_le h h1
    have h3 := bytesLt_asymm _ _ this
    simp only [Rs.bytesLe, Bool.not_eq_true'] at h2
    -- c < b and b ≤ c is impossible
    rw [this] at h2; cases h2

theorem bytes_le_antisymm {a b : List UInt8} (h1 : Rs.bytesLe a b = true) (h2 : Rs.bytesLe b a = true) : a = b := by
  simp only [Rs.bytesLe, Bool.not_eq_true'] at h1 h2
  rcases bytesLt_tri a b with h | h | h
  · rw [h] at h2; cases h2
  · exact h
  · rw [h] at h1; cases h1

theorem eval_range_str_sound (op : BinaryOp) (val mn mx v : Rs.Str) (h1 : Rs.bytesLe mn.utf8 v.utf8 = true) (h2 : Rs.bytesLe v.utf8 mx.utf8 = true)
    (h : satS op v val = true) : eval_range_str op val mn mx = true := by
  cases op <;> simp only [satS, eval_range_str, Rs.Cmp.le, Rs.Cmp.lt, Rs.Cmp.eq, Rs.gt, Rs.ge, Bool.and_eq_true, decide_eq_true_eq] at h ⊢ <;> try trivial
  · subst h; exact ⟨h1, h2⟩
  · simp only [Bool.not_eq_true', Bool.and_eq_false_iff, decide_eq_false_iff_not, ne_eq]
    by_cases hm : mn = val
    · right; intro hx
      apply h
      rw [hm] at h1; rw [hx] at h2
      cases v; cases val
      simp only [Rs.Str.mk.injEq]
      exact bytes_le_antisymm h2 h1
    · exact Or.inl hm
  · exact bytes_le_lt h1 h
  · exact bytes_le_trans h1 h
  · exact bytes_lt_le h h2
  · exact bytes_le_trans h h2

end IQE.Engine.Pruning
