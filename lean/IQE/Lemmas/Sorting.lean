/-
  IQE.Lemmas.Sorting — order lemmas shared by C25 / C26 / C08, for ANY total preorder given as a Boolean
  comparison `le` (hypotheses `trans`, `total`, exactly the ones of core's `List.pairwise_mergeSort`):

  * two sorted permutations of the same list agree position by position up to `le`-equivalence
    (`sorted_perm_pointwise`) — SQL's "the order is determined up to ties";
  * stable insertion, `foldr insert = mergeSort`, bounded top-k buffer = `take k ∘ mergeSort`;
  * selecting any k smallest elements and sorting them = the first k of the full sort, up to ties.
-/
namespace IQE.Lemmas.Sorting
open List

variable {α : Type}

/-- `a` and `b` are tied under `le` -/
def Tied (le : α → α → Bool) (a b : α) : Prop := le a b = true ∧ le b a = true

theorem Tied.symm {le : α → α → Bool} {a b : α} (h : Tied le a b) : Tied le b a := ⟨h.2, h.1⟩

theorem Tied.trans {le : α → α → Bool} (tr : ∀ a b c, le a b → le b c → le a c) {a b c : α}
    (h₁ : Tied le a b) (h₂ : Tied le b c) : Tied le a c :=
  ⟨tr _ _ _ h₁.1 h₂.1, tr _ _ _ h₂.2 h₁.2⟩

theorem le_refl_of_total {le : α → α → Bool} (total : ∀ a b, le a b || le b a) (a : α) : le a a = true := by
  simpa using total a a

/-- lists that agree position by position up to ties -/
def PointwiseTied (le : α → α → Bool) (l₁ l₂ : List α) : Prop :=
  l₁.length = l₂.length ∧ ∀ (i : Nat) (h₁ : i < l₁.length) (h₂ : i < l₂.length), Tied le l₁[i] l₂[i]

section counting
variable {le : α → α → Bool}

/-- in a sorted list at least `i+1` elements are `≤` the element at position `i` -/
theorem succ_le_countP_le (total : ∀ a b, le a b || le b a) {l : List α} (hs : l.Pairwise (fun a b => le a b))
    (i : Nat) (hi : i < l.length) : i + 1 ≤ l.countP (fun x => le x l[i]) := by
  have hsplit : l.countP (fun x => le x l[i]) =
      (l.take (i + 1)).countP (fun x => le x l[i]) + (l.drop (i + 1)).countP (fun x => le x l[i]) := by
    rw [← countP_append, take_append_drop]
  have hall : (l.take (i + 1)).countP (fun x => le x l[i]) = (l.take (i + 1)).length := by
    rw [countP_eq_length]
    intro x hx
    obtain ⟨j, hj, rfl⟩ := mem_take_iff_getElem.1 hx
    have hj' : j < i + 1 := by omega
    by_cases hji : j = i
    · subst hji; exact le_refl_of_total total _
    · exact (pairwise_iff_getElem.1 hs) j i (by omega) hi (by omega)
  rw [hsplit, hall, length_take]
  omega

/-- in a sorted list, if the element at position `i` is not `≤ c`, at most `i` elements are `≤ c` -/
theorem countP_le_of_not_le (trans : ∀ a b c, le a b → le b c → le a c) (total : ∀ a b, le a b || le b a)
    {l : List α} (hs : l.Pairwise (fun a b => le a b)) (i : Nat) (hi : i < l.length) (c : α)
    (hc : le l[i] c = false) : l.countP (fun x => le x c) ≤ i := by
  have hsplit : l.countP (fun x => le x c) =
      (l.take i).countP (fun x => le x c) + (l.drop i).countP (fun x => le x c) := by
    rw [← countP_append, take_append_drop]
  have hzero : (l.drop i).countP (fun x => le x c) = 0 := by
    rw [countP_eq_zero]
    intro x hx hxc
    obtain ⟨j, hj, rfl⟩ := mem_drop_iff_getElem.1 hx
    have hj' : i + j < l.length := by omega
    have hle : le l[i] l[i + j] = true := by
      by_cases hj0 : j = 0
      · subst hj0; exact le_refl_of_total total _
      · exact (pairwise_iff_getElem.1 hs) i (i + j) hi hj' (by omega)
    have := trans _ _ _ hle hxc
    simp [hc] at this
  have hle : (l.take i).countP (fun x => le x c) ≤ (l.take i).length := countP_le_length
  rw [hsplit, hzero]
  rw [length_take] at hle
  omega

end counting

/-- Two sorted permutations of the same list agree position by position up to ties. -/
theorem sorted_perm_pointwise {le : α → α → Bool} (trans : ∀ a b c, le a b → le b c → le a c)
    (total : ∀ a b, le a b || le b a) {l₁ l₂ : List α} (hp : l₁ ~ l₂)
    (h₁ : l₁.Pairwise (fun a b => le a b)) (h₂ : l₂.Pairwise (fun a b => le a b)) : PointwiseTied le l₁ l₂ := by
  have key : ∀ {m₁ m₂ : List α}, m₁ ~ m₂ → m₁.Pairwise (fun a b => le a b) → m₂.Pairwise (fun a b => le a b) →
      ∀ (i : Nat) (a₁ : i < m₁.length) (a₂ : i < m₂.length), le m₂[i] m₁[i] = true := by
    intro m₁ m₂ hp s₁ s₂ i a₁ a₂
    by_cases h : le m₂[i] m₁[i] = true
    · exact h
    · have hf : le m₂[i] m₁[i] = false := by simpa using h
      have hA := succ_le_countP_le total s₁ i a₁
      have hB := countP_le_of_not_le trans total s₂ i a₂ m₁[i] hf
      have hE := hp.countP_eq (fun x => le x m₁[i])
      omega
  refine ⟨hp.length_eq, fun i a₁ a₂ => ⟨?_, ?_⟩⟩
  · exact key hp.symm h₂ h₁ i a₂ a₁
  · exact key hp h₁ h₂ i a₁ a₂

theorem PointwiseTied.take {le : α → α → Bool} {l₁ l₂ : List α} (h : PointwiseTied le l₁ l₂) (k : Nat) :
    PointwiseTied le (l₁.take k) (l₂.take k) := by
  refine ⟨by simp [h.1], fun i a₁ a₂ => ?_⟩
  simp only [getElem_take]
  exact h.2 i (by simp at a₁; omega) (by simp at a₂; omega)

theorem PointwiseTied.drop {le : α → α → Bool} {l₁ l₂ : List α} (h : PointwiseTied le l₁ l₂) (k : Nat) :
    PointwiseTied le (l₁.drop k) (l₂.drop k) := by
  refine ⟨by simp [h.1], fun i a₁ a₂ => ?_⟩
  simp only [getElem_drop]
  exact h.2 (k + i) (by simp at a₁; omega) (by simp at a₂; omega)

theorem PointwiseTied.refl {le : α → α → Bool} (total : ∀ a b, le a b || le b a) (l : List α) : PointwiseTied le l l :=
  ⟨rfl, fun _ _ _ => ⟨le_refl_of_total total _, le_refl_of_total total _⟩⟩

/-! ### stable insertion and the bounded top-k buffer -/

/-- insert `a` before the first element that is `≥ a` (stable for an element that comes EARLIER in the input) -/
def insertFront (le : α → α → Bool) (a : α) : List α → List α
  | [] => [a]
  | b :: bs => if le a b then a :: b :: bs else b :: insertFront le a bs

theorem insertFront_eq_of_split {le : α → α → Bool} (a : α) (l₁ l₂ : List α)
    (h₁ : ∀ b ∈ l₁, le a b = false) (h₂ : ∀ b ∈ l₂, le a b = true) :
    insertFront le a (l₁ ++ l₂) = l₁ ++ a :: l₂ := by
  induction l₁ with
  | nil =>
    cases l₂ with
    | nil => rfl
    | cons c cs => simp [insertFront, h₂ c (by simp)]
  | cons b bs ih =>
    have hb : le a b = false := h₁ b (by simp)
    simp only [cons_append, insertFront, hb]
    rw [ih (fun x hx => h₁ x (by simp [hx]))]
    simp

/-- `mergeSort` is insertion sort: each element is inserted, stably, into the sorted rest. -/
theorem mergeSort_cons_eq_insertFront {le : α → α → Bool} (trans : ∀ a b c, le a b → le b c → le a c)
    (total : ∀ a b, le a b || le b a) (a : α) (l : List α) :
    mergeSort (a :: l) le = insertFront le a (mergeSort l le) := by
  obtain ⟨l₁, l₂, h₁, h₂, h₃⟩ := mergeSort_cons trans total a l
  have hs : (l₁ ++ a :: l₂).Pairwise (fun x y => le x y) := h₁ ▸ pairwise_mergeSort trans total (a :: l)
  rw [h₁, h₂]
  symm
  apply insertFront_eq_of_split
  · intro b hb; simpa using h₃ b hb
  · intro b hb
    have := (pairwise_append.1 hs).2.1
    exact rel_of_pairwise_cons this hb

theorem foldr_insertFront_eq_mergeSort {le : α → α → Bool} (trans : ∀ a b c, le a b → le b c → le a c)
    (total : ∀ a b, le a b || le b a) (l : List α) : l.foldr (insertFront le) [] = mergeSort l le := by
  induction l with
  | nil => simp
  | cons a l ih => rw [foldr_cons, ih, mergeSort_cons_eq_insertFront trans total]

theorem take_insertFront_take {le : α → α → Bool} (a : α) (s : List α) (k : Nat) :
    (insertFront le a (s.take k)).take k = (insertFront le a s).take k := by
  induction s generalizing k with
  | nil => simp
  | cons b bs ih =>
    cases k with
    | zero => simp
    | succ k =>
      simp only [take_succ_cons, insertFront]
      split
      · cases k with
        | zero => simp
        | succ k => simp [take_take]
      · simp [ih]

/-- bounded buffer: insert, then drop whatever exceeds `k` rows -/
def topK (le : α → α → Bool) (k : Nat) (l : List α) : List α :=
  l.foldr (fun a buf => (insertFront le a buf).take k) []

/-- A bounded top-k buffer computes the first `k` rows of the full (stable) sort. -/
theorem topK_eq_take_mergeSort {le : α → α → Bool} (trans : ∀ a b c, le a b → le b c → le a c)
    (total : ∀ a b, le a b || le b a) (k : Nat) (l : List α) : topK le k l = (mergeSort l le).take k := by
  induction l with
  | nil => simp [topK]
  | cons a l ih =>
    have : topK le k (a :: l) = (insertFront le a (topK le k l)).take k := rfl
    rw [this, ih, take_insertFront_take, mergeSort_cons_eq_insertFront trans total]

/-- Selecting ANY `k` smallest rows (`sel`, everything left out being `≥` everything selected) and sorting them
    gives the first rows of the full sort up to ties: Arrow's `partial_sort` (select_nth_unstable + sort of the
    prefix) behind `lexsort_to_indices(.., Some(k))`. -/
theorem sorted_selection_pointwise {le : α → α → Bool} (trans : ∀ a b c, le a b → le b c → le a c)
    (total : ∀ a b, le a b || le b a) (xs sel rest : List α) (hp : sel ++ rest ~ xs)
    (hsel : ∀ a ∈ sel, ∀ b ∈ rest, le a b = true) :
    PointwiseTied le (mergeSort sel le) ((mergeSort xs le).take sel.length) := by
  have hS : (mergeSort sel le ++ mergeSort rest le).Pairwise (fun a b => le a b) := by
    rw [pairwise_append]
    refine ⟨pairwise_mergeSort trans total _, pairwise_mergeSort trans total _, ?_⟩
    intro a ha b hb
    exact hsel a (mem_mergeSort.1 ha) b (mem_mergeSort.1 hb)
  have hP : mergeSort sel le ++ mergeSort rest le ~ mergeSort xs le :=
    ((mergeSort_perm sel le).append (mergeSort_perm rest le)).trans (hp.trans (mergeSort_perm xs le).symm)
  have h := (sorted_perm_pointwise trans total hP hS (pairwise_mergeSort trans total xs)).take sel.length
  have e : (mergeSort sel le ++ mergeSort rest le).take sel.length = mergeSort sel le := by
    rw [take_append_of_le_length (by simp)]
    rw [take_of_length_le (by simp)]
  rwa [e] at h

end IQE.Lemmas.Sorting
