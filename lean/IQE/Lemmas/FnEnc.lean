/- IQE.Lemmas.FnEnc — C36 lemmas: encodings. -/
import IQE.Spec.Fn.Enc
namespace IQE.Spec.Fn

theorem hexVal_hexDigit : ∀ n : Fin 16, hexVal (hexDigit n.val) = some n.val := by decide
theorem fromHex_toHex (b : List UInt8) : fromHex (toHex b) = some b := by
  induction b with
  | nil => rfl
  | cons x xs ih =>
    have h1 := hexVal_hexDigit ⟨x.toNat / 16, by have := x.toNat_lt; omega⟩
    have h2 := hexVal_hexDigit ⟨x.toNat % 16, by omega⟩
    simp only [toHex, fromHex, h1, h2, ih]
    have : x.toNat / 16 * 16 + x.toNat % 16 = x.toNat := by omega
    simp [this]
theorem toHex_length (b : List UInt8) : (toHex b).length = 2 * b.length := by
  induction b with
  | nil => rfl
  | cons x xs ih => simp [toHex, ih]; omega

end IQE.Spec.Fn
