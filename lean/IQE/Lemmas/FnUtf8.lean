/- IQE.Lemmas.FnUtf8 — C36: UTF-8 decoding inverts encoding for every string (used by url_decode ∘ url_encode, from_utf8 ∘ to_utf8). -/
import IQE.Core.Utf8
set_option linter.unusedSimpArgs false
namespace IQE.Utf8

theorem toUInt8_toNat (n : Nat) (h : n < 256) : n.toUInt8.toNat = n := by
  simp [Nat.toUInt8, UInt8.toNat_ofNat', Nat.mod_eq_of_lt h]

theorem ofNat_toNat_eq (c : Char) (n : Nat) (h : n = c.toNat) : Char.ofNat n = c := by
  subst h; exact Char.ofNat_toNat c

theorem classify3 : ∀ q : Fin 16, classify (0xE0 + q.val) = .lead 2 q.val (if q.val = 0 then 0xA0 else 0x80) (if q.val = 13 then 0x9F else 0xBF) := by decide
theorem classify4 : ∀ q : Fin 5, classify (0xF0 + q.val) = .lead 3 q.val (if q.val = 0 then 0x90 else 0x80) (if q.val = 4 then 0x8F else 0xBF) := by decide

theorem decodeGo_encodeChar (c : Char) (rest : List UInt8) :
    decodeGo (encodeChar c ++ rest) 0 0 0 0 = (decodeGo rest 0 0 0 0).map (c :: ·) := by
  have hv : c.toNat < 0xD800 ∨ (0xDFFF < c.toNat ∧ c.toNat < 0x110000) := c.valid
  unfold encodeChar
  simp only []
  generalize hn : c.toNat = n at *
  by_cases h1 : n < 0x80
  · simp only [h1, if_true, List.singleton_append, decodeGo]
    rw [toUInt8_toNat n (by omega)]
    simp only [classify, h1, if_true, beq_self_eq_true]
    rw [ofNat_toNat_eq c n hn.symm]
  · by_cases h2 : n < 0x800
    · simp only [h1, h2, if_true, if_false, List.cons_append, List.nil_append, decodeGo]
      rw [toUInt8_toNat (0xC0 + n / 64) (by omega), toUInt8_toNat (0x80 + n % 64) (by omega)]
      have hc : classify (0xC0 + n / 64) = .lead 1 (n / 64) 0x80 0xBF := by
        unfold classify
        have a1 : ¬ (0xC0 + n / 64 < 0x80) := by omega
        have a2 : (decide (0xC2 ≤ 0xC0 + n / 64) && decide (0xC0 + n / 64 ≤ 0xDF)) = true := by
          simp; omega
        simp only [a1, if_false, a2, if_true]
        have : 0xC0 + n / 64 - 0xC0 = n / 64 := by omega
        rw [this]
      simp only [beq_self_eq_true, if_true, hc]
      have r1 : (decide (0x80 ≤ 0x80 + n % 64) && decide (0x80 + n % 64 ≤ 0xBF)) = true := by simp; omega
      have r0 : ((1 : Nat) == 0) = false := rfl
      simp only [r0, Bool.false_eq_true, if_false, r1, if_true]
      have : n / 64 * 64 + (0x80 + n % 64 - 0x80) = n := by omega
      rw [this, ofNat_toNat_eq c n hn.symm]
    · have r0 : ((1 : Nat) == 0) = false := rfl
      have r20 : ((2 : Nat) == 0) = false := rfl
      have r21 : ((2 : Nat) == 1) = false := rfl
      have r30 : ((3 : Nat) == 0) = false := rfl
      have r31 : ((3 : Nat) == 1) = false := rfl
      by_cases h3 : n < 0x10000
      · simp only [h1, h2, h3, if_true, if_false, List.cons_append, List.nil_append, decodeGo]
        rw [toUInt8_toNat (0xE0 + n / 4096) (by omega), toUInt8_toNat (0x80 + n / 64 % 64) (by omega), toUInt8_toNat (0x80 + n % 64) (by omega)]
        have hc := classify3 ⟨n / 4096, by omega⟩
        simp only [] at hc
        simp only [beq_self_eq_true, if_true, hc, r20, r21, r0, Bool.false_eq_true, if_false]
        have ra : (decide ((if n / 4096 = 0 then 0xA0 else 0x80) ≤ 0x80 + n / 64 % 64) && decide (0x80 + n / 64 % 64 ≤ (if n / 4096 = 13 then 0x9F else 0xBF))) = true := by
          simp only [Bool.and_eq_true, decide_eq_true_eq]
          constructor <;> split <;> omega
        simp only [ra, if_true]
        have rb : (decide (0x80 ≤ 0x80 + n % 64) && decide (0x80 + n % 64 ≤ 0xBF)) = true := by simp; omega
        have r2m : (2 - 1 : Nat) = 1 := rfl
        simp only [r2m, r0, Bool.false_eq_true, if_false, rb, if_true, beq_self_eq_true]
        have : (n / 4096 * 64 + (0x80 + n / 64 % 64 - 0x80)) * 64 + (0x80 + n % 64 - 0x80) = n := by omega
        rw [this, ofNat_toNat_eq c n hn.symm]
      · simp only [h1, h2, h3, if_false, List.cons_append, List.nil_append, decodeGo]
        rw [toUInt8_toNat (0xF0 + n / 262144) (by omega), toUInt8_toNat (0x80 + n / 4096 % 64) (by omega),
            toUInt8_toNat (0x80 + n / 64 % 64) (by omega), toUInt8_toNat (0x80 + n % 64) (by omega)]
        have hc := classify4 ⟨n / 262144, by omega⟩
        simp only [] at hc
        simp only [beq_self_eq_true, if_true, hc, r30, r31, r20, r21, r0, Bool.false_eq_true, if_false]
        have ra : (decide ((if n / 262144 = 0 then 0x90 else 0x80) ≤ 0x80 + n / 4096 % 64) && decide (0x80 + n / 4096 % 64 ≤ (if n / 262144 = 4 then 0x8F else 0xBF))) = true := by
          simp only [Bool.and_eq_true, decide_eq_true_eq]
          constructor <;> split <;> omega
        simp only [ra, if_true]
        have rb : (decide (0x80 ≤ 0x80 + n / 64 % 64) && decide (0x80 + n / 64 % 64 ≤ 0xBF)) = true := by simp; omega
        have rc : (decide (0x80 ≤ 0x80 + n % 64) && decide (0x80 + n % 64 ≤ 0xBF)) = true := by simp; omega
        have r3m : (3 - 1 : Nat) = 2 := rfl
        have r2m : (2 - 1 : Nat) = 1 := rfl
        simp only [r3m, r2m, r20, r21, r0, Bool.false_eq_true, if_false, rb, rc, if_true, beq_self_eq_true]
        have : ((n / 262144 * 64 + (0x80 + n / 4096 % 64 - 0x80)) * 64 + (0x80 + n / 64 % 64 - 0x80)) * 64 + (0x80 + n % 64 - 0x80) = n := by omega
        rw [this, ofNat_toNat_eq c n hn.symm]

theorem decode_encode (s : List Char) : decode (encode s) = some s := by
  unfold decode encode
  induction s with
  | nil => rfl
  | cons c cs ih => simp only [List.flatMap_cons]; rw [decodeGo_encodeChar, ih]; rfl
end IQE.Utf8
