/-
  Lemmas for C07 (partition plumbing): the modulo split of MemoryTableExec, the LimitExec loop, UnionExec's pair walk,
  the partition contract over the plan algebra, and merge-order independence of partial aggregation.
  Reuses IQE.Lemmas.Bag (relalg).  Core `List` only.
-/
import IQE.Engine.Partition
import IQE.Lemmas.Bag
namespace IQE.Engine.Partition
open List

variable {α β : Type}

/-! ### MemoryTableExec -/

theorem scanExecute_cover (n : Nat) (hn : 0 < n) (batches : List α) :
    (List.range n).flatMap (fun p => scanExecute n p batches) ~ batches := by
  have h := IQE.Bag.hash_partition_perm (fun bi : α × Nat => bi.2) n hn batches.zipIdx
  have h2 := h.map Prod.fst
  rw [List.zipIdx_map_fst, List.map_flatMap] at h2
  have e : (fun p => scanExecute n p batches) =
      (fun a => List.map Prod.fst (List.filter (fun a_1 : α × Nat => decide (a_1.snd % n = a)) batches.zipIdx)) := by
    funext p
    unfold scanExecute
    congr 1
  rw [e]
  exact h2

theorem scanOutputPartitions_pos (threads : Nat) (rows : List Nat) (ht : 1 ≤ threads) :
    1 ≤ scanOutputPartitions threads rows := by
  unfold scanOutputPartitions
  split
  · exact Nat.le_refl 1
  · rename_i h
    have : 1 ≤ rows.length := by
      cases rows with
      | nil => simp at h
      | cons a l => simp
    exact Nat.le_min.mpr ⟨ht, this⟩

/-- below 1000 rows, or with a single batch, the scan declares exactly one partition -/
theorem scanOutputPartitions_small (threads : Nat) (rows : List Nat) (h : rows.sum < 1000) :
    scanOutputPartitions threads rows = 1 := by
  simp [scanOutputPartitions, h]

theorem scanOutputPartitions_le (threads : Nat) (rows : List Nat) :
    scanOutputPartitions threads rows ≤ max rows.length 1 := by
  unfold scanOutputPartitions
  split
  · exact Nat.le_max_right ..
  · exact Nat.le_trans (Nat.min_le_right ..) (Nat.le_max_left ..)

/-! ### LimitExec -/

/-- rows still allowed out -/
def LimitSt.remaining (s : LimitSt) : Option Nat := s.fetch.map (· - s.fetched)

/-- what remains to be produced from the rows not yet seen -/
def limSpec (s : LimitSt) (rows : List α) : List α := takeOpt s.remaining (rows.drop (s.skip - s.skipped))

theorem limSpec_satisfied (s : LimitSt) (h : s.satisfied = true) (rows : List α) : limSpec s rows = [] := by
  unfold LimitSt.satisfied at h
  unfold limSpec LimitSt.remaining takeOpt
  cases hf : s.fetch with
  | none => simp [hf] at h
  | some l =>
    simp only [hf, decide_eq_true_eq] at h
    have : l - s.fetched = 0 := by omega
    simp [this]

/-- rows `take_from` lets through from an (already offset) batch -/
def emitOf (s : LimitSt) (n : Nat) : Nat :=
  match s.fetch with
  | some limit => min (limit - s.fetched) n
  | none => n

theorem emitOf_le (s : LimitSt) (n : Nat) : emitOf s n ≤ n := by
  unfold emitOf; split
  · exact Nat.min_le_right ..
  · exact Nat.le_refl _

theorem takeRest_out (s : LimitSt) (b : List α) :
    (takeRest s b).1 = { s with fetched := s.fetched + emitOf s b.length } ∧
    (takeRest s b).2.toList.flatten = b.take (emitOf s b.length) := by
  have hle := emitOf_le s b.length
  have hdef : takeRest s b = (if emitOf s b.length = 0 then (s, none)
      else ({ s with fetched := s.fetched + emitOf s b.length },
            some (if emitOf s b.length < b.length then b.take (emitOf s b.length) else b))) := by
    unfold takeRest emitOf
    cases s.fetch <;> rfl
  rw [hdef]
  by_cases he : emitOf s b.length = 0
  · rw [if_pos he, he]
    simp
  · rw [if_neg he]
    refine ⟨rfl, ?_⟩
    by_cases hlt : emitOf s b.length < b.length
    · rw [if_pos hlt]; simp
    · rw [if_neg hlt]
      have : emitOf s b.length = b.length := by omega
      rw [this]; simp

theorem takeRest_spec (s : LimitSt) (hsk : s.skip ≤ s.skipped) (b rest : List α) :
    let r := takeRest s b
    r.1.skip = s.skip ∧ r.1.fetch = s.fetch ∧ r.1.skipped = s.skipped ∧
    r.1.fetched = s.fetched + r.2.toList.flatten.length ∧
    limSpec s (b ++ rest) = r.2.toList.flatten ++ limSpec r.1 rest := by
  have h0 : s.skip - s.skipped = 0 := by omega
  obtain ⟨h1, h2⟩ := takeRest_out s b
  have hle := emitOf_le s b.length
  simp only
  rw [h1, h2]
  refine ⟨rfl, rfl, rfl, ?_, ?_⟩
  · simp only [List.length_take]
    rw [Nat.min_eq_left hle]
  · unfold limSpec LimitSt.remaining takeOpt
    simp only [h0, List.drop_zero]
    unfold emitOf
    cases hf : s.fetch with
    | none => simp
    | some l =>
      simp only [Option.map_some]
      rw [List.take_append]
      congr 1
      · exact List.take_eq_take_min
      · congr 1
        omega

theorem takeFrom_spec (s : LimitSt) (b rest : List α) :
    let r := takeFrom s b
    r.1.skip = s.skip ∧ r.1.fetch = s.fetch ∧
    r.1.fetched = s.fetched + r.2.toList.flatten.length ∧
    limSpec s (b ++ rest) = r.2.toList.flatten ++ limSpec r.1 rest := by
  unfold takeFrom
  by_cases hsk : s.skipped < s.skip
  · simp only [hsk, if_true]
    by_cases hall : min (s.skip - s.skipped) b.length = b.length
    · -- the whole batch is skipped
      simp only [hall, if_true, Option.toList_none, List.flatten_nil, List.length_nil, Nat.add_zero, List.nil_append,
        true_and]
      unfold limSpec LimitSt.remaining
      simp only
      congr 1
      rw [List.drop_append]
      have h1 : b.length ≤ s.skip - s.skipped := by omega
      rw [List.drop_of_length_le h1]
      simp only [List.nil_append]
      congr 1
      omega
    · simp only [hall, if_false]
      have hm : min (s.skip - s.skipped) b.length = s.skip - s.skipped := by omega
      have hle : s.skip - s.skipped < b.length := by omega
      have := takeRest_spec { s with skipped := s.skipped + min (s.skip - s.skipped) b.length }
        (by simp only; omega) (b.drop (min (s.skip - s.skipped) b.length)) rest
      simp only at this
      obtain ⟨h1, h2, _, h4, h5⟩ := this
      refine ⟨h1, h2, h4, ?_⟩
      rw [← h5]
      unfold limSpec LimitSt.remaining
      simp only
      congr 1
      rw [hm]
      have e0 : s.skip - (s.skipped + (s.skip - s.skipped)) = 0 := by omega
      rw [e0, List.drop_zero, List.drop_append]
      have e1 : s.skip - s.skipped - b.length = 0 := by omega
      rw [e1, List.drop_zero]
  · simp only [hsk, if_false]
    have := takeRest_spec s (by omega) b rest
    simp only at this
    obtain ⟨h1, h2, _, h4, h5⟩ := this
    exact ⟨h1, h2, h4, h5⟩

theorem drainPartition_spec : ∀ (bs : List (List α)) (s : LimitSt) (rest : List α),
    let r := drainPartition s bs
    r.1.skip = s.skip ∧ r.1.fetch = s.fetch ∧
    r.1.fetched = s.fetched + r.2.flatten.length ∧
    limSpec s (bs.flatten ++ rest) = r.2.flatten ++ limSpec r.1 rest := by
  intro bs
  induction bs with
  | nil => intro s rest; simp [drainPartition]
  | cons b bs ih =>
    intro s rest
    unfold drainPartition
    by_cases hs : s.satisfied = true
    · simp only [hs, if_true, List.flatten_nil, List.length_nil, Nat.add_zero, List.nil_append, true_and]
      rw [limSpec_satisfied s hs, limSpec_satisfied s hs]
    · rw [if_neg hs]
      have h1 := takeFrom_spec s b (bs.flatten ++ rest)
      have h2 := ih (takeFrom s b).1 rest
      simp only at h1 h2
      obtain ⟨a1, a2, a3, a4⟩ := h1
      obtain ⟨b1, b2, b3, b4⟩ := h2
      refine ⟨by simp only; rw [b1, a1], by simp only; rw [b2, a2], ?_, ?_⟩
      · simp only [List.flatten_append, List.length_append]
        rw [b3, a3]; omega
      · simp only [List.flatten_cons, List.append_assoc, List.flatten_append]
        rw [a4, b4]

theorem limitLoop_spec : ∀ (parts : List (List (List α))) (s : LimitSt) (idx : Nat),
    let r := limitLoop s idx parts
    limSpec s parts.flatten.flatten = r.1.flatten ∧
    r.2 = List.range' idx r.2.length ∧ r.2.length ≤ parts.length ∧
    (r.2.length < parts.length → ∃ l, s.fetch = some l ∧ l ≤ s.fetched + r.1.flatten.length) := by
  intro parts
  induction parts with
  | nil => intro s idx; simp [limitLoop, limSpec, takeOpt]; cases s.remaining <;> simp
  | cons part rest ih =>
    intro s idx
    unfold limitLoop
    by_cases hs : s.satisfied = true
    · simp only [hs, if_true, List.flatten_nil, List.length_nil, List.range'_zero, Nat.zero_le, true_and,
        Nat.add_zero, List.length_cons, Nat.zero_lt_succ, forall_const]
      refine ⟨limSpec_satisfied s hs _, ?_⟩
      unfold LimitSt.satisfied at hs
      cases hf : s.fetch with
      | none => simp [hf] at hs
      | some l => simp only [hf, decide_eq_true_eq] at hs; exact ⟨l, rfl, hs⟩
    · simp only [hs, Bool.false_eq_true, if_false]
      have h1 := drainPartition_spec part s rest.flatten.flatten
      have h2 := ih (drainPartition s part).1 (idx + 1)
      simp only at h1 h2
      obtain ⟨a1, a2, a3, a4⟩ := h1
      obtain ⟨b1, b2, b3, b4⟩ := h2
      refine ⟨?_, ?_, ?_, ?_⟩
      · simp only [List.flatten_cons, List.flatten_append]
        rw [a4, b1]
      · simp only [List.length_cons]
        rw [List.range'_succ]
        congr 1
      · simp only [List.length_cons]; omega
      · intro hlt
        simp only [List.length_cons] at hlt
        obtain ⟨l, hl1, hl2⟩ := b4 (by omega)
        refine ⟨l, by rw [← a2]; exact hl1, ?_⟩
        simp only [List.flatten_append, List.length_append]
        rw [a3] at hl2
        omega

/-! ### UnionExec -/

theorem map_getD_range (l : List (List β)) : (List.range l.length).map (fun p => l.getD p []) = l := by
  apply List.ext_getElem
  · simp
  · intro i h1 h2
    simp only [List.length_map, List.length_range] at h1
    simp [List.getD_eq_getElem?_getD, h1]

theorem unionExecute_aux : ∀ (inputs pre : List (List (List (List α)))),
    (((inputs.map List.length).zipIdx pre.length).flatMap (fun ci => (List.range ci.1).map (fun p => (ci.2, p)))).flatMap
      (fun ip => ((pre ++ inputs).getD ip.1 []).getD ip.2 []) = inputs.flatten.flatten := by
  intro inputs
  induction inputs with
  | nil => intro pre; simp
  | cons x xs ih =>
    intro pre
    simp only [List.map_cons, List.zipIdx_cons, List.flatMap_cons, List.flatMap_append, List.flatten_cons,
      List.flatten_append]
    congr 1
    · rw [List.flatMap_map]
      have : ∀ p, ((pre ++ x :: xs).getD pre.length []).getD p [] = x.getD p [] := by
        intro p
        simp [List.getD_eq_getElem?_getD]
      simp only [this]
      rw [List.flatMap_def, map_getD_range]
    · have := ih (pre ++ [x])
      simp only [List.length_append, List.length_cons, List.length_nil, List.append_assoc, List.cons_append,
        List.nil_append] at this
      exact this

theorem unionExecute_eq (inputs : List (List (List (List α)))) : unionExecute inputs = inputs.flatten.flatten := by
  have := unionExecute_aux inputs []
  simpa [unionExecute, unionPairs] using this

theorem mem_unionPairs_aux : ∀ (counts : List Nat) (k i p : Nat),
    (i, p) ∈ (counts.zipIdx k).flatMap (fun ci => (List.range ci.1).map (fun p => (ci.2, p))) ↔
      k ≤ i ∧ ∃ c, counts[i - k]? = some c ∧ p < c := by
  intro counts
  induction counts with
  | nil => intro k i p; simp
  | cons c cs ih =>
    intro k i p
    simp only [List.zipIdx_cons, List.flatMap_cons, List.mem_append, List.mem_map, List.mem_range, Prod.mk.injEq, ih]
    constructor
    · rintro (⟨a, ha, rfl, rfl⟩ | ⟨hk, c', hc', hp⟩)
      · exact ⟨Nat.le_refl _, c, by simp, ha⟩
      · refine ⟨by omega, c', ?_, hp⟩
        have : i - k = (i - (k + 1)) + 1 := by omega
        rw [this, List.getElem?_cons_succ]; exact hc'
    · rintro ⟨hk, c', hc', hp⟩
      by_cases e : i = k
      · subst e
        simp only [Nat.sub_self, List.getElem?_cons_zero, Option.some.injEq] at hc'
        subst hc'
        exact Or.inl ⟨p, hp, rfl, rfl⟩
      · right
        refine ⟨by omega, c', ?_, hp⟩
        have : i - k = (i - (k + 1)) + 1 := by omega
        rw [this, List.getElem?_cons_succ] at hc'; exact hc'

theorem mem_unionPairs (counts : List Nat) (i p : Nat) :
    (i, p) ∈ unionPairs counts ↔ ∃ c, counts[i]? = some c ∧ p < c := by
  have := mem_unionPairs_aux counts 0 i p
  simpa [unionPairs] using this

theorem nodup_unionPairs_aux : ∀ (counts : List Nat) (k : Nat),
    ((counts.zipIdx k).flatMap (fun ci => (List.range ci.1).map (fun p => (ci.2, p)))).Nodup := by
  intro counts
  induction counts with
  | nil => intro k; simp
  | cons c cs ih =>
    intro k
    simp only [List.zipIdx_cons, List.flatMap_cons]
    rw [List.nodup_append]
    refine ⟨?_, ih (k + 1), ?_⟩
    · rw [List.nodup_iff_pairwise_ne]
      exact List.Pairwise.map _ (fun a b h => by simpa using h) (List.nodup_iff_pairwise_ne.mp (List.nodup_range (n := c)))
    · intro a ha b hb
      obtain ⟨p, _, rfl⟩ := List.mem_map.mp ha
      obtain ⟨i, q⟩ := b
      have := (mem_unionPairs_aux cs (k + 1) i q).mp hb
      intro e
      simp only [Prod.mk.injEq] at e
      omega

theorem nodup_unionPairs (counts : List Nat) : (unionPairs counts).Nodup := nodup_unionPairs_aux counts 0

/-! ### row-local operators over a layout -/

theorem rowLocal_layout (g : α → List β) (layout : List (List (List α))) :
    (layout.map (fun bs => bs.map (fun b => b.flatMap g))).flatten.flatten = layout.flatten.flatten.flatMap g := by
  rw [← IQE.Bag.flatMap_flatten, ← List.map_flatten]

/-! ### the plan algebra -/

theorem collect_eq {γ : Type} (exec : Nat → Option γ) (f : Nat → γ) (n : Nat) (h : ∀ p, p < n → exec p = some (f p)) :
    collect exec n = some ((List.range n).map f) := by
  unfold collect
  have : ∀ (l : List Nat), (∀ p ∈ l, exec p = some (f p)) → l.mapM exec = some (l.map f) := by
    intro l
    induction l with
    | nil => intro _; rfl
    | cons a l ih =>
      intro hl
      rw [List.mapM_cons, hl a (List.mem_cons_self ..), ih (fun p hp => hl p (List.mem_cons_of_mem _ hp))]
      rfl
  exact this _ (fun p hp => h p (List.mem_range.mp hp))

theorem Plan.Sem.perm {pl : Plan α} {a b : List α} (h : pl.Sem a) (hp : b ~ a) : pl.Sem b := by
  cases pl with
  | scan t bs => exact hp.trans h
  | rowLocal g i => obtain ⟨r, h1, h2⟩ := h; exact ⟨r, h1, hp.trans h2⟩
  | limit s f i => obtain ⟨r, h1, h2⟩ := h; exact ⟨r, h1, hp.trans h2⟩
  | union l r => obtain ⟨x, y, h1, h2, h3⟩ := h; exact ⟨x, y, h1, h2, hp.trans h3⟩
  | join m c bl pr => obtain ⟨x, y, h1, h2, h3⟩ := h; exact ⟨x, y, h1, h2, hp.trans h3⟩
  | collectAll f i => obtain ⟨r, h1, h2⟩ := h; exact ⟨r, h1, hp.trans h2⟩

theorem Plan.outputPartitions_pos : ∀ (pl : Plan α), pl.WF → 1 ≤ pl.outputPartitions
  | .scan t _, h => scanOutputPartitions_pos t _ h
  | .rowLocal _ i, h => Plan.outputPartitions_pos i h
  | .limit _ _ _, _ => Nat.le_refl 1
  | .union _ _, _ => Nat.le_refl 1
  | .join _ _ _ _, _ => Nat.le_max_right ..
  | .collectAll _ _, _ => Nat.le_refl 1

theorem Plan.execute_out_of_range (pl : Plan α) (p : Nat) (h : ¬ p < pl.outputPartitions) : pl.execute p = none := by
  cases pl <;> simp only [Plan.outputPartitions] at h <;> simp [Plan.execute, checkPartition, h]

theorem limitExecute_rows (skip : Nat) (fetch : Option Nat) (parts : List (List (List α))) :
    (limitExecute skip fetch parts).1.flatten = takeOpt fetch (parts.flatten.flatten.drop skip) := by
  have := (limitLoop_spec parts { skip := skip, fetch := fetch } 0).1
  unfold limitExecute
  rw [← this]
  unfold limSpec LimitSt.remaining
  cases fetch <;> simp

/-- The induction behind `C07_declared_partitions`. -/
theorem Plan.exec_sem : ∀ (pl : Plan α), pl.WF →
    ∃ f : Nat → List (List α), (∀ p, p < pl.outputPartitions → pl.execute p = some (f p)) ∧
      pl.Sem ((List.range pl.outputPartitions).map f).flatten.flatten
  | .scan t bs, h => by
    have hpos := scanOutputPartitions_pos t (bs.map List.length) h
    refine ⟨fun p => scanExecute (scanOutputPartitions t (bs.map List.length)) p bs, ?_, ?_⟩
    · intro p hp
      simp only [Plan.outputPartitions] at hp
      simp [Plan.execute, checkPartition, hp, Nat.max_eq_left hpos]
    · simp only [Plan.outputPartitions, Plan.Sem]
      apply List.Perm.flatten
      rw [← List.flatMap_def]
      exact scanExecute_cover _ hpos bs
  | .rowLocal g i, h => by
    obtain ⟨fi, hfi, hsem⟩ := Plan.exec_sem i h
    refine ⟨fun p => (fi p).map (fun b => b.flatMap g), ?_, ?_⟩
    · intro p hp
      simp only [Plan.outputPartitions] at hp
      simp [Plan.execute, checkPartition, hp, hfi p hp]
    · refine ⟨_, hsem, ?_⟩
      simp only [Plan.outputPartitions]
      have := rowLocal_layout g ((List.range i.outputPartitions).map fi)
      rw [List.map_map] at this
      rw [← this]
      exact List.Perm.refl _
  | .limit skip fetch i, h => by
    obtain ⟨fi, hfi, hsem⟩ := Plan.exec_sem i h
    have hpos := Plan.outputPartitions_pos i h
    refine ⟨fun _ => (limitExecute skip fetch ((List.range i.outputPartitions).map fi)).1, ?_, ?_⟩
    · intro p hp
      simp only [Plan.outputPartitions] at hp
      simp [Plan.execute, checkPartition, hp, Nat.max_eq_left hpos, collect_eq _ fi _ hfi]
    · refine ⟨_, hsem, ?_⟩
      simp only [Plan.outputPartitions, List.range_one, List.map_cons, List.map_nil, List.flatten_cons,
        List.flatten_nil, List.append_nil]
      rw [limitExecute_rows]
  | .union l r, h => by
    obtain ⟨fl, hfl, hseml⟩ := Plan.exec_sem l h.1
    obtain ⟨fr, hfr, hsemr⟩ := Plan.exec_sem r h.2
    refine ⟨fun _ => unionExecute [(List.range l.outputPartitions).map fl, (List.range r.outputPartitions).map fr], ?_, ?_⟩
    · intro p hp
      simp only [Plan.outputPartitions] at hp
      simp [Plan.execute, checkPartition, hp, collect_eq _ fl _ hfl, collect_eq _ fr _ hfr]
    · refine ⟨_, _, hseml, hsemr, ?_⟩
      simp only [Plan.outputPartitions, List.range_one, List.map_cons, List.map_nil, List.flatten_cons,
        List.flatten_nil, List.append_nil]
      rw [unionExecute_eq]
      simp
  | .join m comb b pr, h => by
    obtain ⟨fb, hfb, hsemb⟩ := Plan.exec_sem b h.1
    obtain ⟨fp, hfp, hsemp⟩ := Plan.exec_sem pr h.2
    have hposb := Plan.outputPartitions_pos b h.1
    have hposp := Plan.outputPartitions_pos pr h.2
    let buildRows := ((List.range b.outputPartitions).map fb).flatten.flatten
    let g : α → List α := fun r => (buildRows.filter (fun l => m l r)).map (fun l => comb l r)
    refine ⟨fun p => (fp p).map (fun bt => bt.flatMap g), ?_, ?_⟩
    · intro p hp
      simp only [Plan.outputPartitions, Nat.max_eq_left hposp] at hp
      simp [Plan.execute, checkPartition, hp, Nat.max_eq_left hposp, Nat.max_eq_left hposb,
        collect_eq _ fb _ hfb, hfp p hp, g, buildRows]
    · refine ⟨_, _, hsemb, hsemp, ?_⟩
      simp only [Plan.outputPartitions, Nat.max_eq_left hposp]
      have := rowLocal_layout g ((List.range pr.outputPartitions).map fp)
      rw [List.map_map] at this
      rw [← this]
      exact List.Perm.refl _
  | .collectAll f i, h => by
    obtain ⟨fi, hfi, hsem⟩ := Plan.exec_sem i h
    have hpos := Plan.outputPartitions_pos i h
    refine ⟨fun _ => [f ((List.range i.outputPartitions).map fi).flatten.flatten], ?_, ?_⟩
    · intro p hp
      simp only [Plan.outputPartitions] at hp
      simp [Plan.execute, checkPartition, hp, Nat.max_eq_left hpos, collect_eq _ fi _ hfi]
    · refine ⟨_, hsem, ?_⟩
      simp [Plan.outputPartitions]

/-! ### partial aggregation -/

structure Acc.Lawful {σ : Type} (A : Acc α σ) : Prop where
  assoc : ∀ a b c, A.merge (A.merge a b) c = A.merge a (A.merge b c)
  comm : ∀ a b, A.merge a b = A.merge b a
  e_left : ∀ a, A.merge A.e a = a

theorem Acc.foldl_merge_start {σ : Type} (A : Acc α σ) (L : A.Lawful) (f : β → σ) :
    ∀ (l : List β) (s : σ), l.foldl (fun s r => A.merge s (f r)) s = A.merge s (l.foldl (fun s r => A.merge s (f r)) A.e) := by
  intro l
  induction l with
  | nil => intro s; simp [L.comm s A.e, L.e_left]
  | cons a l ih =>
    intro s
    simp only [List.foldl_cons]
    rw [ih (A.merge s (f a)), ih (A.merge A.e (f a)), L.e_left, L.assoc]

theorem Acc.foldl_append {σ : Type} (A : Acc α σ) (L : A.Lawful) (f : β → σ) (l₁ l₂ : List β) :
    (l₁ ++ l₂).foldl (fun s r => A.merge s (f r)) A.e =
      A.merge (l₁.foldl (fun s r => A.merge s (f r)) A.e) (l₂.foldl (fun s r => A.merge s (f r)) A.e) := by
  rw [List.foldl_append, Acc.foldl_merge_start A L f l₂]

theorem Acc.foldl_perm {σ : Type} (A : Acc α σ) (L : A.Lawful) (f : β → σ) {l₁ l₂ : List β} (h : l₁ ~ l₂) :
    l₁.foldl (fun s r => A.merge s (f r)) A.e = l₂.foldl (fun s r => A.merge s (f r)) A.e := by
  induction h with
  | nil => rfl
  | cons x _ ih =>
    simp only [List.foldl_cons]
    rw [Acc.foldl_merge_start A L f _ (A.merge A.e (f x)), ih, ← Acc.foldl_merge_start A L f]
  | swap x y l =>
    simp only [List.foldl_cons]
    congr 1
    rw [L.assoc, L.comm (f y) (f x), ← L.assoc]
  | trans _ _ ih1 ih2 => exact ih1.trans ih2

theorem Acc.fold_append {σ : Type} (A : Acc α σ) (L : A.Lawful) (l₁ l₂ : List α) :
    A.fold (l₁ ++ l₂) = A.merge (A.fold l₁) (A.fold l₂) := Acc.foldl_append A L A.inj l₁ l₂

theorem Acc.fold_perm {σ : Type} (A : Acc α σ) (L : A.Lawful) {l₁ l₂ : List α} (h : l₁ ~ l₂) :
    A.fold l₁ = A.fold l₂ := Acc.foldl_perm A L A.inj h

/-- merging the states of chunks = the state of the concatenation -/
theorem Acc.merge_chunks {σ : Type} (A : Acc α σ) (L : A.Lawful) (chunks : List (List α)) :
    (chunks.map A.fold).foldl A.merge A.e = A.fold chunks.flatten := by
  induction chunks with
  | nil => rfl
  | cons c cs ih =>
    simp only [List.map_cons, List.foldl_cons, List.flatten_cons]
    have h := Acc.foldl_merge_start A L (fun s : σ => s) (cs.map A.fold) (A.merge A.e (A.fold c))
    rw [h, ih, L.e_left, Acc.fold_append A L]

theorem Acc.foldLayout_eq {σ : Type} (A : Acc α σ) (L : A.Lawful) (layout : List (List (List α))) :
    A.foldLayout layout = A.fold layout.flatten.flatten := by
  unfold Acc.foldLayout
  have : layout.map (fun part => (part.map A.fold).foldl A.merge A.e) = (layout.map List.flatten).map A.fold := by
    rw [List.map_map]
    apply List.map_congr_left
    intro part _
    exact Acc.merge_chunks A L part
  rw [this, Acc.merge_chunks A L, ← List.flatten_flatten]

theorem optMin_assoc (a b c : Option Int) : optMin (optMin a b) c = optMin a (optMin b c) := by
  cases a <;> cases b <;> cases c <;> simp only [optMin] <;> try rfl
  congr 1; repeat' split
  all_goals omega

theorem optMin_comm (a b : Option Int) : optMin a b = optMin b a := by
  cases a <;> cases b <;> simp only [optMin] <;> try rfl
  congr 1; repeat' split
  all_goals omega

theorem optMax_assoc (a b c : Option Int) : optMax (optMax a b) c = optMax a (optMax b c) := by
  cases a <;> cases b <;> cases c <;> simp only [optMax] <;> try rfl
  congr 1; repeat' split
  all_goals omega

theorem optMax_comm (a b : Option Int) : optMax a b = optMax b a := by
  cases a <;> cases b <;> simp only [optMax] <;> try rfl
  congr 1; repeat' split
  all_goals omega

theorem intAgg_lawful : intAgg.Lawful where
  assoc := by
    intro a b c
    simp only [intAgg, optMin_assoc, optMax_assoc, Nat.add_assoc, Int.add_assoc]
  comm := by
    intro a b
    simp only [intAgg, optMin_comm a.min, optMax_comm a.max, Nat.add_comm a.countStar, Nat.add_comm a.count,
      Int.add_comm a.sum]
  e_left := by
    intro a
    cases a
    simp [intAgg, optMin, optMax]

end IQE.Engine.Partition
