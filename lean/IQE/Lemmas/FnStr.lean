/- IQE.Lemmas.FnStr — C36 lemmas: string functions over code points. -/
import IQE.Spec.Fn.Str
namespace IQE.Spec.Fn

theorem length_concat2 (a b : List Char) : lengthS (a ++ b) = lengthS a + lengthS b := by simp [lengthS]
theorem length_concatS (ss : List (List Char)) : lengthS (concatS ss) = (ss.map lengthS).sum := by
  induction ss with
  | nil => rfl
  | cons a r ih => simp only [concatS, List.flatten_cons, List.map_cons, List.sum_cons] at *; rw [length_concat2, ih]
theorem reverse_reverse (s : List Char) : reverseS (reverseS s) = s := by simp [reverseS]
theorem length_reverse (s : List Char) : lengthS (reverseS s) = lengthS s := by simp [reverseS, lengthS]
theorem length_upper (s : List Char) : lengthS (upperS s) = lengthS s := by simp [upperS, lengthS]

theorem startsWith_append (a b : List Char) : startsWith (a ++ b) a = true := by simp [startsWith]
theorem endsWith_append (a b : List Char) : endsWith (a ++ b) b = true := by simp [endsWith]
theorem startsWith_iff (s p : List Char) : startsWith s p = true ↔ ∃ t, s = p ++ t := by
  simp [startsWith, List.isPrefixOf_iff_prefix, List.IsPrefix]; constructor <;> (rintro ⟨t, h⟩; exact ⟨t, h.symm⟩)

-- substring / left / right
theorem substr_one (s : List Char) : substr s 1 none = s := by
  unfold substr; simp
theorem substr_left (s : List Char) (n : Nat) : substr s 1 (some n) = leftS s n := by
  unfold substr leftS; simp
  cases s with
  | nil => simp
  | cons a r => simp
theorem substr_right (s : List Char) (n : Nat) (h1 : 1 ≤ n) (h2 : n ≤ s.length) : substr s (-(n : Int)) none = rightS s n := by
  unfold substr rightS
  have : ¬ (-(n:Int) = 0) := by omega
  simp only [this, if_false]
  have h3 : ¬ (-(n:Int) > 0) := by omega
  simp only [h3, if_false]
  have h4 : ¬ ((s.length : Int) + -(n:Int) < 0 ∨ (s.length:Int) + -(n:Int) ≥ s.length) := by omega
  simp only [h4, if_false]
  congr 1; omega
theorem left_append_drop (s : List Char) (n : Nat) : leftS s n ++ s.drop n = s := by simp [leftS]
theorem left_right_split (s : List Char) (n : Nat) (h : n ≤ s.length) : leftS s n ++ rightS s (s.length - n) = s := by
  unfold leftS rightS
  have : s.length - (s.length - n) = n := by omega
  rw [this]; simp
theorem substr_length_le (s : List Char) (st : Int) (l : Option Int) : (substr s st l).length ≤ s.length := by
  unfold substr
  simp only []
  repeat' split
  all_goals simp
  all_goals omega
theorem repeat_length (s : List Char) (n : Nat) : (repeatS s n).length = n * s.length := by
  induction n with
  | zero => simp [repeatS]
  | succ n ih => simp [repeatS, ih, Nat.succ_mul]; omega
theorem cycleTake_length (pad : List Char) (hp : pad ≠ []) (n : Nat) (cur : List Char) : (cycleTake pad n cur).length = n := by
  induction n generalizing cur with
  | zero => simp [cycleTake]
  | succ n ih =>
    cases cur with
    | nil => cases pad with
      | nil => contradiction
      | cons p ps => simp [cycleTake, ih]
    | cons c cs => simp [cycleTake, ih]
theorem lpad_length (s pad : List Char) (size : Int) (r : List Char) (h : lpadS s size pad = some r) : (r.length : Int) = size := by
  unfold lpadS at h
  split at h; · simp at h
  rename_i hc
  have hp : pad ≠ [] := by intro e; simp [e] at hc
  have hs : ¬ size < 0 := by intro e; exact hc (Or.inl e)
  split at h
  · simp at h; subst h; simp; omega
  · simp at h; subst h; simp [cycleTake_length pad hp]; omega
theorem lpad_suffix (s pad : List Char) (size : Int) (r : List Char) (h : lpadS s size pad = some r) (hl : (s.length : Int) ≤ size) : s <:+ r := by
  unfold lpadS at h
  split at h; · simp at h
  split at h
  · simp at h; subst h
    have : size.toNat = s.length := by omega
    simp [this]
  · simp at h; subst h; exact List.suffix_append _ _

end IQE.Spec.Fn
