/-
  IQE.Lemmas.VectorSearch — lemmas for C43: the exact distance order is a total preorder (so core's `mergeSort` lemmas and
  IQE.Lemmas.Sorting apply), and the `shape_output` loop of VectorSearchExec denotes OFFSET/LIMIT.
-/
import IQE.Engine.VectorSearch
import IQE.Lemmas.Sorting
namespace IQE.Lemmas.VectorSearch
open IQE.Engine IQE.Engine.VectorSearch IQE.Lemmas.Sorting

/-! ### the exact order -/

theorem ratLe_trans (an bn cn : Int) (ad bd cd : Nat) (hb : 0 < bd)
    (h1 : an * (bd : Int) ≤ bn * (ad : Int)) (h2 : bn * (cd : Int) ≤ cn * (bd : Int)) : an * (cd : Int) ≤ cn * (ad : Int) := by
  have hbd : (0 : Int) < (bd : Int) := by omega
  have hcd : (0 : Int) ≤ (cd : Int) := by omega
  have had : (0 : Int) ≤ (ad : Int) := by omega
  have s1 : an * (bd : Int) * cd ≤ bn * (ad : Int) * cd := Int.mul_le_mul_of_nonneg_right h1 hcd
  have s2 : bn * (cd : Int) * ad ≤ cn * (bd : Int) * ad := Int.mul_le_mul_of_nonneg_right h2 had
  have e1 : an * (cd : Int) * bd = an * (bd : Int) * cd := by ac_rfl
  have e2 : bn * (ad : Int) * cd = bn * (cd : Int) * ad := by ac_rfl
  have e3 : cn * (bd : Int) * ad = cn * (ad : Int) * bd := by ac_rfl
  have : an * (cd : Int) * bd ≤ cn * (ad : Int) * bd := by rw [e1, ← e3]; exact Int.le_trans s1 (e2 ▸ s2)
  exact Int.le_of_mul_le_mul_right this hbd

/-- every score has a positive denominator -/
theorem score_den_pos (f : DistFn) (q a : List Int) : 0 < (score f q a).den := by
  unfold score
  cases f <;> simp only
  · decide
  · split
    · decide
    · rename_i h; simp only; omega
  · split
    · decide
    · rename_i h; simp only; omega
  · decide

theorem scoreLe_trans {a b c : Score} (hb : 0 < b.den) (h1 : scoreLe a b = true) (h2 : scoreLe b c = true) : scoreLe a c = true := by
  simp only [scoreLe, decide_eq_true_eq] at *
  exact ratLe_trans _ _ _ _ _ _ hb h1 h2

theorem scoreLe_total (a b : Score) : (scoreLe a b || scoreLe b a) = true := by
  simp only [scoreLe, Bool.or_eq_true, decide_eq_true_eq]
  exact Int.le_total _ _

/-- keys whose scores have positive denominators -/
def KeyOk : Option Score → Prop
  | none => True
  | some s => 0 < s.den

theorem keyLe_trans (desc nf : Bool) {a b c : Option Score} (hb : KeyOk b)
    (h1 : keyLe desc nf a b = true) (h2 : keyLe desc nf b c = true) : keyLe desc nf a c = true := by
  cases a <;> cases b <;> cases c <;> simp_all [keyLe, KeyOk]
  rename_i x y z
  cases desc <;> simp_all
  · exact scoreLe_trans hb h1 h2
  · exact scoreLe_trans hb h2 h1

theorem keyLe_total (desc nf : Bool) (a b : Option Score) : (keyLe desc nf a b || keyLe desc nf b a) = true := by
  cases a <;> cases b <;> simp only [keyLe]
  · rfl
  · cases nf <;> rfl
  · cases nf <;> rfl
  · rename_i x y
    cases desc
    · simpa using scoreLe_total x y
    · simpa using scoreLe_total y x

theorem rowKey_ok (f : DistFn) (q : List Int) (col : Nat) (r : VRow) : KeyOk (rowKey f q col r) := by
  unfold rowKey
  split
  · exact score_den_pos _ _ _
  · trivial

theorem rowLe_trans (f : DistFn) (desc nf : Bool) (q : List Int) (col : Nat) :
    ∀ a b c : VRow, rowLe f desc nf q col a b → rowLe f desc nf q col b c → rowLe f desc nf q col a c :=
  fun _ b _ h1 h2 => keyLe_trans desc nf (rowKey_ok f q col b) h1 h2

theorem rowLe_total (f : DistFn) (desc nf : Bool) (q : List Int) (col : Nat) :
    ∀ a b : VRow, (rowLe f desc nf q col a b || rowLe f desc nf q col b a) = true :=
  fun _ _ => keyLe_total desc nf _ _

/-! ### the window of a sorted list is "the next k smallest after the first `skip`" -/

/-- `out` is a correct `ORDER BY le LIMIT k OFFSET skip` answer over `rows`, stated without a sort: the rows split into those skipped,
    those returned and the rest; nothing skipped sorts after anything returned or left, nothing returned sorts after anything left; the
    returned rows are in order; and rows are only left out when the limit is full (resp. skipped only up to `skip`). -/
def IsWindow {α : Type} (le : α → α → Bool) (skip k : Nat) (rows out : List α) : Prop :=
  ∃ pre post : List α, (pre ++ out ++ post).Perm rows ∧ pre.length = min skip rows.length ∧
    (∀ a ∈ pre, ∀ b ∈ out ++ post, le a b = true) ∧ (∀ a ∈ out, ∀ b ∈ post, le a b = true) ∧
    out.Pairwise (fun a b => le a b = true) ∧ out.length = min k (rows.length - skip)

theorem window_isWindow {α : Type} {le : α → α → Bool} (trans : ∀ a b c, le a b → le b c → le a c)
    (total : ∀ a b, le a b || le b a) (skip k : Nat) (rows : List α) :
    IsWindow le skip k rows (window le skip (some k) rows) := by
  have hs := List.pairwise_mergeSort trans total rows
  have hp := List.mergeSort_perm rows le
  have hlen : (rows.mergeSort le).length = rows.length := hp.length_eq
  show IsWindow le skip k rows (((rows.mergeSort le).drop skip).take k)
  generalize rows.mergeSort le = s at hs hp hlen ⊢
  refine ⟨s.take skip, (s.drop skip).drop k, ?_, ?_, ?_, ?_, ?_, ?_⟩
  · have : s.take skip ++ (s.drop skip).take k ++ (s.drop skip).drop k = s := by
      rw [List.append_assoc, List.take_append_drop, List.take_append_drop]
    rw [this]; exact hp
  · rw [List.length_take, hlen]
  · intro a ha b hb
    have hb' : b ∈ s.drop skip := by
      rw [List.take_append_drop] at hb; exact hb
    have hsplit : (s.take skip ++ s.drop skip).Pairwise (fun a b => le a b = true) := by rw [List.take_append_drop]; exact hs
    exact (List.pairwise_append.1 hsplit).2.2 a ha b hb'
  · intro a ha b hb
    have hd : (s.drop skip).Pairwise (fun a b => le a b = true) := hs.sublist (List.drop_sublist _ _)
    have hsplit : ((s.drop skip).take k ++ (s.drop skip).drop k).Pairwise (fun a b => le a b = true) := by
      rw [List.take_append_drop]; exact hd
    exact (List.pairwise_append.1 hsplit).2.2 a ha b hb
  · exact hs.sublist ((List.take_sublist _ _).trans (List.drop_sublist _ _))
  · rw [List.length_take, List.length_drop, hlen]

/-! ### shape_output -/

theorem map_ok {ε α β : Type} {f : α → β} {x : Except ε α} {o : β} (h : Except.map f x = .ok o) : ∃ y, x = .ok y ∧ o = f y := by
  cases x with
  | error e => simp [Except.map] at h
  | ok y => simp [Except.map] at h; exact ⟨y, rfl, h.symm⟩

theorem window_step {α : Type} (rows rest : List α) (k taken : Nat) (y : List (List α))
    (hy : y.flatten = List.take (k - (taken + (if taken + rows.length > k then rows.take (k - taken) else rows).length)) rest) :
    ((if taken + rows.length > k then rows.take (k - taken) else rows) :: y).flatten = List.take (k - taken) (rows ++ rest) := by
  simp only [List.flatten_cons]
  rw [hy, List.take_append]
  by_cases hgt : taken + rows.length > k
  · simp only [hgt, if_true]
    have hl : (List.take (k - taken) rows).length = k - taken := by rw [List.length_take]; omega
    rw [hl]
    have e1 : k - (taken + (k - taken)) = 0 := by omega
    have e2 : k - taken - rows.length = 0 := by omega
    rw [e1, e2]
  · simp only [hgt, if_false]
    have e1 : k - (taken + rows.length) = k - taken - rows.length := by omega
    have e2 : List.take (k - taken) rows = rows := List.take_of_length_le (by omega)
    rw [e1, e2]

/-- the loop with counters `skipped ≤ skip`, `taken`: what is still to be emitted is the remaining input minus the rows still to skip,
    cut to the rows still to take -/
theorem shapeGo_flatten {α : Type} (k skip : Nat) : ∀ (bs : List (IdxBatch α)) (skipped taken : Nat) (out : List (List α)),
    skipped ≤ skip → shapeGo k skip skipped taken bs = .ok out →
    out.flatten = (((bs.map (·.rows)).flatten).drop (skip - skipped)).take (k - taken) := by
  intro bs
  induction bs with
  | nil => intro skipped taken out _ h; simp [shapeGo] at h; subst h; simp
  | cons b bs ih =>
    intro skipped taken out hs h
    unfold shapeGo at h
    split at h
    · rename_i hk
      cases h
      have : k - taken = 0 := by omega
      simp [this]
    · rename_i hk
      split at h
      · cases h
      · simp only [List.map_cons, List.flatten_cons]
        split at h
        · rename_i hlt
          dsimp only at h
          split at h
          · rename_i hd
            have hd' : min (skip - skipped) b.rows.length = b.rows.length := by simpa using hd
            have hle : b.rows.length ≤ skip - skipped := by omega
            rw [hd'] at h
            have := ih (skipped + b.rows.length) taken out (by omega) h
            rw [this, List.drop_append]
            have e1 : b.rows.drop (skip - skipped) = [] := List.drop_eq_nil_of_le hle
            have e2 : skip - (skipped + b.rows.length) = skip - skipped - b.rows.length := by omega
            rw [e1, e2]; simp
          · rename_i hd
            have hd' : ¬ min (skip - skipped) b.rows.length = b.rows.length := by simpa using hd
            have hmin : min (skip - skipped) b.rows.length = skip - skipped := by omega
            have hlt2 : skip - skipped < b.rows.length := by omega
            rw [hmin] at h
            obtain ⟨y, hy, rfl⟩ := map_ok h
            have hy' := ih _ _ y (by omega) hy
            have e0 : skip - (skipped + (skip - skipped)) = 0 := by omega
            have e3 : skip - skipped - b.rows.length = 0 := by omega
            rw [e0] at hy'
            simp only [List.drop_zero] at hy'
            rw [List.drop_append, e3]
            simp only [List.drop_zero]
            exact window_step _ _ _ _ _ hy'
        · rename_i hlt
          dsimp only at h
          obtain ⟨y, hy, rfl⟩ := map_ok h
          have hy' := ih _ _ y hs hy
          have e0 : skip - skipped = 0 := by omega
          rw [e0] at hy' ⊢
          simp only [List.drop_zero] at hy' ⊢
          exact window_step _ _ _ _ _ hy'

end IQE.Lemmas.VectorSearch
