/-
  Lemmas for IQE.Engine.Fnv: the FNV-1a step is a bijection of the 64-bit state for every byte (the multiplier is odd,
  so it has an inverse modulo 2^64 — checked on the constant by `decide`), and is injective in the byte.
-/
import IQE.Engine.Fnv
namespace IQE.Engine.Fnv

/-- the inverse of the FNV prime modulo 2^64 -/
def PRIME_INV : UInt64 := 0xce965057aff6957b

theorem prime_mul_inv : PRIME * PRIME_INV = 1 := by decide

theorem mul_prime_inj {x y : UInt64} (h : x * PRIME = y * PRIME) : x = y := by
  have h2 : x * PRIME * PRIME_INV = y * PRIME * PRIME_INV := by rw [h]
  rw [UInt64.mul_assoc, UInt64.mul_assoc, prime_mul_inv, UInt64.mul_one, UInt64.mul_one] at h2
  exact h2

theorem xor_cancel_right {x y b : UInt64} (h : x ^^^ b = y ^^^ b) : x = y := by
  have h2 : x ^^^ b ^^^ b = y ^^^ b ^^^ b := by rw [h]
  rw [UInt64.xor_assoc, UInt64.xor_assoc, UInt64.xor_self, UInt64.xor_zero, UInt64.xor_zero] at h2
  exact h2

theorem xor_cancel_left {h a b : UInt64} (e : h ^^^ a = h ^^^ b) : a = b := by
  rw [UInt64.xor_comm h a, UInt64.xor_comm h b] at e
  exact xor_cancel_right e

/-- for a fixed byte the step is injective in the state … -/
theorem step_inj_state {h₁ h₂ : UInt64} {b : UInt8} (e : step h₁ b = step h₂ b) : h₁ = h₂ :=
  xor_cancel_right (mul_prime_inj e)

/-- … and surjective: a bijection of the 64-bit state -/
theorem step_surj (b : UInt8) (h' : UInt64) : step ((h' * PRIME_INV) ^^^ b.toUInt64) b = h' := by
  unfold step
  rw [UInt64.xor_assoc, UInt64.xor_self, UInt64.xor_zero, UInt64.mul_assoc,
    UInt64.mul_comm PRIME_INV PRIME, prime_mul_inv, UInt64.mul_one]

/-- for a fixed state the step is injective in the byte -/
theorem step_inj_byte {h : UInt64} {a b : UInt8} (e : step h a = step h b) : a = b :=
  UInt8.toUInt64_inj.1 (xor_cancel_left (mul_prime_inj e))

theorem feed_inj_state : ∀ (bs : List UInt8) {h₁ h₂ : UInt64}, feed h₁ bs = feed h₂ bs → h₁ = h₂
  | [], _, _, e => e
  | b :: bs, h₁, h₂, e => by
    have : step h₁ b = step h₂ b := feed_inj_state bs (by simpa [feed] using e)
    exact step_inj_state this

theorem feed_append (h : UInt64) (p s : List UInt8) : feed h (p ++ s) = feed (feed h p) s := by
  simp [feed, List.foldl_append]

/-- two fed byte strings that differ in exactly ONE byte give different digests (any prefix, any suffix) -/
theorem feed_one_byte (h : UInt64) (p s : List UInt8) {a b : UInt8} (hab : a ≠ b) :
    feed h (p ++ a :: s) ≠ feed h (p ++ b :: s) := by
  intro e
  rw [feed_append, feed_append] at e
  have e2 : step (feed h p) a = step (feed h p) b := feed_inj_state s (by simpa [feed] using e)
  exact hab (step_inj_byte e2)

/-! ### two adjacent bytes -/

theorem nat_xor_small_div {m n : Nat} (h : m ^^^ n < 256) : m / 256 = n / 256 := by
  have h1 : (m ^^^ n) >>> 8 = 0 := by
    rw [Nat.shiftRight_eq_div_pow]; exact Nat.div_eq_of_lt h
  rw [Nat.shiftRight_xor_distrib] at h1
  have h2 : m >>> 8 = n >>> 8 := by
    apply Nat.eq_of_testBit_eq
    intro i
    have := congrArg (fun t => t.testBit i) h1
    simp only [Nat.testBit_xor, Nat.zero_testBit] at this
    cases ha : (m >>> 8).testBit i <;> cases hb : (n >>> 8).testBit i <;> simp_all
  simpa [Nat.shiftRight_eq_div_pow] using h2

private theorem key_lt (x y : Nat) (h : x / 256 = y / 256) (hlt : x < y)
    (e : (x * 1099511628211 % 18446744073709551616) / 256 = (y * 1099511628211 % 18446744073709551616) / 256) : False := by
  have h1 : y * 1099511628211 / 18446744073709551616 = x * 1099511628211 / 18446744073709551616 ∨
      y * 1099511628211 / 18446744073709551616 = x * 1099511628211 / 18446744073709551616 + 1 := by omega
  rcases h1 with h1 | h1 <;> omega

/-- multiplying by the FNV prime moves a difference confined to the low byte OUT of the low byte -/
theorem mul_prime_spreads {x y : UInt64} (hne : x ≠ y) (hlow : (x ^^^ y).toNat < 256) :
    ¬ ((x * PRIME) ^^^ (y * PRIME)).toNat < 256 := by
  intro h
  rw [UInt64.toNat_xor] at hlow h
  have h1 := nat_xor_small_div hlow
  have h2 := nat_xor_small_div h
  rw [UInt64.toNat_mul, UInt64.toNat_mul] at h2
  have hP : PRIME.toNat = 1099511628211 := by decide
  rw [hP] at h2
  have hne' : x.toNat ≠ y.toNat := fun e => hne (UInt64.toNat_inj.1 e)
  rcases Nat.lt_or_gt_of_ne hne' with hlt | hgt
  · exact key_lt _ _ h1 hlt h2
  · exact key_lt _ _ h1.symm hgt h2.symm

theorem byte_xor_small (a b : UInt8) : (a.toUInt64 ^^^ b.toUInt64).toNat < 256 := by
  rw [UInt64.toNat_xor, UInt8.toNat_toUInt64, UInt8.toNat_toUInt64]
  exact Nat.xor_lt_two_pow (n := 8) a.toNat_lt b.toNat_lt

theorem xor_xor_xor (h a b : UInt64) : (h ^^^ a) ^^^ (h ^^^ b) = a ^^^ b := by
  rw [UInt64.xor_comm h a, UInt64.xor_assoc, ← UInt64.xor_assoc h h b, UInt64.xor_self, UInt64.zero_xor]

/-- two steps starting from the same state with a different FIRST byte never meet, whatever the second bytes are -/
theorem two_steps_ne (h : UInt64) {a₁ b₁ : UInt8} (a₂ b₂ : UInt8) (hne : a₁ ≠ b₁) :
    step (step h a₁) a₂ ≠ step (step h b₁) b₂ := by
  intro e
  have e1 : step h a₁ ^^^ a₂.toUInt64 = step h b₁ ^^^ b₂.toUInt64 := mul_prime_inj e
  have e2 : step h a₁ ^^^ step h b₁ = a₂.toUInt64 ^^^ b₂.toUInt64 := by
    have : step h a₁ = step h b₁ ^^^ b₂.toUInt64 ^^^ a₂.toUInt64 := by
      rw [← e1, UInt64.xor_assoc, UInt64.xor_self, UInt64.xor_zero]
    rw [this, UInt64.xor_comm _ (step h b₁), ← UInt64.xor_assoc, ← UInt64.xor_assoc, UInt64.xor_self,
      UInt64.zero_xor, UInt64.xor_comm]
  have hx : h ^^^ a₁.toUInt64 ≠ h ^^^ b₁.toUInt64 := fun e => hne (UInt8.toUInt64_inj.1 (xor_cancel_left e))
  have hlow : ((h ^^^ a₁.toUInt64) ^^^ (h ^^^ b₁.toUInt64)).toNat < 256 := by
    rw [xor_xor_xor]; exact byte_xor_small _ _
  have := mul_prime_spreads hx hlow
  apply this
  show (step h a₁ ^^^ step h b₁).toNat < 256
  rw [e2]; exact byte_xor_small _ _

/-- two fed byte strings of equal length that differ in (at most) TWO ADJACENT bytes, and do differ, give different digests -/
theorem feed_two_adjacent_bytes (h : UInt64) (p s : List UInt8) {a₁ a₂ b₁ b₂ : UInt8} (hne : a₁ ≠ b₁ ∨ a₂ ≠ b₂) :
    feed h (p ++ a₁ :: a₂ :: s) ≠ feed h (p ++ b₁ :: b₂ :: s) := by
  by_cases h1 : a₁ = b₁
  · subst h1
    have h2 : a₂ ≠ b₂ := by rcases hne with h | h; exact absurd rfl h; exact h
    have := feed_one_byte h (p ++ [a₁]) s h2
    simpa using this
  · intro e
    rw [feed_append, feed_append] at e
    have e2 : step (step (feed h p) a₁) a₂ = step (step (feed h p) b₁) b₂ := feed_inj_state s (by simpa [feed] using e)
    exact two_steps_ne _ a₂ b₂ h1 e2

/-! ### little-endian fields: a change confined to the two low bytes -/

theorem toUInt8_eq_mod {n m : Nat} (h : n.toUInt8 = m.toUInt8) : n % 256 = m % 256 := by
  have := congrArg UInt8.toNat h
  simpa using this

/-- the six high bytes of `le64 n` depend only on `n / 65536` -/
def le64Hi (q : Nat) : List UInt8 :=
  [q.toUInt8, (q / 256).toUInt8, (q / 65536).toUInt8, (q / 16777216).toUInt8, (q / 4294967296).toUInt8,
   (q / 1099511627776).toUInt8]

theorem le64_split (n : Nat) : le64 n = n.toUInt8 :: (n / 256).toUInt8 :: le64Hi (n / 65536) := by
  unfold le64 le64Hi
  have h1 : n / 16777216 = n / 65536 / 256 := by omega
  have h2 : n / 4294967296 = n / 65536 / 65536 := by omega
  have h3 : n / 1099511627776 = n / 65536 / 16777216 := by omega
  have h4 : n / 281474976710656 = n / 65536 / 4294967296 := by omega
  have h5 : n / 72057594037927936 = n / 65536 / 1099511627776 := by omega
  rw [h1, h2, h3, h4, h5]

theorem low_two_differ {n m : Nat} (hq : n / 65536 = m / 65536) (hne : n ≠ m) :
    n.toUInt8 ≠ m.toUInt8 ∨ (n / 256).toUInt8 ≠ (m / 256).toUInt8 := by
  by_cases h1 : n.toUInt8 = m.toUInt8
  · by_cases h2 : (n / 256).toUInt8 = (m / 256).toUInt8
    · have e1 := toUInt8_eq_mod h1
      have e2 := toUInt8_eq_mod h2
      exact absurd (by omega) hne
    · exact Or.inr h2
  · exact Or.inl h1

/-- Digest of a split list in which ONE split's fed bytes change inside a two-byte window -/
theorem digest_ne_of_window (t : List UInt8) (pre post : List Split) (s s' : Split) (X Z : List UInt8)
    {a₁ a₂ b₁ b₂ : UInt8} (hs : splitBytes s = X ++ a₁ :: a₂ :: Z) (hs' : splitBytes s' = X ++ b₁ :: b₂ :: Z)
    (hne : a₁ ≠ b₁ ∨ a₂ ≠ b₂) : digest t (pre ++ s :: post) ≠ digest t (pre ++ s' :: post) := by
  unfold digest serialize
  simp only [List.flatMap_append, List.flatMap_cons, hs, hs']
  have e1 : t ++ (pre.flatMap splitBytes ++ (X ++ a₁ :: a₂ :: Z ++ post.flatMap splitBytes))
      = (t ++ pre.flatMap splitBytes ++ X) ++ a₁ :: a₂ :: (Z ++ post.flatMap splitBytes) := by simp
  have e2 : t ++ (pre.flatMap splitBytes ++ (X ++ b₁ :: b₂ :: Z ++ post.flatMap splitBytes))
      = (t ++ pre.flatMap splitBytes ++ X) ++ b₁ :: b₂ :: (Z ++ post.flatMap splitBytes) := by simp
  rw [e1, e2]
  exact feed_two_adjacent_bytes _ _ _ hne

/-- one byte of a file name -/
theorem digest_ne_of_name_byte (t : List UInt8) (pre post : List Split) (s : Split) (p q : List UInt8) {a b : UInt8}
    (hf : s.file = p ++ a :: q) (hab : a ≠ b) :
    digest t (pre ++ s :: post) ≠ digest t (pre ++ { s with file := p ++ b :: q } :: post) := by
  unfold digest serialize
  simp only [List.flatMap_append, List.flatMap_cons, splitBytes, hf]
  have e1 : ∀ c : UInt8, t ++ (pre.flatMap splitBytes ++ (p ++ c :: q ++ le64 s.rowGroup ++ leI64 s.rowOffset ++ leI64 s.numRows ++ le64 s.bytes ++
      post.flatMap splitBytes)) = (t ++ pre.flatMap splitBytes ++ p) ++ c :: (q ++ le64 s.rowGroup ++ leI64 s.rowOffset ++ leI64 s.numRows ++ le64 s.bytes ++
      post.flatMap splitBytes) := by intro c; simp
  rw [e1 a, e1 b]
  exact feed_one_byte _ _ _ hab

end IQE.Engine.Fnv
