/-
  IQE.Lemmas.ConstFold — the modelled `ConstantFolding::fold_expr` preserves the SQL value of every expression that has one.
-/
import IQE.Engine.ConstFold
import IQE.Lemmas.Filter
namespace IQE.Engine.ConstFold
open IQE IQE.Spec
open IQE.Engine.Filter (bind_ok pure_ok)

theorem evalBinary_sound (fo : FloatOps) (l r w : Val) (op : BinOp) (h : evalBinary Dev.none fo l op r = some w) :
    binVal fo op l r = .ok w := by
  cases l <;> cases r <;> simp only [evalBinary] at h <;> try (cases h)
  case bool.bool a b =>
    cases op <;> simp only [evalBool] at h <;> try (cases h)
    · cases a <;> cases b <;> simp [binVal, compareOp, Val.cmp3, Val.cmpNonNull, ordSat, bind, Except.bind, Except.map, pure, Except.pure] <;> decide
    · cases a <;> cases b <;> simp [binVal, compareOp, Val.cmp3, Val.cmpNonNull, ordSat, bind, Except.bind, Except.map, pure, Except.pure] <;> decide
    · cases a <;> cases b <;> rfl
    · cases a <;> cases b <;> rfl
  case int.int a b =>
    cases op <;> simp only [evalInt64] at h <;> try (cases h)
    all_goals first
      | (split at h <;> try (cases h)
         all_goals first
           | (simp_all [binVal, Val.arith, Val.arithInt, Val.checkI64]; done)
           | (split at h <;> try (cases h)
              simp_all [binVal, Val.arith, Val.arithInt, Val.checkI64]))
      | rfl
  case f64.f64 a b =>
    cases op <;> simp only [evalFloat64, Dev.none] at h <;> try (cases h)
    all_goals first
      | rfl
      | (split at h <;> cases h; rfl)
  case str.str a b =>
    cases op <;> simp only [evalString] at h <;> cases h <;> rfl

theorem isLitBool_eq {e : Expr} {b : Bool} (h : isLitBool e b = true) : e = .lit (.bool b) := by
  unfold isLitBool at h
  split at h
  · simp at h; subst h; rfl
  · cases h

theorem eval_lit (cx : EvalCtx) (env : Env) (v : Val) : Spec.eval cx env (.lit v) = .ok v := by simp [Spec.eval]

theorem and3_true_right {x v : Val} (h : Val.and3 x (.bool true) = .ok v) : v = x := by
  cases x <;> simp [Val.and3] at h <;> (try (rename_i b; cases b <;> simp [Val.and3] at h)) <;> exact h.symm
theorem and3_true_left {y v : Val} (h : Val.and3 (.bool true) y = .ok v) : v = y := by
  cases y <;> simp [Val.and3] at h <;> (try (rename_i b; cases b <;> simp [Val.and3] at h)) <;> exact h.symm
theorem and3_false_left {y v : Val} (h : Val.and3 (.bool false) y = .ok v) : v = .bool false := by
  cases y <;> simp [Val.and3] at h <;> exact h.symm
theorem and3_false_right {x v : Val} (h : Val.and3 x (.bool false) = .ok v) : v = .bool false := by
  cases x <;> simp [Val.and3] at h <;> (try (rename_i b; cases b <;> simp [Val.and3] at h)) <;> exact h.symm
theorem or3_false_right' {x v : Val} (h : Val.or3 x (.bool false) = .ok v) : v = x := by
  cases x <;> simp [Val.or3] at h <;> (try (rename_i b; cases b <;> simp [Val.or3] at h)) <;> exact h.symm
theorem or3_false_left {y v : Val} (h : Val.or3 (.bool false) y = .ok v) : v = y := by
  cases y <;> simp [Val.or3] at h <;> (try (rename_i b; cases b <;> simp [Val.or3] at h)) <;> exact h.symm
theorem or3_true_left {y v : Val} (h : Val.or3 (.bool true) y = .ok v) : v = .bool true := by
  cases y <;> simp [Val.or3] at h <;> exact h.symm
theorem or3_true_right {x v : Val} (h : Val.or3 x (.bool true) = .ok v) : v = .bool true := by
  cases x <;> simp [Val.or3] at h <;> (try (rename_i b; cases b <;> simp [Val.or3] at h)) <;> exact h.symm

theorem simplify_sound (cx : EvalCtx) (env : Env) (op : BinOp) (A B : Expr) (x y v : Val)
    (hA : Spec.eval cx env A = .ok x) (hB : Spec.eval cx env B = .ok y) (hv : binVal cx.fo op x y = .ok v) :
    Spec.eval cx env (simplify Dev.none cx.fo op A B) = .ok v := by
  have hbin : Spec.eval cx env (.bin op A B) = .ok v := by
    simp only [Spec.eval, bind_ok]; exact ⟨x, hA, y, hB, hv⟩
  unfold simplify
  cases hp : litPair Dev.none cx.fo op A B with
  | some w =>
    simp only
    unfold litPair at hp
    split at hp
    · rename_i l r
      simp only [eval_lit] at hA hB
      cases hA; cases hB
      have := evalBinary_sound cx.fo _ _ w op hp
      rw [this] at hv; cases hv
      exact eval_lit ..
    · cases hp
  | none =>
    simp only
    cases op <;> try exact hbin
    case and =>
      simp only [binVal] at hv
      simp only
      split
      · rename_i h; have := isLitBool_eq h; subst this
        simp only [eval_lit] at hB; cases hB
        rw [and3_true_right hv]; exact hA
      · split
        · rename_i h; have := isLitBool_eq h; subst this
          simp only [eval_lit] at hA; cases hA
          rw [and3_true_left hv]; exact hB
        · split
          · rename_i h
            simp only [Bool.or_eq_true] at h
            rcases h with h | h
            · have := isLitBool_eq h; subst this
              simp only [eval_lit] at hA; cases hA
              rw [and3_false_left hv]; exact eval_lit ..
            · have := isLitBool_eq h; subst this
              simp only [eval_lit] at hB; cases hB
              rw [and3_false_right hv]; exact eval_lit ..
          · exact hbin
    case or =>
      simp only [binVal] at hv
      simp only
      split
      · rename_i h; have := isLitBool_eq h; subst this
        simp only [eval_lit] at hB; cases hB
        rw [or3_false_right' hv]; exact hA
      · split
        · rename_i h; have := isLitBool_eq h; subst this
          simp only [eval_lit] at hA; cases hA
          rw [or3_false_left hv]; exact hB
        · split
          · rename_i h
            simp only [Bool.or_eq_true] at h
            rcases h with h | h
            · have := isLitBool_eq h; subst this
              simp only [eval_lit] at hA; cases hA
              rw [or3_true_left hv]; exact eval_lit ..
            · have := isLitBool_eq h; subst this
              simp only [eval_lit] at hB; cases hB
              rw [or3_true_right hv]; exact eval_lit ..
          · exact hbin

section lists
variable (cx : EvalCtx) (env : Env)

theorem evalList_fold : ∀ (es : List Expr),
    (∀ x ∈ es, ∀ v, Spec.eval cx env x = .ok v → Spec.eval cx env (fold Dev.none cx.fo x) = .ok v) →
    ∀ vs, Spec.evalList cx env es = .ok vs → Spec.evalList cx env (foldList Dev.none cx.fo es) = .ok vs := by
  intro es
  induction es with
  | nil => intro _ vs h; simpa [foldList] using h
  | cons e es ih =>
    intro hmem vs h
    simp only [Spec.evalList, bind_ok, pure_ok] at h
    obtain ⟨v, hv, ws, hws, rfl⟩ := h
    simp only [foldList, Spec.evalList, bind_ok, pure_ok]
    exact ⟨v, hmem e (List.mem_cons_self ..) v hv, ws, ih (fun x hx => hmem x (List.mem_cons_of_mem _ hx)) ws hws, rfl⟩

theorem evalCase_fold : ∀ (arms : List Expr),
    (∀ x ∈ arms, ∀ v, Spec.eval cx env x = .ok v → Spec.eval cx env (fold Dev.none cx.fo x) = .ok v) →
    ∀ v, Spec.evalCase cx env arms = .ok v → Spec.evalCase cx env (foldList Dev.none cx.fo arms) = .ok v
  | [], _, v, h => by simpa [foldList] using h
  | [e], hmem, v, h => by
    simp only [Spec.evalCase] at h
    simp only [foldList, Spec.evalCase]
    exact hmem e (List.mem_cons_self ..) v h
  | c :: t :: rest, hmem, v, h => by
    simp only [Spec.evalCase, bind_ok] at h
    obtain ⟨vc, hc, hsel⟩ := h
    have hc' := hmem c (List.mem_cons_self ..) vc hc
    have ih := evalCase_fold rest (fun x hx => hmem x (List.mem_cons_of_mem _ (List.mem_cons_of_mem _ hx)))
    simp only [foldList, Spec.evalCase, bind_ok]
    refine ⟨vc, hc', ?_⟩
    cases vc with
    | bool b =>
      cases b
      · simp only at hsel ⊢; exact ih v hsel
      · simp only at hsel ⊢; exact hmem t (List.mem_cons_of_mem _ (List.mem_cons_self ..)) v hsel
    | null => simp only at hsel ⊢; exact ih v hsel
    | _ => simp at hsel

theorem evalCoalesce_fold : ∀ (es : List Expr),
    (∀ x ∈ es, ∀ v, Spec.eval cx env x = .ok v → Spec.eval cx env (fold Dev.none cx.fo x) = .ok v) →
    ∀ v, Spec.evalCoalesce cx env es = .ok v → Spec.evalCoalesce cx env (foldList Dev.none cx.fo es) = .ok v := by
  intro es
  induction es with
  | nil => intro _ v h; simpa [foldList] using h
  | cons e es ih =>
    intro hmem v h
    simp only [Spec.evalCoalesce, bind_ok] at h
    obtain ⟨w, hw, hsel⟩ := h
    simp only [foldList, Spec.evalCoalesce, bind_ok]
    refine ⟨w, hmem e (List.mem_cons_self ..) w hw, ?_⟩
    cases w with
    | null => simp only at hsel ⊢; exact ih (fun x hx => hmem x (List.mem_cons_of_mem _ hx)) v hsel
    | _ => simpa using hsel
end lists

/-- `fold_expr` (with float literal comparison as at run time) preserves the SQL value of every expression that has one,
    in every environment — for all expression trees, by induction on the nested type. -/
theorem fold_sound (cx : EvalCtx) (env : Env) (e : Expr) :
    ∀ v, Spec.eval cx env e = .ok v → Spec.eval cx env (fold Dev.none cx.fo e) = .ok v := by
  induction e using Expr.induction with
  | bin op a b iha ihb =>
    intro v h
    simp only [Spec.eval, bind_ok] at h
    obtain ⟨x, hx, y, hy, hv⟩ := h
    simp only [fold]
    exact simplify_sound cx env op _ _ x y v (iha x hx) (ihb y hy) hv
  | un op e ih =>
    intro v h
    simp only [Spec.eval, bind_ok] at h
    obtain ⟨a, ha, hv⟩ := h
    simp only [fold, Spec.eval, bind_ok]
    exact ⟨a, ih a ha, hv⟩
  | cast e ty ih =>
    intro v h
    simp only [Spec.eval, bind_ok] at h
    obtain ⟨a, ha, hv⟩ := h
    simp only [fold, Spec.eval, bind_ok]
    exact ⟨a, ih a ha, hv⟩
  | fn name args ih =>
    intro v h
    simp only [Spec.eval, bind_ok] at h
    obtain ⟨vs, hvs, hv⟩ := h
    simp only [fold, Spec.eval, bind_ok]
    exact ⟨vs, evalList_fold cx env args ih vs hvs, hv⟩
  | coalesce es ih => intro v h; simp only [Spec.eval] at h; simp only [fold, Spec.eval]; exact evalCoalesce_fold cx env es ih v h
  | case_ arms ih => intro v h; simp only [Spec.eval] at h; simp only [fold, Spec.eval]; exact evalCase_fold cx env arms ih v h
  | nullif a b iha ihb =>
    intro v h
    simp only [Spec.eval, bind_ok] at h
    obtain ⟨x, hx, y, hy, hv⟩ := h
    simp only [fold, Spec.eval, bind_ok]
    exact ⟨x, iha x hx, y, ihb y hy, hv⟩
  | lit w => intro v h; simpa [fold] using h
  | col i => intro v h; simpa [fold] using h
  | outer d i => intro v h; simpa [fold] using h
  | inList e items neg _ _ => intro v h; simpa [fold] using h
  | between e lo hi neg _ _ _ => intro v h; simpa [fold] using h
  | exists_ sub neg => intro v h; simpa [fold] using h
  | inSub e sub neg _ => intro v h; simpa [fold] using h
  | scalarSub sub => intro v h; simpa [fold] using h

end IQE.Engine.ConstFold
