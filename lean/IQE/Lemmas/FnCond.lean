/- IQE.Lemmas.FnCond — C36 lemmas: conditional expressions. -/
import IQE.Spec.Fn
namespace IQE.Spec.Fn
-- conditional
theorem coalesce_all_null (vs : List V) (h : vs.all V.isNull = true) : coalesceV vs = .null := by
  induction vs with
  | nil => rfl
  | cons v r ih =>
    simp only [List.all_cons, Bool.and_eq_true] at h
    obtain ⟨h1, h2⟩ := h
    cases v <;> simp only [V.isNull] at h1 <;> try contradiction
    simp [coalesceV, ih h2]
theorem coalesce_first (pre : List V) (v : V) (post : List V) (hp : pre.all V.isNull = true) (hv : v.isNull = false) :
    coalesceV (pre ++ v :: post) = v := by
  induction pre with
  | nil => cases v <;> simp_all [coalesceV, V.isNull]
  | cons p r ih =>
    simp only [List.all_cons, Bool.and_eq_true] at hp
    obtain ⟨h1, h2⟩ := hp
    cases p <;> simp only [V.isNull] at h1 <;> try contradiction
    simp [coalesceV, ih h2]
theorem nullif_eq (a : V) (h : a.isNull = false) : nullifV a a = .null := by simp [nullifV, h]
theorem nullif_ne (a b : V) (h : a ≠ b) : nullifV a b = a := by
  unfold nullifV; split; · rfl
  · simp
theorem nullif_null_right (a : V) : nullifV a .null = a := by simp [nullifV, V.isNull]
theorem nullif_null_left (b : V) : nullifV .null b = .null := by simp [nullifV, V.isNull]
theorem if_null (t f : V) : ifV .null t f = some f := rfl
theorem case_no_match_no_else (c v : V) (h : c = .null ∨ c = .bool false) : caseSearched [c, v] = some .null := by
  rcases h with h | h <;> subst h <;> rfl
theorem case_null_then_true (v1 v2 : V) : caseSearched [.null, v1, .bool true, v2] = some v2 := rfl
end IQE.Spec.Fn
