/- IQE.Lemmas.FnEndian — C36 lemmas: big-endian integers. -/
import IQE.Spec.Fn.Enc2
namespace IQE.Spec.Fn

-- big endian
theorem beNat_foldl (b : List UInt8) (acc : Nat) : b.foldl (fun a x => a * 256 + x.toNat) acc = acc * 256 ^ b.length + beNat b := by
  unfold beNat
  induction b generalizing acc with
  | nil => simp
  | cons x r ih =>
    simp only [List.foldl_cons, List.length_cons]
    rw [ih (acc * 256 + x.toNat), ih (0 * 256 + x.toNat)]
    simp only [Nat.pow_succ]
    generalize 256 ^ r.length = P
    generalize List.foldl (fun a x => a * 256 + x.toNat) 0 r = F
    grind
theorem beNat_cons (x : UInt8) (r : List UInt8) : beNat (x :: r) = x.toNat * 256 ^ r.length + beNat r := by
  unfold beNat; simp only [List.foldl_cons]; rw [beNat_foldl]; simp [beNat]
theorem beBytes_length (w n : Nat) : (beBytes w n).length = w := by
  induction w with
  | zero => rfl
  | succ w ih => simp [beBytes, ih]
theorem beNat_beBytes (w n : Nat) : beNat (beBytes w n) = n % 256 ^ w := by
  induction w with
  | zero => simp [beBytes, beNat, Nat.mod_one]
  | succ w ih =>
    rw [beBytes, beNat_cons, ih, beBytes_length]
    have h1 : n % 256 ^ (w + 1) = n % 256 ^ w + 256 ^ w * (n / 256 ^ w % 256) := by
      rw [Nat.pow_succ, Nat.mod_mul]
    rw [h1]
    have : (UInt8.ofNat (n / 256 ^ w % 256)).toNat = n / 256 ^ w % 256 := by
      simp [UInt8.toNat_ofNat']
    rw [this, Nat.mul_comm]; omega
theorem beNat_lt (b : List UInt8) : beNat b < 256 ^ b.length := by
  induction b with
  | nil => simp [beNat]
  | cons x r ih =>
    rw [beNat_cons]; simp only [List.length_cons, Nat.pow_succ]
    have := x.toNat_lt
    have h2 : x.toNat * 256 ^ r.length ≤ 255 * 256 ^ r.length := Nat.mul_le_mul_right _ (by omega)
    omega
theorem beBytes_mod (w j n : Nat) (h : w ≤ j) : beBytes w (n % 256 ^ j) = beBytes w n := by
  induction w with
  | zero => rfl
  | succ w ih =>
    simp only [beBytes]
    rw [ih (by omega)]
    congr 2
    have hj : 256 ^ j = 256 ^ w * 256 ^ (j - w) := by rw [← Nat.pow_add]; congr 1; omega
    rw [hj, Nat.mod_mul_right_div_self]
    have hd : 256 ∣ 256 ^ (j - w) := by
      have : j - w = (j - w - 1) + 1 := by omega
      rw [this, Nat.pow_succ]; exact Nat.dvd_mul_left _ _
    exact Nat.mod_mod_of_dvd _ hd
theorem beBytes_beNat (b : List UInt8) : beBytes b.length (beNat b) = b := by
  induction b with
  | nil => rfl
  | cons x r ih =>
    simp only [List.length_cons, beBytes]
    have hlt := beNat_lt r
    rw [beNat_cons]
    congr 1
    · have : (x.toNat * 256 ^ r.length + beNat r) / 256 ^ r.length = x.toNat := by
        rw [Nat.mul_comm, Nat.mul_add_div (Nat.pow_pos (by omega)), Nat.div_eq_of_lt hlt]; simp
      rw [this]
      have := x.toNat_lt
      rw [Nat.mod_eq_of_lt (by omega)]; simp
    · have : (x.toNat * 256 ^ r.length + beNat r) % 256 ^ r.length = beNat r := by
        rw [Nat.mul_comm, Nat.mul_add_mod_self_left, Nat.mod_eq_of_lt hlt]
      rw [← beBytes_mod r.length r.length _ (Nat.le_refl _), this, ih]

theorem fromBigEndian64_toBigEndian64 (x : Int) (hx : inI64 x = true) : fromBigEndian 8 (toBigEndian 8 x) = some x := by
  have hx' : -9223372036854775808 ≤ x ∧ x ≤ 9223372036854775807 := by
    unfold inI64 i64Min i64Max at hx
    rw [Bool.and_eq_true, decide_eq_true_iff, decide_eq_true_iff] at hx; exact hx
  unfold fromBigEndian toBigEndian
  simp only [beBytes_length, if_true, beNat_beBytes]
  simp only [Nat.reducePow, Int.reducePow, Nat.reduceDiv]
  congr 1
  split <;> omega
theorem fromBigEndian32_toBigEndian32 (x : Int) (hx : -2147483648 ≤ x ∧ x ≤ 2147483647) : fromBigEndian 4 (toBigEndian 4 x) = some x := by
  unfold fromBigEndian toBigEndian
  simp only [beBytes_length, if_true, beNat_beBytes]
  simp only [Nat.reducePow, Int.reducePow, Nat.reduceDiv]
  congr 1
  split <;> omega

end IQE.Spec.Fn
