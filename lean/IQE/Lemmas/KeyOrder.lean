/-
  IQE.Lemmas.KeyOrder — the ORDER BY comparator `Spec.cmpKeys` is a total preorder on well-typed key vectors.

  `cmpKeys` compares values of different types as "equal" (a well-typed plan never does that), so it is
  not transitive on arbitrary `Val`s.  `cmpKeysT` is a comparator that IS a lawful total preorder on all
  lists (`Std.TransCmp`), and coincides with `cmpKeys` on vectors typed by a column-type list (`Typed`).
  Everything order-theoretic is proved for `cmpKeysT` and transferred (`mergeSort_cmpKeys_eq`).
-/
import IQE.Spec.OrderAgg
namespace IQE.Lemmas.KeyOrder
open IQE IQE.Spec Std

/-! ### a lawful comparator on all values -/

/-- 0 = sorts first, 2 = sorts last; non-NULLs are 1 -/
def nullRank (nf : Bool) : Val → Nat
  | .null => if nf then 0 else 2
  | _ => 1

/-- constructor tag, integer payload, string payload: together injective; compared lexicographically -/
def tag : Val → Nat
  | .null => 0 | .bool _ => 1 | .int _ => 2 | .f64 _ => 3 | .str _ => 4 | .date _ => 5
def intPart : Val → Int
  | .bool b => (b.toNat : Int) | .int i => i | .f64 x => x.totalKey | .date d => d | _ => 0
def strPart : Val → String
  | .str s => s | _ => ""

def cmpAsc : Val → Val → Ordering :=
  compareLex (compareOn tag) (compareLex (compareOn intPart) (compareOn strPart))

def cmpPayload (desc : Bool) (a b : Val) : Ordering := if desc then cmpAsc b a else cmpAsc a b

def cmpValT (desc nf : Bool) (a b : Val) : Ordering :=
  (compare (nullRank nf a) (nullRank nf b)).then (cmpPayload desc a b)

instance : TransCmp cmpAsc := by unfold cmpAsc; exact inferInstance

instance (desc : Bool) : TransCmp (cmpPayload desc) := by
  cases desc
  · show TransCmp (fun a b => cmpAsc a b)
    exact inferInstanceAs (TransCmp cmpAsc)
  · show TransCmp (fun a b => cmpAsc b a)
    exact TransCmp.opposite

instance (nf : Bool) : TransCmp (fun a b : Val => compare (nullRank nf a) (nullRank nf b)) :=
  inferInstanceAs (TransCmp (compareOn (nullRank nf)))

instance (desc nf : Bool) : TransCmp (cmpValT desc nf) :=
  inferInstanceAs (TransCmp (compareLex (fun a b : Val => compare (nullRank nf a) (nullRank nf b)) (cmpPayload desc)))

/-- the comparator on key vectors: missing entries count as NULL, so it is lawful on lists of any length -/
def cmpKeysT : List (Bool × Bool) → List Val → List Val → Ordering
  | [], _, _ => .eq
  | (d, nf) :: fs, as, bs => (cmpValT d nf (as.headD .null) (bs.headD .null)).then (cmpKeysT fs as.tail bs.tail)

theorem transCmp_comap {α β : Type} (cmp : β → β → Ordering) [TransCmp cmp] (g : α → β) :
    TransCmp (fun a b => cmp (g a) (g b)) where
  eq_swap := OrientedCmp.eq_swap (cmp := cmp)
  isLE_trans := TransCmp.isLE_trans (cmp := cmp)

instance cmpKeysT_trans : (flags : List (Bool × Bool)) → TransCmp (cmpKeysT flags)
  | [] => { eq_swap := by intros; rfl, isLE_trans := by intros; rfl }
  | (d, nf) :: fs => by
    have i₁ : TransCmp (fun as bs : List Val => cmpValT d nf (as.headD .null) (bs.headD .null)) :=
      transCmp_comap (cmpValT d nf) (fun l : List Val => l.headD .null)
    have _i₂ := cmpKeysT_trans fs
    have i₂ : TransCmp (fun as bs : List Val => cmpKeysT fs as.tail bs.tail) :=
      transCmp_comap (cmpKeysT fs) List.tail
    exact inferInstanceAs (TransCmp (compareLex (fun as bs : List Val => cmpValT d nf (as.headD .null) (bs.headD .null))
      (fun as bs : List Val => cmpKeysT fs as.tail bs.tail)))

/-- `a` sorts before or with `b` -/
def leT (flags : List (Bool × Bool)) (a b : List Val) : Bool := cmpKeysT flags a b != .gt

theorem leT_iff_isLE (flags : List (Bool × Bool)) (a b : List Val) : leT flags a b = (cmpKeysT flags a b).isLE := by
  unfold leT; cases cmpKeysT flags a b <;> rfl

theorem leT_trans (flags : List (Bool × Bool)) (a b c : List Val) : leT flags a b → leT flags b c → leT flags a c := by
  simp only [leT_iff_isLE]
  exact TransCmp.isLE_trans

theorem leT_total (flags : List (Bool × Bool)) (a b : List Val) : (leT flags a b || leT flags b a) = true := by
  simp only [leT_iff_isLE]
  have := OrientedCmp.eq_swap (cmp := cmpKeysT flags) (a := a) (b := b)
  rw [this]
  cases cmpKeysT flags b a <;> rfl

/-! ### the lawful comparator identifies exactly equal vectors -/

theorem then_eq_eq (a b : Ordering) : a.then b = .eq ↔ a = .eq ∧ b = .eq := by cases a <;> cases b <;> simp [Ordering.then]

theorem totalKey_inj (x y : F64) (h : x.totalKey = y.totalKey) : x = y := by
  cases x with | mk bx => cases y with | mk by_ =>
  simp only [F64.totalKey, F64.signBit, F64.mag] at h
  have hx := bx.toNat_lt
  have hy := by_.toNat_lt
  have : bx.toNat = by_.toNat := by
    simp only [decide_eq_true_eq] at h
    split at h <;> split at h <;> omega
  congr 1
  exact UInt64.toNat_inj.1 this

theorem cmpAsc_eq (a b : Val) : cmpAsc a b = .eq ↔ a = b := by
  constructor
  · intro h
    simp only [cmpAsc, compareLex, compareOn, then_eq_eq] at h
    obtain ⟨h1, h2, h3⟩ := h
    have e1 : tag a = tag b := LawfulEqOrd.eq_of_compare h1
    have e2 : intPart a = intPart b := LawfulEqOrd.eq_of_compare h2
    have e3 : strPart a = strPart b := LawfulEqOrd.eq_of_compare h3
    cases a <;> cases b <;> simp only [tag, intPart, strPart] at e1 e2 e3 <;> first | rfl | omega | skip
    · rename_i x y; cases x <;> cases y <;> simp_all
    · simp_all
    · rename_i x y; rw [totalKey_inj x y e2]
    · simp_all
    · simp_all
  · rintro rfl; exact ReflCmp.compare_self

theorem cmpValT_eq (desc nf : Bool) (a b : Val) : cmpValT desc nf a b = .eq ↔ a = b := by
  constructor
  · intro h
    simp only [cmpValT, then_eq_eq, cmpPayload] at h
    cases desc
    · exact (cmpAsc_eq a b).1 (by simpa using h.2)
    · exact ((cmpAsc_eq b a).1 (by simpa using h.2)).symm
  · rintro rfl; exact ReflCmp.compare_self

theorem cmpKeysT_eq (flags : List (Bool × Bool)) (as bs : List Val) (ha : as.length = flags.length) (hb : bs.length = flags.length) :
    cmpKeysT flags as bs = .eq ↔ as = bs := by
  induction flags generalizing as bs with
  | nil =>
    have : as = [] := by simpa using ha
    have : bs = [] := by simpa using hb
    simp_all [cmpKeysT]
  | cons f fs ih =>
    obtain ⟨d, nf⟩ := f
    match as, bs, ha, hb with
    | a :: as, b :: bs, ha, hb =>
      simp only [cmpKeysT, List.headD_cons, List.tail_cons, then_eq_eq, cmpValT_eq,
        ih as bs (by simpa using ha) (by simpa using hb), List.cons.injEq]

/-- two key vectors of the right length are tied under the lawful order iff they are equal -/
theorem tied_iff_eq (flags : List (Bool × Bool)) (as bs : List Val) (ha : as.length = flags.length) (hb : bs.length = flags.length) :
    (leT flags as bs && leT flags bs as) = decide (as = bs) := by
  have hsw := OrientedCmp.eq_swap (cmp := cmpKeysT flags) (a := as) (b := bs)
  have hiff := cmpKeysT_eq flags as bs ha hb
  by_cases he : as = bs
  · subst he
    have : cmpKeysT flags as as = .eq := ReflCmp.compare_self
    simp [leT, this]
  · have hne : cmpKeysT flags as bs ≠ .eq := fun h => he (hiff.1 h)
    simp only [he, decide_false]
    unfold leT
    rw [hsw]
    cases hc : cmpKeysT flags bs as <;> simp_all

/-! ### agreement with `Spec.cmpKeys` on typed vectors -/

/-- `v` is NULL or a value of column type `t` -/
def HasTy (t : Ty) (v : Val) : Prop := v = .null ∨ v.tyOf = some t

/-- the vector `kv` is typed by the column types `tys` (same length) -/
def Typed : List Ty → List Val → Prop
  | [], [] => True
  | t :: ts, v :: vs => HasTy t v ∧ Typed ts vs
  | _, _ => False

instance : (tys : List Ty) → (kv : List Val) → Decidable (Typed tys kv)
  | [], [] => isTrue trivial
  | t :: ts, v :: vs =>
    have : Decidable (Typed ts vs) := instDecidableTyped ts vs
    have : Decidable (HasTy t v) := by unfold HasTy; exact inferInstance
    by unfold Typed; exact inferInstance
  | [], _ :: _ => isFalse (by simp [Typed])
  | _ :: _, [] => isFalse (by simp [Typed])

theorem swap_then (a b : Ordering) : (a.then b).swap = a.swap.then b.swap := by cases a <;> rfl

theorem compare_swap_int (a b : Int) : (compare a b).swap = compare b a := (OrientedCmp.eq_swap (cmp := compare)).symm
theorem compare_swap_nat (a b : Nat) : (compare a b).swap = compare b a := (OrientedCmp.eq_swap (cmp := compare)).symm
theorem compare_swap_str (a b : String) : (compare a b).swap = compare b a := (OrientedCmp.eq_swap (cmp := compare)).symm

theorem compare_self_nat (a : Nat) : compare a a = .eq := ReflCmp.compare_self
theorem compare_self_int (a : Int) : compare a a = .eq := ReflCmp.compare_self
theorem compare_self_str (a : String) : compare a a = .eq := ReflCmp.compare_self

theorem then_eq_right (o : Ordering) : o.then .eq = o := by cases o <;> rfl
theorem eq_then (o : Ordering) : Ordering.eq.then o = o := rfl
theorem lt_then (o : Ordering) : Ordering.lt.then o = .lt := rfl
theorem gt_then (o : Ordering) : Ordering.gt.then o = .gt := rfl
theorem nat_cmp_01 : compare (0 : Nat) 1 = .lt := by decide
theorem nat_cmp_21 : compare (2 : Nat) 1 = .gt := by decide
theorem nat_cmp_10 : compare (1 : Nat) 0 = .gt := by decide
theorem nat_cmp_12 : compare (1 : Nat) 2 = .lt := by decide

/-- on values of one column type (or NULL) the Spec comparator is the lawful one -/
theorem cmpKeyVal_eq_T (fo : FloatOps) (desc nf : Bool) (t : Ty) (a b : Val) (ha : HasTy t a) (hb : HasTy t b) :
    cmpKeyVal fo desc nf a b = cmpValT desc nf a b := by
  rcases ha with rfl | ha <;> rcases hb with rfl | hb
  · have : cmpValT desc nf .null .null = .eq := by cases desc <;> cases nf <;> decide
    rw [this]; rfl
  · cases b <;> simp [Val.tyOf] at hb <;> cases nf <;>
      simp [cmpKeyVal, cmpValT, nullRank, lt_then, gt_then, nat_cmp_01, nat_cmp_21]
  · cases a <;> simp [Val.tyOf] at ha <;> cases nf <;>
      simp [cmpKeyVal, cmpValT, nullRank, lt_then, gt_then, nat_cmp_10, nat_cmp_12]
  · cases a <;> simp [Val.tyOf] at ha <;> cases b <;> simp [Val.tyOf] at hb <;> subst ha <;> simp at hb <;>
      cases desc <;>
      simp [cmpKeyVal, cmpValT, cmpPayload, cmpAsc, compareLex, compareOn, tag, intPart, strPart, nullRank,
        Val.cmpNonNull, F64.totalCmp, compare_self_nat, compare_self_int, compare_self_str, then_eq_right, eq_then,
        compare_swap_int, compare_swap_nat, compare_swap_str] <;>
      (rename_i x y; cases x <;> cases y <;> decide)

theorem cmpKeys_eq_T (fo : FloatOps) (flags : List (Bool × Bool)) (tys : List Ty) (as bs : List Val)
    (hlen : flags.length ≤ tys.length) (ha : Typed tys as) (hb : Typed tys bs) :
    cmpKeys fo flags as bs = cmpKeysT flags as bs := by
  induction flags generalizing tys as bs with
  | nil => cases as <;> cases bs <;> simp [cmpKeys, cmpKeysT]
  | cons f fs ih =>
    obtain ⟨d, nf⟩ := f
    match tys, as, bs, ha, hb with
    | [], _, _, _, _ => simp at hlen
    | t :: ts, a :: as, b :: bs, ha, hb =>
      simp only [Typed] at ha hb
      simp only [cmpKeys, cmpKeysT, List.headD_cons, List.tail_cons]
      rw [cmpKeyVal_eq_T fo d nf t a b ha.1 hb.1, ih ts as bs (by simpa using hlen) ha.2 hb.2]
      cases cmpValT d nf a b <;> rfl

/-- sorting typed key-carrying rows under the Spec comparator = sorting them under the lawful one -/
theorem mergeSort_cmpKeys_eq {β : Type} (fo : FloatOps) (flags : List (Bool × Bool)) (tys : List Ty) (key : β → List Val)
    (l : List β) (hlen : flags.length ≤ tys.length) (ht : ∀ x ∈ l, Typed tys (key x)) :
    l.mergeSort (fun a b => cmpKeys fo flags (key a) (key b) != .gt) = l.mergeSort (fun a b => leT flags (key a) (key b)) := by
  have := List.map_mergeSort (f := id) (r := fun a b => cmpKeys fo flags (key a) (key b) != .gt)
    (s := fun a b => leT flags (key a) (key b)) (l := l)
    (by intro a ha b hb; simp only [id, leT]; rw [cmpKeys_eq_T fo flags tys _ _ hlen (ht a ha) (ht b hb)])
  simpa using this

end IQE.Lemmas.KeyOrder
