/-
  IQE.Core.TextMore — further Rust std text/slice behaviours used by the byte-level models
  (HTTP response parser, CLI writers). Same conventions as IQE.Core.Text.
-/
import IQE.Core.Text
namespace IQE.Text

/-- Rust `<[u8]>::split(|b| *b == sep)`: always ≥ 1 piece. -/
def splitByte (sep : UInt8) : List UInt8 → List (List UInt8)
  | [] => [[]]
  | c :: cs =>
    if c == sep then [] :: splitByte sep cs
    else match splitByte sep cs with
      | [] => [[c]]            -- unreachable
      | p :: ps => (c :: p) :: ps

/-- Rust `str::split_whitespace`: maximal runs of non-white-space characters (`cur` = current run, reversed). -/
def splitWsGo : List Char → List Char → List (List Char)
  | [], cur => if cur.isEmpty then [] else [cur.reverse]
  | c :: cs, cur =>
    if isWs c then (if cur.isEmpty then splitWsGo cs [] else cur.reverse :: splitWsGo cs [])
    else splitWsGo cs (c :: cur)

def splitWhitespace (l : List Char) : List (List Char) := splitWsGo l []

/-- Rust `char::to_ascii_lowercase`. -/
def toAsciiLower (c : Char) : Char :=
  if 65 ≤ c.toNat && c.toNat ≤ 90 then Char.ofNat (c.toNat + 32) else c

/-- Rust `str::to_ascii_lowercase`. -/
def asciiLower (l : List Char) : List Char := l.map toAsciiLower

/-- first and last character (if any) are not white space: `str::trim` leaves the text alone -/
def edgeOk (l : List Char) : Bool := l.head?.all (fun c => !isWs c) && l.reverse.head?.all (fun c => !isWs c)

def isAscii (c : Char) : Bool := c.toNat < 0x80

/-- Rust `str::parse::<u16>()`. -/
def parseU16 (l : List Char) : Option Nat := parseUnsigned (2 ^ 16) l

end IQE.Text
