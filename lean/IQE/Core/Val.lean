/-
  IQE.Core.Val — SQL values, NULL, three-valued logic, comparison and arithmetic on values.
  Integers are unbounded `Int`; the engine's i64 range is an explicit check (`Err.overflow`,
  which the properties call "engine-defined" and generators avoid).  Float *arithmetic* is a
  parameter (`FloatOps`): theorems hold for every instance, the driver instantiates it with the
  machine's IEEE doubles.
-/
import IQE.Core.F64
namespace IQE

inductive Ty | bool | int | f64 | str | date
deriving DecidableEq, Repr, Inhabited

inductive Val
  | null
  | bool (b : Bool)
  | int (i : Int)
  | f64 (x : F64)
  | str (s : String)
  | date (d : Int)           -- days since 1970-01-01
deriving DecidableEq, Repr, Inhabited

abbrev Row := List Val
abbrev Table := List Row

inductive Err
  | type (msg : String)      -- ill-typed operation (a well-typed plan never produces it)
  | divZero
  | overflow
  | card (msg : String)      -- scalar subquery returned more than one row
  | unsupported (msg : String)
  | bad (msg : String)       -- malformed plan (column index out of range …)
deriving DecidableEq, Repr, Inhabited

/-- Float arithmetic as a parameter. -/
structure FloatOps where
  add : F64 → F64 → F64
  sub : F64 → F64 → F64
  mul : F64 → F64 → F64
  div : F64 → F64 → F64
  neg : F64 → F64
  ofInt : Int → F64
  toInt : F64 → Option Int      -- truncating cast; `none` when out of range / NaN

namespace Val

def isNull : Val → Bool | .null => true | _ => false

def tyOf : Val → Option Ty
  | .null => none | .bool _ => some .bool | .int _ => some .int | .f64 _ => some .f64
  | .str _ => some .str | .date _ => some .date

/-- Kleene three-valued connectives on SQL booleans (`null` = UNKNOWN). -/
def and3 : Val → Val → Except Err Val
  | .bool false, .bool _ => .ok (.bool false)
  | .bool false, .null => .ok (.bool false)
  | .bool _, .bool false => .ok (.bool false)
  | .null, .bool false => .ok (.bool false)
  | .bool true, .bool true => .ok (.bool true)
  | .bool true, .null => .ok .null
  | .null, .bool true => .ok .null
  | .null, .null => .ok .null
  | _, _ => .error (.type "AND on non-boolean")

def or3 : Val → Val → Except Err Val
  | .bool true, .bool _ => .ok (.bool true)
  | .bool true, .null => .ok (.bool true)
  | .bool _, .bool true => .ok (.bool true)
  | .null, .bool true => .ok (.bool true)
  | .bool false, .bool false => .ok (.bool false)
  | .bool false, .null => .ok .null
  | .null, .bool false => .ok .null
  | .null, .null => .ok .null
  | _, _ => .error (.type "OR on non-boolean")

def not3 : Val → Except Err Val
  | .bool b => .ok (.bool !b)
  | .null => .ok .null
  | _ => .error (.type "NOT on non-boolean")

/-- Arrow's null-strict `boolean::and` / `boolean::or` kernels (NULL if either side is NULL). -/
def andStrict : Val → Val → Except Err Val
  | .bool a, .bool b => .ok (.bool (a && b))
  | .null, .bool _ => .ok .null
  | .bool _, .null => .ok .null
  | .null, .null => .ok .null
  | _, _ => .error (.type "AND on non-boolean")

def orStrict : Val → Val → Except Err Val
  | .bool a, .bool b => .ok (.bool (a || b))
  | .null, .bool _ => .ok .null
  | .bool _, .null => .ok .null
  | .null, .null => .ok .null
  | _, _ => .error (.type "OR on non-boolean")

/-- Ordering of two non-NULL values of comparable types. Floats use Arrow's total order
    (NaN / -0.0 placement is "engine-defined" in the properties; generators avoid it where it matters). -/
def cmpNonNull (fo : FloatOps) : Val → Val → Except Err Ordering
  | .bool a, .bool b => .ok (compare a.toNat b.toNat)
  | .int a, .int b => .ok (compare a b)
  | .date a, .date b => .ok (compare a b)
  | .str a, .str b => .ok (compare a b)
  | .f64 a, .f64 b => .ok (F64.totalCmp a b)
  | .int a, .f64 b => .ok (F64.totalCmp (fo.ofInt a) b)
  | .f64 a, .int b => .ok (F64.totalCmp a (fo.ofInt b))
  | _, _ => .error (.type "comparison of incompatible types")

/-- SQL comparison: `none` (UNKNOWN) if either side is NULL. -/
def cmp3 (fo : FloatOps) (a b : Val) : Except Err (Option Ordering) :=
  match a, b with
  | .null, _ => .ok none
  | _, .null => .ok none
  | a, b => (cmpNonNull fo a b).map some

def i64Min : Int := -(2:Int)^63
def i64Max : Int := (2:Int)^63 - 1
def inI64 (i : Int) : Bool := decide (i64Min ≤ i) && decide (i ≤ i64Max)
def checkI64 (i : Int) : Except Err Val := if inI64 i then .ok (.int i) else .error .overflow

inductive Arith | add | sub | mul | div | mod
deriving DecidableEq, Repr, Inhabited

def arithInt : Arith → Int → Int → Except Err Val
  | .add, a, b => checkI64 (a + b)
  | .sub, a, b => checkI64 (a - b)
  | .mul, a, b => checkI64 (a * b)
  | .div, a, b => if b = 0 then .error .divZero else checkI64 (Int.tdiv a b)
  | .mod, a, b => if b = 0 then .error .divZero else checkI64 (Int.tmod a b)

def arithF64 (fo : FloatOps) : Arith → F64 → F64 → Except Err Val
  | .add, a, b => .ok (.f64 (fo.add a b))
  | .sub, a, b => .ok (.f64 (fo.sub a b))
  | .mul, a, b => .ok (.f64 (fo.mul a b))
  | .div, a, b => .ok (.f64 (fo.div a b))
  | .mod, _, _ => .error (.unsupported "float modulo")

/-- NULL-propagating arithmetic with int→f64 promotion. -/
def arith (fo : FloatOps) (op : Arith) : Val → Val → Except Err Val
  | .null, _ => .ok .null
  | _, .null => .ok .null
  | .int a, .int b => arithInt op a b
  | .f64 a, .f64 b => arithF64 fo op a b
  | .int a, .f64 b => arithF64 fo op (fo.ofInt a) b
  | .f64 a, .int b => arithF64 fo op a (fo.ofInt b)
  | .date a, .int b => match op with
      | .add => .ok (.date (a + b)) | .sub => .ok (.date (a - b))
      | _ => .error (.type "date arithmetic")
  | _, _ => .error (.type "arithmetic on non-numeric")

end Val
end IQE
