/-
  IQE.Core.F64 — IEEE-754 binary64 values by bit pattern.
  Only *comparison* semantics is defined (and proved about); arithmetic is a
  parameter wherever a model needs it.  Two orders matter in the engine:
    * IEEE `<`, `<=`, `==` (Rust `PartialOrd`/`PartialEq` on f64): NaN unordered, -0 = +0
    * `total_cmp` (Rust `f64::total_cmp`, used by Arrow's cmp / sort kernels)
  Both are defined through integer keys so that `omega` can reason about them.
-/
namespace IQE

structure F64 where
  bits : UInt64
deriving DecidableEq, Repr, Inhabited

namespace F64

def signBit (x : F64) : Bool := x.bits.toNat ≥ 2 ^ 63
/-- magnitude bits (everything but the sign) -/
def mag (x : F64) : Nat := x.bits.toNat % 2 ^ 63
def expMax : Nat := 0x7FF * 2 ^ 52      -- magnitude of +inf
def isNaN (x : F64) : Bool := x.mag > expMax
def isZero (x : F64) : Bool := x.mag == 0

/-- Sign-magnitude key: IEEE order on non-NaN values (both zeros map to 0). -/
def ieeeKey (x : F64) : Int := if x.signBit then - (x.mag : Int) else (x.mag : Int)
/-- `total_cmp` key: -NaN < -inf < … < -0 < +0 < … < +inf < +NaN. -/
def totalKey (x : F64) : Int := if x.signBit then - (x.mag : Int) - 1 else (x.mag : Int)

/-- Rust `a < b` on f64. -/
def lt (a b : F64) : Bool := !a.isNaN && !b.isNaN && decide (a.ieeeKey < b.ieeeKey)
/-- Rust `a <= b` on f64. -/
def le (a b : F64) : Bool := !a.isNaN && !b.isNaN && decide (a.ieeeKey ≤ b.ieeeKey)
/-- Rust `a == b` on f64. -/
def eq (a b : F64) : Bool := !a.isNaN && !b.isNaN && decide (a.ieeeKey = b.ieeeKey)
def ne (a b : F64) : Bool := !(eq a b)
def gt (a b : F64) : Bool := lt b a
def ge (a b : F64) : Bool := le b a

/-- Rust `a.total_cmp(&b)`. -/
def totalCmp (a b : F64) : Ordering := compare a.totalKey b.totalKey
def totalLt (a b : F64) : Bool := decide (a.totalKey < b.totalKey)
def totalLe (a b : F64) : Bool := decide (a.totalKey ≤ b.totalKey)
def totalEq (a b : F64) : Bool := decide (a.totalKey = b.totalKey)

def ofBits (b : UInt64) : F64 := ⟨b⟩
def posZero : F64 := ⟨0⟩
def negZero : F64 := ⟨0x8000000000000000⟩
def nan : F64 := ⟨0x7FF8000000000000⟩
def posInf : F64 := ⟨0x7FF0000000000000⟩
def negInf : F64 := ⟨0xFFF0000000000000⟩

end F64
end IQE
