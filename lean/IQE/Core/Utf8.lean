/-
  IQE.Core.Utf8 — Rust's UTF-8 validation / lossy decoding over `List UInt8`, as state machines
  (structural recursion on the byte list, so everything kernel-reduces).

  * `decode`       = `core::str::from_utf8` (`none` = `Err(Utf8Error)`), Unicode Table 3-7:
        00..7F | C2..DF 80..BF | E0 A0..BF 80..BF | E1..EC 80..BF 80..BF | ED 80..9F 80..BF |
        EE..EF 80..BF 80..BF | F0 90..BF 80..BF 80..BF | F1..F3 80..BF×3 | F4 80..8F 80..BF 80..BF
  * `decodeLossy`  = `String::from_utf8_lossy` (`Utf8Chunks`): every maximal invalid prefix of a
        scalar (lead byte + the continuation bytes that were still acceptable) becomes one U+FFFD and
        the offending byte is looked at again as the start of a new scalar.
  * `encode`       = `char::encode_utf8` / `String::as_bytes`.
-/
namespace IQE.Utf8

def replacement : Char := Char.ofNat 0xFFFD

/-- What a byte means at the start of a scalar. -/
inductive Start where
  | ascii (c : Char)
  | lead (need acc lo hi : Nat)   -- `need` continuation bytes follow; the next one must lie in [lo, hi]
  | bad                           -- 80..C1, F5..FF (`utf8_char_width = 0`, or the never-valid C0/C1)
deriving DecidableEq, Repr

def classify (n : Nat) : Start :=
  if n < 0x80 then .ascii (Char.ofNat n)
  else if 0xC2 ≤ n && n ≤ 0xDF then .lead 1 (n - 0xC0) 0x80 0xBF
  else if n == 0xE0 then .lead 2 0 0xA0 0xBF
  else if (0xE1 ≤ n && n ≤ 0xEC) || n == 0xEE || n == 0xEF then .lead 2 (n - 0xE0) 0x80 0xBF
  else if n == 0xED then .lead 2 0xD 0x80 0x9F
  else if n == 0xF0 then .lead 3 0 0x90 0xBF
  else if 0xF1 ≤ n && n ≤ 0xF3 then .lead 3 (n - 0xF0) 0x80 0xBF
  else if n == 0xF4 then .lead 3 4 0x80 0x8F
  else .bad

/-- Strict decoder; state = (continuation bytes still needed, accumulated value, bounds of the next byte). -/
def decodeGo : List UInt8 → Nat → Nat → Nat → Nat → Option (List Char)
  | [], need, _, _, _ => if need == 0 then some [] else none
  | b :: rest, need, acc, lo, hi =>
    let n := b.toNat
    if need == 0 then
      match classify n with
      | .ascii c => (decodeGo rest 0 0 0 0).map (c :: ·)
      | .lead need acc lo hi => decodeGo rest need acc lo hi
      | .bad => none
    else if lo ≤ n && n ≤ hi then
      let acc' := acc * 64 + (n - 0x80)
      if need == 1 then (decodeGo rest 0 0 0 0).map (Char.ofNat acc' :: ·)
      else decodeGo rest (need - 1) acc' 0x80 0xBF
    else none

/-- `core::str::from_utf8(bytes).ok()` as a char list. -/
def decode (l : List UInt8) : Option (List Char) := decodeGo l 0 0 0 0

def lossyGo : List UInt8 → Nat → Nat → Nat → Nat → List Char
  | [], need, _, _, _ => if need == 0 then [] else [replacement]
  | b :: rest, need, acc, lo, hi =>
    let n := b.toNat
    if need != 0 && lo ≤ n && n ≤ hi then
      let acc' := acc * 64 + (n - 0x80)
      if need == 1 then Char.ofNat acc' :: lossyGo rest 0 0 0 0
      else lossyGo rest (need - 1) acc' 0x80 0xBF
    else
      let pre := if need != 0 then [replacement] else []
      pre ++ (match classify n with
        | .ascii c => c :: lossyGo rest 0 0 0 0
        | .lead need acc lo hi => lossyGo rest need acc lo hi
        | .bad => replacement :: lossyGo rest 0 0 0 0)

/-- `String::from_utf8_lossy(bytes)` as a char list. -/
def decodeLossy (l : List UInt8) : List Char := lossyGo l 0 0 0 0

/-- `char::encode_utf8`. -/
def encodeChar (c : Char) : List UInt8 :=
  let n := c.toNat
  if n < 0x80 then [n.toUInt8]
  else if n < 0x800 then [(0xC0 + n / 64).toUInt8, (0x80 + n % 64).toUInt8]
  else if n < 0x10000 then [(0xE0 + n / 4096).toUInt8, (0x80 + n / 64 % 64).toUInt8, (0x80 + n % 64).toUInt8]
  else [(0xF0 + n / 262144).toUInt8, (0x80 + n / 4096 % 64).toUInt8, (0x80 + n / 64 % 64).toUInt8, (0x80 + n % 64).toUInt8]

def encode (l : List Char) : List UInt8 := l.flatMap encodeChar

/-- ASCII text as bytes (what `b"..."` literals and `format!` of ASCII produce). -/
def asciiBytes (l : List Char) : List UInt8 := l.map (fun c => c.toNat.toUInt8)

def isAsciiByte (b : UInt8) : Bool := b.toNat < 0x80
def byteChar (b : UInt8) : Char := Char.ofNat b.toNat

/-! ### the only facts the byte-level models need: ASCII input decodes to itself -/

theorem toNat_ofNat_ascii (n : Nat) (h : n < 0x80) : (Char.ofNat n).toNat = n := by
  unfold Char.ofNat
  have : n.isValidChar := by left; omega
  simp [this, Char.ofNatAux, Char.toNat]

theorem toNat_byteChar (b : UInt8) (h : b.toNat < 0x80) : (byteChar b).toNat = b.toNat :=
  toNat_ofNat_ascii _ h

theorem classify_ascii (n : Nat) (h : n < 0x80) : classify n = .ascii (Char.ofNat n) := by
  simp [classify, h]

theorem decodeGo_ascii : ∀ l : List UInt8, l.all isAsciiByte = true → decodeGo l 0 0 0 0 = some (l.map byteChar)
  | [], _ => by simp [decodeGo]
  | b :: rest, h => by
    simp only [List.all_cons, Bool.and_eq_true] at h
    have hb : b.toNat < 0x80 := by simpa [isAsciiByte] using h.1
    simp [decodeGo, classify_ascii _ hb, decodeGo_ascii rest h.2, byteChar]

theorem decode_ascii (l : List UInt8) (h : l.all isAsciiByte = true) : decode l = some (l.map byteChar) :=
  decodeGo_ascii l h

theorem lossyGo_ascii : ∀ l : List UInt8, l.all isAsciiByte = true → lossyGo l 0 0 0 0 = l.map byteChar
  | [], _ => by simp [lossyGo]
  | b :: rest, h => by
    simp only [List.all_cons, Bool.and_eq_true] at h
    have hb : b.toNat < 0x80 := by simpa [isAsciiByte] using h.1
    simp [lossyGo, classify_ascii _ hb, lossyGo_ascii rest h.2, byteChar]

theorem decodeLossy_ascii (l : List UInt8) (h : l.all isAsciiByte = true) : decodeLossy l = l.map byteChar :=
  lossyGo_ascii l h

end IQE.Utf8
