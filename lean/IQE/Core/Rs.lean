/-
  IQE.Core.Rs — the hand-written prelude that translator output (IQE/Gen) refers to.
  Every Rust integer type is translated to `Int`; the range of the Rust type is
  carried by separately emitted `…_inRange` side conditions, never by wrap-around.
  Each definition names the Rust std function it stands for and states when the
  Rust function would panic (the translator emits that as a side condition too).
-/
import IQE.Core.F64
namespace Rs

def I32_MIN : Int := -(2:Int)^31
def I32_MAX : Int := (2:Int)^31 - 1
def I64_MIN : Int := -(2:Int)^63
def I64_MAX : Int := (2:Int)^63 - 1
def U16_MAX : Int := (2:Int)^16 - 1
def U32_MAX : Int := (2:Int)^32 - 1
def U64_MAX : Int := (2:Int)^64 - 1
def USIZE_MAX : Int := (2:Int)^64 - 1
def U128_MAX : Int := (2:Int)^128 - 1

/-- `Ord::max` -/
def max (a b : Int) : Int := if a ≥ b then a else b
/-- `Ord::min` -/
def min (a b : Int) : Int := if a ≤ b then a else b
/-- `Ord::clamp(lo, hi)`; Rust panics iff `lo > hi` (side condition `clampOk`). -/
def clamp (x lo hi : Int) : Int := if x < lo then lo else if x > hi then hi else x
def clampOk (lo hi : Int) : Prop := lo ≤ hi
/-- unsigned `saturating_sub` -/
def satSubU (a b : Int) : Int := if a ≥ b then a - b else 0
/-- unsigned `saturating_add` for a type with maximum `m` -/
def satAddU (m a b : Int) : Int := if a + b ≤ m then a + b else m
/-- unsigned `div_ceil`; Rust panics iff `b = 0` -/
def divCeilU (a b : Int) : Int := if a % b > 0 then a / b + 1 else a / b
/-- unsigned `/` and `%` (operands ≥ 0); Rust panics iff divisor is 0 -/
def divU (a b : Int) : Int := a / b
def remU (a b : Int) : Int := a % b
/-- signed `/` and `%` truncate toward zero -/
def divI (a b : Int) : Int := Int.tdiv a b
def remI (a b : Int) : Int := Int.tmod a b
/-- `abs` on a signed type -/
def abs (a : Int) : Int := if a < 0 then -a else a
/-- `checked_add` for a type with range `[lo, hi]` -/
def checkedAdd (lo hi a b : Int) : Option Int := if lo ≤ a + b ∧ a + b ≤ hi then some (a + b) else none
/-- `Option::unwrap_or` -/
def unwrapOr {α} (o : Option α) (d : α) : α := match o with | some v => v | none => d
/-- `Option::map_or` -/
def mapOr {α β} (o : Option α) (d : β) (f : α → β) : β := match o with | some v => f v | none => d

/-- Comparison operators as the translator emits them; instances fix the Rust semantics per type. -/
class Cmp (α : Type) where
  lt : α → α → Bool
  le : α → α → Bool
  eq : α → α → Bool

instance : Cmp Int := ⟨fun a b => decide (a < b), fun a b => decide (a ≤ b), fun a b => decide (a = b)⟩
instance : Cmp Bool := ⟨fun a b => !a && b, fun a b => !a || b, fun a b => a == b⟩
/-- f64: IEEE partial order (what Rust's `<`, `<=`, `==` do). -/
instance : Cmp IQE.F64 := ⟨IQE.F64.lt, IQE.F64.le, IQE.F64.eq⟩

/-- `&str` / `String` comparison in Rust is byte-wise lexicographic over UTF-8. -/
def bytesLt : List UInt8 → List UInt8 → Bool
  | [], [] => false
  | [], _ :: _ => true
  | _ :: _, [] => false
  | a :: as, b :: bs => if a < b then true else if a > b then false else bytesLt as bs
def bytesLe (a b : List UInt8) : Bool := !bytesLt b a

structure Str where
  utf8 : List UInt8
deriving DecidableEq, Repr, Inhabited
instance : Cmp Str := ⟨fun a b => bytesLt a.utf8 b.utf8, fun a b => bytesLe a.utf8 b.utf8, fun a b => decide (a = b)⟩

def gt {α} [Cmp α] (a b : α) : Bool := Cmp.lt b a
def ge {α} [Cmp α] (a b : α) : Bool := Cmp.le b a
def ne {α} [Cmp α] (a b : α) : Bool := !Cmp.eq a b

end Rs
