/-
  IQE.Core.Text — text helpers shared by the byte/char level models.
  Strings are `List Char` (char-indexed Rust APIs) or `List UInt8` (byte APIs).
  Everything here mirrors a Rust std behaviour that the modelled code calls;
  each definition names the Rust function it stands for.
-/
namespace IQE.Text

/-- Rust `char::is_whitespace` (Unicode `White_Space`). -/
def isWs (c : Char) : Bool :=
  let n := c.toNat
  (9 ≤ n && n ≤ 13) || n == 32 || n == 0x85 || n == 0xA0 || n == 0x1680 ||
  (0x2000 ≤ n && n ≤ 0x200A) || n == 0x2028 || n == 0x2029 || n == 0x202F ||
  n == 0x205F || n == 0x3000

/-- Rust `str::trim_start`. -/
def trimStart (l : List Char) : List Char := l.dropWhile isWs
/-- Rust `str::trim_end`. -/
def trimEnd (l : List Char) : List Char := (l.reverse.dropWhile isWs).reverse
/-- Rust `str::trim`. -/
def trim (l : List Char) : List Char := trimEnd (trimStart l)

/-- Rust `str::split(sep)` for a single-char separator: always ≥ 1 piece. -/
def splitOn (sep : Char) : List Char → List (List Char)
  | [] => [[]]
  | c :: cs =>
    if c == sep then [] :: splitOn sep cs
    else match splitOn sep cs with
      | [] => [[c]]            -- unreachable (splitOn is never empty)
      | p :: ps => (c :: p) :: ps

/-- Rust `str::split_once(sep)`: split at the first occurrence. -/
def splitOnce (sep : Char) : List Char → Option (List Char × List Char)
  | [] => none
  | c :: cs =>
    if c == sep then some ([], cs)
    else match splitOnce sep cs with
      | none => none
      | some (a, b) => some (c :: a, b)

def isDigit (c : Char) : Bool := '0'.toNat ≤ c.toNat && c.toNat ≤ '9'.toNat
def digitVal (c : Char) : Nat := c.toNat - '0'.toNat

/-- Value of a string of ASCII decimal digits, most significant first
    (accumulating fold, as Rust's `from_str_radix` does). -/
def decVal (l : List Char) : Nat := l.foldl (fun acc c => acc * 10 + digitVal c) 0

/-- Rust `str::parse::<uN>()` for an unsigned type with `bound = 2^N`:
    optional leading `+`, then ≥ 1 ASCII digit, value < bound; anything else is `Err`. -/
def parseUnsigned (bound : Nat) (l : List Char) : Option Nat :=
  let ds := match l with
    | '+' :: rest => rest
    | _ => l
  if ds.isEmpty then none
  else if ds.all isDigit then
    let v := decVal ds
    if v < bound then some v else none
  else none

def usizeBound : Nat := 2 ^ 64

/-- Rust `str::parse::<usize>()` on a 64-bit target. -/
def parseUsize (l : List Char) : Option Nat := parseUnsigned usizeBound l

end IQE.Text
