/-
  IQE.StableSort — a structurally recursive STABLE sort (insertion sort), so that models which sort
  (Rust `sort_by` / `sort_by_key` are stable) reduce in the kernel (`List.mergeSort` is defined by well-founded
  recursion and does not). A stable sort's output is unique, so `sort le l = l.mergeSort le` (proved below) and every
  core lemma about `mergeSort` (permutation, sortedness, stability) transfers.
-/
namespace IQE.StableSort
variable {α : Type u}

/-- put `x` in front of the first element `y` with `le x y` (so it stays before equal elements that came later) -/
def insert (le : α → α → Bool) (x : α) : List α → List α
  | [] => [x]
  | y :: ys => if le x y then x :: y :: ys else y :: insert le x ys

def sort (le : α → α → Bool) : List α → List α
  | [] => []
  | x :: xs => insert le x (sort le xs)

theorem insert_append (le : α → α → Bool) (a : α) :
    ∀ (l₁ l₂ : List α), (∀ b, b ∈ l₁ → (!le a b) = true) → (∀ c, c ∈ l₂ → le a c = true) →
      insert le a (l₁ ++ l₂) = l₁ ++ a :: l₂
  | [], [], _, _ => rfl
  | [], c :: cs, _, h2 => by simp [insert, h2 c (List.mem_cons_self)]
  | b :: bs, l₂, h1, h2 => by
    have hb : le a b = false := by simpa using h1 b (List.mem_cons_self)
    simp only [List.cons_append, insert, hb, Bool.false_eq_true, ↓reduceIte]
    rw [insert_append le a bs l₂ (fun x hx => h1 x (List.mem_cons_of_mem _ hx)) h2]

theorem sort_eq_mergeSort {le : α → α → Bool}
    (trans : ∀ (a b c : α), le a b = true → le b c = true → le a c = true)
    (total : ∀ (a b : α), (le a b || le b a) = true) :
    ∀ l : List α, sort le l = l.mergeSort le
  | [] => by simp [sort]
  | a :: l => by
    obtain ⟨l₁, l₂, h1, h2, h3⟩ := List.mergeSort_cons trans total a l
    have hs := List.pairwise_mergeSort trans total (a :: l)
    rw [h1] at hs
    have hs2 : ∀ c, c ∈ l₂ → le a c = true := by
      have := (List.pairwise_append.1 hs).2.1
      exact fun c hc => List.rel_of_pairwise_cons this hc
    rw [sort, sort_eq_mergeSort trans total l, h2, h1]
    exact insert_append le a l₁ l₂ h3 hs2

end IQE.StableSort
