/-
  IQE.Spec.JsonTable — reference JSON reader (RFC 8259) for the shape the CLI prints: an array of objects whose
  member values are scalars.  Full JSON lexical grammar for strings (all escapes, `\uXXXX` with surrogate
  pairs, raw control characters rejected), numbers (`-? int frac? exp?`, no leading zeros) and literals;
  insignificant white space anywhere between tokens; nested arrays/objects as member values are outside the
  shape (`none`).  Independent of the engine's writer; used as the oracle of C40.
-/
namespace IQE.Spec.JsonTable

inductive Scalar where
  | null
  | bool (b : Bool)
  | int (i : Int)                 -- a number token without fraction and exponent
  | num (token : List Char)       -- any other number token, verbatim
  | str (s : List Char)
deriving DecidableEq, Repr

abbrev Row := List (List Char × Scalar)

def isWsJ (c : Char) : Bool := c == ' ' || c == '\n' || c == '\r' || c == '\t'

def skipWs : List Char → List Char
  | [] => []
  | c :: rest => if isWsJ c then skipWs rest else c :: rest

def hexVal1 (c : Char) : Option Nat :=
  let n := c.toNat
  if 48 ≤ n && n ≤ 57 then some (n - 48)
  else if 65 ≤ n && n ≤ 70 then some (n - 55)
  else if 97 ≤ n && n ≤ 102 then some (n - 87)
  else none

def hexVal4 (a b c d : Char) : Option Nat :=
  match hexVal1 a, hexVal1 b, hexVal1 c, hexVal1 d with
  | some a, some b, some c, some d => some (((a * 16 + b) * 16 + c) * 16 + d)
  | _, _, _, _ => none

/-- the character an escape letter stands for (`\"  \\  \/  \b  \f  \n  \r  \t`) -/
def escLit (e : Char) : Option Char :=
  if e == '"' then some '"' else if e == '\\' then some '\\' else if e == '/' then some '/'
  else if e == 'b' then some (Char.ofNat 8) else if e == 'f' then some (Char.ofNat 12)
  else if e == 'n' then some '\n' else if e == 'r' then some '\r' else if e == 't' then some '\t' else none

def prepend (ch : Char) (r : Option (List Char × List Char)) : Option (List Char × List Char) :=
  r.map (fun p => (ch :: p.1, p.2))

/-- the characters of a string after its opening quote, up to and excluding the closing quote; returns the rest -/
def strBody : List Char → Option (List Char × List Char)
  | [] => none
  | c :: rest =>
    if c == '"' then some ([], rest)
    else if c == '\\' then
      match rest with
      | [] => none
      | e :: rest1 =>
        if e == 'u' then
          match rest1 with
          | a :: b :: c :: d :: rest2 =>
            match hexVal4 a b c d with
            | none => none
            | some hi =>
              if 0xD800 ≤ hi && hi ≤ 0xDBFF then
                -- high surrogate: a low surrogate escape must follow
                match rest2 with
                | '\\' :: 'u' :: e :: f :: g :: h :: rest3 =>
                  match hexVal4 e f g h with
                  | some lo =>
                    if 0xDC00 ≤ lo && lo ≤ 0xDFFF then
                      prepend (Char.ofNat (0x10000 + (hi - 0xD800) * 1024 + (lo - 0xDC00))) (strBody rest3)
                    else none
                  | none => none
                | _ => none
              else if 0xDC00 ≤ hi && hi ≤ 0xDFFF then none
              else prepend (Char.ofNat hi) (strBody rest2)
          | _ => none
        else
          match escLit e with
          | none => none
          | some ch => prepend ch (strBody rest1)
    else if c.toNat < 0x20 then none
    else prepend c (strBody rest)

def isDigitJ (c : Char) : Bool := 48 ≤ c.toNat && c.toNat ≤ 57

def takeDigits : List Char → List Char × List Char
  | [] => ([], [])
  | c :: rest => if isDigitJ c then let p := takeDigits rest; (c :: p.1, p.2) else ([], c :: rest)

def decValJ (l : List Char) : Nat := l.foldl (fun acc c => acc * 10 + (c.toNat - 48)) 0

/-- optional fraction `. 1*DIGIT` -/
def fracPart : List Char → Option (List Char × List Char)
  | [] => some ([], [])
  | c :: r =>
    if c == '.' then
      let p := takeDigits r
      if p.1.isEmpty then none else some ('.' :: p.1, p.2)
    else some ([], c :: r)

def expSign : List Char → List Char × List Char
  | [] => ([], [])
  | c :: r => if c == '+' then (['+'], r) else if c == '-' then (['-'], r) else ([], c :: r)

/-- optional exponent `(e|E) [+-] 1*DIGIT` -/
def expPart : List Char → Option (List Char × List Char)
  | [] => some ([], [])
  | e :: r =>
    if e == 'e' || e == 'E' then
      let sg := expSign r
      let p := takeDigits sg.2
      if p.1.isEmpty then none else some (e :: sg.1 ++ p.1, p.2)
    else some ([], e :: r)

/-- `int frac? exp?` after the optional minus sign; no leading zeros -/
def unsignedNumber (neg : Bool) (s : List Char) : Option (Scalar × List Char) :=
  let p := takeDigits s
  if p.1.isEmpty then none
  else if p.1.length > 1 && p.1.head? == some '0' then none
  else
    match fracPart p.2 with
    | none => none
    | some (frac, s3) =>
      match expPart s3 with
      | none => none
      | some (ex, s4) =>
        if frac.isEmpty && ex.isEmpty then
          some (.int (if neg then -(Int.ofNat (decValJ p.1)) else Int.ofNat (decValJ p.1)), s4)
        else some (.num ((if neg then ['-'] else []) ++ p.1 ++ frac ++ ex), s4)

/-- a number token at the head of the input -/
def number : List Char → Option (Scalar × List Char)
  | [] => none
  | c :: r => if c == '-' then unsignedNumber true r else unsignedNumber false (c :: r)

/-- a scalar value at the head of the input -/
def scalar (s : List Char) : Option (Scalar × List Char) :=
  match s with
  | [] => none
  | c :: rest =>
    if c == '"' then (strBody rest).map (fun p => (.str p.1, p.2))
    else if c == 't' then
      (match rest with
       | 'r' :: 'u' :: 'e' :: r => some (.bool true, r)
       | _ => none)
    else if c == 'f' then
      (match rest with
       | 'a' :: 'l' :: 's' :: 'e' :: r => some (.bool false, r)
       | _ => none)
    else if c == 'n' then
      (match rest with
       | 'u' :: 'l' :: 'l' :: r => some (.null, r)
       | _ => none)
    else number s

/-- `string ws ':' ws scalar` -/
def member (s : List Char) : Option ((List Char × Scalar) × List Char) :=
  match s with
  | '"' :: rest =>
    match strBody rest with
    | none => none
    | some (k, r1) =>
      match skipWs r1 with
      | ':' :: r2 =>
        match scalar (skipWs r2) with
        | none => none
        | some (v, r3) => some ((k, v), r3)
      | _ => none
  | _ => none

/-- members after the first: `*( ws ',' ws member ) ws '}'`; fuel = an upper bound on the members left -/
def membersTail : Nat → List Char → Option (Row × List Char)
  | 0, _ => none
  | fuel + 1, s =>
    match skipWs s with
    | '}' :: rest => some ([], rest)
    | ',' :: rest =>
      match member (skipWs rest) with
      | none => none
      | some (kv, r) => (membersTail fuel r).map (fun p => (kv :: p.1, p.2))
    | _ => none

/-- an object at the head of the input (after white space) -/
def object (s : List Char) : Option (Row × List Char) :=
  match s with
  | '{' :: rest =>
    match skipWs rest with
    | '}' :: r => some ([], r)
    | r =>
      match member r with
      | none => none
      | some (kv, r') => (membersTail r'.length.succ r').map (fun p => (kv :: p.1, p.2))
  | _ => none

/-- elements after the first: `*( ws ',' ws object ) ws ']'` -/
def elementsTail : Nat → List Char → Option (List Row × List Char)
  | 0, _ => none
  | fuel + 1, s =>
    match skipWs s with
    | ']' :: rest => some ([], rest)
    | ',' :: rest =>
      match object (skipWs rest) with
      | none => none
      | some (row, r) => (elementsTail fuel r).map (fun p => (row :: p.1, p.2))
    | _ => none

/-- a whole JSON text that is an array of flat objects -/
def parse (s : List Char) : Option (List Row) :=
  match skipWs s with
  | '[' :: rest =>
    let res : Option (List Row × List Char) :=
      match skipWs rest with
      | ']' :: r => some ([], r)
      | r =>
        match object r with
        | none => none
        | some (row, r') => (elementsTail r'.length.succ r').map (fun p => (row :: p.1, p.2))
    match res with
    | none => none
    | some (rows, r) => if (skipWs r).isEmpty then some rows else none
  | _ => none

end IQE.Spec.JsonTable
