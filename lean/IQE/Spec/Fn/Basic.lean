/-
  IQE.Spec.Fn.Basic — values and outcomes of scalar function calls (C36).
  Strings are code-point lists (`List Char`), varbinary is `List UInt8`, bigint is `Int` with the
  i64 range made explicit where a function can leave it, dates are days since 1970-01-01.
-/
namespace IQE.Spec.Fn

inductive V
  | null
  | int (i : Int)
  | str (s : List Char)
  | bool (b : Bool)
  | bytes (b : List UInt8)
  | date (d : Int)
  | f64 (bits : Nat)          -- only ever compared, never computed with
deriving DecidableEq, Repr, Inhabited

/-- Documented outcome of a call: a value (possibly NULL) or "the function raises". -/
inductive Out
  | val (v : V)
  | err
deriving DecidableEq, Repr, Inhabited

def V.isNull : V → Bool | .null => true | _ => false

def i64Min : Int := -9223372036854775808
def i64Max : Int := 9223372036854775807
def inI64 (x : Int) : Bool := decide (i64Min ≤ x) && decide (x ≤ i64Max)

/-- RETURNS NULL ON NULL INPUT: any NULL argument makes the result NULL, otherwise `k` decides
    (`none` = the call is ill-typed / outside what is modelled). -/
def strict (args : List V) (k : List V → Option Out) : Option Out :=
  if args.any V.isNull then some (.val .null) else k args

theorem strict_null (args : List V) (k : List V → Option Out) (h : args.any V.isNull = true) :
    strict args k = some (.val .null) := by simp [strict, h]

def ofOptInt : Option Int → Out | some i => .val (.int i) | none => .err
def ofOptStr : Option (List Char) → Out | some s => .val (.str s) | none => .err
def ofOptBytes : Option (List UInt8) → Out | some s => .val (.bytes s) | none => .err
def ofOptBool : Option Bool → Out | some s => .val (.bool s) | none => .err
def ofOptDate : Option Int → Out | some s => .val (.date s) | none => .err
/-- results that must fit the engine's BIGINT -/
def ofIntChecked (i : Int) : Out := if inI64 i then .val (.int i) else .err

end IQE.Spec.Fn
