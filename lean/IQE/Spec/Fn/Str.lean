/-
  IQE.Spec.Fn.Str — string functions over code points (documented Trino meaning; `left`/`right`/`repeat`/`ascii`,
  which Trino does not have for varchar, take their common SQL meaning).
-/
import IQE.Spec.Fn.Basic
import IQE.Core.Text
namespace IQE.Spec.Fn

def isAsciiS (s : List Char) : Bool := s.all (fun c => c.toNat < 128)

/-- `length`: number of code points. -/
def lengthS (s : List Char) : Int := s.length
/-- `upper` / `lower` on ASCII strings (non-ASCII input is outside the claim). -/
def upperS (s : List Char) : List Char := s.map Char.toUpper
def lowerS (s : List Char) : List Char := s.map Char.toLower
def reverseS (s : List Char) : List Char := s.reverse
def concatS (ss : List (List Char)) : List Char := ss.flatten
/-- `concat_ws(sep, s1..sn)`: NULL arguments are skipped (done by the caller), the rest joined with `sep`. -/
def joinS (sep : List Char) : List (List Char) → List Char
  | [] => []
  | [a] => a
  | a :: b :: rest => a ++ sep ++ joinS sep (b :: rest)
def startsWith (s p : List Char) : Bool := p.isPrefixOf s
def endsWith (s p : List Char) : Bool := p.reverse.isPrefixOf s.reverse

/-- `trim`/`ltrim`/`rtrim`: remove whitespace (Unicode White_Space) from the ends. -/
def ltrimS (s : List Char) : List Char := IQE.Text.trimStart s
def rtrimS (s : List Char) : List Char := IQE.Text.trimEnd s
def trimS (s : List Char) : List Char := IQE.Text.trim s

/-- `substring(s, start [, len])`: positions start at 1; a negative start counts from the end;
    start 0, a start outside the string, or len ≤ 0 give the empty string. -/
def substr (s : List Char) (start : Int) (len : Option Int) : List Char :=
  let n : Int := s.length
  if start = 0 then []
  else
    let st : Int := if start > 0 then start - 1 else n + start
    if st < 0 ∨ st ≥ n then []
    else match len with
      | none => s.drop st.toNat
      | some l => if l ≤ 0 then [] else (s.drop st.toNat).take l.toNat

/-- `left(s, n)` / `right(s, n)` for n ≥ 0: the first / last n code points. -/
def leftS (s : List Char) (n : Nat) : List Char := s.take n
def rightS (s : List Char) (n : Nat) : List Char := s.drop (s.length - n)
/-- `repeat(s, n)`: n copies (none for n ≤ 0). -/
def repeatS (s : List Char) : Nat → List Char
  | 0 => []
  | n + 1 => s ++ repeatS s n

/-- `replace(s, search, rep)`: every non-overlapping occurrence, scanning from the left;
    an empty `search` inserts `rep` in front of every character and at the end. -/
def replaceGo (pat rep : List Char) : List Char → Nat → List Char
  | [], _ => []
  | _ :: cs, skip + 1 => replaceGo pat rep cs skip
  | c :: cs, 0 => if pat.isPrefixOf (c :: cs) then rep ++ replaceGo pat rep cs (pat.length - 1) else c :: replaceGo pat rep cs 0
def replaceS (s pat rep : List Char) : List Char :=
  if pat.isEmpty then rep ++ s.flatMap (fun c => c :: rep) else replaceGo pat rep s 0

/-- `strpos(s, sub)` = `position(sub IN s)`: 1-based index of the first occurrence in code points, 0 if none
    (the empty substring is found at 1). -/
def findAt (pat : List Char) : List Char → Nat → Nat
  | [], i => if pat.isEmpty then i else 0
  | c :: cs, i => if pat.isPrefixOf (c :: cs) then i else findAt pat cs (i + 1)
def strpos (s sub : List Char) : Int := findAt sub s 1

/-- take `n` characters from the endless repetition of `pad` (second list = rest of the current copy). -/
def cycleTake (pad : List Char) : Nat → List Char → List Char
  | 0, _ => []
  | n + 1, [] => match pad with
    | [] => []
    | p :: ps => p :: cycleTake pad n ps
  | n + 1, c :: cs => c :: cycleTake pad n cs
/-- `lpad(s, size, pad)` / `rpad`: size ≥ 0 and pad non-empty, else raises; truncates when s is longer. -/
def lpadS (s : List Char) (size : Int) (pad : List Char) : Option (List Char) :=
  if size < 0 ∨ pad.isEmpty then none
  else if (s.length : Int) ≥ size then some (s.take size.toNat)
  else some (cycleTake pad (size.toNat - s.length) pad ++ s)
def rpadS (s : List Char) (size : Int) (pad : List Char) : Option (List Char) :=
  if size < 0 ∨ pad.isEmpty then none
  else if (s.length : Int) ≥ size then some (s.take size.toNat)
  else some (s ++ cycleTake pad (size.toNat - s.length) pad)

/-- fields of `s` separated by the non-empty delimiter `d` (non-overlapping, left to right; always ≥ 1 field). -/
def splitGo (d : List Char) : List Char → Nat → List Char → List (List Char)
  | [], _, cur => [cur.reverse]
  | _ :: cs, skip + 1, cur => splitGo d cs skip cur
  | c :: cs, 0, cur => if d.isPrefixOf (c :: cs) then cur.reverse :: splitGo d cs (d.length - 1) [] else splitGo d cs 0 (c :: cur)
def splitS (s d : List Char) : List (List Char) := splitGo d s 0 []
/-- `split_part(s, delim, index)`: index ≥ 1 else raises; the index-th field, NULL when there are fewer;
    with an empty delimiter every character is a field. -/
def splitPart (s d : List Char) (idx : Int) : Out :=
  if idx ≤ 0 then .err
  else
    let fields := if d.isEmpty then s.map (fun c => [c]) else splitS s d
    match fields[idx.toNat - 1]? with
    | some f => .val (.str f)
    | none => .val .null

def validCodePoint (n : Int) : Bool := (decide (0 ≤ n) && decide (n < 0xD800)) || (decide (0xE000 ≤ n) && decide (n ≤ 0x10FFFF))
/-- `chr(n)`: the code point as a one-character string; not a Unicode scalar value → raises. -/
def chrS (n : Int) : Option (List Char) := if validCodePoint n then some [Char.ofNat n.toNat] else none
/-- `codepoint(s)`: the code point of the only character; any other length raises. -/
def codepointS : List Char → Option Int
  | [c] => some c.toNat
  | _ => none
/-- `ascii(s)`: code point of the first character, 0 for the empty string. -/
def asciiS : List Char → Int
  | [] => 0
  | c :: _ => c.toNat

/-- `translate(s, from, to)`: a character at (first) position i of `from` becomes `to[i]`, or is deleted when `to` is shorter. -/
def indexOfC (c : Char) : List Char → Nat → Option Nat
  | [], _ => none
  | x :: xs, i => if x = c then some i else indexOfC c xs (i + 1)
def translateS (s frm to : List Char) : List Char :=
  s.flatMap (fun c => match indexOfC c frm 0 with
    | none => [c]
    | some i => match to[i]? with | some r => [r] | none => [])

/-- `hamming_distance(a, b)`: number of differing positions; different lengths raise. -/
def hammingGo : List Char → List Char → Nat
  | a :: as, b :: bs => (if a = b then 0 else 1) + hammingGo as bs
  | _, _ => 0
def hamming (a b : List Char) : Option Int := if a.length = b.length then some (hammingGo a b) else none

/-- `levenshtein_distance(a, b)`: least number of single-character insertions, deletions and substitutions —
    the textbook recurrence. -/
def lev : List Char → List Char → Nat
  | [], t => t.length
  | s, [] => s.length
  | a :: s, b :: t =>
    min (lev s (b :: t) + 1) (min (lev (a :: s) t + 1) (lev s t + if a = b then 0 else 1))
termination_by s t => s.length + t.length

/-- `luhn_check(s)` for a non-empty string of ASCII digits (`none` = anything else: outside the claim). -/
def isDigitC (c : Char) : Bool := decide (48 ≤ c.toNat) && decide (c.toNat ≤ 57)
def luhnSum : List Nat → Bool → Nat          -- digits from the RIGHT; flag = double this one
  | [], _ => 0
  | d :: ds, dbl => (if dbl then (if 2 * d > 9 then 2 * d - 9 else 2 * d) else d) + luhnSum ds (!dbl)
def luhnCheck (s : List Char) : Option Bool :=
  if s.isEmpty || !(s.all isDigitC) then none
  else some (luhnSum (s.reverse.map (fun c => c.toNat - 48)) false % 10 == 0)
/-- the check digit that makes `body ++ [digit]` valid -/
def luhnDigit (body : List Nat) : Nat := (10 - luhnSum body.reverse true % 10) % 10

end IQE.Spec.Fn
