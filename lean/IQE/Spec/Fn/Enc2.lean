/-
  IQE.Spec.Fn.Enc2 — RFC 4648 base64 / base64url / base32 (with padding, as Trino's to_base64 / to_base64url /
  to_base32 produce), big-endian integers, and URL (form) encoding.  The base-2^k codecs are one bit-level
  definition: bytes → bits (MSB first) → groups of k bits (last group zero-padded) → alphabet → '=' padding.
-/
import IQE.Spec.Fn.Basic
import IQE.Core.Utf8
namespace IQE.Spec.Fn

/-- the low `w` bits of `n`, most significant first -/
def bitsOfNat : Nat → Nat → List Bool
  | 0, _ => []
  | w + 1, n => n.testBit w :: bitsOfNat w n
def natOfBits (bs : List Bool) : Nat := bs.foldl (fun a b => 2 * a + b.toNat) 0
def bytesToBits (b : List UInt8) : List Bool := b.flatMap (fun x => bitsOfNat 8 x.toNat)

/-- cut into groups of `k` bits, the last one padded with zeros (`fuel` ≥ number of groups) -/
def groupsOf (k : Nat) : Nat → List Bool → List (List Bool)
  | 0, _ => []
  | f + 1, bs => if bs.isEmpty then [] else
      let g := bs.take k
      (g ++ List.replicate (k - g.length) false) :: groupsOf k f (bs.drop k)
/-- cut into whole groups of `k` bits and the remainder -/
def wholeGroups (k : Nat) : Nat → List Bool → List (List Bool) × List Bool
  | 0, bs => ([], bs)
  | f + 1, bs => if bs.length < k then ([], bs) else
      let r := wholeGroups k f (bs.drop k)
      (bs.take k :: r.1, r.2)

structure Codec where
  k : Nat                       -- bits per character
  block : Nat                   -- characters per padded block
  enc : Nat → Char
  dec : Char → Option Nat

def Codec.encode (c : Codec) (b : List UInt8) : List Char :=
  let bits := bytesToBits b
  let cs := (groupsOf c.k (bits.length + 1) bits).map (fun g => c.enc (natOfBits g))
  cs ++ List.replicate ((c.block - cs.length % c.block) % c.block) '='

def optAll {α β : Type} (f : α → Option β) : List α → Option (List β)
  | [] => some []
  | a :: as => match f a, optAll f as with
    | some b, some bs => some (b :: bs)
    | _, _ => none

/-- canonical decoding: exactly the strings `encode` produces are accepted (`none` otherwise) -/
def Codec.decode (c : Codec) (s : List Char) : Option (List UInt8) :=
  let body := s.takeWhile (· ≠ '=')
  let pad := s.dropWhile (· ≠ '=')
  if pad.all (· == '=') && pad.length == (c.block - body.length % c.block) % c.block then
    match optAll c.dec body with
    | none => none
    | some vs =>
      if vs.all (· < 2 ^ c.k) then
        let bits := vs.flatMap (bitsOfNat c.k)
        let (gs, rest) := wholeGroups 8 (bits.length + 1) bits
        if rest.length < c.k && rest.all (· == false) then some (gs.map (fun g => UInt8.ofNat (natOfBits g))) else none
      else none
  else none

def b64Char (n : Nat) : Char :=
  if n < 26 then Char.ofNat (65 + n) else if n < 52 then Char.ofNat (71 + n) else if n < 62 then Char.ofNat (n - 4)
  else if n = 62 then '+' else '/'
def b64Val (c : Char) : Option Nat :=
  let n := c.toNat
  if 65 ≤ n ∧ n ≤ 90 then some (n - 65) else if 97 ≤ n ∧ n ≤ 122 then some (n - 71)
  else if 48 ≤ n ∧ n ≤ 57 then some (n + 4) else if c = '+' then some 62 else if c = '/' then some 63 else none
def b64uChar (n : Nat) : Char := if n = 62 then '-' else if n = 63 then '_' else b64Char n
def b64uVal (c : Char) : Option Nat :=
  if c = '-' then some 62 else if c = '_' then some 63 else if c = '+' ∨ c = '/' then none else b64Val c
def b32Char (n : Nat) : Char := if n < 26 then Char.ofNat (65 + n) else Char.ofNat (24 + n)   -- A-Z 2-7
def b32Val (c : Char) : Option Nat :=
  let n := c.toNat
  if 65 ≤ n ∧ n ≤ 90 then some (n - 65) else if 50 ≤ n ∧ n ≤ 55 then some (n - 24) else none

def base64 : Codec := { k := 6, block := 4, enc := b64Char, dec := b64Val }
def base64url : Codec := { k := 6, block := 4, enc := b64uChar, dec := b64uVal }
def base32 : Codec := { k := 5, block := 8, enc := b32Char, dec := b32Val }

/-! ### big-endian two's-complement integers -/
def beBytes : Nat → Nat → List UInt8        -- `w` bytes of `n`, most significant first
  | 0, _ => []
  | w + 1, n => UInt8.ofNat (n / 256 ^ w % 256) :: beBytes w n
def beNat (b : List UInt8) : Nat := b.foldl (fun a x => a * 256 + x.toNat) 0
/-- `to_big_endian_64(bigint)` / `to_big_endian_32(integer)` -/
def toBigEndian (w : Nat) (x : Int) : List UInt8 := beBytes w (x % (256 : Int) ^ w).toNat
/-- `from_big_endian_64/32(varbinary)`: exactly `w` bytes, else raises -/
def fromBigEndian (w : Nat) (b : List UInt8) : Option Int :=
  if b.length = w then
    let n := beNat b
    some (if n < 256 ^ w / 2 then (n : Int) else (n : Int) - (256 : Int) ^ w)
  else none

/-! ### URL encoding.  The project's own tests pin RFC 3986 percent-encoding (`url_encode('hello world') = 'hello%20world'`),
not Trino's form encoding (space → `+`): every byte of the UTF-8 form other than an ASCII letter or digit becomes `%XX`
(upper-case hex); decoding turns every well-formed `%XX` back into a byte and leaves `+` alone. -/
def isAlnum (n : Nat) : Bool := (48 ≤ n && n ≤ 57) || (65 ≤ n && n ≤ 90) || (97 ≤ n && n ≤ 122)
def hexUp (n : Nat) : Char := if n < 10 then Char.ofNat (48 + n) else Char.ofNat (55 + n)
def urlEncodeByte (b : UInt8) : List Char :=
  if isAlnum b.toNat then [Char.ofNat b.toNat] else ['%', hexUp (b.toNat / 16), hexUp (b.toNat % 16)]
/-- `url_encode(s)` -/
def urlEncode (s : List Char) : List Char := (IQE.Utf8.encode s).flatMap urlEncodeByte
def hexValU (c : Char) : Option Nat :=
  let n := c.toNat
  if 48 ≤ n ∧ n ≤ 57 then some (n - 48) else if 97 ≤ n ∧ n ≤ 102 then some (n - 87) else if 65 ≤ n ∧ n ≤ 70 then some (n - 55) else none
/-- bytes denoted by an encoded string: `%XX` is a byte, any other character its UTF-8 bytes; a malformed escape → `none` -/
def urlDecodeBytes : List Char → Option (List UInt8)
  | [] => some []
  | '%' :: a :: b :: rest => match hexValU a, hexValU b, urlDecodeBytes rest with
    | some h, some l, some r => some (UInt8.ofNat (h * 16 + l) :: r)
    | _, _, _ => none
  | '%' :: _ => none
  | c :: rest => match urlDecodeBytes rest with
    | some r => some (IQE.Utf8.encodeChar c ++ r)
    | none => none
/-- `url_decode(s)`; `none` = malformed escape or the bytes are not UTF-8 (outside the claim) -/
def urlDecode (s : List Char) : Option (List Char) := (urlDecodeBytes s).bind IQE.Utf8.decode

end IQE.Spec.Fn
