/-
  IQE.Spec.Fn.Math — integer math and 64-bit two's-complement bitwise functions (documented Trino meaning).
-/
import IQE.Spec.Fn.Basic
namespace IQE.Spec.Fn

/-- `abs(bigint)`: |x|; `abs(-2^63)` is out of range and raises. -/
def absI (x : Int) : Option Int := if x = i64Min then none else some (if x < 0 then -x else x)

/-- `sign(bigint)` ∈ {-1, 0, 1}. -/
def signI (x : Int) : Int := if x > 0 then 1 else if x < 0 then -1 else 0

/-- `mod(n, m)`: remainder of truncating division — the sign follows the dividend; `m = 0` raises. -/
def modI (n m : Int) : Option Int := if m = 0 then none else some (Int.tmod n m)

/-- `greatest(x1..xn)` / `least`: over non-NULL bigints (NULL strictness is applied by the caller). -/
def greatestI : List Int → Option Int
  | [] => none
  | x :: xs => some (xs.foldl (fun a b => if b > a then b else a) x)
def leastI : List Int → Option Int
  | [] => none
  | x :: xs => some (xs.foldl (fun a b => if b < a then b else a) x)

/-- `width_bucket(x, bound1, bound2, n)` for integral operands with bound1 < bound2:
    0 below, n+1 at or above bound2, else 1 + ⌊n·(x − bound1)/(bound2 − bound1)⌋ (equi-width buckets). -/
def widthBucket (x lo hi n : Int) : Option Int :=
  if n ≤ 0 then none
  else if lo = hi then none
  else if lo < hi then
    some (if x < lo then 0 else if x ≥ hi then n + 1 else n * (x - lo) / (hi - lo) + 1)
  else
    some (if x > lo then 0 else if x ≤ hi then n + 1 else n * (lo - x) / (lo - hi) + 1)

/-! ### base conversion -/
def digitChar (d : Nat) : Char := if d < 10 then Char.ofNat (48 + d) else Char.ofNat (87 + d)   -- 0-9 a-z
def digitVal (c : Char) : Option Nat :=
  let n := c.toNat
  if 48 ≤ n ∧ n ≤ 57 then some (n - 48)
  else if 97 ≤ n ∧ n ≤ 122 then some (n - 87)
  else if 65 ≤ n ∧ n ≤ 90 then some (n - 55)
  else none

/-- digits of `n` in base `b`, most significant first (`fuel` ≥ number of digits). -/
def natDigits (b : Nat) : Nat → Nat → List Nat
  | 0, _ => []
  | fuel + 1, n => if n < b then [n] else natDigits b fuel (n / b) ++ [n % b]

def radixOk (r : Int) : Bool := decide (2 ≤ r) && decide (r ≤ 36)

/-- `to_base(x, radix)`: sign, then the magnitude in lower-case digits; radix outside 2..36 raises. -/
def toBase (x radix : Int) : Option (List Char) :=
  if radixOk radix then
    let ds := (natDigits radix.toNat 70 x.natAbs).map digitChar
    some (if x < 0 then '-' :: ds else ds)
  else none

def digitsVal (b : Nat) : List Char → Nat → Option Nat
  | [], acc => some acc
  | c :: cs, acc => match digitVal c with
    | some d => if d < b then digitsVal b cs (acc * b + d) else none
    | none => none

/-- `from_base(s, radix)`: optional `-` or `+`, at least one digit valid in the radix, value must fit BIGINT. -/
def fromBase (s : List Char) (radix : Int) : Option Int :=
  if radixOk radix then
    let (neg, ds) := match s with | '-' :: r => (true, r) | '+' :: r => (false, r) | _ => (false, s)
    if ds.isEmpty then none
    else match digitsVal radix.toNat ds 0 with
      | some v => let r : Int := if neg then -(v : Int) else (v : Int)
                  if inI64 r then some r else none
      | none => none
  else none

/-! ### bitwise, on the 64-bit two's-complement image of a bigint -/
def toBV (x : Int) : BitVec 64 := BitVec.ofInt 64 x
def bitAnd (x y : Int) : Int := (toBV x &&& toBV y).toInt
def bitOr (x y : Int) : Int := (toBV x ||| toBV y).toInt
def bitXor (x y : Int) : Int := (toBV x ^^^ toBV y).toInt
def bitNot (x : Int) : Int := (~~~ toBV x).toInt
/-- number of set bits among the low `n` bits, by counting them one at a time -/
def popcountTo (b : BitVec 64) : Nat → Nat
  | 0 => 0
  | n + 1 => popcountTo b n + (b.getLsbD n).toNat
def popcount (b : BitVec 64) : Nat := popcountTo b 64
/-- `bit_count(x, 64)`: set bits of the 64-bit two's-complement representation. -/
def bitCount (x : Int) : Int := (popcount (toBV x) : Nat)
/-- shifts: the count must be ≥ 0 (a negative count is not given a meaning); counts ≥ 64 shift everything out. -/
def shiftLeft (x s : Int) : Option Int := if s < 0 then none else some (if s ≥ 64 then 0 else (toBV x <<< s.toNat).toInt)
def shiftRight (x s : Int) : Option Int := if s < 0 then none else some (if s ≥ 64 then 0 else (toBV x >>> s.toNat).toInt)
def shiftRightArith (x s : Int) : Option Int :=
  if s < 0 then none else some (if s ≥ 64 then (if x < 0 then -1 else 0) else (BitVec.sshiftRight (toBV x) s.toNat).toInt)

end IQE.Spec.Fn
