/-
  IQE.Spec.Fn.Date — the proleptic Gregorian calendar on day numbers (days since 1970-01-01),
  Howard Hinnant's `days_from_civil` / `civil_from_days` written over `Int` (`/` and `%` are floor
  division / non-negative remainder for the positive divisors used here).
-/
import IQE.Spec.Fn.Basic
namespace IQE.Spec.Fn

def isLeap (y : Int) : Bool := decide (y % 4 = 0) && (decide (y % 100 ≠ 0) || decide (y % 400 = 0))
def daysInMonth (y m : Int) : Int :=
  if m = 2 then (if isLeap y then 29 else 28)
  else if m = 4 ∨ m = 6 ∨ m = 9 ∨ m = 11 then 30 else 31
def validCivil (y m d : Int) : Prop := 1 ≤ m ∧ m ≤ 12 ∧ 1 ≤ d ∧ d ≤ daysInMonth y m

def daysOfCivil (y m d : Int) : Int :=
  let y' := if m ≤ 2 then y - 1 else y
  let era := y' / 400
  let yoe := y' - era * 400
  let mp := if m > 2 then m - 3 else m + 9
  let doy := (153 * mp + 2) / 5 + d - 1
  let doe := yoe * 365 + yoe / 4 - yoe / 100 + doy
  era * 146097 + doe - 719468

def civilOfDays (z0 : Int) : Int × Int × Int :=
  let z := z0 + 719468
  let era := z / 146097
  let doe := z - era * 146097
  let yoe := (doe - doe / 1460 + doe / 36524 - doe / 146096) / 365
  let y := yoe + era * 400
  let doy := doe - (365 * yoe + yoe / 4 - yoe / 100)
  let mp := (5 * doy + 2) / 153
  let d := doy - (153 * mp + 2) / 5 + 1
  let m := if mp < 10 then mp + 3 else mp - 9
  (if m ≤ 2 then y + 1 else y, m, d)

def yearOf (z : Int) : Int := (civilOfDays z).1
def monthOf (z : Int) : Int := (civilOfDays z).2.1
def dayOf (z : Int) : Int := (civilOfDays z).2.2
def quarterOf (z : Int) : Int := (monthOf z - 1) / 3 + 1
/-- ISO day of week, Monday = 1 … Sunday = 7 (1970-01-01 was a Thursday). -/
def dayOfWeek (z : Int) : Int := (z + 3) % 7 + 1
def dayOfYear (z : Int) : Int := z - daysOfCivil (yearOf z) 1 1 + 1
def lastDayOfMonth (z : Int) : Int := daysOfCivil (yearOf z) (monthOf z) (daysInMonth (yearOf z) (monthOf z))

/-- add `n` months, clamping the day to the length of the target month -/
def addMonths (z n : Int) : Int :=
  let (y, m, d) := civilOfDays z
  let t := y * 12 + (m - 1) + n
  let y' := t / 12
  let m' := t % 12 + 1
  daysOfCivil y' m' (min d (daysInMonth y' m'))

inductive DUnit | day | week | month | quarter | year
deriving DecidableEq, Repr

/-- `date_add(unit, n, date)` -/
def dateAdd (u : DUnit) (n z : Int) : Int :=
  match u with
  | .day => z + n | .week => z + 7 * n | .month => addMonths z n | .quarter => addMonths z (3 * n) | .year => addMonths z (12 * n)

/-- whole months from z1 to z2 (truncated toward zero): the largest |k| with z1 + k months not beyond z2 -/
def monthsBetween (z1 z2 : Int) : Int :=
  let (y1, m1, _) := civilOfDays z1
  let (y2, m2, _) := civilOfDays z2
  let k := (y2 * 12 + m2) - (y1 * 12 + m1)
  if z1 ≤ z2 then (if addMonths z1 k ≤ z2 then k else k - 1)
  else (if addMonths z1 k ≥ z2 then k else k + 1)

/-- `date_diff(unit, d1, d2)`: number of complete units from d1 to d2 -/
def dateDiff (u : DUnit) (z1 z2 : Int) : Int :=
  match u with
  | .day => z2 - z1
  | .week => Int.tdiv (z2 - z1) 7
  | .month => monthsBetween z1 z2
  | .quarter => Int.tdiv (monthsBetween z1 z2) 3
  | .year => Int.tdiv (monthsBetween z1 z2) 12

/-- `date_trunc(unit, date)`: first day of the unit (weeks start on Monday) -/
def dateTrunc (u : DUnit) (z : Int) : Int :=
  match u with
  | .day => z
  | .week => z - (dayOfWeek z - 1)
  | .month => daysOfCivil (yearOf z) (monthOf z) 1
  | .quarter => daysOfCivil (yearOf z) ((quarterOf z - 1) * 3 + 1) 1
  | .year => daysOfCivil (yearOf z) 1 1

def unitOfString (s : List Char) : Option DUnit :=
  let l := s.map Char.toLower
  if l = "day".toList then some .day else if l = "week".toList then some .week
  else if l = "month".toList then some .month else if l = "quarter".toList then some .quarter
  else if l = "year".toList then some .year else none

end IQE.Spec.Fn
