/-
  IQE.Spec.Fn.Enc — binary/text encodings (hex; base64 family and big-endian integers are in Enc2).
-/
import IQE.Spec.Fn.Basic
namespace IQE.Spec.Fn

/-- lower-case hex digit of a nibble (the engine's tests pin lower case; Trino prints upper case — the
    digit case of `to_hex` is engine-defined, `from_hex` accepts both). -/
def hexDigit (n : Nat) : Char := if n < 10 then Char.ofNat (48 + n) else Char.ofNat (87 + n)
def hexVal (c : Char) : Option Nat :=
  let n := c.toNat
  if 48 ≤ n ∧ n ≤ 57 then some (n - 48)
  else if 97 ≤ n ∧ n ≤ 102 then some (n - 87)
  else if 65 ≤ n ∧ n ≤ 70 then some (n - 55)
  else none
/-- `to_hex(varbinary)`: two digits per byte, high nibble first. -/
def toHex : List UInt8 → List Char
  | [] => []
  | x :: xs => hexDigit (x.toNat / 16) :: hexDigit (x.toNat % 16) :: toHex xs
/-- `from_hex(varchar)`: even number of hex digits (either case), else raises. -/
def fromHex : List Char → Option (List UInt8)
  | [] => some []
  | [_] => none
  | a :: b :: rest =>
    match hexVal a, hexVal b, fromHex rest with
    | some h, some l, some r => some (UInt8.ofNat (h * 16 + l) :: r)
    | _, _, _ => none

end IQE.Spec.Fn
