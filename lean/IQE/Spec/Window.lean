/-
  IQE.Spec.Window — declarative window-function semantics (the oracle for C26; deliberately naive).

  For every input row `i` and every call  f(args) OVER (PARTITION BY pk ORDER BY ok frame):
    * its *partition*  = the input rows whose partition-key values equal those of row `i`
                         (NULL = NULL, as in GROUP BY), in input order;
    * its *ordered partition* = that partition, stably sorted under the ORDER BY comparator
                         (key, ASC/DESC, NULLS FIRST/LAST) — rows that compare equal are *peers*; their
                         relative order is not fixed by SQL (here: input order; `row_number`, ROWS frames,
                         lag/lead … among peers are therefore a relation, see C26);
    * its *frame*      = the rows of the ordered partition kept by the start bound and by the end bound
                         (SQL:2011 7.11 GR 5: each bound *removes* rows; the frame may be empty);
    * its value        = the function applied to (ordered partition, position, frame).
  Default frame: RANGE UNBOUNDED PRECEDING .. CURRENT ROW when ORDER BY is present, else the whole partition.
  Output: input columns ++ one column per call, rows in INPUT order.
-/
import IQE.Spec.Types
import IQE.Spec.OrderAgg
namespace IQE.Spec
open IQE

namespace Win

/-! ### rows, partitions, order -/

/-- what the definition needs to know about one input row -/
structure Info where
  idx : Nat            -- position in the input
  pk : List Val        -- PARTITION BY values
  ok : List Val        -- ORDER BY values
  args : List Val      -- argument values
deriving Repr, Inhabited

def flagsOf (order : List SortKey) : List (Bool × Bool) := order.map fun k => (k.desc, k.nullsFirst)

/-- `a` sorts before or with `b` -/
def leInfo (fo : FloatOps) (flags : List (Bool × Bool)) (a b : Info) : Bool := cmpKeys fo flags a.ok b.ok != .gt

/-- the partition of the rows with partition-key values `pk`, in input order -/
def partitionOf (infos : List Info) (pk : List Val) : List Info := infos.filter (fun x => x.pk = pk)

/-- the partition in window order (stable: peers keep input order) -/
def orderedPartition (fo : FloatOps) (flags : List (Bool × Bool)) (infos : List Info) (pk : List Val) : List Info :=
  (partitionOf infos pk).mergeSort (leInfo fo flags)

/-! ### frames -/

def defaultFrame (order : List SortKey) : Frame :=
  if order.isEmpty then { units := .rows, start := .unboundedPreceding, stop := .unboundedFollowing }
  else { units := .range, start := .unboundedPreceding, stop := .currentRow }

/-- the numeric key of a RANGE frame with an offset -/
inductive RKey | null | int (i : Int) | f64 (x : F64)
deriving Repr, Inhabited

def rangeKey : Val → Except Err RKey
  | .null => .ok .null
  | .int i => .ok (.int i)
  | .date d => .ok (.int d)
  | .f64 x => .ok (.f64 x)
  | _ => .error (.unsupported "RANGE frames with offsets need a numeric or date ORDER BY key")

/-- `cur + delta` on float keys, computed as `cur - k` / `cur + k` with `k ≥ 0` -/
def shiftF (fo : FloatOps) (cur : F64) (delta : Int) : F64 :=
  if delta < 0 then fo.sub cur (fo.ofInt (-delta)) else fo.add cur (fo.ofInt delta)

/-- `key ≥ cur + delta` (exact on integers and dates, IEEE on floats) -/
def geShift (fo : FloatOps) (key cur : RKey) (delta : Int) : Bool :=
  match key, cur with
  | .int a, .int c => decide (a ≥ c + delta)
  | .f64 a, .f64 c => F64.ge a (shiftF fo c delta)
  | _, _ => false

def leShift (fo : FloatOps) (key cur : RKey) (delta : Int) : Bool :=
  match key, cur with
  | .int a, .int c => decide (a ≤ c + delta)
  | .f64 a, .f64 c => F64.le a (shiftF fo c delta)
  | _, _ => false

/-- the single sort key of a RANGE frame with an offset: (desc, nullsFirst) -/
def rangeOrder (order : List SortKey) : Except Err (Bool × Bool) :=
  match order with
  | [k] => .ok (k.desc, k.nullsFirst)
  | _ => .error (.unsupported "RANGE frames with offsets require exactly one ORDER BY key")

/-- signed offset of a bound in the direction of ascending key values:
    `k PRECEDING` is `-k` for ASC and `+k` for DESC, `k FOLLOWING` the opposite -/
def signedOffset (preceding desc : Bool) (k : Nat) : Int := if preceding != desc then -(k : Int) else (k : Int)

/-- RANGE bound with offset: is row `x` kept by the START bound of the frame of `cur`?
    SQL:2011 7.11 GR 5.b.ii: a NULL current key frames from its peers on; otherwise NULL keys are removed
    iff they sort first, and the rows before `cur ∓ k` (in sort direction) are removed. -/
def rangeStartKeeps (fo : FloatOps) (flags : List (Bool × Bool)) (order : List SortKey) (preceding : Bool) (k : Nat)
    (cur x : Info) : Except Err Bool := do
  let (desc, nf) ← rangeOrder order
  let kc ← rangeKey (cur.ok.headD .null)
  let kx ← rangeKey (x.ok.headD .null)
  match kc, kx with
  | .null, _ => pure (cmpKeys fo flags x.ok cur.ok != .lt)
  | _, .null => pure (!nf)
  | kc, kx =>
    let d := signedOffset preceding desc k
    pure (if desc then leShift fo kx kc d else geShift fo kx kc d)

/-- … by the END bound -/
def rangeEndKeeps (fo : FloatOps) (flags : List (Bool × Bool)) (order : List SortKey) (preceding : Bool) (k : Nat)
    (cur x : Info) : Except Err Bool := do
  let (desc, nf) ← rangeOrder order
  let kc ← rangeKey (cur.ok.headD .null)
  let kx ← rangeKey (x.ok.headD .null)
  match kc, kx with
  | .null, _ => pure (cmpKeys fo flags x.ok cur.ok != .gt)
  | _, .null => pure nf
  | kc, kx =>
    let d := signedOffset preceding desc k
    pure (if desc then geShift fo kx kc d else leShift fo kx kc d)

/-- is the row `x` at position `q` of the ordered partition kept by the frame's START bound, for the current row
    `cur` at position `p`? -/
def startKeeps (fo : FloatOps) (flags : List (Bool × Bool)) (order : List SortKey) (units : FrameUnits) (b : FrameBound)
    (p : Nat) (cur : Info) (q : Nat) (x : Info) : Except Err Bool :=
  match units, b with
  | _, .unboundedPreceding => .ok true
  | _, .unboundedFollowing => .error (.bad "frame cannot start at UNBOUNDED FOLLOWING")
  | .rows, .preceding k => .ok (decide (p ≤ q + k))
  | .rows, .currentRow => .ok (decide (p ≤ q))
  | .rows, .following k => .ok (decide (p + k ≤ q))
  | .range, .currentRow => .ok (cmpKeys fo flags x.ok cur.ok != .lt)       -- peers and later rows
  | .range, .preceding k => rangeStartKeeps fo flags order true k cur x
  | .range, .following k => rangeStartKeeps fo flags order false k cur x

def endKeeps (fo : FloatOps) (flags : List (Bool × Bool)) (order : List SortKey) (units : FrameUnits) (b : FrameBound)
    (p : Nat) (cur : Info) (q : Nat) (x : Info) : Except Err Bool :=
  match units, b with
  | _, .unboundedFollowing => .ok true
  | _, .unboundedPreceding => .error (.bad "frame cannot end at UNBOUNDED PRECEDING")
  | .rows, .preceding k => .ok (decide (q + k ≤ p))
  | .rows, .currentRow => .ok (decide (q ≤ p))
  | .rows, .following k => .ok (decide (q ≤ p + k))
  | .range, .currentRow => .ok (cmpKeys fo flags x.ok cur.ok != .gt)       -- peers and earlier rows
  | .range, .preceding k => rangeEndKeeps fo flags order true k cur x
  | .range, .following k => rangeEndKeeps fo flags order false k cur x

/-- the frame of the row at position `p` of the ordered partition `ord`: the rows kept by both bounds, in window order -/
def frameOf (fo : FloatOps) (flags : List (Bool × Bool)) (order : List SortKey) (fr : Frame) (ord : List Info) (p : Nat)
    (cur : Info) : Except Err (List Info) :=
  ord.zipIdx.filterMapM fun (x, q) => do
    let s ← startKeeps fo flags order fr.units fr.start p cur q x
    let e ← endKeeps fo flags order fr.units fr.stop p cur q x
    pure (if s && e then some x else none)

/-! ### the functions -/

def litInt (what : String) : Option Expr → Except Err Int
  | some (.lit (.int k)) => .ok k
  | some (.lit _) => .error (.bad s!"{what} must be an integer literal")
  | some _ => .error (.unsupported s!"non-literal {what}")
  | none => .error (.bad s!"{what} missing")

def arityOk (fn : WinFn) (n : Nat) : Bool :=
  match fn with
  | .rowNumber | .rank | .denseRank | .percentRank | .cumeDist => n == 0
  | .ntile => n == 1
  | .lag | .lead => 1 ≤ n && n ≤ 3
  | .firstValue | .lastValue => n == 1
  | .nthValue => n == 2
  | .agg .countStar => n == 0
  | .agg _ => n == 1

/-- key vectors that are pairwise different under the comparator (first occurrences) -/
def distinctKeys (fo : FloatOps) (flags : List (Bool × Bool)) : List (List Val) → List (List Val)
  | [] => []
  | k :: ks => k :: (distinctKeys fo flags ks).filter (fun k' => cmpKeys fo flags k' k != .eq)

/-- NTILE(b) over `n` rows: bucket numbers by position — `n % b` buckets of size `n / b + 1`, then buckets of size `n / b` -/
def ntileBuckets (n b : Nat) : List Nat :=
  (List.range (min b n)).flatMap fun t => List.replicate (n / b + (if t < n % b then 1 else 0)) (t + 1)

def arg0 (x : Info) : Val := x.args.headD .null

/-- the value of call `c` for the row `cur` at position `p` of its ordered partition `ord` -/
def valueAt (fo : FloatOps) (c : WinCall) (ord : List Info) (p : Nat) (cur : Info) : Except Err Val := do
  let flags := flagsOf c.order
  let n := ord.length
  let before := ord.filter (fun x => cmpKeys fo flags x.ok cur.ok == .lt)
  let frame := fun (_ : Unit) => frameOf fo flags c.order (c.frame.getD (defaultFrame c.order)) ord p cur
  match c.fn with
  | .rowNumber => pure (.int (p + 1))
  | .rank => pure (.int (before.length + 1))
  | .denseRank => pure (.int ((distinctKeys fo flags (before.map (·.ok))).length + 1))
  | .percentRank =>
    pure (.f64 (if n ≤ 1 then fo.ofInt 0 else fo.div (fo.ofInt before.length) (fo.ofInt (n - 1 : Nat))))
  | .cumeDist =>
    let upTo := ord.filter (fun x => cmpKeys fo flags x.ok cur.ok != .gt)
    pure (.f64 (fo.div (fo.ofInt upTo.length) (fo.ofInt n)))
  | .ntile => do
    let b ← litInt "NTILE bucket count" c.args[0]?
    if b ≤ 0 then throw (.bad "NTILE bucket count must be positive")
    pure (.int ((ntileBuckets n b.toNat).getD p 0))
  | .lag | .lead => do
    let off ← if c.args.length ≥ 2 then litInt "LAG/LEAD offset" c.args[1]? else pure 1
    if off < 0 then throw (.bad "LAG/LEAD offset must be non-negative")
    let off := off.toNat
    let src : Option Info := if c.fn == .lead then ord[p + off]? else (if off ≤ p then ord[p - off]? else none)
    match src with
    | some x => pure (arg0 x)
    | none => pure (cur.args.getD 2 .null)          -- the default (third argument) of the CURRENT row, NULL if absent
  | .firstValue => do
    let f ← frame ()
    pure (match f.head? with | some x => arg0 x | none => .null)
  | .lastValue => do
    let f ← frame ()
    pure (match f.getLast? with | some x => arg0 x | none => .null)
  | .nthValue => do
    let k ← litInt "NTH_VALUE position" c.args[1]?
    if k ≤ 0 then throw (.bad "NTH_VALUE position must be positive")
    let f ← frame ()
    pure (match f[k.toNat - 1]? with | some x => arg0 x | none => .null)
  | .agg fn => do
    let f ← frame ()
    aggVal fo fn false f.length (f.map arg0)

/-- what the binder / planner check before any row is looked at: argument count, literal arguments in range, frame bound kinds -/
def checkCall (c : WinCall) : Except Err Unit := do
  if !arityOk c.fn c.args.length then throw (.bad "wrong number of arguments for window function")
  match c.fn with
  | .ntile => do
    let b ← litInt "NTILE bucket count" c.args[0]?
    if b ≤ 0 then throw (.bad "NTILE bucket count must be positive")
  | .lag | .lead => do
    let off ← if c.args.length ≥ 2 then litInt "LAG/LEAD offset" c.args[1]? else pure 1
    if off < 0 then throw (.bad "LAG/LEAD offset must be non-negative")
  | .nthValue => do
    let k ← litInt "NTH_VALUE position" c.args[1]?
    if k ≤ 0 then throw (.bad "NTH_VALUE position must be positive")
  | _ => pure ()
  match c.frame with
  | some f =>
    if f.start == .unboundedFollowing then throw (.bad "frame cannot start at UNBOUNDED FOLLOWING")
    if f.stop == .unboundedPreceding then throw (.bad "frame cannot end at UNBOUNDED PRECEDING")
  | none => pure ()

/-- one output column (in input order) for one call -/
def evalCall (cx : EvalCtx) (env : Env) (c : WinCall) (rows : Table) : Except Err (List Val) := do
  checkCall c
  let infos ← rows.zipIdx.mapM fun (r, i) => do
    let pk ← evalList cx (r :: env) c.partition
    let ok ← evalList cx (r :: env) (c.order.map (·.e))
    let args ← evalList cx (r :: env) c.args
    pure ({ idx := i, pk := pk, ok := ok, args := args } : Info)
  let flags := flagsOf c.order
  infos.mapM fun cur => do
    let ord := orderedPartition cx.fo flags infos cur.pk
    let p := ord.findIdx (fun x => x.idx == cur.idx)
    valueAt cx.fo c ord p cur

/-- append the columns `cols` (each of the length of `rows`) to the rows -/
def appendCols (rows : Table) (cols : List (List Val)) : Table :=
  rows.zipIdx.map fun (r, i) => r ++ cols.map (fun col => col.getD i .null)

end Win

def evalWindow (cx : EvalCtx) (env : Env) (calls : List WinCall) (rows : Table) : Except Err Table := do
  let cols ← calls.mapM fun c => Win.evalCall cx env c rows
  pure (Win.appendCols rows cols)

end IQE.Spec
