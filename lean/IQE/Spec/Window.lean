/-
  IQE.Spec.Window — declarative window-function semantics (per row: its partition, the rows
  before it, its peer group, its frame).  Placeholder until the C26 work lands: every call is
  reported as unsupported (an explicit error, never a wrong value).
-/
import IQE.Spec.Types
namespace IQE.Spec
open IQE

def evalWindow (_cx : EvalCtx) (_env : Env) (_calls : List WinCall) (_rows : Table) : Except Err Table :=
  .error (.unsupported "window functions: reference semantics not yet written")

end IQE.Spec
