/-
  IQE.Spec.Expr — reference semantics of SQL scalar expressions (the oracle; deliberately naive).
  Expressions are *resolved*: columns are indices into the current row; `outer d i` is column `i`
  of the `d`-th enclosing query's current row (correlated references).  Subquery expressions refer
  by index to a list of subqueries held by the enclosing plan node; `eval` receives a callback
  that runs them with the current environment ("row by row").
-/
import IQE.Core.Val
namespace IQE.Spec
open IQE

inductive UnOp | not | neg | isNull | isNotNull
deriving DecidableEq, Repr, Inhabited

inductive BinOp | add | sub | mul | div | mod | eq | ne | lt | le | gt | ge | and | or | like | notLike | concat
deriving DecidableEq, Repr, Inhabited

inductive Expr where
  | lit (v : Val)
  | col (i : Nat)
  | outer (d i : Nat)                         -- d ≥ 1: d-th enclosing row
  | un (op : UnOp) (e : Expr)
  | bin (op : BinOp) (a b : Expr)
  | inList (e : Expr) (items : List Expr) (neg : Bool)
  | between (e lo hi : Expr) (neg : Bool)
  | case_ (arms : List Expr)                  -- searched CASE, flattened: [c₁, t₁, c₂, t₂, …, else]; absent ELSE = no last element (NULL)
  | coalesce (es : List Expr)
  | nullif (a b : Expr)
  | cast (e : Expr) (ty : Ty)
  | fn (name : String) (args : List Expr)     -- scalar functions (C36); meaning supplied by `EvalCtx.fn`
  | exists_ (sub : Nat) (neg : Bool)
  | inSub (e : Expr) (sub : Nat) (neg : Bool)
  | scalarSub (sub : Nat)
deriving Repr, Inhabited

/-- Environment: current row first, then the rows of the enclosing queries. -/
abbrev Env := List Row

structure EvalCtx where
  fo : FloatOps
  /-- run subquery `k` of the enclosing node in the given environment -/
  runSub : Nat → Env → Except Err Table
  /-- scalar function table (C36); default: unsupported -/
  fn : String → List Val → Except Err Val := fun n _ => .error (.unsupported n)

/-- SQL LIKE with `%` and `_` (no escape), on characters. -/
def likeMatch : List Char → List Char → Bool
  | [], [] => true
  | [], _ :: _ => false
  | '%' :: ps, [] => likeMatch ps []
  | '%' :: ps, c :: cs => likeMatch ps (c :: cs) || likeMatch ('%' :: ps) cs
  | _ :: _, [] => false
  | p :: ps, c :: cs => (p == '_' || p == c) && likeMatch ps cs
termination_by p s => p.length + s.length

def ordSat (op : BinOp) (o : Ordering) : Bool :=
  match op with
  | .eq => o == .eq | .ne => o != .eq | .lt => o == .lt | .le => o != .gt | .gt => o == .gt | .ge => o != .lt
  | _ => false

def compareOp (fo : FloatOps) (op : BinOp) (a b : Val) : Except Err Val := do
  match ← Val.cmp3 fo a b with
  | none => pure .null
  | some o => pure (.bool (ordSat op o))

def castVal (fo : FloatOps) (v : Val) (ty : Ty) : Except Err Val :=
  match v, ty with
  | .null, _ => .ok .null
  | .bool b, .bool => .ok (.bool b)
  | .int i, .int => .ok (.int i)
  | .int i, .f64 => .ok (.f64 (fo.ofInt i))
  | .int i, .bool => .ok (.bool (i != 0))
  | .bool b, .int => .ok (.int (if b then 1 else 0))
  | .f64 x, .f64 => .ok (.f64 x)
  | .f64 x, .int => match fo.toInt x with | some i => Val.checkI64 i | none => .error .overflow
  | .str s, .str => .ok (.str s)
  | .date d, .date => .ok (.date d)
  | .date d, .int => .ok (.int d)
  | .int i, .date => .ok (.date i)
  | _, _ => .error (.unsupported "cast")

def binVal (fo : FloatOps) (op : BinOp) (a b : Val) : Except Err Val :=
  match op with
  | .add => Val.arith fo .add a b
  | .sub => Val.arith fo .sub a b
  | .mul => Val.arith fo .mul a b
  | .div => Val.arith fo .div a b
  | .mod => Val.arith fo .mod a b
  | .and => Val.and3 a b
  | .or => Val.or3 a b
  | .like | .notLike =>
    match a, b with
    | .null, _ => .ok .null
    | _, .null => .ok .null
    | .str s, .str p => .ok (.bool ((likeMatch p.toList s.toList) == (op == .like)))
    | _, _ => .error (.type "LIKE on non-string")
  | .concat =>
    match a, b with
    | .null, _ => .ok .null
    | _, .null => .ok .null
    | .str s, .str t => .ok (.str (s ++ t))
    | _, _ => .error (.type "|| on non-string")
  | op => compareOp fo op a b

def unVal (fo : FloatOps) (op : UnOp) (a : Val) : Except Err Val :=
  match op with
  | .not => Val.not3 a
  | .isNull => .ok (.bool a.isNull)
  | .isNotNull => .ok (.bool !a.isNull)
  | .neg => match a with
    | .null => .ok .null
    | .int i => Val.checkI64 (-i)
    | .f64 x => .ok (.f64 (fo.neg x))
    | _ => .error (.type "negation of non-numeric")

/-- `x IN (v₁ … vₙ)` in three-valued logic: TRUE if some `x = vᵢ` is TRUE; else NULL if any comparison is UNKNOWN; else FALSE. -/
def inVals (fo : FloatOps) (x : Val) : List Val → Except Err Val
  | [] => .ok (.bool false)
  | v :: vs => do
    let here ← compareOp fo .eq x v
    let rest ← inVals fo x vs
    Val.or3 here rest

def getCol (env : Env) (d i : Nat) : Except Err Val :=
  match env[d]? with
  | some r => match r[i]? with
    | some v => .ok v
    | none => .error (.bad "column index out of range")
  | none => .error (.bad "outer reference beyond the environment")

mutual
def eval (cx : EvalCtx) (env : Env) : Expr → Except Err Val
  | .lit v => .ok v
  | .col i => getCol env 0 i
  | .outer d i => getCol env d i
  | .un op e => do unVal cx.fo op (← eval cx env e)
  | .bin op a b => do
    let x ← eval cx env a
    let y ← eval cx env b
    binVal cx.fo op x y
  | .inList e items neg => do
    let x ← eval cx env e
    let vs ← evalList cx env items
    let r ← inVals cx.fo x vs
    if neg then Val.not3 r else pure r
  | .between e lo hi neg => do
    let x ← eval cx env e
    let l ← eval cx env lo
    let h ← eval cx env hi
    let r ← Val.and3 (← compareOp cx.fo .ge x l) (← compareOp cx.fo .le x h)
    if neg then Val.not3 r else pure r
  | .case_ arms => evalCase cx env arms
  | .coalesce es => evalCoalesce cx env es
  | .nullif a b => do
    let x ← eval cx env a
    let y ← eval cx env b
    match ← compareOp cx.fo .eq x y with
    | .bool true => pure .null
    | _ => pure x
  | .cast e ty => do castVal cx.fo (← eval cx env e) ty
  | .fn name args => do cx.fn name (← evalList cx env args)
  | .exists_ sub neg => do
    let t ← cx.runSub sub env
    pure (.bool ((!t.isEmpty) != neg))
  | .inSub e sub neg => do
    let x ← eval cx env e
    let t ← cx.runSub sub env
    let r ← inVals cx.fo x (t.map (fun r => r.headD .null))
    if neg then Val.not3 r else pure r
  | .scalarSub sub => do
    let t ← cx.runSub sub env
    match t with
    | [] => pure .null
    | [r] => pure (r.headD .null)
    | _ => .error (.card "scalar subquery returned more than one row")

def evalList (cx : EvalCtx) (env : Env) : List Expr → Except Err (List Val)
  | [] => .ok []
  | e :: es => do
    let v ← eval cx env e
    let vs ← evalList cx env es
    pure (v :: vs)

/-- searched CASE over the flattened arm list: first branch whose condition is TRUE; later conditions are not evaluated -/
def evalCase (cx : EvalCtx) (env : Env) : List Expr → Except Err Val
  | [] => .ok .null
  | [else_] => eval cx env else_
  | c :: t :: rest => do
    match ← eval cx env c with
    | .bool true => eval cx env t
    | .bool false | .null => evalCase cx env rest
    | _ => .error (.type "CASE condition is not boolean")

def evalCoalesce (cx : EvalCtx) (env : Env) : List Expr → Except Err Val
  | [] => .ok .null
  | e :: es => do
    match ← eval cx env e with
    | .null => evalCoalesce cx env es
    | v => pure v
end

end IQE.Spec
