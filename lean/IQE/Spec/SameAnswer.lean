/-
  IQE.Spec.SameAnswer — when two result tables of the SAME plan count as the same answer, up to exactly the freedom
  `Spec.acceptable` leaves (used by the metamorphic properties C03/C04/C07/C08/C09: "every configuration gives
  the same answer"):
    * no top-level ORDER BY / LIMIT : equal as bags;
    * top-level ORDER BY            : equal as bags and equal sort-key vectors position by position
                                      (rows inside a tie class may come in any order);
    * top-level LIMIT over ORDER BY : equal length, equal sort-key vectors position by position, and every tie class
                                      strictly inside the output (not the first, not the last — only those can be cut
                                      by OFFSET / LIMIT) holds the same bag of rows;
    * top-level LIMIT without ORDER BY : equal length (which rows are kept is not determined).
-/
import IQE.Spec.Acceptable
namespace IQE.Spec
open IQE

/-- split a list of (key, row) pairs into maximal runs of equal keys -/
def tieClasses (fo : FloatOps) (flags : List (Bool × Bool)) : List (List Val × Row) → List (List Row)
  | [] => []
  | [(_, r)] => [[r]]
  | (k, r) :: (k', r') :: rest =>
    match tieClasses fo flags ((k', r') :: rest) with
    | cls :: more => if cmpKeys fo flags k k' == .eq then (r :: cls) :: more else [r] :: cls :: more
    | [] => [[r]]

/-- drop the first and the last element -/
def interior {α : Type} (l : List α) : List α := (l.drop 1).dropLast

def allBagEq : List Table → List Table → Bool
  | [], [] => true
  | a :: as, b :: bs => bagEq a b && allBagEq as bs
  | _, _ => false

def sameAnswer (fo : FloatOps) (fns : String → List Val → Except Err Val) (q : Query) (a b : Table) : Except Err Bool := do
  let cx : EvalCtx := { fo := fo, fn := fns, runSub := fun _ _ => .error (.unsupported "subquery inside ORDER BY") }
  match q with
  | .sort keys _ =>
    let flags := keys.map fun k => (k.desc, k.nullsFirst)
    pure (bagEq a b && keysPointwiseEq fo flags (← keysOf cx [] keys a) (← keysOf cx [] keys b))
  | .limit _ _ (.sort keys _) =>
    let flags := keys.map fun k => (k.desc, k.nullsFirst)
    let ka ← keysOf cx [] keys a
    let kb ← keysOf cx [] keys b
    pure (a.length == b.length && keysPointwiseEq fo flags ka kb &&
          allBagEq (interior (tieClasses fo flags (ka.zip a))) (interior (tieClasses fo flags (kb.zip b))))
  | .limit _ _ _ => pure (a.length == b.length)
  | _ => pure (bagEq a b)

end IQE.Spec
