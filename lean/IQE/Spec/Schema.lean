/-
  IQE.Spec.Schema — static output schema of a resolved query plan (C30).

  `schemaOf sc q ctes outer = some ts` : `q` is well scoped and well typed given the catalog's column types `sc.cat`,
  the schemas `ctes` of the CTEs in scope and the column types `outer` of the enclosing queries' rows, and every row
  `Spec.run` returns for it has exactly `ts.length` columns, the i-th being NULL or of type `ts[i]`
  (theorem `C30_schema_sound_partial`, IQE/Props/C30.lean).
  Defined for scan / CTE reference / VALUES / filter / project / the seven join types / GROUP BY aggregation /
  DISTINCT / ORDER BY / LIMIT-OFFSET / UNION-INTERSECT-EXCEPT [ALL] / WITH; `none` for GROUPING SETS and window
  nodes (not covered), for output columns whose only type is that of a bare NULL, and for ill-typed plans.
  Output names are a separate, smaller model (`outName`): alias, else the referenced column's name, else unspecified.
-/
import IQE.Spec.Typing
import IQE.Spec.Query
namespace IQE.Spec
open IQE

structure SchCtx where
  /-- column types of the catalog's tables -/
  cat : List (List Ty)
  fnTy : String → List STy → Option STy := fun _ _ => none

/-- every column has a definite type -/
def definite : List STy → Option (List Ty)
  | [] => some []
  | some τ :: σs => match definite σs with | some ts => some (τ :: ts) | none => none
  | none :: _ => none

/-- column-wise least upper bound of two VALUES rows -/
def joinRowTys : List STy → List STy → Option (List STy)
  | [], [] => some []
  | σ :: σs, ρ :: ρs => match joinTy σ ρ, joinRowTys σs ρs with
    | some τ, some τs => some (τ :: τs)
    | _, _ => none
  | _, _ => none

def isBoolOut (Γ : TyCtx) (e : Expr) : Bool :=
  match typeOf Γ e with | some σ => isBoolTy σ | none => false

/-- result type of one aggregate call over rows typed by `Γ` -/
def aggTy (Γ : TyCtx) (a : AggCall) : Option Ty :=
  match a.fn with
  | .countStar => some .int
  | .count => match typeOf Γ a.arg with | some _ => some .int | none => none
  | .sum => match typeOf Γ a.arg with | some (some .int) => some .int | some (some .f64) => some .f64 | _ => none
  | .avg => match typeOf Γ a.arg with | some (some .int) => some .f64 | some (some .f64) => some .f64 | _ => none
  | .min | .max => match typeOf Γ a.arg with | some (some τ) => some τ | _ => none

def aggTys (Γ : TyCtx) : List AggCall → Option (List Ty)
  | [] => some []
  | a :: as => match aggTy Γ a, aggTys Γ as with
    | some τ, some ts => some (τ :: ts)
    | _, _ => none

/-- types of a VALUES list: every row typed, all rows of one width, columns joined -/
def valuesTys (Γ : TyCtx) : List (List Expr) → Option (List STy)
  | [] => none
  | [r] => typeOfList Γ r
  | r :: rs => match typeOfList Γ r, valuesTys Γ rs with
    | some σs, some ρs => joinRowTys σs ρs
    | _, _ => none

mutual
def schemaOf (sc : SchCtx) : Query → List (List Ty) → List (List Ty) → Option (List Ty)
  | .scan t, _, _ => sc.cat[t]?
  | .cteRef i, ctes, _ => ctes[i]?
  | .values rows, _, outer =>
    match valuesTys { env := outer, subs := [], fnTy := sc.fnTy } rows with
    | some σs => definite σs
    | none => none
  | .filter subs p q, ctes, outer =>
    match schemaOf sc q ctes outer with
    | some ts =>
      match schemaOfList sc subs ctes (ts :: outer) with
      | some ss => if isBoolOut { env := ts :: outer, subs := ss, fnTy := sc.fnTy } p then some ts else none
      | none => none
    | none => none
  | .project subs es q, ctes, outer =>
    match schemaOf sc q ctes outer with
    | some ts =>
      match schemaOfList sc subs ctes (ts :: outer) with
      | some ss =>
        match typeOfList { env := ts :: outer, subs := ss, fnTy := sc.fnTy } es with
        | some σs => definite σs
        | none => none
      | none => none
    | none => none
  | .join jt lw rw subs on l r, ctes, outer =>
    match schemaOf sc l ctes outer, schemaOf sc r ctes outer with
    | some ls, some rs =>
      match schemaOfList sc subs ctes ((ls ++ rs) :: outer) with
      | some ss =>
        if lw == ls.length && rw == rs.length
            && (jt == .cross || isBoolOut { env := (ls ++ rs) :: outer, subs := ss, fnTy := sc.fnTy } on) then
          (match jt with | .semi | .anti => some ls | _ => some (ls ++ rs))
        else none
      | none => none
    | _, _ => none
  | .agg keys aggs q, ctes, outer =>
    match schemaOf sc q ctes outer with
    | some ts =>
      let Γ : TyCtx := { env := ts :: outer, subs := [], fnTy := sc.fnTy }
      match typeOfList Γ keys with
      | some σs =>
        match definite σs, aggTys Γ aggs with
        | some ks, some as => some (ks ++ as)
        | _, _ => none
      | none => none
    | none => none
  | .groupingSets _ _ _ _, _, _ => none
  | .distinct q, ctes, outer => schemaOf sc q ctes outer
  | .sort keys q, ctes, outer =>
    match schemaOf sc q ctes outer with
    | some ts =>
      match typeOfList { env := ts :: outer, subs := [], fnTy := sc.fnTy } (keys.map (·.e)) with
      | some _ => some ts
      | none => none
    | none => none
  | .limit _ _ q, ctes, outer => schemaOf sc q ctes outer
  | .setop _ _ l r, ctes, outer =>
    match schemaOf sc l ctes outer, schemaOf sc r ctes outer with
    | some ls, some rs => if ls = rs then some ls else none
    | _, _ => none
  | .window _ _, _, _ => none
  | .withCte defs body, ctes, outer =>
    match schemaDefs sc defs ctes outer with
    | some ctes' => schemaOf sc body ctes' outer
    | none => none

/-- schemas of a node's subqueries (all must be typed) -/
def schemaOfList (sc : SchCtx) : List Query → List (List Ty) → List (List Ty) → Option (List (List Ty))
  | [], _, _ => some []
  | q :: qs, ctes, outer =>
    match schemaOf sc q ctes outer, schemaOfList sc qs ctes outer with
    | some ts, some tss => some (ts :: tss)
    | _, _ => none

/-- CTE definitions left to right; each sees the earlier ones -/
def schemaDefs (sc : SchCtx) : List Query → List (List Ty) → List (List Ty) → Option (List (List Ty))
  | [], ctes, _ => some ctes
  | d :: ds, ctes, outer =>
    match schemaOf sc d ctes outer with
    | some ts => schemaDefs sc ds (ctes ++ [ts]) outer
    | none => none
end

/-! ### output names (the part of the binder's naming rule that is exactly specifiable) -/

/-- one SELECT item: its alias (if written) and, when the item is a bare column reference, the position it refers to -/
structure OutItem where
  alias : Option String
  col : Option Nat

/-- `bind_select`: `alias.unwrap_or_else(|| bound.output_name())`; `output_name` of a column is the column's name; every other
    expression is rendered by `Display` (not modelled: `none` = unspecified). -/
def outName (input : List String) (it : OutItem) : Option String :=
  match it.alias with
  | some a => some a
  | none => match it.col with
    | some i => input[i]?
    | none => none

def outNames (input : List String) (items : List OutItem) : List (Option String) := items.map (outName input)

end IQE.Spec
