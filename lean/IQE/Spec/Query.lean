/-
  IQE.Spec.Query — reference semantics `Spec.run` of resolved query plans: total, executable,
  deliberately naive (nested-loop joins, list-scanning group-by, row-by-row subqueries).
  The result is a list of rows in a canonical order; which *other* answers are equally correct
  (row order outside ORDER BY, ties under LIMIT) is decided by `IQE.Spec.Acceptable`.
-/
import IQE.Spec.Types
import IQE.Spec.Window
namespace IQE.Spec
open IQE

/-! ### helpers on rows, bags and groups -/

def nulls (n : Nat) : Row := List.replicate n .null

/-- remove the first occurrence of `r` -/
def removeFirst (r : Row) : Table → Table
  | [] => []
  | x :: xs => if x = r then xs else x :: removeFirst r xs

/-- duplicate elimination keeping first occurrences (NULLs are not distinct: `Val` equality) -/
def dedupRows : Table → Table
  | [] => []
  | x :: xs => x :: (dedupRows xs).filter (fun y => y ≠ x)

/-- bag intersection keeping multiplicity `min` (rows of `l` in order) -/
def intersectAll : Table → Table → Table
  | [], _ => []
  | x :: xs, r => if r.contains x then x :: intersectAll xs (removeFirst x r) else intersectAll xs r

/-- bag difference with multiplicity `monus` -/
def exceptAll : Table → Table → Table
  | [], _ => []
  | x :: xs, r => if r.contains x then exceptAll xs (removeFirst x r) else x :: exceptAll xs r

/-- group rows by key (first-appearance order of keys; NULL keys form one group) -/
def groupBy (keyed : List (Row × Row)) : List (Row × Table) :=
  keyed.foldl (fun acc (k, r) =>
    if acc.any (fun g => g.1 = k) then acc.map (fun g => if g.1 = k then (g.1, g.2 ++ [r]) else g)
    else acc ++ [(k, [r])]) []

/-! ### joins (nested loop) -/

def onTrue (cx : EvalCtx) (env : Env) (on : Expr) (row : Row) : Except Err Bool := do
  match ← eval cx (row :: env) on with
  | .bool true => pure true
  | .bool false | .null => pure false
  | _ => .error (.type "join condition is not boolean")

def matchesOf (cx : EvalCtx) (env : Env) (on : Expr) (l : Row) (rs : Table) : Except Err Table :=
  rs.filterMapM (fun r => do if ← onTrue cx env on (l ++ r) then pure (some r) else pure none)

def joinRows (cx : EvalCtx) (env : Env) (jt : JoinType) (lw rw : Nat) (on : Expr) (ls rs : Table) : Except Err Table :=
  match jt with
  | .cross => .ok (ls.flatMap fun l => rs.map fun r => l ++ r)
  | .inner => do
    let parts ← ls.mapM fun l => do pure ((← matchesOf cx env on l rs).map fun r => l ++ r)
    pure parts.flatten
  | .left => do
    let parts ← ls.mapM fun l => do
      let ms ← matchesOf cx env on l rs
      pure (if ms.isEmpty then [l ++ nulls rw] else ms.map fun r => l ++ r)
    pure parts.flatten
  | .semi => ls.filterMapM fun l => do pure (if (← matchesOf cx env on l rs).isEmpty then none else some l)
  | .anti => ls.filterMapM fun l => do pure (if (← matchesOf cx env on l rs).isEmpty then some l else none)
  | .right => do
    let parts ← rs.mapM fun r => do
      let ms ← ls.filterMapM (fun l => do if ← onTrue cx env on (l ++ r) then pure (some l) else pure none)
      pure (if ms.isEmpty then [nulls lw ++ r] else ms.map fun l => l ++ r)
    pure parts.flatten
  | .full => do
    let parts ← ls.mapM fun l => do
      let ms ← matchesOf cx env on l rs
      pure (if ms.isEmpty then [l ++ nulls rw] else ms.map fun r => l ++ r)
    let unmatchedR ← rs.filterMapM fun r => do
      let ms ← ls.filterMapM (fun l => do if ← onTrue cx env on (l ++ r) then pure (some l) else pure none)
      pure (if ms.isEmpty then some (nulls lw ++ r) else none)
    pure (parts.flatten ++ unmatchedR)

/-! ### aggregation over a table -/

def aggGroup (cx : EvalCtx) (env : Env) (aggs : List AggCall) (rows : Table) : Except Err Row :=
  aggs.mapM fun a => do
    let args ← match a.fn with
      | .countStar => pure []
      | _ => rows.mapM (fun r => eval cx (r :: env) a.arg)
    aggVal cx.fo a.fn a.distinct rows.length args

def aggregate (cx : EvalCtx) (env : Env) (keys : List Expr) (aggs : List AggCall) (rows : Table) : Except Err Table := do
  if keys.isEmpty then
    pure [← aggGroup cx env aggs rows]          -- a global aggregate always yields exactly one row
  else
    let keyed ← rows.mapM fun r => do pure ((← evalList cx (r :: env) keys), r)
    (groupBy keyed).mapM fun (k, g) => do pure (k ++ (← aggGroup cx env aggs g))

def groupingMask (nkeys : Nat) (set : List Nat) : Int :=
  (List.range nkeys).foldl (fun acc i => acc * 2 + (if set.contains i then 0 else 1)) 0

def aggregateSets (cx : EvalCtx) (env : Env) (keys : List Expr) (sets : List (List Nat)) (aggs : List AggCall)
    (rows : Table) : Except Err Table := do
  let parts ← sets.mapM fun set => do
    let keyed ← rows.mapM fun r => do
      let kv ← evalList cx (r :: env) keys
      pure ((List.range keys.length).map (fun i => if set.contains i then kv.getD i .null else .null), r)
    let groups := if set.isEmpty then [(nulls keys.length, rows)] else groupBy keyed
    groups.mapM fun (k, g) => do pure (k ++ (← aggGroup cx env aggs g) ++ [.int (groupingMask keys.length set)])
  pure parts.flatten

/-! ### the plan interpreter -/

abbrev Runner := List Table → Env → Except Err Table

mutual
def run (fo : FloatOps) (fns : String → List Val → Except Err Val) (cat : List Table) : Query → Runner
  | .scan t => fun _ _ => match cat[t]? with | some tb => .ok tb | none => .error (.bad "no such table")
  | .cteRef i => fun ctes _ => match ctes[i]? with | some tb => .ok tb | none => .error (.bad "no such CTE")
  | .values rows => fun _ env =>
    rows.mapM (fun es => evalList { fo := fo, runSub := fun _ _ => .error (.bad "subquery in VALUES"), fn := fns } env es)
  | .filter subs p q => fun ctes env => do
    let rs := runList fo fns cat subs
    let cx : EvalCtx := { fo := fo, fn := fns, runSub := fun k e => match rs[k]? with | some f => f ctes e | none => .error (.bad "no such subquery") }
    let rows ← run fo fns cat q ctes env
    rows.filterMapM fun r => do
      match ← eval cx (r :: env) p with
      | .bool true => pure (some r)
      | .bool false | .null => pure none
      | _ => .error (.type "WHERE/HAVING predicate is not boolean")
  | .project subs es q => fun ctes env => do
    let rs := runList fo fns cat subs
    let cx : EvalCtx := { fo := fo, fn := fns, runSub := fun k e => match rs[k]? with | some f => f ctes e | none => .error (.bad "no such subquery") }
    let rows ← run fo fns cat q ctes env
    rows.mapM fun r => evalList cx (r :: env) es
  | .join jt lw rw subs on l r => fun ctes env => do
    let rsubs := runList fo fns cat subs
    let cx : EvalCtx := { fo := fo, fn := fns, runSub := fun k e => match rsubs[k]? with | some f => f ctes e | none => .error (.bad "no such subquery") }
    let ls ← run fo fns cat l ctes env
    let rs ← run fo fns cat r ctes env
    joinRows cx env jt lw rw on ls rs
  | .agg keys aggs q => fun ctes env => do
    let cx : EvalCtx := { fo := fo, fn := fns, runSub := fun _ _ => .error (.unsupported "subquery inside an aggregate") }
    aggregate cx env keys aggs (← run fo fns cat q ctes env)
  | .groupingSets keys sets aggs q => fun ctes env => do
    let cx : EvalCtx := { fo := fo, fn := fns, runSub := fun _ _ => .error (.unsupported "subquery inside an aggregate") }
    aggregateSets cx env keys sets aggs (← run fo fns cat q ctes env)
  | .distinct q => fun ctes env => do pure (dedupRows (← run fo fns cat q ctes env))
  | .sort keys q => fun ctes env => do
    let cx : EvalCtx := { fo := fo, fn := fns, runSub := fun _ _ => .error (.unsupported "subquery inside ORDER BY") }
    let rows ← run fo fns cat q ctes env
    let keyed ← rows.mapM fun r => do pure ((← evalList cx (r :: env) (keys.map (·.e))), r)
    pure ((sortKeyed fo (keys.map fun k => (k.desc, k.nullsFirst)) keyed).map (·.2))
  | .limit skip fetch q => fun ctes env => do
    let rows ← run fo fns cat q ctes env
    let rest := rows.drop skip
    pure (match fetch with | some n => rest.take n | none => rest)
  | .setop op all l r => fun ctes env => do
    let ls ← run fo fns cat l ctes env
    let rs ← run fo fns cat r ctes env
    pure (match op, all with
      | .union, true => ls ++ rs
      | .union, false => dedupRows (ls ++ rs)
      | .intersect, true => intersectAll ls rs
      | .intersect, false => dedupRows (intersectAll ls rs)
      | .except, true => exceptAll ls rs
      | .except, false => (dedupRows ls).filter (fun x => !rs.contains x))
  | .window calls q => fun ctes env => do
    let cx : EvalCtx := { fo := fo, fn := fns, runSub := fun _ _ => .error (.unsupported "subquery inside OVER") }
    evalWindow cx env calls (← run fo fns cat q ctes env)
  | .withCte defs body => fun ctes env => do
    let ctes' ← runDefs fo fns cat defs ctes env
    run fo fns cat body ctes' env

/-- runners of a node's subqueries -/
def runList (fo : FloatOps) (fns : String → List Val → Except Err Val) (cat : List Table) : List Query → List Runner
  | [] => []
  | q :: qs => run fo fns cat q :: runList fo fns cat qs

/-- materialise CTE definitions left to right; each sees the earlier ones -/
def runDefs (fo : FloatOps) (fns : String → List Val → Except Err Val) (cat : List Table) :
    List Query → List Table → Env → Except Err (List Table)
  | [], ctes, _ => .ok ctes
  | d :: ds, ctes, env => do
    let t ← run fo fns cat d ctes env
    runDefs fo fns cat ds (ctes ++ [t]) env
end

end IQE.Spec
