/-
  IQE.Spec.Fn — C36: the documented (Trino) meaning of the modelled scalar functions, as a total evaluator
  `call : name → arguments → Option Out` (`none` = this call is outside what is modelled: unknown function,
  ill-typed arguments, or an input class explicitly excluded from the claim — e.g. non-ASCII `upper`).
  The per-function definitions live in IQE/Spec/Fn/*.lean; this file adds the NULL rules and the dispatcher.
-/
import IQE.Spec.Fn.Basic
import IQE.Spec.Fn.Math
import IQE.Spec.Fn.Str
import IQE.Spec.Fn.Enc
import IQE.Spec.Fn.Enc2
import IQE.Spec.Fn.Date
namespace IQE.Spec.Fn

/-! ### conditional expressions (the only non-strict functions) -/
/-- `coalesce`: first non-NULL argument, NULL if there is none. -/
def coalesceV : List V → V
  | [] => .null
  | .null :: rest => coalesceV rest
  | v :: _ => v
/-- `nullif(a, b)`: NULL when a = b (both non-NULL), otherwise a. -/
def nullifV (a b : V) : V := if a.isNull || b.isNull then a else if a = b then .null else a
/-- `if(c, t, f)`: t when c is TRUE, f when c is FALSE or NULL. -/
def ifV (c t f : V) : Option V :=
  match c with | .bool true => some t | .bool false => some f | .null => some f | _ => none
/-- searched CASE over [c1, v1, c2, v2, …, (else)]: first TRUE condition wins; no ELSE = NULL. -/
def caseSearched : List V → Option V
  | [] => some .null
  | [e] => some e
  | c :: v :: rest => match c with
    | .bool true => some v
    | .bool false => caseSearched rest
    | .null => caseSearched rest
    | _ => none
/-- simple CASE over [operand, w1, v1, …, (else)]: `operand = wi` must be TRUE (a NULL never matches). -/
def caseSimpleGo (x : V) : List V → V
  | [] => .null
  | [e] => e
  | w :: v :: rest => if !x.isNull && !w.isNull && x = w then v else caseSimpleGo x rest
def caseSimple : List V → Option V
  | [] => none
  | x :: rest => some (caseSimpleGo x rest)

def allInts : List V → Option (List Int)
  | [] => some []
  | .int i :: r => (allInts r).map (i :: ·)
  | _ => none
def allStrs : List V → Option (List (List Char))
  | [] => some []
  | .str i :: r => (allStrs r).map (i :: ·)
  | _ => none
def nonNullStrs : List V → Option (List (List Char))
  | [] => some []
  | .str i :: r => (nonNullStrs r).map (i :: ·)
  | .null :: r => nonNullStrs r
  | _ => none

/-- a DATE result must stay within 32-bit day numbers, else the function raises -/
def ofDateChecked (z : Int) : Out := if decide (-2147483648 ≤ z) && decide (z ≤ 2147483647) then .val (.date z) else .err

def nat? (i : Int) : Option Nat := if i ≥ 0 then some i.toNat else none

/-- The engine's documented convention for decoders (`from_hex`, `from_base64`, `from_base64url`, `from_base32`, `from_base`,
    `chr`, `hamming_distance`, `from_big_endian_*`): input that is not valid for the function yields NULL (where Trino raises). -/
def nullIfNone {α : Type} (o : Option α) (k : α → V) : Out := match o with | some a => .val (k a) | none => .val .null
def decodeClaim (c : Codec) (s : List Char) : Option Out := some (nullIfNone (c.decode s) .bytes)

/-- Strict (RETURNS NULL ON NULL INPUT) functions on non-NULL, well-typed arguments. -/
def callStrict (f : String) (args : List V) : Option Out :=
  match f, args with
  -- integer math
  | "abs", [.int x] => some (ofOptInt (absI x))
  | "sign", [.int x] => some (.val (.int (signI x)))
  | "mod", [.int a, .int b] => some (ofOptInt (modI a b))
  | "greatest", vs => (allInts vs).map (fun l => ofOptInt (greatestI l))
  | "least", vs => (allInts vs).map (fun l => ofOptInt (leastI l))
  | "width_bucket", [.int x, .int lo, .int hi, .int n] => (widthBucket x lo hi n).map (fun r => .val (.int r))
  | "to_base", [.int x, .int r] => some (ofOptStr (toBase x r))
  | "from_base", [.str s, .int r] => some (if radixOk r then nullIfNone (fromBase s r) .int else .err)
  -- bitwise
  | "bitwise_and", [.int a, .int b] => some (.val (.int (bitAnd a b)))
  | "bitwise_or", [.int a, .int b] => some (.val (.int (bitOr a b)))
  | "bitwise_xor", [.int a, .int b] => some (.val (.int (bitXor a b)))
  | "bitwise_not", [.int a] => some (.val (.int (bitNot a)))
  | "bit_count", [.int a] => some (.val (.int (bitCount a)))
  | "bitwise_left_shift", [.int a, .int s] => (shiftLeft a s).map (fun r => .val (.int r))
  | "bitwise_right_shift", [.int a, .int s] => (shiftRight a s).map (fun r => .val (.int r))
  | "bitwise_right_shift_arithmetic", [.int a, .int s] => (shiftRightArith a s).map (fun r => .val (.int r))
  -- strings
  | "length", [.str s] => some (.val (.int (lengthS s)))
  | "upper", [.str s] => if isAsciiS s then some (.val (.str (upperS s))) else none
  | "lower", [.str s] => if isAsciiS s then some (.val (.str (lowerS s))) else none
  | "reverse", [.str s] => some (.val (.str (reverseS s)))
  | "trim", [.str s] => some (.val (.str (trimS s)))
  | "ltrim", [.str s] => some (.val (.str (ltrimS s)))
  | "rtrim", [.str s] => some (.val (.str (rtrimS s)))
  | "concat", vs => if vs.length < 1 then none else (allStrs vs).map (fun l => .val (.str (concatS l)))
  | "concat_op", [.str a, .str b] => some (.val (.str (a ++ b)))
  | "add", [.int a, .int b] => some (ofIntChecked (a + b))
  | "starts_with", [.str s, .str p] => some (.val (.bool (startsWith s p)))
  | "ends_with", [.str s, .str p] => some (.val (.bool (endsWith s p)))
  | "substring", [.str s, .int st] => some (.val (.str (substr s st none)))
  | "substring", [.str s, .int st, .int l] => some (.val (.str (substr s st (some l))))
  | "left", [.str s, .int n] => (nat? n).map (fun k => .val (.str (leftS s k)))
  | "right", [.str s, .int n] => (nat? n).map (fun k => .val (.str (rightS s k)))
  | "repeat", [.str s, .int n] => some (.val (.str (repeatS s n.toNat)))
  | "replace", [.str s, .str p, .str r] => some (.val (.str (replaceS s p r)))
  | "strpos", [.str s, .str p] => some (.val (.int (strpos s p)))
  | "position", [.str p, .str s] => some (.val (.int (strpos s p)))
  | "lpad", [.str s, .int n, .str p] => (lpadS s n p).map (fun r => .val (.str r))
  | "rpad", [.str s, .int n, .str p] => (rpadS s n p).map (fun r => .val (.str r))
  | "split_part", [.str s, .str d, .int i] => if i ≤ 0 || d.isEmpty then none else some (splitPart s d i)
  | "chr", [.int n] => some (nullIfNone (chrS n) .str)
  | "codepoint", [.str s] => (codepointS s).map (fun r => .val (.int r))
  | "ascii", [.str s] => some (.val (.int (asciiS s)))
  | "translate", [.str s, .str a, .str b] => some (.val (.str (translateS s a b)))
  | "hamming_distance", [.str a, .str b] => some (nullIfNone (hamming a b) .int)
  | "levenshtein_distance", [.str a, .str b] => some (.val (.int (lev a b)))
  | "luhn_check", [.str s] => (luhnCheck s).map (fun r => .val (.bool r))
  -- encodings
  | "to_hex", [.bytes b] => some (.val (.str (toHex b)))
  | "from_hex", [.str s] => some (nullIfNone (fromHex s) .bytes)
  | "to_base64", [.bytes b] => some (.val (.str (base64.encode b)))
  | "to_base64url", [.bytes b] => some (.val (.str (base64url.encode b)))
  | "to_base32", [.bytes b] => some (.val (.str (base32.encode b)))
  | "from_base64", [.str s] => decodeClaim base64 s
  | "from_base64url", [.str s] => decodeClaim base64url s
  | "from_base32", [.str s] => decodeClaim base32 s
  | "to_big_endian_64", [.int x] => some (.val (.bytes (toBigEndian 8 x)))
  | "to_big_endian_32", [.int x] => if decide (-2147483648 ≤ x) && decide (x ≤ 2147483647) then some (.val (.bytes (toBigEndian 4 x))) else none
  | "from_big_endian_64", [.bytes b] => if b.length > 8 then none else some (nullIfNone (fromBigEndian 8 b) .int)
  | "from_big_endian_32", [.bytes b] => if b.length > 4 then none else some (nullIfNone (fromBigEndian 4 b) .int)
  | "url_encode", [.str s] => some (.val (.str (urlEncode s)))
  | "url_decode", [.str s] => (urlDecode s).map (fun r => .val (.str r))
  | "to_utf8", [.str s] => some (.val (.bytes (IQE.Utf8.encode s)))
  | "from_utf8", [.bytes b] => (IQE.Utf8.decode b).map (fun s => .val (.str s))
  -- dates
  | "year", [.date z] => some (.val (.int (yearOf z)))
  | "month", [.date z] => some (.val (.int (monthOf z)))
  | "day", [.date z] => some (.val (.int (dayOf z)))
  | "quarter", [.date z] => some (.val (.int (quarterOf z)))
  | "day_of_week", [.date z] => some (.val (.int (dayOfWeek z)))
  | "day_of_year", [.date z] => some (.val (.int (dayOfYear z)))
  | "last_day_of_month", [.date z] => some (ofDateChecked (lastDayOfMonth z))
  | "date_add", [.str u, .int n, .date z] => (unitOfString u).map (fun u => ofDateChecked (dateAdd u n z))
  | "date_diff", [.str u, .date a, .date b] => (unitOfString u).map (fun u => .val (.int (dateDiff u a b)))
  | "date_trunc", [.str u, .date z] => (unitOfString u).map (fun u => .val (.date (dateTrunc u z)))
  | _, _ => none

/-- The documented value of `f(args)`. -/
def call (f : String) (args : List V) : Option Out :=
  match f with
  | "coalesce" => if args.isEmpty then none else some (.val (coalesceV args))
  | "nullif" => match args with | [a, b] => some (.val (nullifV a b)) | _ => none
  | "if" => match args with | [c, t, e] => (ifV c t e).map .val | _ => none
  | "case_searched" => (caseSearched args).map .val
  | "case_simple" => (caseSimple args).map .val
  | "concat_ws" => match args with
    | .null :: _ => some (.val .null)
    | .str sep :: rest => if rest.isEmpty then none else (nonNullStrs rest).map (fun l => .val (.str (joinS sep l)))
    | _ => none
  | _ => strict args (callStrict f)

/-- Expressions over the case's arguments (a plain call is `f(arg 0, …, arg k)`). -/
inductive E
  | arg (j : Nat)
  | const (v : V)
  | app (f : String) (a : List E)
deriving Repr, Inhabited

mutual
def eval (row : List V) : E → Option Out
  | .arg j => (row[j]?).map .val
  | .const v => some (.val v)
  | .app f as => match evalList row as with
    | none => none
    | some (.inl vs) => call f vs
    | some (.inr ()) => some .err
/-- arguments left to right; an argument that raises makes the call raise -/
def evalList (row : List V) : List E → Option (List V ⊕ Unit)
  | [] => some (.inl [])
  | e :: es => match eval row e, evalList row es with
    | some (.val v), some (.inl vs) => some (.inl (v :: vs))
    | some .err, some _ => some (.inr ())
    | some _, some (.inr ()) => some (.inr ())
    | _, _ => none
end

end IQE.Spec.Fn
