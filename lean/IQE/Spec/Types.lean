/-
  IQE.Spec.Types — the resolved query (plan) AST shared by the SQL generator, the reference
  semantics and the engine-algorithm models.  Columns are positional.  Subquery expressions inside
  a node's expressions index into that node's `subs` list.
-/
import IQE.Spec.Expr
namespace IQE.Spec
open IQE

inductive JoinType | inner | left | right | full | semi | anti | cross
deriving DecidableEq, Repr, Inhabited

inductive AggFn | countStar | count | sum | avg | min | max
deriving DecidableEq, Repr, Inhabited

structure AggCall where
  fn : AggFn
  arg : Expr            -- ignored for countStar
  distinct : Bool := false
deriving Repr, Inhabited

structure SortKey where
  e : Expr
  desc : Bool := false
  nullsFirst : Bool := false      -- the binder's default is NULLS LAST for both directions
deriving Repr, Inhabited

inductive SetOp | union | intersect | except
deriving DecidableEq, Repr, Inhabited

inductive WinFn
  | rowNumber | rank | denseRank | percentRank | cumeDist | ntile | lag | lead
  | firstValue | lastValue | nthValue | agg (f : AggFn)
deriving DecidableEq, Repr, Inhabited

inductive FrameUnits | rows | range
deriving DecidableEq, Repr, Inhabited

inductive FrameBound
  | unboundedPreceding | preceding (k : Nat) | currentRow | following (k : Nat) | unboundedFollowing
deriving DecidableEq, Repr, Inhabited

structure Frame where
  units : FrameUnits
  start : FrameBound
  stop : FrameBound
deriving DecidableEq, Repr, Inhabited

structure WinCall where
  fn : WinFn
  args : List Expr
  partition : List Expr
  order : List SortKey
  frame : Option Frame := none
deriving Repr, Inhabited

inductive Query where
  | scan (t : Nat)                                       -- t-th table of the catalog
  | cteRef (i : Nat)                                     -- i-th entry of the CTE stack in scope
  | values (rows : List (List Expr))
  | filter (subs : List Query) (p : Expr) (q : Query)
  | project (subs : List Query) (es : List Expr) (q : Query)
  | join (jt : JoinType) (lw rw : Nat) (subs : List Query) (on : Expr) (l r : Query)   -- lw / rw: arities of l and r
  | agg (keys : List Expr) (aggs : List AggCall) (q : Query)                           -- output: keys ++ aggs
  | groupingSets (keys : List Expr) (sets : List (List Nat)) (aggs : List AggCall) (q : Query)
      -- one aggregate per set (indices into `keys`); output: keys (NULL when absent) ++ aggs ++ [grouping bitmask, MSB = first key]
  | distinct (q : Query)
  | sort (keys : List SortKey) (q : Query)
  | limit (skip : Nat) (fetch : Option Nat) (q : Query)
  | setop (op : SetOp) (all : Bool) (l r : Query)
  | window (calls : List WinCall) (q : Query)            -- output: input columns ++ one column per call
  | withCte (defs : List Query) (body : Query)           -- each def sees the earlier ones; lexical scope
deriving Repr, Inhabited

end IQE.Spec
