/-
  IQE.Spec.Csv — reference CSV reader (RFC 4180, with the universally accepted relaxation that a record ends
  at LF or CRLF, and TEXTDATA extended to every character other than `"` `,` CR LF).

      file       = *( record LE ) [ record ]           -- a LE directly before the end of input adds no record
      record     = field *( "," field )
      field      = escaped / non-escaped
      escaped    = DQUOTE *( char-other-than-DQUOTE / 2DQUOTE ) DQUOTE
      non-escaped= *( any char except DQUOTE "," CR LF )
      LE         = LF / CR LF

  Anything else (a quote inside a non-escaped field, text after a closing quote, a bare CR, an unterminated
  escaped field) is not CSV: `none`.  Independent of the engine's writer; used as the oracle of C40.
-/
namespace IQE.Spec.Csv

inductive Mode where
  | recStart     -- at the start of a record (start of input, or just after a LE)
  | fieldStart   -- just after a comma
  | unq          -- inside a non-escaped field
  | quo          -- inside an escaped field
  | quoq         -- just after a DQUOTE inside an escaped field (closing quote, or first half of `""`)
  | cr           -- just after a CR that must be the first half of a CRLF
deriving DecidableEq, Repr

/-- `cur`: current field, reversed; `fs`: finished fields of the current record, reversed; `rs`: finished records, reversed -/
def go : List Char → Mode → List Char → List (List Char) → List (List (List Char)) → Option (List (List (List Char)))
  | [], mode, cur, fs, rs =>
    match mode with
    | .recStart => some rs.reverse
    | .fieldStart | .unq | .quoq => some (((cur.reverse :: fs).reverse) :: rs).reverse
    | .quo | .cr => none
  | c :: rest, mode, cur, fs, rs =>
    match mode with
    | .recStart | .fieldStart | .unq =>
      if c == ',' then go rest .fieldStart [] (cur.reverse :: fs) rs
      else if c == '\n' then go rest .recStart [] [] ((cur.reverse :: fs).reverse :: rs)
      else if c == '\r' then go rest .cr cur fs rs
      else if c == '"' then (if mode == .unq then none else go rest .quo [] fs rs)
      else go rest .unq (c :: cur) fs rs
    | .quo =>
      if c == '"' then go rest .quoq cur fs rs else go rest .quo (c :: cur) fs rs
    | .quoq =>
      if c == '"' then go rest .quo ('"' :: cur) fs rs
      else if c == ',' then go rest .fieldStart [] (cur.reverse :: fs) rs
      else if c == '\n' then go rest .recStart [] [] ((cur.reverse :: fs).reverse :: rs)
      else if c == '\r' then go rest .cr cur fs rs
      else none
    | .cr =>
      if c == '\n' then go rest .recStart [] [] ((cur.reverse :: fs).reverse :: rs) else none

/-- all records of a CSV text, each a list of field texts -/
def parse (s : List Char) : Option (List (List (List Char))) := go s .recStart [] [] []

end IQE.Spec.Csv
