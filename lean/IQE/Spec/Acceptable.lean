/-
  IQE.Spec.Acceptable — which result tables are correct answers of a plan, where SQL leaves freedom:
  row order outside a top-level ORDER BY, and which tied rows a top-level LIMIT/OFFSET keeps.
  Nondeterministic constructs below the top level (a LIMIT inside a derived table without a total
  order) are not generated; there `acceptable` demands the canonical answer of `Spec.run`.
-/
import IQE.Spec.Query
namespace IQE.Spec
open IQE

/-- `a` is a sub-bag of `b` -/
def subBag : Table → Table → Bool
  | [], _ => true
  | x :: xs, b => b.contains x && subBag xs (removeFirst x b)

def bagEq (a b : Table) : Bool := a.length == b.length && subBag a b

/-- key vectors of the rows of a table under the given sort keys (evaluated on the rows themselves) -/
def keysOf (cx : EvalCtx) (env : Env) (keys : List SortKey) (rows : Table) : Except Err (List (List Val)) :=
  rows.mapM fun r => evalList cx (r :: env) (keys.map (·.e))

def sortedBy (fo : FloatOps) (flags : List (Bool × Bool)) : List (List Val) → Bool
  | a :: b :: rest => cmpKeys fo flags a b != .gt && sortedBy fo flags (b :: rest)
  | _ => true

def keysPointwiseEq (fo : FloatOps) (flags : List (Bool × Bool)) : List (List Val) → List (List Val) → Bool
  | [], [] => true
  | a :: as, b :: bs => cmpKeys fo flags a b == .eq && keysPointwiseEq fo flags as bs
  | _, _ => false

/-- Is `out` a correct answer of `q`?  (`.error` = the reference semantics itself errors.) -/
def acceptable (fo : FloatOps) (fns : String → List Val → Except Err Val) (cat : List Table) (q : Query) (out : Table) :
    Except Err Bool := do
  let cx : EvalCtx := { fo := fo, fn := fns, runSub := fun _ _ => .error (.unsupported "subquery inside ORDER BY") }
  match q with
  | .sort keys q' =>
    let full ← run fo fns cat (.sort keys q') [] []
    let flags := keys.map fun k => (k.desc, k.nullsFirst)
    pure (bagEq out full && sortedBy fo flags (← keysOf cx [] keys out))
  | .limit skip fetch (.sort keys q') =>
    let full ← run fo fns cat (.sort keys q') [] []
    let expected := match fetch with | some n => (full.drop skip).take n | none => full.drop skip
    let flags := keys.map fun k => (k.desc, k.nullsFirst)
    -- same key vector at every position, and the rows are drawn from the sorted input: any choice inside tie classes
    pure (keysPointwiseEq fo flags (← keysOf cx [] keys out) (← keysOf cx [] keys expected) && subBag out full)
  | .limit skip fetch q' =>
    let full ← run fo fns cat q' [] []
    let n := match fetch with | some n => min n (full.length - skip) | none => full.length - skip
    pure (out.length == n && subBag out full)
  | q => do pure (bagEq out (← run fo fns cat q [] []))

end IQE.Spec
