/-
  IQE.Spec.OrderAgg — aggregate evaluation over a list of argument values and the ORDER BY
  comparator / stable sort, shared by Spec.Query and Spec.Window.
-/
import IQE.Spec.Types
namespace IQE.Spec
open IQE

/-! ### aggregates -/

def sumVals (fo : FloatOps) : List Val → Except Err Val
  | [] => .ok .null
  | v :: vs => vs.foldlM (fun acc x => Val.arith fo .add acc x) v

def dedupVals : List Val → List Val
  | [] => []
  | x :: xs => x :: (dedupVals xs).filter (fun y => y ≠ x)

def extremum (fo : FloatOps) (wantMax : Bool) : List Val → Except Err Val
  | [] => .ok .null
  | v :: vs => vs.foldlM (fun acc x => do
      let o ← Val.cmpNonNull fo x acc
      pure (if (wantMax && o == .gt) || (!wantMax && o == .lt) then x else acc)) v

/-- one aggregate over the argument values of a group (`n` = number of rows of the group) -/
def aggVal (fo : FloatOps) (f : AggFn) (distinct : Bool) (n : Nat) (args : List Val) : Except Err Val :=
  let nn := args.filter (fun v => !v.isNull)
  let nn := if distinct then dedupVals nn else nn
  match f with
  | .countStar => .ok (.int n)
  | .count => .ok (.int nn.length)
  | .sum => sumVals fo nn
  | .min => extremum fo false nn
  | .max => extremum fo true nn
  | .avg => do
    match ← sumVals fo nn with
    | .null => pure .null
    | .int s => pure (.f64 (fo.div (fo.ofInt s) (fo.ofInt nn.length)))
    | .f64 s => pure (.f64 (fo.div s (fo.ofInt nn.length)))
    | _ => .error (.type "AVG of non-numeric")

/-! ### ordering -/

/-- total comparison of two sort-key values under (desc, nullsFirst) -/
def cmpKeyVal (fo : FloatOps) (desc nullsFirst : Bool) (a b : Val) : Ordering :=
  match a, b with
  | .null, .null => .eq
  | .null, _ => if nullsFirst then .lt else .gt
  | _, .null => if nullsFirst then .gt else .lt
  | a, b =>
    let o := match Val.cmpNonNull fo a b with | .ok o => o | .error _ => .eq
    if desc then o.swap else o

def cmpKeys (fo : FloatOps) : List (Bool × Bool) → List Val → List Val → Ordering
  | (d, nf) :: fs, a :: as, b :: bs =>
    match cmpKeyVal fo d nf a b with
    | .eq => cmpKeys fo fs as bs
    | o => o
  | _, _, _ => .eq

/-- stable sort of (keyvals, row) pairs -/
def sortKeyed (fo : FloatOps) (flags : List (Bool × Bool)) (xs : List (List Val × Row)) : List (List Val × Row) :=
  xs.mergeSort (fun a b => cmpKeys fo flags a.1 b.1 != .gt)

end IQE.Spec
