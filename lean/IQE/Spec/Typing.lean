/-
  IQE.Spec.Typing — a typing judgment for resolved scalar expressions (C29 progress / C30 schema soundness).

  `typeOf Γ e = some σ` says: `e` is well scoped and well typed in context `Γ`, and every value it can
  evaluate to is NULL or has type `σ`.  A static type is `STy = Option Ty`; `none` is the type of a bare
  `NULL` literal (its only inhabitant is NULL, and it is accepted wherever any type is).
  The judgment is *sound, not complete* w.r.t. `Spec.eval`: e.g. `NULL + 'a'` evaluates to NULL but
  `1 + 'a'` is rejected although it would only fail on rows where both sides are non-NULL.
  Mixed INT/DOUBLE operands are accepted by comparisons and arithmetic (as `Val.cmpNonNull`/`Val.arith`
  do); CASE/COALESCE branches must agree exactly (the value is one of the branch values).
-/
import IQE.Spec.Expr
namespace IQE.Spec
open IQE

/-- static type; `none` = the type of a bare NULL -/
abbrev STy := Option Ty

/-- NULL inhabits every type -/
def valHasTy : Val → STy → Bool
  | .null, _ => true
  | v, some τ => v.tyOf == some τ
  | _, none => false

def rowHasTys : Row → List Ty → Bool
  | [], [] => true
  | v :: vs, τ :: τs => valHasTy v (some τ) && rowHasTys vs τs
  | _, _ => false

def valsHaveTys : List Val → List STy → Bool
  | [], [] => true
  | v :: vs, σ :: σs => valHasTy v σ && valsHaveTys vs σs
  | _, _ => false

/-- Typing context of the expressions of one plan node. -/
structure TyCtx where
  /-- column types of the current row, then of the rows of the enclosing queries -/
  env : List (List Ty)
  /-- output schemas of the node's subqueries -/
  subs : List (List Ty) := []
  /-- signatures of the scalar functions (C36); default: no function is typed -/
  fnTy : String → List STy → Option STy := fun _ _ => none

def numericTy : Ty → Bool | .int | .f64 => true | _ => false

/-- least upper bound of branch types (CASE / COALESCE): equal, or one side is the NULL type -/
def joinTy : STy → STy → Option STy
  | none, σ => some σ
  | some a, none => some (some a)
  | some a, some b => if a = b then some (some a) else none

/-- `Val.cmpNonNull` accepts the pair -/
def comparableTy : STy → STy → Bool
  | none, _ => true
  | some _, none => true
  | some a, some b => a == b || (numericTy a && numericTy b)

def isBoolTy : STy → Bool | none => true | some .bool => true | _ => false
def isStrTy : STy → Bool | none => true | some .str => true | _ => false

def arithTy (op : Val.Arith) : STy → STy → Option STy
  | none, _ => some none
  | some _, none => some none
  | some .int, some .int => some (some .int)
  | some .int, some .f64 => some (some .f64)
  | some .f64, some .int => some (some .f64)
  | some .f64, some .f64 => some (some .f64)
  | some .date, some .int => match op with | .add | .sub => some (some .date) | _ => none
  | _, _ => none

def unTy : UnOp → STy → Option STy
  | .not, σ => if isBoolTy σ then some σ else none
  | .isNull, _ => some (some .bool)
  | .isNotNull, _ => some (some .bool)
  | .neg, none => some none
  | .neg, some .int => some (some .int)
  | .neg, some .f64 => some (some .f64)
  | .neg, _ => none

def binTy : BinOp → STy → STy → Option STy
  | .add, a, b => arithTy .add a b
  | .sub, a, b => arithTy .sub a b
  | .mul, a, b => arithTy .mul a b
  | .div, a, b => arithTy .div a b
  | .mod, a, b => arithTy .mod a b
  | .and, a, b => if isBoolTy a && isBoolTy b then some (some .bool) else none
  | .or, a, b => if isBoolTy a && isBoolTy b then some (some .bool) else none
  | .like, a, b => if isStrTy a && isStrTy b then some (some .bool) else none
  | .notLike, a, b => if isStrTy a && isStrTy b then some (some .bool) else none
  | .concat, a, b => if isStrTy a && isStrTy b then some (some .str) else none
  | .eq, a, b | .ne, a, b | .lt, a, b | .le, a, b | .gt, a, b | .ge, a, b =>
    if comparableTy a b then some (some .bool) else none

mutual
def typeOf (Γ : TyCtx) : Expr → Option STy
  | .lit v => some v.tyOf
  | .col i => match Γ.env[0]? with
    | some ts => match ts[i]? with | some τ => some (some τ) | none => none
    | none => none
  | .outer d i => match Γ.env[d]? with
    | some ts => match ts[i]? with | some τ => some (some τ) | none => none
    | none => none
  | .un op e => match typeOf Γ e with
    | some σ => unTy op σ
    | none => none
  | .bin op a b => match typeOf Γ a, typeOf Γ b with
    | some σ, some ρ => binTy op σ ρ
    | _, _ => none
  | .inList e items _ => match typeOf Γ e, typeOfList Γ items with
    | some σ, some σs => if σs.all (comparableTy σ) then some (some .bool) else none
    | _, _ => none
  | .between e lo hi _ => match typeOf Γ e, typeOf Γ lo, typeOf Γ hi with
    | some σ, some l, some h => if comparableTy σ l && comparableTy σ h then some (some .bool) else none
    | _, _, _ => none
  | .case_ arms => typeOfCase Γ arms
  | .coalesce es => typeOfCoalesce Γ es
  | .nullif a b => match typeOf Γ a, typeOf Γ b with
    | some σ, some ρ => if comparableTy σ ρ then some σ else none
    | _, _ => none
  | .cast e ty => match typeOf Γ e with
    | some _ => some (some ty)
    | none => none
  | .fn name args => match typeOfList Γ args with
    | some σs => Γ.fnTy name σs
    | none => none
  | .exists_ sub _ => match Γ.subs[sub]? with
    | some _ => some (some .bool)
    | none => none
  | .inSub e sub _ => match typeOf Γ e, Γ.subs[sub]? with
    | some σ, some ts => if comparableTy σ ts.head? then some (some .bool) else none
    | _, _ => none
  | .scalarSub sub => match Γ.subs[sub]? with
    | some ts => some ts.head?
    | none => none

def typeOfList (Γ : TyCtx) : List Expr → Option (List STy)
  | [] => some []
  | e :: es => match typeOf Γ e, typeOfList Γ es with
    | some σ, some σs => some (σ :: σs)
    | _, _ => none

def typeOfCase (Γ : TyCtx) : List Expr → Option STy
  | [] => some none
  | [else_] => typeOf Γ else_
  | c :: t :: rest => match typeOf Γ c, typeOf Γ t, typeOfCase Γ rest with
    | some σc, some σt, some σr => if isBoolTy σc then joinTy σt σr else none
    | _, _, _ => none

def typeOfCoalesce (Γ : TyCtx) : List Expr → Option STy
  | [] => some none
  | e :: es => match typeOf Γ e, typeOfCoalesce Γ es with
    | some σ, some ρ => joinTy σ ρ
    | _, _ => none
end

/-- errors a well-typed, well-scoped plan never produces -/
def Err.isStatic : Err → Bool
  | .type _ => true
  | .bad _ => true
  | _ => false

/-- the environment's rows conform to the context's column types -/
def envHasTys : Env → List (List Ty) → Bool
  | _, [] => true
  | r :: rs, ts :: tss => rowHasTys r ts && envHasTys rs tss
  | [], _ :: _ => false

end IQE.Spec
