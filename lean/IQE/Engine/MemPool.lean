/-
  IQE.Engine.MemPool — small-step model of `execution::memory::{MemoryPool, MemoryReservation}`
  (src/execution/memory.rs) under concurrency.

  Shared state: the atomic `used` (a value in [0, 2^64); every RMW wraps modulo `M = 2^64` exactly as
  `AtomicUsize::fetch_add / fetch_sub` do) and the bag of live reservations.  Threads only carry a program
  counter: a thread is either `idle` (between pool calls) or inside the CAS loop of `try_allocate(n)` holding the
  value `cur` it last read.  One model step = one atomic operation of the real code (the instrumented
  `yield_point`s 1..6) together with the thread-local computation that follows it up to the next atomic operation:

    id 1  `load`                 in try_allocate   → `tryLoad t n v`   (the load may return ANY value `v`: covers stale Relaxed reads)
    id 2  `compare_exchange_weak` in try_allocate  → `cas t ok v`      (may fail for ANY reason, incl. spuriously, returning ANY `v`;
                                                                        may succeed only if `used = cur`)
    id 3  `fetch_add`            in allocate       → `allocate t n`
    id 4/5 `fetch_add`/`fetch_sub` in resize       → `resize t r new`
    id 6  `fetch_sub`            in release (Drop) → `drop t r`

  A reservation is identified by its creation index `r` in `live`; dropping leaves a tombstone (`none`) so indices
  are stable.  Any idle thread may resize/drop any live reservation (reservations are `Send`; exclusive access is
  what `&mut self` / ownership guarantee, so these are single steps).  The number of threads is arbitrary.
  Because the local bookkeeping after an RMW (`self.size = new_size`, constructing the guard) is thread-local and
  has no yield point, there are no in-flight deltas at this granularity: they are committed within the step.
-/
namespace IQE.Engine.MemPool

/-- 2^64: the modulus of `usize` arithmetic on the target. -/
abbrev M : Nat := 18446744073709551616

inductive Pc where
  | idle
  | cas (n cur : Nat)     -- inside try_allocate(n), about to CAS expecting `cur`; `cur + n` passed both tests
  deriving DecidableEq, Repr, Inhabited

structure Cfg where
  max : Nat                       -- max_memory
  used : Nat                      -- the atomic
  live : List (Option Nat)        -- reservations by creation index; `none` = dropped
  pcs : List Pc                   -- one per thread
  deriving DecidableEq, Repr

def init (max nthreads : Nat) : Cfg := { max := max, used := 0, live := [], pcs := List.replicate nthreads .idle }

/-- Σ sizes of live reservations (true sum, not reduced). -/
def total (l : List (Option Nat)) : Nat := (l.map (fun x => x.getD 0)).sum

inductive Label where
  | tryLoad (t n v : Nat)
  | cas (t : Nat) (ok : Bool) (v : Nat)
  | allocate (t n : Nat)
  | resize (t r new : Nat)
  | drop (t r : Nat)
  deriving DecidableEq, Repr

/-- After reading `v` inside try_allocate(n): `checked_add` and the limit test decide between giving up
    (`None`, back to idle) and attempting the CAS. -/
def afterRead (max n v : Nat) : Pc :=
  if v + n < M ∧ v + n ≤ max then .cas n v else .idle

/-- `wrapping_add` / `wrapping_sub` on usize -/
def wadd (a b : Nat) : Nat := (a + b) % M
def wsub (a b : Nat) : Nat := (a + M - b) % M   -- for b < M (every size is a usize)

/-- One labelled step; `none` = the label is not enabled in this configuration. -/
def step (c : Cfg) : Label → Option Cfg
  | .tryLoad t n v =>
    if c.pcs[t]? = some .idle ∧ n < M ∧ v < M then
      some { c with pcs := c.pcs.set t (afterRead c.max n v) }
    else none
  | .cas t ok v =>
    match c.pcs[t]? with
    | some (.cas n cur) =>
      if ok then
        if c.used = cur then some { c with used := cur + n, live := c.live ++ [some n], pcs := c.pcs.set t .idle }
        else none
      else if v < M then some { c with pcs := c.pcs.set t (afterRead c.max n v) }
      else none
    | _ => none
  | .allocate t n =>
    if c.pcs[t]? = some .idle ∧ n < M then
      some { c with used := wadd c.used n, live := c.live ++ [some n] }
    else none
  | .resize t r new =>
    match c.live[r]? with
    | some (some sz) =>
      if c.pcs[t]? = some .idle ∧ new < M then
        some { c with used := if new > sz then wadd c.used (new - sz) else wsub c.used (sz - new),
                      live := c.live.set r (some new) }
      else none
    | _ => none
  | .drop t r =>
    match c.live[r]? with
    | some (some sz) =>
      if c.pcs[t]? = some .idle then
        some { c with used := wsub c.used sz, live := c.live.set r none }
      else none
    | _ => none

/-- A run: the labels resolve every choice (which thread moves, what a load returns, whether a CAS fails). -/
def run (c : Cfg) : List Label → Option Cfg
  | [] => some c
  | l :: ls => match step c l with
    | some c' => run c' ls
    | none => none

/-- The unlabelled step relation and reachability (any number of threads, any interleaving, any length). -/
def Step (c c' : Cfg) : Prop := ∃ l, step c l = some c'

inductive Reachable (max nthreads : Nat) : Cfg → Prop where
  | init : Reachable max nthreads (init max nthreads)
  | step {c c'} : Reachable max nthreads c → Step c c' → Reachable max nthreads c'

/-- Labels of a client that uses the pool only conditionally: no forced `allocate`, no growing `resize`. -/
def condOnly (c : Cfg) : Label → Bool
  | .allocate _ _ => false
  | .resize _ r new => match c.live[r]? with
    | some (some sz) => decide (new ≤ sz)
    | _ => true
  | _ => true

/-- Reachability through conditional-only steps. -/
inductive ReachableCond (max nthreads : Nat) : Cfg → Prop where
  | init : ReachableCond max nthreads (init max nthreads)
  | step {c c'} (l : Label) : ReachableCond max nthreads c → condOnly c l = true → step c l = some c' →
      ReachableCond max nthreads c'

end IQE.Engine.MemPool
