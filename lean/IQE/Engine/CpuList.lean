/-
  IQE.Engine.CpuList — hand-written executable model of
  `execution::topology::parse_cpulist` (src/execution/topology.rs) and the
  hand copy of `workers_for` used by the driver (the theorem-side copy of
  `workers_for` is regenerated from source by the translator: IQE.Gen.Topology).
-/
import IQE.Core.Text
namespace IQE.Engine.CpuList
open IQE.Text

/-- `out.dedup()` on a sorted vector: drop consecutive duplicates. -/
def dedup : List Nat → List Nat
  | [] => []
  | [a] => [a]
  | a :: b :: rest => if a == b then dedup (b :: rest) else a :: dedup (b :: rest)

/-- `for c in a..=b { out.push(c) }`. -/
def rangeIncl (a b : Nat) : List Nat := List.range' a (b + 1 - a)

/-- One comma-separated part, already trimmed and non-empty-checked by the caller. -/
def parsePart (part : List Char) : List Nat :=
  match splitOnce '-' part with
  | some (a, b) =>
    match parseUsize (trim a), parseUsize (trim b) with
    | some a, some b => rangeIncl a b
    | _, _ => []
  | none =>
    match parseUsize part with
    | some a => [a]
    | none => []

/-- The values pushed before `sort_unstable` / `dedup`. -/
def collect (s : List Char) : List Nat :=
  (splitOn ',' (trim s)).flatMap fun part =>
    let part := trim part
    if part.isEmpty then [] else parsePart part

/-- `parse_cpulist`. -/
def parse (s : List Char) : List Nat :=
  dedup ((collect s).mergeSort (fun a b => a ≤ b))

/-- `workers_for(work_units, max) = work_units.clamp(1, max.max(1))`
    (`clamp` panics iff `min > max`; `1 ≤ max.max(1)` always). -/
def workersFor (work max : Nat) : Nat :=
  let hi := Nat.max max 1
  if work < 1 then 1 else if work > hi then hi else work

end IQE.Engine.CpuList
