/-
  IQE.Engine.Shard — hand-written executable models of
    * `execute_fragment` + `shard_context` (src/distributed/coordinator.rs): digest interlock and shard-index check   → `fragment`
    * `ShardedParquetTable::read_split` / `scan_impl` (src/distributed/shard.rs): range-checked row-range reads       → `readSplit`, `scanShard`

  execute_fragment:  set = splits_of(base, table, shard_count)?            (enumerate_parquet over the node's own files)
                     if set.digest() != req.splits_digest → Err("split digest mismatch …")
                     assignment = assign_lpt(&set, shard_count)
                     shard_context(…, shard_index): per_node.get(shard_index) else Err("shard index … out of range")
                     owned = per_node[shard_index].map(|i| set.splits[i])  → ShardedParquetTable → ctx.sql(sql)
  read_split:        row_group >= num_row_groups → Err; row_offset + num_rows > rg_rows → Err;
                     pruned row group → no rows; else rows [row_offset, row_offset + num_rows) of the row group,
                     decoder-level filter (a performance device: FilterExec above re-checks), projection.
-/
import IQE.Engine.SplitEnum
import IQE.Engine.Lpt
namespace IQE.Engine.Shard
open IQE.Engine IQE.Engine.SplitEnum

structure FragmentReq where
  table : List UInt8
  shardIndex : Nat
  shardCount : Nat
  digest : UInt64
deriving Repr, DecidableEq

inductive FragErr where
  | tableNotFound
  | enumerate (e : Err)
  | digestMismatch
  | shardIndexOutOfRange
deriving Repr, DecidableEq

inductive FragOut where
  | ran (owned : List Split)     -- the splits the fragment's SQL runs over
  | err (e : FragErr)
deriving Repr, DecidableEq

/-- `execute_fragment` up to the point where the SQL runs on the shard. `files = none`: the table is not registered. -/
def fragment (dev : Dev) (req : FragmentReq) (files : Option (List FileMeta)) : FragOut :=
  match files with
  | none => .err .tableNotFound
  | some fs =>
    match enumerate dev req.table fs req.shardCount with
    | .error e => .err (.enumerate e)
    | .ok set =>
      if set.digest ≠ req.digest then .err .digestMismatch
      else
        let a := Lpt.assign set.splits set.totalBytes req.shardCount
        match a.perNode[req.shardIndex]? with
        | none => .err .shardIndexOutOfRange
        | some owned => .ran (owned.map fun i => set.splits[i]!)

/-! ### shard scans: a table is a list of row groups, each a list of rows -/

/-- a split as the reader sees it: (global) row-group index, first row, number of rows -/
structure RSplit where
  rg : Nat
  off : Nat
  n : Nat
deriving Repr, DecidableEq, Inhabited

inductive ReadErr where
  | rowGroupOutOfRange     -- "split refers to row group … which has only …"
  | rangeExceeds           -- "split … rows a..b exceeds the row group's … rows"
deriving Repr, DecidableEq

/-- `read_split` without filter: the range check, then exactly the rows `[off, off + n)` of the row group -/
def readSplit {α} (rgs : List (List α)) (s : RSplit) : Except ReadErr (List α) :=
  match rgs[s.rg]? with
  | none => .error .rowGroupOutOfRange
  | some rows => if s.off + s.n > rows.length then .error .rangeExceeds else .ok ((rows.drop s.off).take s.n)

/-- `read_split` with pushed filter `φ`, row-group pruning verdict `keep` (false = the statistics exclude every row) and projection `π` -/
def readSplitWith {α β} (rgs : List (List α)) (keep : Nat → Bool) (φ : α → Bool) (π : α → β) (s : RSplit) :
    Except ReadErr (List β) :=
  match readSplit rgs s with
  | .error e => .error e
  | .ok rows => if keep s.rg then .ok ((rows.filter φ).map π) else .ok []

/-- `scan_impl`: every owned split, in order; the first error fails the scan -/
def scanShard {α β} (rgs : List (List α)) (keep : Nat → Bool) (φ : α → Bool) (π : α → β) :
    List RSplit → Except ReadErr (List β)
  | [] => .ok []
  | s :: rest =>
    match readSplitWith rgs keep φ π s with
    | .error e => .error e
    | .ok rows =>
      match scanShard rgs keep φ π rest with
      | .error e => .error e
      | .ok more => .ok (rows ++ more)

/-- what the sharded provider tells the planner about whole files: nothing (`parquet_files()` is `None`) -/
def shardParquetFiles (_owned : List RSplit) : Option (List (List UInt8)) := none

end IQE.Engine.Shard
