/-
  IQE.Engine.ConstFold — model of `ConstantFolding::fold_expr` (src/optimizer/rules/constant_folding.rs):
  children first; a binary node whose folded operands are both literals of the same kind (Int64, Float64, Boolean, Utf8) is
  evaluated (`eval_binary`); otherwise the boolean simplifications `x AND TRUE ↦ x`, `TRUE AND x ↦ x`, `x AND FALSE ↦ FALSE`,
  `x OR FALSE ↦ x`, `FALSE OR x ↦ x`, `x OR TRUE ↦ TRUE` are tried, in the order of the Rust code.  The rule recurses into
  unary, CAST, scalar-function arguments (COALESCE / NULLIF are scalar functions there) and CASE arms; IN-list, BETWEEN and
  subquery expressions are returned unchanged (`_ => expr.clone()`).

  Deviation switch `foldIeeeCmp`: `eval_float64` compares float literals with Rust's IEEE operators, whereas the run-time
  kernels (and the reference) use the total order; they differ on NaN and on -0.0 vs +0.0.
  Rust panics: `eval_int64` computes `left / right` and `left % right` unchecked — `i64::MIN / -1` and `i64::MIN % -1`
  abort with "attempt to divide with overflow"; `binaryPanics` makes that outcome explicit, `evalInt64` then returns `none`/the wrapped value.
-/
import IQE.Spec.Expr
namespace IQE.Engine.ConstFold
open IQE IQE.Spec

structure Dev where
  /-- float literal comparisons are folded with IEEE `==`/`<` instead of the run-time total order -/
  foldIeeeCmp : Bool := false
deriving DecidableEq, Repr, Inhabited
def Dev.none : Dev := { foldIeeeCmp := false }
def Dev.current : Dev := { foldIeeeCmp := true }

/-- a trivial float-arithmetic instance for closed examples -/
def fo0 : FloatOps := { add := fun a _ => a, sub := fun a _ => a, mul := fun a _ => a, div := fun a _ => a, neg := fun a => a, ofInt := fun _ => ⟨0⟩, toInt := fun _ => none }
def cx0 : EvalCtx := { fo := fo0, runSub := fun _ _ => .ok [] }

/-- `eval_int64` -/
def evalInt64 (op : BinOp) (l r : Int) : Option Val :=
  match op with
  | .add => if Val.inI64 (l + r) then some (.int (l + r)) else none          -- checked_add
  | .sub => if Val.inI64 (l - r) then some (.int (l - r)) else none          -- checked_sub
  | .mul => if Val.inI64 (l * r) then some (.int (l * r)) else none          -- checked_mul
  | .div => if r = 0 then none else if Val.inI64 (Int.tdiv l r) then some (.int (Int.tdiv l r)) else none   -- see binaryPanics
  | .mod => if r = 0 then none else if Val.inI64 (Int.tmod l r) then some (.int (Int.tmod l r)) else none
  | .eq | .ne | .lt | .le | .gt | .ge => some (.bool (ordSat op (compare l r)))
  | _ => none

def ieeeSat (op : BinOp) (l r : F64) : Bool :=
  match op with
  | .eq => F64.eq l r | .ne => F64.ne l r | .lt => F64.lt l r | .le => F64.le l r | .gt => F64.gt l r | .ge => F64.ge l r
  | _ => false

/-- `eval_float64` -/
def evalFloat64 (dev : Dev) (fo : FloatOps) (op : BinOp) (l r : F64) : Option Val :=
  match op with
  | .add => some (.f64 (fo.add l r))
  | .sub => some (.f64 (fo.sub l r))
  | .mul => some (.f64 (fo.mul l r))
  | .div => if r.isZero then none else some (.f64 (fo.div l r))              -- `right == 0.0` is true for both zeros
  | .eq | .ne | .lt | .le | .gt | .ge =>
    some (.bool (if dev.foldIeeeCmp then ieeeSat op l r else ordSat op (F64.totalCmp l r)))
  | _ => none

/-- `eval_bool` -/
def evalBool (op : BinOp) (l r : Bool) : Option Val :=
  match op with
  | .and => some (.bool (l && r))
  | .or => some (.bool (l || r))
  | .eq => some (.bool (l == r))
  | .ne => some (.bool (l != r))
  | _ => none

/-- `eval_string` (Rust compares `&str` byte-wise = code-point-wise) -/
def evalString (op : BinOp) (l r : String) : Option Val :=
  match op with
  | .eq | .ne | .lt | .le | .gt | .ge => some (.bool (ordSat op (compare l r)))
  | .concat => some (.str (l ++ r))
  | _ => none

/-- `eval_binary` -/
def evalBinary (dev : Dev) (fo : FloatOps) (l : Val) (op : BinOp) (r : Val) : Option Val :=
  match l, r with
  | .int a, .int b => evalInt64 op a b
  | .f64 a, .f64 b => evalFloat64 dev fo op a b
  | .bool a, .bool b => evalBool op a b
  | .str a, .str b => evalString op a b
  | _, _ => none

/-- the literal pairs on which the Rust code aborts instead of folding -/
def binaryPanics (l : Val) (op : BinOp) (r : Val) : Bool :=
  match l, r with
  | .int a, .int b => (op == .div || op == .mod) && a == Val.i64Min && b == -1
  | _, _ => false

def isLitBool (e : Expr) (b : Bool) : Bool :=
  match e with
  | .lit (.bool c) => c == b
  | _ => false

def litPair (dev : Dev) (fo : FloatOps) (op : BinOp) (left right : Expr) : Option Val :=
  match left, right with
  | .lit l, .lit r => evalBinary dev fo l op r
  | _, _ => none

/-- the body of the `BinaryExpr` arm after both children were folded -/
def simplify (dev : Dev) (fo : FloatOps) (op : BinOp) (left right : Expr) : Expr :=
  match litPair dev fo op left right with
  | some v => .lit v
  | none =>
    match op with
    | .and =>
      if isLitBool right true then left
      else if isLitBool left true then right
      else if isLitBool left false || isLitBool right false then .lit (.bool false)
      else .bin op left right
    | .or =>
      if isLitBool right false then left
      else if isLitBool left false then right
      else if isLitBool left true || isLitBool right true then .lit (.bool true)
      else .bin op left right
    | _ => .bin op left right

mutual
/-- `fold_expr` -/
def fold (dev : Dev) (fo : FloatOps) : Expr → Expr
  | .bin op a b => simplify dev fo op (fold dev fo a) (fold dev fo b)
  | .un op e => .un op (fold dev fo e)
  | .cast e ty => .cast (fold dev fo e) ty
  | .fn name args => .fn name (foldList dev fo args)
  | .coalesce es => .coalesce (foldList dev fo es)
  | .nullif a b => .nullif (fold dev fo a) (fold dev fo b)
  | .case_ arms => .case_ (foldList dev fo arms)
  | .lit v => .lit v
  | .col i => .col i
  | .outer d i => .outer d i
  | .inList e items neg => .inList e items neg
  | .between e lo hi neg => .between e lo hi neg
  | .exists_ s n => .exists_ s n
  | .inSub e s n => .inSub e s n
  | .scalarSub s => .scalarSub s
def foldList (dev : Dev) (fo : FloatOps) : List Expr → List Expr
  | [] => []
  | e :: es => fold dev fo e :: foldList dev fo es
end

end IQE.Engine.ConstFold
