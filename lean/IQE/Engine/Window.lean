/-
  IQE.Engine.Window — executable model of `WindowExec::evaluate_window` (src/physical/operators/window.rs):
  one permutation sort by (partition keys ASC NULLS FIRST, order keys), partition ranges and peer ranges over the
  sorted order (arrow's `partition` kernel = runs of equal adjacent keys), per-function kernels, `frame_range`
  (ROWS arm = the TRANSLATED `rows_start` / `rows_end` / `frame_clip` of IQE.Gen.Window; RANGE arm = the two
  scanning loops `range_offset_bound` / `range_offset_end`), prefix sums for COUNT/SUM/AVG, a frame scan for
  MIN/MAX, and the scatter back to input order.

  Deviation switches (all off = the intended algorithm):
    * `rangeNullSkip`     — as the code does: the RANGE-offset scans `continue` over NULL keys, so a frame bound that no
                            non-NULL key satisfies ends up at the partition edge instead of at the NULL peer group (C26-F1);
    * `followingOverflow` — as the code does: `i + k` / `i + 1 + k` are plain `usize` additions (debug build: panic) (C26-F2).
-/
import IQE.Spec.OrderAgg
import IQE.Gen.Window
namespace IQE.Engine.Window
open IQE IQE.Spec

structure Dev where
  rangeNullSkip : Bool := false
  followingOverflow : Bool := false
deriving Repr, DecidableEq

inductive EErr
  | err (e : Err)
  | panic (msg : String)
deriving Repr, DecidableEq

/-- one input row with its partition-key, order-key and argument values already evaluated -/
structure SRow where
  pk : List Val
  ok : List Val
  args : List Val
deriving Repr, Inhabited, DecidableEq

/-- arrow `partition(columns).ranges()`: maximal runs of adjacent rows with equal keys, as [start, end) -/
def runsFrom {α : Type} (eq : α → α → Bool) (start : Nat) (cur : α) (len : Nat) : List α → List (Nat × Nat)
  | [] => [(start, start + len)]
  | x :: xs => if eq cur x then runsFrom eq start cur (len + 1) xs else (start, start + len) :: runsFrom eq (start + len) x 1 xs

def runs {α : Type} (eq : α → α → Bool) : List α → List (Nat × Nat)
  | [] => []
  | x :: xs => runsFrom eq 0 x 1 xs

/-- arrow's `partition` kernel marks a boundary wherever two ADJACENT rows differ; the range containing row `i` starts at the
    last boundary at or before `i` … -/
def peerStart {α : Type} [Inhabited α] (eq : α → α → Bool) (l : List α) : Nat → Nat
  | 0 => 0
  | p + 1 => if eq (l.getD p default) (l.getD (p + 1) default) then peerStart eq l p else p + 1

/-- … and ends at the first boundary after `i` (or at the end of the input) -/
def peerEndFrom {α : Type} [Inhabited α] (eq : α → α → Bool) (l : List α) (p : Nat) : Nat → Nat
  | 0 => p + 1
  | fuel + 1 =>
    if p + 1 < l.length && eq (l.getD p default) (l.getD (p + 1) default) then peerEndFrom eq l (p + 1) fuel else p + 1

def peerEnd {α : Type} [Inhabited α] (eq : α → α → Bool) (l : List α) (p : Nat) : Nat := peerEndFrom eq l p (l.length - p)

/-- number of boundaries in `(ps, i]` -/
def boundariesIn {α : Type} [Inhabited α] (eq : α → α → Bool) (l : List α) (ps i : Nat) : Nat :=
  ((List.range' (ps + 1) (i - ps)).filter (fun j => !eq (l.getD (j - 1) default) (l.getD j default))).length

def toGenBound : FrameBound → Gen.Window.FrameBound
  | .unboundedPreceding => .UnboundedPreceding
  | .preceding k => .Preceding k
  | .currentRow => .CurrentRow
  | .following k => .Following k
  | .unboundedFollowing => .UnboundedFollowing

structure Ctx where
  fo : FloatOps
  dev : Dev
  call : WinCall
  frame : Frame                 -- resolved (the binder materialises the default)
  sorted : List SRow
  partitions : List (Nat × Nat)
  hasKeys : Bool                -- false: no PARTITION BY and no ORDER BY — every row is a peer of every row

def Ctx.n (c : Ctx) : Nat := c.sorted.length
/-- rows are peers when they agree on the partition AND the order keys -/
def peerEq (a b : SRow) : Bool := a.pk == b.pk && a.ok == b.ok
/-- `peers[peer_of[i]]`: the peer range of sorted row `i` -/
def Ctx.peerOf (c : Ctx) (i : Nat) : Nat × Nat :=
  if c.hasKeys then (peerStart peerEq c.sorted i, peerEnd peerEq c.sorted i) else (0, c.sorted.length)
def Ctx.row (c : Ctx) (i : Nat) : SRow := c.sorted.getD i default

/-- `range_key`: the order key as the engine sees it for RANGE offsets (`None` = NULL) — numeric / date keys only -/
inductive RK | null | int (i : Int) | f64 (x : F64)
deriving Repr

def rangeKeyOf (v : Val) : Except EErr RK :=
  match v with
  | .null => .ok .null
  | .int i => .ok (.int i)
  | .date d => .ok (.int d)
  | .f64 x => .ok (.f64 x)
  | _ => .error (.err (.unsupported "RANGE frames with offsets over a non-numeric ORDER BY key"))

/-- `v >= limit` / `v <= limit` where `limit = cur ∓ k`; the code computes in f64 (`as f64`), the model exactly on integers —
    they agree while |key| + k ≤ 2^53 (named gap, DESIGN §6 C26) -/
def geLimit (fo : FloatOps) (v cur : RK) (delta : Int) : Bool :=
  match v, cur with
  | .int a, .int c => decide (a ≥ c + delta)
  | .f64 a, .f64 c => F64.ge a (if delta < 0 then fo.sub c (fo.ofInt (-delta)) else fo.add c (fo.ofInt delta))
  | _, _ => false
def leLimit (fo : FloatOps) (v cur : RK) (delta : Int) : Bool :=
  match v, cur with
  | .int a, .int c => decide (a ≤ c + delta)
  | .f64 a, .f64 c => F64.le a (if delta < 0 then fo.sub c (fo.ofInt (-delta)) else fo.add c (fo.ofInt delta))
  | _, _ => false

/-- `range_frame_key`: exactly one ORDER BY key -/
def rangeFrameKey (c : Ctx) : Except EErr (Bool × Bool) :=
  match c.call.order with
  | [k] => .ok (k.desc, k.nullsFirst)
  | _ => .error (.err (.unsupported "RANGE frames with offsets require exactly one ORDER BY key"))

def keyAt (c : Ctx) (j : Nat) : Except EErr RK := rangeKeyOf ((c.row j).ok.headD .null)

/-- `range_offset_bound`: first sorted index of the partition whose key is inside the bound -/
def rangeOffsetBound (c : Ctx) (ps pe i k : Nat) (preceding : Bool) : Except EErr Nat := do
  let (desc, nf) ← rangeFrameKey c
  match ← keyAt c i with
  | .null => pure (c.peerOf i).1
  | cur =>
    let delta : Int := if preceding == !desc then -(k : Int) else (k : Int)
    let rec scan (j : Nat) (fuel : Nat) : Except EErr Nat :=
      match fuel with
      | 0 => pure pe
      | fuel + 1 =>
        if j ≥ pe then pure pe else do
          match ← keyAt c j with
          | .null =>
            -- the code: `None => continue`; intended: a NULL key that sorts LAST lies after every non-NULL key, hence inside a start bound
            if !c.dev.rangeNullSkip && !nf then pure j else scan (j + 1) fuel
          | v =>
            let inside := if !desc then geLimit c.fo v cur delta else leLimit c.fo v cur delta
            if inside then pure j else scan (j + 1) fuel
    scan ps (pe - ps)

/-- `range_offset_end`: one past the last sorted index of the partition whose key is inside the bound -/
def rangeOffsetEnd (c : Ctx) (ps pe i k : Nat) (preceding : Bool) : Except EErr Nat := do
  let (desc, nf) ← rangeFrameKey c
  match ← keyAt c i with
  | .null => pure (c.peerOf i).2
  | cur =>
    let delta : Int := if preceding == !desc then -(k : Int) else (k : Int)
    let rec scan (j : Nat) (fuel : Nat) (end_ : Nat) : Except EErr Nat :=
      match fuel with
      | 0 => pure end_
      | fuel + 1 =>
        if j ≥ pe then pure end_ else do
          match ← keyAt c j with
          | .null =>
            -- the code: `None => continue`; intended: a NULL key that sorts FIRST lies before every non-NULL key, hence inside an end bound
            if !c.dev.rangeNullSkip && nf then scan (j + 1) fuel (j + 1) else scan (j + 1) fuel end_
          | v =>
            let inside := if !desc then leLimit c.fo v cur delta else geLimit c.fo v cur delta
            scan (j + 1) fuel (if inside then j + 1 else end_)
    scan ps (pe - ps) ps

/-- the additions of the ROWS arm that are plain `usize` additions in the code -/
def rowsOverflows (f : Frame) (i : Nat) : Bool :=
  (match f.start with | .following k => decide ((i : Int) + k > Rs.USIZE_MAX) | _ => false) ||
  (match f.stop with | .following k => decide ((i : Int) + 1 + k > Rs.USIZE_MAX) | _ => false)

/-- `frame_range(ctx, part, i)` as a sorted-index range [start, end) -/
def frameRange (c : Ctx) (ps pe i : Nat) : Except EErr (Nat × Nat) := do
  let f := c.frame
  let peer := c.peerOf i
  let (s, e) ← match f.units with
    | .rows => do
      if !Gen.Window.rows_start_reachable (toGenBound f.start) then throw (.err (.bad "frame cannot start at UNBOUNDED FOLLOWING"))
      if !Gen.Window.rows_end_reachable (toGenBound f.stop) then throw (.err (.bad "frame cannot end at UNBOUNDED PRECEDING"))
      if c.dev.followingOverflow && rowsOverflows f i then throw (.panic "attempt to add with overflow")
      pure (Gen.Window.rows_start (toGenBound f.start) i ps pe, Gen.Window.rows_end (toGenBound f.stop) i ps pe)
    | .range => do
      let s : Int ← match f.start with
        | .unboundedPreceding => pure (ps : Int)
        | .currentRow => pure (peer.1 : Int)
        | .preceding k => do pure ((← rangeOffsetBound c ps pe i k true : Nat) : Int)
        | .following k => do pure ((← rangeOffsetBound c ps pe i k false : Nat) : Int)
        | .unboundedFollowing => throw (.err (.bad "frame cannot start at UNBOUNDED FOLLOWING"))
      let e : Int ← match f.stop with
        | .unboundedPreceding => throw (.err (.bad "frame cannot end at UNBOUNDED PRECEDING"))
        | .currentRow => pure (peer.2 : Int)
        | .preceding k => do pure ((← rangeOffsetEnd c ps pe i k true : Nat) : Int)
        | .following k => do pure ((← rangeOffsetEnd c ps pe i k false : Nat) : Int)
        | .unboundedFollowing => pure (pe : Int)
      pure (s, e)
  let r := Gen.Window.frame_clip s e ps pe
  pure (r.1.toNat, r.2.toNat)

def litInt (what : String) : Option Expr → Except EErr Int
  | some (.lit (.int k)) => .ok k
  | some (.lit _) => .error (.err (.bad s!"{what} must be an integer literal"))
  | some _ => .error (.err (.unsupported s!"non-literal {what}"))
  | none => .error (.err (.bad s!"{what} missing"))

def arg0 (r : SRow) : Val := r.args.headD .null

/-- for every partition and every sorted row of it: `f part i` -/
def forRows (c : Ctx) (f : Nat × Nat → Nat → Except EErr Val) : Except EErr (List Val) := do
  let parts ← c.partitions.mapM fun part => (List.range' part.1 (part.2 - part.1)).mapM (f part)
  pure parts.flatten

/-- prefix sums: `prefix[i]` = fold over the sorted rows before `i` -/
def prefixes {α : Type} (zero : α) (add : α → SRow → α) (rows : List SRow) : List α :=
  rows.foldl (fun acc r => acc ++ [add (acc.getLastD zero) r]) [zero]

/-- the value vector in SORTED order (`evaluate_sorted`) -/
def evaluateSorted (c : Ctx) : Except EErr (List Val) := do
  let w := c.call
  match w.fn with
  | .rowNumber => forRows c fun part i => pure (.int (i - part.1 + 1 : Nat))
  | .rank => forRows c fun part i => pure (.int ((c.peerOf i).1 - part.1 + 1 : Nat))
  | .denseRank =>
    forRows c fun part i =>
      -- `dense += 1` whenever `peer_of[i]` changes: one plus the peer boundaries of the partition up to `i`
      pure (.int ((if c.hasKeys then boundariesIn peerEq c.sorted part.1 i else 0) + 1 : Nat))
  | .percentRank =>
    forRows c fun part i =>
      let rows := part.2 - part.1
      pure (.f64 (if rows ≤ 1 then c.fo.ofInt 0
        else c.fo.div (c.fo.ofInt ((c.peerOf i).1 - part.1 : Nat)) (c.fo.ofInt (rows - 1 : Nat))))
  | .cumeDist =>
    forRows c fun part i => pure (.f64 (c.fo.div (c.fo.ofInt ((c.peerOf i).2 - part.1 : Nat)) (c.fo.ofInt (part.2 - part.1 : Nat))))
  | .ntile => do
    let b ← litInt "NTILE bucket count" w.args[0]?
    if b ≤ 0 then throw (.err (.bad "NTILE bucket count must be positive"))
    let buckets := b.toNat
    forRows c fun part i =>
      let m := part.2 - part.1
      let size := m / buckets
      let rem := m % buckets
      let pos := i - part.1
      let big := rem * (size + 1)
      pure (.int ((if size == 0 then pos + 1 else if pos < big then pos / (size + 1) + 1 else rem + (pos - big) / size + 1 : Nat)))
  | .lag | .lead => do
    let off ← if w.args.length ≥ 2 then litInt "LAG/LEAD offset" w.args[1]? else pure 1
    if off < 0 then throw (.err (.bad "LAG/LEAD offset must be non-negative"))
    let off := off.toNat
    forRows c fun part i =>
      let src : Option Nat := if w.fn == .lead then (if i + off < part.2 then some (i + off) else none)
                              else (if off ≤ i && part.1 ≤ i - off then some (i - off) else none)
      match src with
      | some j => pure (arg0 (c.row j))
      | none => pure (if w.args.length == 3 then (c.row i).args.getD 2 .null else .null)
  | .firstValue | .lastValue | .nthValue => do
    let nth ← if w.fn == .nthValue then do
        let k ← litInt "NTH_VALUE position" w.args[1]?
        if k ≤ 0 then throw (.err (.bad "NTH_VALUE position must be positive"))
        pure (some k.toNat)
      else pure none
    forRows c fun part i => do
      let f ← frameRange c part.1 part.2 i
      if f.2 ≤ f.1 then pure .null
      else match w.fn, nth with
        | .firstValue, _ => pure (arg0 (c.row f.1))
        | .lastValue, _ => pure (arg0 (c.row (f.2 - 1)))
        | _, some k => let j := f.1 + (k - 1); pure (if j < f.2 then arg0 (c.row j) else .null)
        | _, none => pure .null
  | .agg .countStar | .agg .count =>
    let star := w.fn == .agg .countStar
    let pre : List Int := prefixes 0 (fun acc r => acc + (if star || !(arg0 r).isNull then 1 else 0)) c.sorted
    forRows c fun part i => do
      let f ← frameRange c part.1 part.2 i
      pure (.int (pre.getD f.2 0 - pre.getD f.1 0))
  | .agg .sum | .agg .avg => do
    -- the code casts to f64 and keeps f64 prefix sums; integer sums are cast back to Int64. The model keeps exact
    -- integer prefix sums for integer arguments (they agree below 2^53) and FloatOps prefix sums for doubles.
    let isAvg := w.fn == .agg .avg
    let allInt := c.sorted.all (fun r => match arg0 r with | .int _ | .null => true | _ => false)
    let preCnt : List Int := prefixes 0 (fun acc r => acc + (if (arg0 r).isNull then 0 else 1)) c.sorted
    if allInt then
      let preSum : List Int := prefixes 0 (fun acc r => acc + (match arg0 r with | .int v => v | _ => 0)) c.sorted
      forRows c fun part i => do
        let f ← frameRange c part.1 part.2 i
        let cnt := preCnt.getD f.2 0 - preCnt.getD f.1 0
        let sum := preSum.getD f.2 0 - preSum.getD f.1 0
        pure (if cnt > 0 then (if isAvg then .f64 (c.fo.div (c.fo.ofInt sum) (c.fo.ofInt cnt)) else .int sum) else .null)
    else
      let zero := c.fo.ofInt 0
      let preSum : List F64 := prefixes zero (fun acc r => match arg0 r with | .f64 v => c.fo.add acc v | .int v => c.fo.add acc (c.fo.ofInt v) | _ => acc) c.sorted
      forRows c fun part i => do
        let f ← frameRange c part.1 part.2 i
        let cnt := preCnt.getD f.2 0 - preCnt.getD f.1 0
        let sum := c.fo.sub (preSum.getD f.2 zero) (preSum.getD f.1 zero)
        pure (if cnt > 0 then (if isAvg then .f64 (c.fo.div sum (c.fo.ofInt cnt)) else .f64 sum) else .null)
  | .agg .min | .agg .max =>
    let wantMax := w.fn == .agg .max
    forRows c fun part i => do
      let f ← frameRange c part.1 part.2 i
      -- `sort_to_indices(slice, nulls last, limit 1)`: the extreme non-NULL value of the frame slice
      let vals := ((c.sorted.drop f.1).take (f.2 - f.1)).map arg0 |>.filter (fun v => !v.isNull)
      match extremum c.fo wantMax vals with
      | .ok v => pure v
      | .error e => throw (.err e)

def arityOk (fn : WinFn) (n : Nat) : Bool :=
  match fn with
  | .rowNumber | .rank | .denseRank | .percentRank | .cumeDist => n == 0
  | .ntile => n == 1
  | .lag | .lead => 1 ≤ n && n ≤ 3
  | .firstValue | .lastValue => n == 1
  | .nthValue => n == 2
  | .agg .countStar => n == 0
  | .agg _ => n == 1

def resolveFrame (w : WinCall) : Frame :=
  match w.frame with
  | some f => f
  | none => if w.order.isEmpty then { units := .rows, start := .unboundedPreceding, stop := .unboundedFollowing }
            else { units := .range, start := .unboundedPreceding, stop := .currentRow }

/-- sort flags of the permutation sort: partition keys ascending NULLS FIRST, then the ORDER BY keys -/
def sortFlags (w : WinCall) : List (Bool × Bool) := w.partition.map (fun _ => (false, true)) ++ w.order.map (fun k => (k.desc, k.nullsFirst))

/-- `indices[i]` = original row at sorted position `i` (arrow `lexsort_to_indices`: SOME sorted order; the model: the stable one) -/
def sortIndices (fo : FloatOps) (w : WinCall) (rows : List SRow) : List Nat :=
  let flags := sortFlags w
  if flags.isEmpty then List.range rows.length
  else (List.range rows.length).mergeSort (fun i j =>
    let a := rows.getD i default; let b := rows.getD j default
    cmpKeys fo flags (a.pk ++ a.ok) (b.pk ++ b.ok) != .gt)

/-- `evaluate_window` given the sort permutation: the result column in ORIGINAL row order -/
def evaluateWith (fo : FloatOps) (dev : Dev) (w : WinCall) (rows : List SRow) (indices : List Nat) : Except EErr (List Val) := do
  if !arityOk w.fn w.args.length then throw (.err (.bad "wrong number of arguments for window function"))
  -- the binder's frame checks
  let fr := resolveFrame w
  if fr.start == .unboundedFollowing then throw (.err (.bad "frame cannot start at UNBOUNDED FOLLOWING"))
  if fr.stop == .unboundedPreceding then throw (.err (.bad "frame cannot end at UNBOUNDED PRECEDING"))
  let sorted := indices.map (fun i => rows.getD i default)
  let partitions := if w.partition.isEmpty then [(0, rows.length)] else runs (fun a b => a.pk == b.pk) sorted
  let c : Ctx := { fo := fo, dev := dev, call := w, frame := resolveFrame w, sorted := sorted, partitions := partitions,
                   hasKeys := !(w.partition.isEmpty && w.order.isEmpty) }
  let vals ← evaluateSorted c
  -- scatter back: out[indices[i]] = vals[i]
  pure ((List.range rows.length).map (fun orig => vals.getD (indices.idxOf orig) .null))

def evaluateWindow (fo : FloatOps) (dev : Dev) (w : WinCall) (rows : List SRow) : Except EErr (List Val) :=
  evaluateWith fo dev w rows (sortIndices fo w rows)

end IQE.Engine.Window
