/-
  IQE.Engine.Dechunk — executable model of `metastore::gravitino::dechunk`
  (src/metastore/gravitino.rs), byte for byte:

      loop {
          let line_end = b.windows(2).position(|w| w == b"\r\n")?;                       -- splitCrlf
          let size = usize::from_str_radix(from_utf8(&b[..line_end]).ok()?.trim(), 16).ok()?;  -- sizeOfLine
          b = &b[line_end + 2..];
          if size == 0 { return Some(out); }
          if b.len() < size + 2 { return None; }          -- `size + 2`: usize addition (debug: overflow panics)
          out.extend_from_slice(&b[..size]);
          b = &b[size + 2..];
      }

  `usize` = 2^64.  A Rust panic is the explicit outcome `.panic`.
  Deviation switches (all off = the intended decoder = the code since /repo commit 9d62852, `fix: dechunk …`;
  all on = `Dev.legacy`, the decoder before that commit):
    * `extInSize`     (C41-F1) the whole size line, including a `;chunk-extension`, is handed to
                      `from_str_radix`, so a valid chunk with an extension is rejected;
    * `uncheckedAdd`  (C41-F2) `size + 2` is a plain `+`: sizes ≥ 2^64-2 overflow (arithmetic panic in a
                      debug build; wrap-around followed by an out-of-range slice panic in release);
    * `skipDataCrlf`  (C41-F3) the two bytes after the chunk data are skipped without being compared
                      with CRLF, so a chunk that is not terminated by CRLF is accepted.
-/
import IQE.Core.Text
import IQE.Core.Utf8
namespace IQE.Engine.Dechunk
open IQE.Text IQE

inductive Outcome where
  | some (body : List UInt8)
  | none
  | panic
deriving DecidableEq, Repr

structure Dev where
  extInSize : Bool := false
  uncheckedAdd : Bool := false
  skipDataCrlf : Bool := false
deriving DecidableEq, Repr

/-- the decoder as it was in /repo before fix commit 9d62852 -/
def Dev.legacy : Dev := { extInSize := true, uncheckedAdd := true, skipDataCrlf := true }
/-- all switches off: the intended algorithm -/
def Dev.fixed : Dev := {}

def CR : UInt8 := 13
def LF : UInt8 := 10
def SEMI : UInt8 := 59

/-- `b.windows(2).position(|w| w == b"\r\n")` together with the two slices `b[..line_end]`,
    `b[line_end + 2..]` (both always in range). -/
def splitCrlf : List UInt8 → Option (List UInt8 × List UInt8)
  | [] => none
  | a :: t =>
    match t with
    | [] => none
    | b :: t' =>
      if a == CR && b == LF then some ([], t')
      else match splitCrlf t with
        | none => none
        | some (l, r) => some (a :: l, r)

def isHex (c : Char) : Bool :=
  let n := c.toNat
  (48 ≤ n && n ≤ 57) || (65 ≤ n && n ≤ 70) || (97 ≤ n && n ≤ 102)

/-- `char::to_digit(16)` on a hex digit. -/
def hexDigitVal (c : Char) : Nat :=
  let n := c.toNat
  if n ≤ 57 then n - 48 else if n ≤ 70 then n - 55 else n - 87

def hexVal (l : List Char) : Nat := l.foldl (fun acc c => acc * 16 + hexDigitVal c) 0

/-- `usize::from_str_radix(s, 16).ok()`: optional leading `+`, then ≥ 1 hex digit (either case),
    value < 2^64 (checked multiplication/addition never lets a larger value through). -/
def stripPlus : List Char → List Char
  | '+' :: rest => rest
  | l => l

def parseHexUsize (l : List Char) : Option Nat :=
  let ds := stripPlus l
  if ds.isEmpty then none
  else if ds.all isHex then
    let v := hexVal ds
    if v < usizeBound then some v else none
  else none

/-- bytes of the size line that are parsed as the chunk size -/
def sizeField (dev : Dev) (line : List UInt8) : List UInt8 :=
  if dev.extInSize then line else line.takeWhile (· != SEMI)

/-- size line → chunk size (`None` = the `?`s on `from_utf8` / `from_str_radix`). -/
def sizeOfLine (dev : Dev) (line : List UInt8) : Option Nat :=
  match Utf8.decode (sizeField dev line) with
  | none => none
  | some cs => parseHexUsize (trim cs)

/-- The loop. `fuel` only makes the recursion structural: every iteration removes at least the
    two bytes of a CRLF, so `b.length + 1` iterations always suffice (`Lemmas.Dechunk.go_fuel`). -/
def go (dev : Dev) : Nat → List UInt8 → List UInt8 → Outcome
  | 0, _, _ => .none
  | fuel + 1, b, out =>
    match splitCrlf b with
    | none => .none
    | some (line, b) =>
      match sizeOfLine dev line with
      | none => .none
      | some size =>
        if size == 0 then .some out
        else if size + 2 ≥ usizeBound then
          (if dev.uncheckedAdd then .panic else .none)       -- `size + 2` vs `size.checked_add(2)?`
        else if b.length < size + 2 then .none
        else if !dev.skipDataCrlf && (b.drop size).take 2 != [CR, LF] then .none
        else go dev fuel (b.drop (size + 2)) (out ++ b.take size)

def dechunk (dev : Dev) (b : List UInt8) : Outcome := go dev (b.length + 1) b []

/-! ### encoder used to state the round trip (the harness has its own, in Rust) -/

/-- One chunk as it appears on the wire: the size as written (any hex case, any number of leading
    zeros), the chunk extension bytes (empty or `;…`), the data. -/
structure Chunk where
  sizeText : List Char
  ext : List UInt8
  data : List UInt8
deriving Repr

def encodeChunk (c : Chunk) : List UInt8 :=
  Utf8.asciiBytes c.sizeText ++ c.ext ++ [CR, LF] ++ c.data ++ [CR, LF]

/-- chunks, then the last-chunk line `zeros ext CRLF`, then anything (trailer section, final CRLF, garbage). -/
def encode (chunks : List Chunk) (zeros : List Char) (lastExt : List UInt8) (tail : List UInt8) : List UInt8 :=
  chunks.flatMap encodeChunk ++ (Utf8.asciiBytes zeros ++ lastExt ++ [CR, LF] ++ tail)

/-- an extension is empty or starts with `;`, and contains no CRLF -/
def extOk (ext : List UInt8) : Bool :=
  (ext.isEmpty || ext.head? == some SEMI) && (splitCrlf ext).isNone

/-- the size text is ≥ 1 hex digit and denotes the data length; the data is non-empty and its length + 2 fits `usize` -/
def chunkOk (c : Chunk) : Bool :=
  !c.sizeText.isEmpty && c.sizeText.all isHex && hexVal c.sizeText == c.data.length &&
  !c.data.isEmpty && c.data.length + 2 < usizeBound && extOk c.ext

def zerosOk (zeros : List Char) : Bool := !zeros.isEmpty && zeros.all (· == '0')

end IQE.Engine.Dechunk
