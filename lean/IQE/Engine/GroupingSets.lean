/-
  IQE.Engine.GroupingSets — the binder's treatment of GROUP BY GROUPING SETS / ROLLUP / CUBE
  (src/planner/binder.rs `bind_grouping_sets`): expansion of ROLLUP / CUBE into a list of grouping sets, then ONE ordinary
  aggregate per set (grouped by that set's key expressions only) under a projection that pads the absent key columns with
  typed NULLs and replaces every GROUPING(…) call by a per-branch constant, all under UNION ALL.

  Sets are lists of indices into the key list.  No deviation switch: no defect of this mechanism is known.
-/
import IQE.Spec.Query
namespace IQE.Engine.GroupingSets
open IQE IQE.Spec

/-- ROLLUP(k₀ … kₙ₋₁): the n+1 prefixes, longest first (`for k in (0..=groups.len()).rev()`) -/
def rollupSets (n : Nat) : List (List Nat) := (List.range (n + 1)).reverse.map List.range

/-- CUBE(k₀ … kₙ₋₁): every subset, in the binder's order (bit masks 2ⁿ−1 … 0, most significant bit = first key):
    first the subsets that contain key 0, then those that do not, recursively -/
def cubeSets : Nat → List (List Nat)
  | 0 => [[]]
  | n + 1 => (cubeSets n).map (fun s => 0 :: s.map (· + 1)) ++ (cubeSets n).map (fun s => s.map (· + 1))

/-- literal transcription of the binder's CUBE loop (`for mask in (0..1<<m).rev()`, `mask & (1 << (m-1-bit))`) -/
def cubeSetsMask (n : Nat) : List (List Nat) :=
  (List.range (2 ^ n)).reverse.map fun mask => (List.range n).filter fun bit => mask.testBit (n - 1 - bit)

/-- the constant a branch substitutes for `GROUPING(args)`: `v = (v << 1) | !member(arg)` over the arguments, in order -/
def groupingOf (args : List Nat) (set : List Nat) : Int :=
  args.foldl (fun acc i => acc * 2 + (if set.contains i then 0 else 1)) 0

/-- position of key `i` among the branch's group columns -/
def posOf : List Nat → Nat → Option Nat
  | [], _ => none
  | x :: xs, i => if x = i then some 0 else (posOf xs i).map (· + 1)

/-- the branch's projection of the key columns: column `i` is the branch's own group column if `i ∈ set`, else NULL -/
def padKey (n : Nat) (set : List Nat) (kv : Row) : Row :=
  (List.range n).map fun i => match posOf set i with | some j => kv.getD j .null | none => .null

/-- the key expressions a branch groups by -/
def subKeys (keys : List Expr) (set : List Nat) : List Expr := set.map fun i => keys.getD i (.lit .null)

/-- one UNION ALL branch: aggregate grouped by the set's keys, then the padding projection;
    output layout as `Spec.Query.groupingSets`: keys ++ aggregates ++ [GROUPING(all keys)] -/
def branch (cx : EvalCtx) (env : Env) (keys : List Expr) (aggs : List AggCall) (rows : Table) (set : List Nat) : Except Err Table := do
  let t ← aggregate cx env (subKeys keys set) aggs rows
  pure (t.map fun r => padKey keys.length set (r.take set.length) ++ r.drop set.length ++ [.int (groupingOf (List.range keys.length) set)])

/-- UNION ALL of the branches -/
def desugar (cx : EvalCtx) (env : Env) (keys : List Expr) (sets : List (List Nat)) (aggs : List AggCall) (rows : Table) : Except Err Table := do
  let parts ← sets.mapM (branch cx env keys aggs rows)
  pure parts.flatten

/-! ### the same desugaring as a plan rewrite (the SHAPE of the binder's output: Union ALL of Project over Aggregate) -/

/-- branch plan: `SELECT <key or NULL>…, <aggregates>…, <GROUPING constant> FROM (q GROUP BY <the set's keys>)` -/
def branchPlan (keys : List Expr) (aggs : List AggCall) (q : Query) (set : List Nat) : Query :=
  .project []
    (((List.range keys.length).map fun i => match posOf set i with | some j => Expr.col j | none => Expr.lit .null) ++
     ((List.range aggs.length).map fun j => Expr.col (set.length + j)) ++
     [Expr.lit (.int (groupingOf (List.range keys.length) set))])
    (.agg (subKeys keys set) aggs q)

def unionAll : List Query → Query
  | [] => .values []
  | [b] => b
  | b :: bs => .setop .union true b (unionAll bs)

mutual
/-- every grouping-sets node replaced by the binder's desugared form -/
def desugarPlan : Query → Query
  | .groupingSets keys sets aggs q => let q' := desugarPlan q; unionAll (sets.map (branchPlan keys aggs q'))
  | .scan t => .scan t
  | .cteRef i => .cteRef i
  | .values rows => .values rows
  | .filter subs p q => .filter (desugarPlans subs) p (desugarPlan q)
  | .project subs es q => .project (desugarPlans subs) es (desugarPlan q)
  | .join jt lw rw subs on l r => .join jt lw rw (desugarPlans subs) on (desugarPlan l) (desugarPlan r)
  | .agg keys aggs q => .agg keys aggs (desugarPlan q)
  | .distinct q => .distinct (desugarPlan q)
  | .sort keys q => .sort keys (desugarPlan q)
  | .limit s f q => .limit s f (desugarPlan q)
  | .setop op all l r => .setop op all (desugarPlan l) (desugarPlan r)
  | .window calls q => .window calls (desugarPlan q)
  | .withCte defs body => .withCte (desugarPlans defs) (desugarPlan body)
def desugarPlans : List Query → List Query
  | [] => []
  | q :: qs => desugarPlan q :: desugarPlans qs
end

end IQE.Engine.GroupingSets
