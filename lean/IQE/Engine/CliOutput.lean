/-
  IQE.Engine.CliOutput — executable model of the CSV and JSON writers of the CLI
  (`OutputFormatter::{write_csv, format_csv_value, write_json, format_json_value, format_display_value}`,
  src/cli/output.rs), character for character (strings are `List Char`).

  A result set is: column names, rows of cells. Rows of all record batches are simply concatenated by the
  writers (the schema is taken from `batches[0]`), so the only thing the batch structure decides is
  `batches.is_empty()` (`noBatches`).

  Deviation switches (all off = the intended writers = the code since /repo commit 18209de, `fix: CLI CSV output
  quotes CR and header names; JSON output escapes …`; all on = `Dev.legacy`, the writers before that commit):
    * `csvCrUnquoted`    (C40-F1) a value containing `\r` (but no `,` `"` `\n`) is written unquoted;
    * `csvRawHeader`     (C40-F2) column names are joined with `,` without any quoting;
    * `jsonRawControl`   (C40-F3) only `\` and `"` are escaped in JSON strings: U+0000..U+001F go out raw;
    * `jsonRawNames`     (C40-F4) field names are written between quotes without escaping;
    * `jsonRawNonFinite` (C40-F5) NaN / inf / -inf are written as such (not JSON).
-/
import IQE.Core.TextMore
namespace IQE.Engine.CliOutput
open IQE.Text

/-- one cell; integers and floats carry their Rust `Display` text (`i64::to_string`, `f64::to_string`) -/
inductive Cell where
  | null
  | str (s : List Char)
  | int (text : List Char)
  | bool (b : Bool)
  | float (text : List Char)
deriving DecidableEq, Repr

structure Dev where
  csvCrUnquoted : Bool := false
  csvRawHeader : Bool := false
  jsonRawControl : Bool := false
  jsonRawNames : Bool := false
  jsonRawNonFinite : Bool := false
deriving DecidableEq, Repr

def Dev.legacy : Dev := ⟨true, true, true, true, true⟩
def Dev.fixed : Dev := {}

/-- `slice.join(sep)` -/
def joinWith (sep : List Char) : List (List Char) → List Char
  | [] => []
  | [a] => a
  | a :: b :: rest => a ++ sep ++ joinWith sep (b :: rest)

/-- `format_display_value` for a non-NULL cell -/
def display : Cell → List Char
  | .null => ['N', 'U', 'L', 'L']
  | .str s => s
  | .int t => t
  | .bool true => ['t', 'r', 'u', 'e']
  | .bool false => ['f', 'a', 'l', 's', 'e']
  | .float t => t

/-! ### CSV -/

def csvSpecial (dev : Dev) (c : Char) : Bool :=
  c == ',' || c == '"' || c == '\n' || (!dev.csvCrUnquoted && c == '\r')

/-- `value.replace('"', "\"\"")` between quotes -/
def csvQuote (v : List Char) : List Char :=
  '"' :: (v.flatMap (fun c => if c == '"' then ['"', '"'] else [c])) ++ ['"']

def csvField (dev : Dev) (v : List Char) : List Char :=
  if v.any (csvSpecial dev) then csvQuote v else v

/-- `format_csv_value`: NULL is the empty field -/
def csvValue (dev : Dev) : Cell → List Char
  | .null => []
  | c => csvField dev (display c)

/-- the text a CSV cell stands for (what a reader of the file is entitled to get back) -/
def csvText : Cell → List Char
  | .null => []
  | c => display c

def csvHeader (dev : Dev) (names : List (List Char)) : List Char :=
  joinWith [','] (if dev.csvRawHeader then names else names.map (csvField dev))

/-- `write_csv` -/
def renderCsv (dev : Dev) (noBatches : Bool) (names : List (List Char)) (rows : List (List Cell)) : List Char :=
  if noBatches then []
  else csvHeader dev names ++ '\n' :: rows.flatMap (fun row => joinWith [','] (row.map (csvValue dev)) ++ ['\n'])

/-- the same, over cell texts (what `C40_csv_roundtrip` is stated over) -/
def renderCsvText (dev : Dev) (header : List (List Char)) (rows : List (List (List Char))) : List Char :=
  joinWith [','] (if dev.csvRawHeader then header else header.map (csvField dev)) ++
    '\n' :: rows.flatMap (fun row => joinWith [','] (row.map (csvField dev)) ++ ['\n'])

/-! ### JSON -/

def hexDigit (n : Nat) : Char := if n < 10 then Char.ofNat (48 + n) else Char.ofNat (87 + n)

/-- one character inside a JSON string -/
def jsonEscChar (rawControl : Bool) (c : Char) : List Char :=
  if c == '"' then ['\\', '"']
  else if c == '\\' then ['\\', '\\']
  else if rawControl then [c]
  else if c == '\n' then ['\\', 'n']
  else if c == '\r' then ['\\', 'r']
  else if c == '\t' then ['\\', 't']
  else if c.toNat < 0x20 then ['\\', 'u', '0', '0', hexDigit (c.toNat / 16), hexDigit (c.toNat % 16)]
  else [c]

def jsonString (rawControl : Bool) (s : List Char) : List Char :=
  '"' :: s.flatMap (jsonEscChar rawControl) ++ ['"']

def nonFinite (t : List Char) : Bool :=
  t == ['N', 'a', 'N'] || t == ['i', 'n', 'f'] || t == ['-', 'i', 'n', 'f']

/-- `format_json_value` -/
def jsonValue (dev : Dev) : Cell → List Char
  | .null => ['n', 'u', 'l', 'l']
  | .str s => jsonString dev.jsonRawControl s
  | .int t => t
  | .bool true => ['t', 'r', 'u', 'e']
  | .bool false => ['f', 'a', 'l', 's', 'e']
  | .float t => if !dev.jsonRawNonFinite && nonFinite t then ['n', 'u', 'l', 'l'] else t

def jsonName (dev : Dev) (n : List Char) : List Char :=
  if dev.jsonRawNames then '"' :: n ++ ['"'] else jsonString dev.jsonRawControl n

def jsonMember (dev : Dev) (n : List Char) (c : Cell) : List Char :=
  jsonName dev n ++ ':' :: ' ' :: jsonValue dev c

def jsonRow (dev : Dev) (names : List (List Char)) (row : List Cell) : List Char :=
  ' ' :: ' ' :: '{' :: joinWith [',', ' '] (List.zipWith (jsonMember dev) names row) ++ ['}']

/-- `write_json` -/
def renderJson (dev : Dev) (noBatches : Bool) (names : List (List Char)) (rows : List (List Cell)) : List Char :=
  if noBatches then ['[', ']', '\n']
  else '[' :: '\n' :: joinWith [',', '\n'] (rows.map (jsonRow dev names)) ++ ['\n', ']', '\n']

/-! ### the values the JSON text stands for (used to state `C40_json_roundtrip`) -/

def isDigitC (c : Char) : Bool := 48 ≤ c.toNat && c.toNat ≤ 57
def decValC (l : List Char) : Nat := l.foldl (fun acc c => acc * 10 + (c.toNat - 48)) 0
/-- canonical decimal digits: ≥ 1 digit, no leading zero unless the text is `0` -/
def digitsOk (ds : List Char) : Bool := !ds.isEmpty && ds.all isDigitC && !(ds.length > 1 && ds.head? == some '0')
/-- the `Display` text of a Rust integer: optional `-`, canonical digits -/
def intTextOk : List Char → Bool
  | [] => false
  | c :: r => if c == '-' then digitsOk r else digitsOk (c :: r)
def intVal : List Char → Int
  | [] => 0
  | c :: r => if c == '-' then -(Int.ofNat (decValC r)) else Int.ofNat (decValC (c :: r))

/-- cells covered by the JSON round-trip theorem: NULL, strings, booleans, integers, non-finite floats -/
def cellOk : Cell → Bool
  | .int t => intTextOk t
  | .float t => nonFinite t
  | _ => true

end IQE.Engine.CliOutput
