/-
  IQE.Engine.HashJoin — executable model of `HashJoinExec` (src/physical/operators/hash_join.rs).

  What is mirrored (line numbers of /repo HEAD at the time of writing):
  * `execute` (842–1383): `swapped = build_right || join_type == Right` (854–859) → `buildIsLeft`;
    the build side is collected WHOLE, all partitions concatenated (925–964, 1110–1118) → `hashJoin`
    flattens the build input; Semi/Anti collect ALL probe partitions into one call and report one
    output partition (1275–1297, 1396) → `run` merges the partitions for Semi/Anti; every other join
    type probes partition by partition (1299–1300) against the cached build side and a SHARED
    `build_matched` bitmap (1222–1241); the last partition to finish emits the unmatched build rows
    exactly once (1347–1372) → `probeAll` (sequential fold, `orBits` = the atomic stores) + `buildEmit`.
  * build phase `VectorizedHashTable::build` (271–410) / `build_hash_table_sequential` (1507):
    rows with a NULL key component are never inserted (`has_null`, 389; `is_null`, 362) → `buildTable`.
  * probe `VectorizedHashTable::probe_batch` (485–574) / generic loop in `probe_hash_table`
    (3268–3304): NULL probe keys are skipped (551, 3283); candidates = build entries with an equal key
    → `candidates` / `lookup`.  The engine compares keys after widening integer widths
    (`vectorized_hash::compare_row`, `extract_join_key` 1646); in this model `Val.int` is already an
    unbounded `Int`, so widening is the identity.
  * residual ON predicate: `filter_candidate_pairs` (1748–1797) rejects candidate pairs BEFORE match
    tracking (2884–2904, 2940–2960, 2987–3010, 3306–3329); NULL is not TRUE (1791) — the model's
    `residual` is a Bool (TRUE or not).
  * tracking: `probe_matched` per probe batch, `build_matched` per call, published into the shared
    tracker (3112–3126, 3455–3469) → `Hit.tracked`, `markAll`, `orBits`.
  * emission per join type: `create_joined_batch` (3582; columns always left ++ right, `swapped`
    only selects which side is gathered from the build batches) → `combine`; `add_unmatched_probe`
    (3523) appends the unmatched probe rows AFTER the pairs of the batch → `probeBatch`;
    Semi/Anti: per-batch probe-row output when the probe side is the left input (3032–3076,
    3397–3420), build-row output from `build_matched` after all batches otherwise (3128–3172,
    3500–3518); `create_build_only_batch` (3872) → `buildEmit`.
  * `build_right_for_left` (src/physical/planner.rs 1325–1342): Left/Semi/Anti may build from the
    right input; Right always does → `Cfg.buildLeft`, `buildIsLeft`.
  * `SharedRuntimeFilter` (hash_join.rs 975–1047 publishes the non-NULL build keys of ONE key pair;
    streaming_parquet_scan.rs 768–792 keeps a probe row iff that key column is non-NULL and in the
    set) → `rtKeep` / `runtimeFilter`.  The planner links it only for Inner, and for Semi/Anti when
    the build side is the LEFT input (planner.rs 1386–1387).

  Deviation switches (`Dev`; all off = the intended algorithm):
  * `trackBeforeFilter` — historical bug class "filter after tracking": match bits are set from the
    key candidates, the residual only removes the emitted pairs.
  * `nullKeysMatch` — NULL = NULL treated as equal (the spilled path of C08 does this).
  * `semiStopAtFirstPass` — `probe_semi_anti_parallel` (2164–2450; taken for Semi/Anti with a
    residual, or without a vectorized table, and > 1000 probe rows) stops the candidate walk of a probe
    row at the FIRST candidate that passes (2286–2294, 2328, 2353, 2363).  Harmless when the probe rows
    are the output (`swapped`), wrong when the BUILD rows are the output (`!swapped`): other build rows
    with the same key that also qualify are never marked.  `chainNewestFirst` selects the candidate
    order of the vectorized table's chains (newest insertion first, 366–369/393–396) instead of
    insertion order (the `HashMap<i64, Vec<HashEntry>>` path); it is irrelevant for the bag unless
    `semiStopAtFirstPass` is on.
  * `smallProbeEmptyTable` — Semi/Anti WITH a residual and ≤ 1000 probe rows fall through to the generic
    loop of `probe_hash_table` (3204–3209, 3228, 3260–3304), but `execute` left the generic table EMPTY
    because the vectorized one exists (1212–1218) and built no i64 table (1181–1202): no probe row
    finds any candidate.  Semi returns nothing, Anti returns every left row.
  * `semiAntiEmptyTable` — the same empty generic table reached with > 1000 probe rows: `probe_semi_anti_parallel`
    serves candidates from the vectorized table only for a single BIGINT key whose residual compiled to one
    column-to-column comparison (`use_vht`, 2202–2206); otherwise it tries `build_i64_hash_table` with the PROBE
    key expression over the BUILD batches (2211–2218: the column does not exist there → no table) and falls back
    to `hash_table.get` on the empty generic table (2306–2311).  The switch has no size gate; the driver turns it
    on only where this path is taken.
  * `compiledFilterRawNulls` — `CompiledFilter::evaluate` (1915–2010; the residual of filtered Semi/Anti probes served
    from the vectorized table) reads `arr.value(row)` without consulting the validity bitmap: a NULL operand is
    compared as its raw slot value instead of making the residual not TRUE.  `Cfg.residualRaw` is what that code
    computes (the driver supplies it: the residual over the rows with NULL cells read as 0).
  * `dictProbeKeyNoMatch` — a probe input that is itself a join output carries its child's build-side VARCHAR columns
    dictionary-encoded (`create_joined_batch`, `dict_encode` for builds ≤ 4096 rows).  `extract_join_key` resolves such
    keys (1720–1738) but the vectorized table does not: `vectorized_hash::hash_arrays` / `compare_row` know no
    Dictionary array, so a dictionary probe key never equals a plain VARCHAR build key — no probe row finds a candidate.
  All of the above except the last were repaired in /repo (see known_findings.json: C22-F1 … F5, status fixed); the
  switches stay as the record of what the unrepaired code did and as negation witnesses.
-/
import IQE.Spec.Query
namespace IQE.Engine.HashJoin
open IQE IQE.Spec

/-- deviation switches; `{}` is the intended algorithm -/
structure Dev where
  trackBeforeFilter : Bool := false
  nullKeysMatch : Bool := false
  semiStopAtFirstPass : Bool := false
  chainNewestFirst : Bool := false
  smallProbeEmptyTable : Bool := false
  semiAntiEmptyTable : Bool := false
  compiledFilterRawNulls : Bool := false
  dictProbeKeyNoMatch : Bool := false
deriving Repr, Inhabited, DecidableEq

/-- the join's static configuration -/
structure Cfg where
  /-- equi-key column indices into the left rows -/
  lkeys : List Nat
  /-- equi-key column indices into the right rows (pairwise with `lkeys`) -/
  rkeys : List Nat
  /-- residual ON predicate θ on (left row, right row): TRUE or not TRUE -/
  residual : Row → Row → Bool := fun _ _ => true
  /-- what `CompiledFilter::evaluate` computes for θ (NULL operands read as raw slot values); only used under
      `Dev.compiledFilterRawNulls` -/
  residualRaw : Row → Row → Bool := residual
  /-- arities of the two inputs (used for NULL extension, as the output schema is in Rust) -/
  lw : Nat
  rw : Nat
  /-- build the hash table from the LEFT input (Rust: `!build_right`); Right joins ignore it -/
  buildLeft : Bool := true

/-- the key column values of a row (a missing column reads as NULL) -/
def keyVals (cols : List Nat) (row : Row) : List Val := cols.map fun c => row.getD c .null

/-- the join key of a row: `none` if any key column is NULL — such rows are never inserted into the
    hash table and never probed.  `nullsMatch` is the `Dev.nullKeysMatch` deviation. -/
def keyOf (cols : List Nat) (row : Row) (nullsMatch : Bool := false) : Option (List Val) :=
  if (keyVals cols row).any Val.isNull && !nullsMatch then none else some (keyVals cols row)

/-- SQL equality of the key vectors of a left and a right row: not TRUE if any component is NULL -/
def keysEq (cfg : Cfg) (l r : Row) : Bool :=
  match keyOf cfg.lkeys l, keyOf cfg.rkeys r with
  | some a, some b => decide (a = b)
  | _, _ => false

/-- the whole ON condition on a (left, right) pair -/
def onPair (cfg : Cfg) (l r : Row) : Bool := keysEq cfg l r && cfg.residual l r

def isSemiAnti : JoinType → Bool
  | .semi | .anti => true
  | _ => false

/-- which input is the build side: Rust's `swapped = build_right || Right`, negated -/
def buildIsLeft (jt : JoinType) (cfg : Cfg) : Bool :=
  match jt with
  | .right => false
  | _ => cfg.buildLeft

/-! ### roles: `bl = true` means build = left input, probe = right input -/

def buildCols (cfg : Cfg) (bl : Bool) : List Nat := if bl then cfg.lkeys else cfg.rkeys
def probeCols (cfg : Cfg) (bl : Bool) : List Nat := if bl then cfg.rkeys else cfg.lkeys

/-- output row of a (build row, probe row) pair: always left ++ right -/
def combine (bl : Bool) (b p : Row) : Row := if bl then b ++ p else p ++ b

/-- the residual on a (build row, probe row) pair -/
def residualBP (cfg : Cfg) (bl : Bool) (b p : Row) : Bool := if bl then cfg.residual b p else cfg.residual p b

/-- a probe row with the build side NULL -/
def nullProbe (cfg : Cfg) (bl : Bool) (p : Row) : Row := if bl then nulls cfg.lw ++ p else p ++ nulls cfg.rw

/-- a build row with the probe side NULL -/
def nullBuild (cfg : Cfg) (bl : Bool) (b : Row) : Row := if bl then b ++ nulls cfg.rw else nulls cfg.lw ++ b

/-! ### build phase -/

/-- the hash table: (key, build row index) in insertion order; rows with a NULL key are absent -/
abbrev HashTable := List (List Val × Nat)

def buildTable (dev : Dev) (cols : List Nat) (build : Table) : HashTable :=
  build.zipIdx.filterMap fun e => (keyOf cols e.1 dev.nullKeysMatch).map fun k => (k, e.2)

/-- build row indices stored under exactly this key -/
def lookup (tbl : HashTable) (k : List Val) : List Nat :=
  tbl.filterMap fun e => if e.1 = k then some e.2 else none

/-! ### probe phase -/

/-- key candidates of one probe row -/
def candidates (dev : Dev) (cfg : Cfg) (bl : Bool) (tbl : HashTable) (p : Row) : List Nat :=
  if dev.dictProbeKeyNoMatch then [] else
  match keyOf (probeCols cfg bl) p dev.nullKeysMatch with
  | none => []
  | some k => if dev.chainNewestFirst then (lookup tbl k).reverse else lookup tbl k

/-- the residual on candidate `i` (the build row is gathered by index) -/
def passes (cfg : Cfg) (bl : Bool) (build : Table) (p : Row) (i : Nat) : Bool :=
  residualBP cfg bl (build.getD i []) p

/-- the result of probing one row -/
structure Hit where
  row : Row
  /-- build indices whose pair with `row` is emitted -/
  kept : List Nat
  /-- build indices recorded in `build_matched`; the row's `probe_matched` bit is `tracked ≠ []` -/
  tracked : List Nat

def probeRow (dev : Dev) (jt : JoinType) (cfg : Cfg) (bl : Bool) (build : Table) (tbl : HashTable) (p : Row) : Hit :=
  let c := candidates dev cfg bl tbl p
  let cfgE : Cfg := if dev.compiledFilterRawNulls && isSemiAnti jt then { cfg with residual := cfg.residualRaw } else cfg
  let kept := c.filter (passes cfgE bl build p)
  { row := p
    kept := kept
    tracked :=
      if dev.trackBeforeFilter then c
      else if dev.semiStopAtFirstPass && isSemiAnti jt then kept.take 1
      else kept }

/-- set the bits of the listed build rows -/
def markAll (bm : List Bool) (is : List Nat) : List Bool := is.foldl (fun bm i => bm.set i true) bm

/-- probe one batch: the batch's output and the updated `build_matched` bitmap of this call -/
def probeBatch (dev : Dev) (jt : JoinType) (cfg : Cfg) (bl : Bool) (build : Table) (tbl : HashTable)
    (bm : List Bool) (batch : Table) : Table × List Bool :=
  let hits := batch.map (probeRow dev jt cfg bl build tbl)
  let pairs := hits.flatMap fun h => h.kept.map fun i => combine bl (build.getD i []) h.row
  let unmatched := (hits.filter fun h => h.tracked.isEmpty).map fun h => nullProbe cfg bl h.row
  let out :=
    match jt with
    | .inner | .cross => pairs
    | .left => if bl then pairs else pairs ++ unmatched
    | .right => if bl then pairs ++ unmatched else pairs
    | .full => pairs ++ unmatched
    | .semi => if bl then [] else (hits.filter fun h => !h.tracked.isEmpty).map (·.row)
    | .anti => if bl then [] else (hits.filter fun h => h.tracked.isEmpty).map (·.row)
  (out, markAll bm (hits.flatMap (·.tracked)))

/-- one `probe_hash_table` call = one probe partition: its batches in order, a fresh local bitmap -/
def probePartition (dev : Dev) (jt : JoinType) (cfg : Cfg) (bl : Bool) (build : Table) (tbl : HashTable)
    (part : List Table) : Table × List Bool :=
  part.foldl (fun acc batch =>
      let r := probeBatch dev jt cfg bl build tbl acc.2 batch
      (acc.1 ++ r.1, r.2))
    ([], List.replicate build.length false)

/-- publishing a local bitmap into the shared tracker -/
def orBits (shared loc : List Bool) : List Bool := List.zipWith (· || ·) shared loc

/-- all probe partitions, sequentially in the given order, against the shared tracker -/
def probeAll (dev : Dev) (jt : JoinType) (cfg : Cfg) (bl : Bool) (build : Table) (tbl : HashTable)
    (parts : List (List Table)) : Table × List Bool :=
  parts.foldl (fun acc part =>
      let r := probePartition dev jt cfg bl build tbl part
      (acc.1 ++ r.1, orBits acc.2 r.2))
    ([], List.replicate build.length false)

/-- what the last partition emits from the build side, given the final shared bitmap -/
def buildEmit (jt : JoinType) (cfg : Cfg) (bl : Bool) (build : Table) (shared : List Bool) : Table :=
  let flagged := build.zip shared
  let unmatchedNull := (flagged.filter fun e => !e.2).map fun e => nullBuild cfg bl e.1
  match jt with
  | .left => if bl then unmatchedNull else []
  | .right => if bl then [] else unmatchedNull
  | .full => unmatchedNull
  | .semi => if bl then (flagged.filter fun e => e.2).map (·.1) else []
  | .anti => if bl then (flagged.filter fun e => !e.2).map (·.1) else []
  | _ => []

/-- the probe-row threshold under which Semi/Anti stay on the generic loop (`total_probe_rows > 1000`) -/
def smallProbeLimit : Nat := 1000

/-- the join in roles: `build` whole, the probe side as partitions of batches -/
def run (dev : Dev) (jt : JoinType) (cfg : Cfg) (bl : Bool) (build : Table) (parts : List (List Table)) : Table :=
  let parts := if isSemiAnti jt then [parts.flatten] else parts
  let tbl : HashTable :=
    if (dev.semiAntiEmptyTable && isSemiAnti jt)
        || (dev.smallProbeEmptyTable && isSemiAnti jt && decide (parts.flatten.flatten.length ≤ smallProbeLimit)) then []
    else buildTable dev (buildCols cfg bl) build
  let r := probeAll dev jt cfg bl build tbl parts
  r.1 ++ buildEmit jt cfg bl build r.2

/-- **the hash join**: both inputs as partitions of batches; the build side is collected whole before
    probing, the probe side is processed partition by partition, batch by batch.
    Output columns are always left ++ right (Semi/Anti: the left columns). -/
def hashJoin (dev : Dev) (jt : JoinType) (cfg : Cfg) (L R : List (List Table)) : Table :=
  if buildIsLeft jt cfg then run dev jt cfg true L.flatten.flatten R
  else run dev jt cfg false R.flatten.flatten L

/-! ### runtime key filter on the probe-side scan -/

/-- does the published key set of key pair `pair` let this probe row through?  (No filter is published when
    the pair index is out of range: every row is kept.) -/
def rtKeep (cfg : Cfg) (bl : Bool) (pair : Nat) (build : Table) (p : Row) : Bool :=
  match (buildCols cfg bl)[pair]?, (probeCols cfg bl)[pair]? with
  | some bc, some pc =>
    let v := p.getD pc .null
    !v.isNull && build.any fun b => decide (b.getD bc .null = v)
  | _, _ => true

/-- the probe input after the scan applied the runtime filter -/
def runtimeFilter (cfg : Cfg) (bl : Bool) (pair : Nat) (build : Table) (parts : List (List Table)) : List (List Table) :=
  parts.map fun part => part.map fun batch => batch.filter (rtKeep cfg bl pair build)

/-- the hash join with the runtime filter applied to whichever input is the probe side -/
def hashJoinRF (dev : Dev) (jt : JoinType) (cfg : Cfg) (pair : Nat) (L R : List (List Table)) : Table :=
  if buildIsLeft jt cfg then hashJoin dev jt cfg L (runtimeFilter cfg true pair L.flatten.flatten R)
  else hashJoin dev jt cfg (runtimeFilter cfg false pair R.flatten.flatten L) R

end IQE.Engine.HashJoin
