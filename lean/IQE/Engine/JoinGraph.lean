/-
  IQE.Engine.JoinGraph — join graphs, join trees and the reorder checker (property C32).

  Anchors: src/optimizer/rules/join_reorder.rs (`JoinRelation`, `JoinEdge`, `build_join_tree_dpsize`,
  `dp_build_plan`, the greedy loop of `reorder_join_tree` / `build_optimized_join_tree`).

  * a *relation* is an opaque input of the flattened inner-join region, identified by a `Nat`;
  * a *predicate* `p` is one column equality `rel a . col ca = rel b . col cb` (a composite key is several
    predicates between the same two relations — the engine's `JoinEdge.conditions`);
  * a *tree* is the shape of a (re)ordered plan: joins carry their ON keys, equality predicates that were
    re-applied as a `Filter` above a join (the greedy loop does that for edges closing a cycle) are `filt` nodes.

  `greedyTree` is the shape of the rule's greedy fallback: start from one relation and repeatedly attach a
  relation that has a predicate into the part already joined, putting every predicate between the new relation
  and the joined part on the new join.  `validReorder` is the checker run on exported plans.
-/
namespace IQE.Engine.JoinGraph

structure Pred where
  a : Nat
  ca : Nat
  b : Nat
  cb : Nat
deriving DecidableEq, Repr, Inhabited

/-- orientation-independent form: `x = y` and `y = x` are the same predicate -/
def Pred.norm (p : Pred) : Pred :=
  if p.a < p.b ∨ (p.a = p.b ∧ p.ca ≤ p.cb) then p else ⟨p.b, p.cb, p.a, p.ca⟩

structure Graph where
  rels : List Nat
  preds : List Pred
deriving Repr, Inhabited

inductive Tree where
  | leaf (r : Nat)
  | node (on : List Pred) (l r : Tree)
  | filt (ps : List Pred) (t : Tree)
deriving Repr, Inhabited

namespace Tree

def leaves : Tree → List Nat
  | leaf r => [r]
  | node _ l r => l.leaves ++ r.leaves
  | filt _ t => t.leaves

/-- every equality predicate carried by the tree (ON keys and filters) -/
def preds : Tree → List Pred
  | leaf _ => []
  | node on l r => on ++ (l.preds ++ r.preds)
  | filt ps t => ps ++ t.preds

end Tree

/-- `p` has one endpoint in `L` and the other in `R` -/
def Pred.crosses (p : Pred) (L R : List Nat) : Bool :=
  (L.contains p.a && R.contains p.b) || (L.contains p.b && R.contains p.a)

/-- every join node has an ON key across its two sides (no cross product) -/
def Tree.crossFree : Tree → Bool
  | .leaf _ => true
  | .node on l r => on.any (fun p => p.crosses l.leaves r.leaves) && (l.crossFree && r.crossFree)
  | .filt _ t => t.crossFree

/-- specification of "no cross product": every join node carries a predicate across its two sides -/
inductive CrossFree : Tree → Prop
  | leaf (r : Nat) : CrossFree (.leaf r)
  | node {on : List Pred} {l r : Tree} :
      (∃ p ∈ on, (p.a ∈ l.leaves ∧ p.b ∈ r.leaves) ∨ (p.b ∈ l.leaves ∧ p.a ∈ r.leaves)) →
      CrossFree l → CrossFree r → CrossFree (.node on l r)
  | filt {ps : List Pred} {t : Tree} : CrossFree t → CrossFree (.filt ps t)

/-- The checker: `t` uses exactly the relations of `g` (as a bag), every join has an equality predicate across
    its sides, and the predicates of `g` appear exactly once in `t` (as ON keys or filters; orientation ignored). -/
def validReorder (g : Graph) (t : Tree) : Bool :=
  t.leaves.isPerm g.rels && (t.crossFree && (t.preds.map Pred.norm).isPerm (g.preds.map Pred.norm))

/-! ### deviation switch `blindRelations` (finding C32-F1)

  When the production fixpoint re-runs JoinReorder after ProjectionPushdown has wrapped a filtered scan in a
  `Project`, the rule names that relation "project" and no longer attributes qualified column references
  (`r2.k`) to it: every predicate touching such a *blind* relation is invisible to the enumeration, which then
  joins by cross product wherever only invisible predicates connect the two sides.  With the switch on the
  allowed trees are those whose cross products are all explained that way. -/

/-- the predicates the rule still sees when it cannot attribute the columns of the relations `blind` -/
def seenPreds (g : Graph) (blind : List Nat) : List Pred :=
  g.preds.filter (fun p => !blind.contains p.a && !blind.contains p.b)

/-- every join node has an ON key across its sides, unless no *seen* predicate crosses it -/
def Tree.crossFreeSeen (seen : List Pred) : Tree → Bool
  | .leaf _ => true
  | .node on l r =>
    (on.any (fun p => p.crosses l.leaves r.leaves) || !seen.any (fun p => p.crosses l.leaves r.leaves))
      && (l.crossFreeSeen seen && r.crossFreeSeen seen)
  | .filt _ t => t.crossFreeSeen seen

def validReorderDev (g : Graph) (blind : List Nat) (t : Tree) : Bool :=
  t.leaves.isPerm g.rels && (t.crossFreeSeen (seenPreds g blind) && (t.preds.map Pred.norm).isPerm (g.preds.map Pred.norm))

/-! ### connectivity -/

def Pred.links (p : Pred) (x y : Nat) : Prop := (p.a = x ∧ p.b = y) ∨ (p.a = y ∧ p.b = x)

/-- `y` is reachable from `x` walking along predicates of `g` through relations of `S` only -/
inductive ReachIn (g : Graph) (S : List Nat) : Nat → Nat → Prop
  | refl {x : Nat} : x ∈ S → ReachIn g S x x
  | step {x y z : Nat} : ReachIn g S x y → (∃ p ∈ g.preds, p.links y z) → z ∈ S → ReachIn g S x z

/-- the sub-plan over the relations `S` is connected by predicates among `S` -/
def ConnectedOn (g : Graph) (S : List Nat) : Prop := ∀ x ∈ S, ∀ y ∈ S, ReachIn g S x y

def Connected (g : Graph) : Prop := ConnectedOn g g.rels

/-- relation ids are distinct, there is at least one, predicates join two *different* relations of the graph -/
structure WellFormed (g : Graph) : Prop where
  nodup : g.rels.Nodup
  nonempty : g.rels ≠ []
  endpoints : ∀ p ∈ g.preds, p.a ∈ g.rels ∧ p.b ∈ g.rels ∧ p.a ≠ p.b

def wellFormedB (g : Graph) : Bool :=
  decide g.rels.Nodup && !g.rels.isEmpty && g.preds.all (fun p => g.rels.contains p.a && g.rels.contains p.b && p.a != p.b)

/-! ### the greedy order -/

/-- predicates between relation `r` and the already joined relations `S` -/
def linking (g : Graph) (S : List Nat) (r : Nat) : List Pred :=
  g.preds.filter (fun p => (p.a == r && S.contains p.b) || (p.b == r && S.contains p.a))

/-- first relation (in `g.rels` order) not yet joined that has a predicate into `S` -/
def nextRel (g : Graph) (S : List Nat) : Option Nat :=
  g.rels.find? (fun r => !S.contains r && !(linking g S r).isEmpty)

def uncovered (g : Graph) (S : List Nat) : List Nat := g.rels.filter (fun r => !S.contains r)

def greedyFrom (g : Graph) : Nat → List Nat → Tree → Option Tree
  | 0, S, t => if (uncovered g S).isEmpty then some t else none
  | fuel + 1, S, t =>
    if (uncovered g S).isEmpty then some t
    else match nextRel g S with
      | none => none                       -- stuck: only a cross product could continue
      | some r => greedyFrom g fuel (r :: S) (.node (linking g S r) t (.leaf r))

def greedyTree (g : Graph) : Option Tree :=
  match g.rels with
  | [] => none
  | r0 :: _ => greedyFrom g g.rels.length [r0] (.leaf r0)

end IQE.Engine.JoinGraph
