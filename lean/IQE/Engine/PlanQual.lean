/-
  IQE.Engine.PlanQual — the qualifier part of the C31 checker.

  `PlanWf.wf` follows the engine's run-time resolution order, which never fails as long as SOME field of the batch
  ends in `.name`: a reference `b.k` evaluated against a batch `[a.id, a.k]` silently reads `a.k`.  A well-formed plan
  must not rely on that fallback: a QUALIFIED reference has to find a field of exactly its qualified name in the scope
  it resolves in (`qualP`).  `wfq = wf && qualP` is what the C31 driver demands of every rule's output.

  Scopes are as in `PlanWf.wfP`: the schema of the batch the operator receives, then the enclosing queries' batches.
  The reference is judged in the FIRST scope in which the engine's resolution succeeds (that is the scope the
  executor reads from).
-/
import IQE.Engine.PlanWf
namespace IQE.Engine.PlanWf

/-- the schema has a field whose physical name is exactly `r.n` -/
def hasQual (s : Schema) (r n : String) : Bool := s.any (fun f => f.qname == r ++ "." ++ n)

/-- the first scope in which the engine resolves the reference -/
def firstScope (scopes : List Schema) (rel : Option String) (name : String) : Option Schema :=
  scopes.find? (fun s => (resolve s rel name).isSome)

/-- a qualified reference reads a field of exactly its qualified name -/
def qualRef (scopes : List Schema) (r n : String) : Bool :=
  match firstScope scopes (some r) n with
  | some s => hasQual s r n
  | none => false

mutual
def qualE (scopes : List Schema) : PExpr → Bool
  | .col (some r) n => qualRef scopes r n
  | .col none _ => true
  | .lit _ _ => true
  | .op _ _ args => qualEs scopes args
  | .alias e _ => qualE scopes e
  | .sub _ _ args p => qualEs scopes args && qualP scopes p
  | .star _ => true
def qualEs (scopes : List Schema) : List PExpr → Bool
  | [] => true
  | e :: es => qualE scopes e && qualEs scopes es
/-- every qualified column reference of the plan reads a field of its own qualified name; the scopes are those of `wfP` -/
def qualP (outer : List Schema) : Plan → Bool
  | .scan _ s proj filter => qualEs ((match proj with | some idx => projectSchema s idx | none => s) :: outer) filter
  | .filter pred i => qualP outer i && qualE (outSchema i :: outer) pred
  | .project exprs _ i => qualP outer i && qualEs (outSchema i :: outer) exprs
  | .join _ onL onR filter _ l r =>
    qualP outer l && (qualP outer r && (qualEs (outSchema l :: outer) onL && (qualEs (outSchema r :: outer) onR
      && qualEs ((outSchema l ++ outSchema r) :: outer) filter)))
  | .agg group aggs _ i => qualP outer i && (qualEs (outSchema i :: outer) group && qualEs (outSchema i :: outer) aggs)
  | .window _ wexprs _ i => qualP outer i && qualEs (outSchema i :: outer) wexprs
  | .sort keys _ i => qualP outer i && qualEs (outSchema i :: outer) keys
  | .limit _ _ i => qualP outer i
  | .distinct i => qualP outer i
  | .union _ _ inputs => qualPs outer inputs
  | .alias _ _ _ i => qualP outer i
  | .empty _ _ => true
  | .values rows _ _ => qualEs outer rows
  | .delimJoin _ delim onL onR _ l r =>
    qualP outer l && (qualP outer r && (qualEs (outSchema l :: outer) delim && (qualEs (outSchema l :: outer) onL
      && qualEs (outSchema r :: outer) onR)))
  | .delimGet _ _ _ => true
  | .vsearch _ _ sortKey _ _ _ i => qualP outer i && qualE (outSchema i :: outer) sortKey
def qualPs (outer : List Schema) : List Plan → Bool
  | [] => true
  | p :: ps => qualP outer p && qualPs outer ps
end

/-- the C31 checker: run-time resolvable (`wf`) and no qualified reference resolved through the suffix fallback -/
def wfq (p : Plan) : Bool := wf p && qualP [] p

end IQE.Engine.PlanWf
