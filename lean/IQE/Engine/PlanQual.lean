/-
  IQE.Engine.PlanQual — the qualifier part of the C31 checker.

  `PlanWf.wf` follows the engine's run-time resolution order, which never fails as long as SOME field of the batch
  ends in `.name`: a reference `b.k` evaluated against a batch `[a.id, a.k]` silently reads `a.k`.  A well-formed plan
  must not rely on that fallback: the column a QUALIFIED reference reads at run time has to be the column of exactly
  that qualified name (or an unqualified column of that name: a computed column below its SubqueryAlias) — never a
  column that belongs to a different relation.  The name of a column is its physical field name (`outSchema`) or its logical one
  (`logSchema`: the same columns, position by position, with the qualifiers SubqueryAlias nodes give them — the
  physical planner drops those nodes, so `x.q1` over `(SELECT … AS q1) AS x` reads the physical field `q1`).

  Scopes are as in `PlanWf.wfP`: the batch the operator receives, then — inside subquery plans — the enclosing queries'
  batches.  Outside subquery expressions there is exactly one scope and the check is a statement about the column the
  executor reads; inside them a reference may denote a column of any enclosing scope (SQL scoping).

  `badP` lists the offending references; `qualP = no offending reference`; the driver demands of every rule that it
  introduces none (`noNewBad`): whatever the binder's plan already has is not the rule's doing.
-/
import IQE.Engine.PlanWf
namespace IQE.Engine.PlanWf

/-- a scope: the physical schema of the batch and the logical names of the same columns -/
abbrev QScope := Schema × Schema

/-- the logical names of the columns `outSchema` lists (same length, same order): SubqueryAlias re-qualifies -/
def logSchema : Plan → Schema
  | .scan _ s proj _ => match proj with | some idx => projectSchema s idx | none => s
  | .filter _ i => logSchema i
  | .project _ s _ => s
  | .join jt _ _ _ s l r =>
    match jt with
    | .semi | .anti => logSchema l
    | .mark => logSchema l ++ s.drop (s.length - 1)
    | _ => logSchema l ++ logSchema r
  | .agg _ _ s _ => s
  | .window _ _ s _ => s
  | .sort _ _ i => logSchema i
  | .limit _ _ i => logSchema i
  | .distinct i => logSchema i
  | .union _ s _ => s
  | .alias n _ _ i => (logSchema i).map (fun f => { f with rel := some n })
  | .empty _ s => s
  | .values _ _ s => s
  | .delimJoin _ _ _ _ s _ _ => s
  | .delimGet _ s _ => s
  | .vsearch _ _ _ _ _ s _ => s

def qscope (p : Plan) : QScope := (outSchema p, logSchema p)

def nameAt (s : Schema) (i : Nat) (q : String) : Bool :=
  match s[i]? with
  | some f => f.qname == q
  | none => false

/-- the field at position `i` belongs to no relation and is called `n` -/
def bareAt (s : Schema) (i : Nat) (n : String) : Bool :=
  match s[i]? with
  | some f => f.rel.isNone && f.name == n
  | none => false

/-- the column the engine reads for `r.n` in this scope is called `r.n`, physically or logically — or it is a column `n`
    that belongs to no relation at all, physically and logically (PredicatePushdown moves `x.q > 0` below the SubqueryAlias
    `x`, onto the Project that computes the unqualified `q`: no other relation's column is read) -/
def exactAt (sc : QScope) (r n : String) : Bool :=
  match resolve sc.1 (some r) n with
  | some i => nameAt sc.1 i (r ++ "." ++ n) || (nameAt sc.2 i (r ++ "." ++ n) || (bareAt sc.1 i n && bareAt sc.2 i n))
  | none => false

/-- the first scope in which the engine resolves the reference (diagnostics) -/
def firstScope (scopes : List QScope) (r n : String) : Option QScope :=
  scopes.find? (fun sc => (resolve sc.1 (some r) n).isSome)

/-- a qualified reference reads the column of exactly its qualified name: in the batch the operator receives or, inside a
    subquery plan, in the batch of an enclosing query (SQL scoping; subquery expressions with correlated references are not
    executed as they stand, SubqueryDecorrelation turns them into joins, whose keys then have exactly one scope) -/
def qualRef (scopes : List QScope) (r n : String) : Bool := scopes.any (fun sc => exactAt sc r n)

mutual
/-- the qualified references of an expression that read some other column (as `r.n`) -/
def badE (scopes : List QScope) : PExpr → List String
  | .col (some r) n => if qualRef scopes r n then [] else [r ++ "." ++ n]
  | .col none _ => []
  | .lit _ _ => []
  | .op _ _ args => badEs scopes args
  | .alias e _ => badE scopes e
  | .sub _ _ args p => badEs scopes args ++ badP scopes p
  | .star _ => []
def badEs (scopes : List QScope) : List PExpr → List String
  | [] => []
  | e :: es => badE scopes e ++ badEs scopes es
/-- the offending qualified references of a plan; the scopes are those of `wfP` -/
def badP (outer : List QScope) : Plan → List String
  | .scan _ s proj filter =>
    let ps := match proj with | some idx => projectSchema s idx | none => s
    badEs ((ps, ps) :: outer) filter
  | .filter pred i => badP outer i ++ badE (qscope i :: outer) pred
  | .project exprs _ i => badP outer i ++ badEs (qscope i :: outer) exprs
  | .join _ onL onR filter _ l r =>
    badP outer l ++ (badP outer r ++ (badEs (qscope l :: outer) onL ++ (badEs (qscope r :: outer) onR
      ++ badEs ((outSchema l ++ outSchema r, logSchema l ++ logSchema r) :: outer) filter)))
  | .agg group aggs _ i => badP outer i ++ (badEs (qscope i :: outer) group ++ badEs (qscope i :: outer) aggs)
  | .window _ wexprs _ i => badP outer i ++ badEs (qscope i :: outer) wexprs
  | .sort keys _ i => badP outer i ++ badEs (qscope i :: outer) keys
  | .limit _ _ i => badP outer i
  | .distinct i => badP outer i
  | .union _ _ inputs => badPs outer inputs
  | .alias _ _ _ i => badP outer i
  | .empty _ _ => []
  | .values rows _ _ => badEs outer rows
  | .delimJoin _ delim onL onR _ l r =>
    badP outer l ++ (badP outer r ++ (badEs (qscope l :: outer) delim ++ (badEs (qscope l :: outer) onL
      ++ badEs (qscope r :: outer) onR)))
  | .delimGet _ _ _ => []
  | .vsearch _ _ sortKey _ _ _ i => badP outer i ++ badE (qscope i :: outer) sortKey
def badPs (outer : List QScope) : List Plan → List String
  | [] => []
  | p :: ps => badP outer p ++ badPs outer ps
end

/-- no qualified reference of the plan is resolved through the bare-name / suffix fallback to another column -/
def qualP (p : Plan) : Bool := (badP [] p).isEmpty

/-- the rule's output has no offending reference its input did not already have -/
def noNewBad (before after : Plan) : Bool := (badP [] after).all (fun x => (badP [] before).contains x)

/-- the C31 checker on a plan: run-time resolvable (`wf`) and every qualified reference reads its own column -/
def wfq (p : Plan) : Bool := wf p && qualP p

end IQE.Engine.PlanWf
