/-
  IQE.Engine.Fnv — model of `SplitSet::digest` (src/distributed/splits.rs): FNV-1a over the canonical fields.

    h = 0xcbf29ce484222325
    feed(bytes): for b in bytes { h ^= b as u64; h = h.wrapping_mul(0x100000001b3) }
    feed(table); for s in splits { feed(file); feed(row_group as u64 LE); feed(row_offset LE); feed(num_rows LE); feed(bytes LE) }
-/
import IQE.Engine.SplitKey
namespace IQE.Engine.Fnv
open IQE.Engine

def OFFSET : UInt64 := 0xcbf29ce484222325
def PRIME : UInt64 := 0x100000001b3

def step (h : UInt64) (b : UInt8) : UInt64 := (h ^^^ b.toUInt64) * PRIME

def feed (h : UInt64) (bs : List UInt8) : UInt64 := bs.foldl step h

/-- `(n as u64).to_le_bytes()` for `n < 2^64` (low 64 bits otherwise) -/
def le64 (n : Nat) : List UInt8 :=
  [n.toUInt8, (n / 256).toUInt8, (n / 65536).toUInt8, (n / 16777216).toUInt8,
   (n / 4294967296).toUInt8, (n / 1099511627776).toUInt8, (n / 281474976710656).toUInt8, (n / 72057594037927936).toUInt8]

/-- `i64::to_le_bytes` (two's complement) -/
def leI64 (x : Int) : List UInt8 := le64 (x % 18446744073709551616).toNat

/-- the bytes fed for one split -/
def splitBytes (s : Split) : List UInt8 :=
  s.file ++ le64 s.rowGroup ++ leI64 s.rowOffset ++ leI64 s.numRows ++ le64 s.bytes

/-- everything fed, in order: the canonical serialisation -/
def serialize (table : List UInt8) (splits : List Split) : List UInt8 :=
  table ++ splits.flatMap splitBytes

def digest (table : List UInt8) (splits : List Split) : UInt64 := feed OFFSET (serialize table splits)

end IQE.Engine.Fnv
