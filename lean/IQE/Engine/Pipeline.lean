/-
  IQE.Engine.Pipeline — the engine as a COMPOSITION of the operator models, every deviation switch OFF
  (the intended algorithm), for an explicit plan fragment.  This is the `Engine.run` of DESIGN §6 C01.

  One plan node = one operator model, fed by the flat output of its children re-cut into
  partitions × batches by the execution configuration `ExecCfg`:

    scan            a catalog table is a list of batches; `cfg.layout` re-chunks / re-partitions it
    filter          `Engine.Filter.filter Dev.none` batch by batch (WHERE / HAVING; no subquery expressions)
    project         `Engine.Filter.evalList Dev.none` row by row, batch by batch
    join            `Engine.HashJoin.hashJoin {}` (all 7 join types), equi keys extracted from ON by `splitOn`
                    (leading `col i = col j` conjuncts of a right-nested AND chain; everything else is the residual,
                    evaluated with `Engine.Filter.eval`), build side `cfg.buildLeft`, probe side as `cfg.layout` cuts it
    agg             GROUP BY / global aggregation on the hash path (`Engine.Acc.hash {}`): keys and arguments evaluated
                    with `Engine.Filter`, groups as `Engine.Acc.groupAgg` forms them, every group's argument column cut
                    and merged along `cfg.aggTree` (any chunking, any merge tree).  COUNT(*), COUNT, SUM, MIN, MAX over
                    BIGINT columns.
    distinct        `Engine.Acc.groupAgg {} .hash` with an empty aggregate list over the whole row (what the planner does)
    UNION ALL       concatenation of the inputs' partitions (`UnionExec`)
    VALUES          `Engine.Values.lower {}`
    top level only: ORDER BY (`SortLimit.sortExec`), LIMIT/OFFSET over ORDER BY (`SortLimit.orderLimit`: fused top-k when
                    skip = 0 and `cfg.fuseTopK`, as the planner does; `LimitExec` over `SortExec` otherwise),
                    LIMIT/OFFSET over an unordered input (`SortLimit.limitExec`).

  NOT in the fragment (the model answers `.error (.unsupported …)`): INTERSECT / EXCEPT and UNION (distinct) — their
  engine encodings have no switch-off model equal to the reference semantics in Engine/SetOps; window functions;
  GROUPING SETS / ROLLUP / CUBE; CTEs; subquery expressions (any node with a non-empty `subs` list); AVG and DISTINCT
  aggregates (AVG needs the float-exactness bound of C21 on intermediate data); ORDER BY / LIMIT below the top level
  (`Spec.acceptable` demands the canonical answer there, and a LIMIT over a permuted input is a different bag).

  Guards.  Where the Rust code relies on the schema (static typing) the model checks the DATA and answers `.error`:
    * join: every left row has the declared arity `lw`; no equi-key value is a DOUBLE (the hash table compares keys
      structurally, SQL compares DOUBLEs by `total_cmp` and INT against DOUBLE after widening); ON evaluates to a
      BOOLEAN or NULL on every pair — the model evaluates it on EVERY pair, the Rust code only on key candidates, so the
      model may raise where the engine would not (conservative: `.error` is never a wrong answer);
    * agg: every argument column is BIGINT/NULL, and `Σ|x| ≤ i64::MAX` for SUM (overflow is engine-defined);
    * sort: every sort-key column is typed (NULL or the type of its first non-NULL value); `usize` bounds for LIMIT.
  So `run … = .ok out` carries the typing facts the per-operator theorems need; C01_pipeline_refines_spec has no typing
  hypothesis left except the float-exactness witness `E` that C21's statements are phrased with.
  No Mathlib; imports only Spec / Engine.
-/
import IQE.Engine.Filter
import IQE.Engine.HashJoin
import IQE.Engine.Acc
import IQE.Engine.SortLimit
import IQE.Engine.Values
namespace IQE.Engine.Pipeline
open IQE IQE.Spec

/-! ### execution configuration -/

/-- Everything the executor is free to choose.  The two function fields are ARBITRARY (they may look at the data, as a
    hash repartitioning does) subject to the stated laws, so "for every `cfg`" covers every batching, every partition
    count, every build side, every chunking of a group's values, every merge tree, fused or unfused top-k. -/
structure ExecCfg where
  /-- how an operator's input is cut into partitions × batches (scan chunking, exchange, coalescing) -/
  layout : Table → List (List Table)
  /-- … which only moves rows around -/
  layout_perm : ∀ t : Table, (layout t).flatten.flatten.Perm t
  /-- build the join hash table from the left input (`!build_right`; Right joins ignore it) -/
  buildLeft : Bool := true
  /-- how the argument values of one group are cut into chunks and in which tree the partial states are merged -/
  aggTree : List Val → Acc.MTree (List Val)
  /-- … which only cuts -/
  aggTree_leaves : ∀ xs : List Val, (aggTree xs).leaves.flatten = xs
  /-- let the planner fuse `Limit(Sort)` into `SortExec::with_fetch` (it does when `skip = 0` and a fetch is present) -/
  fuseTopK : Bool := true

/-- consecutive chunks of `n` elements (`n ≤ 1`: one element per chunk) -/
def chunkGo {α : Type} (n : Nat) : List α → Nat → List α → List (List α)
  | [], _, cur => if cur.isEmpty then [] else [cur.reverse]
  | x :: xs, k, cur => if n ≤ k + 1 then (x :: cur).reverse :: chunkGo n xs 0 [] else chunkGo n xs (k + 1) (x :: cur)

def chunks {α : Type} (n : Nat) (xs : List α) : List (List α) := chunkGo n xs 0 []

theorem chunkGo_flatten {α : Type} (n : Nat) : ∀ (xs : List α) (k : Nat) (cur : List α),
    (chunkGo n xs k cur).flatten = cur.reverse ++ xs
  | [], _, cur => by
    cases cur <;> simp [chunkGo]
  | x :: xs, k, cur => by
    simp only [chunkGo]
    split
    · simp [chunkGo_flatten n xs 0 []]
    · simp [chunkGo_flatten n xs (k + 1) (x :: cur)]

theorem chunks_flatten {α : Type} (n : Nat) (xs : List α) : (chunks n xs).flatten = xs := by
  simp [chunks, chunkGo_flatten]

theorem comb_leaves {α : Type} (l : List α) : (Acc.MTree.comb l).leaves = l := by
  cases l with
  | nil => rfl
  | cons a as =>
    simp only [Acc.MTree.comb]
    have : ∀ (as : List α) (t : Acc.MTree α), (as.foldl (fun t x => Acc.MTree.node t (.leaf x)) t).leaves = t.leaves ++ as := by
      intro as
      induction as with
      | nil => intro t; simp
      | cons x xs ih => intro t; simp [ih, Acc.MTree.leaves]
    simpa [Acc.MTree.leaves] using this as (.leaf a)

/-- a concrete family: batches of `batchRows` rows, partitions of `batchesPerPart` batches, groups' values merged as a left
    comb of chunks of `aggChunk` values -/
def ExecCfg.ofSizes (batchRows batchesPerPart aggChunk : Nat) (buildLeft fuseTopK : Bool) : ExecCfg where
  layout := fun t => chunks batchesPerPart (chunks batchRows t)
  layout_perm := fun t => by rw [chunks_flatten, chunks_flatten]
  buildLeft := buildLeft
  aggTree := fun xs => Acc.MTree.comb (chunks aggChunk xs)
  aggTree_leaves := fun xs => by rw [comb_leaves, chunks_flatten]
  fuseTopK := fuseTopK

/-! ### expressions over batches -/

/-- apply a row function to every row of every batch of every partition (any row's error fails the operator) -/
def mapRows {β : Type} (f : Row → Except Err β) (lay : List (List Table)) : Except Err (List (List (List β))) :=
  lay.mapM fun part => part.mapM fun b => b.mapM f

/-! ### join: equi-key extraction and guards -/

/-- `col i = col j` with `i` a left and `j` a right column: the key pair (right index relative to the right input) -/
def eqKey (lw : Nat) : Expr → Option (Nat × Nat)
  | .bin .eq (.col i) (.col j) => if i < lw ∧ lw ≤ j then some (i, j - lw) else none
  | _ => none

/-- the planner's split of ON into equi-key pairs and a residual predicate: leading equi conjuncts of a right-nested
    AND chain become keys, the rest (if any) is the residual -/
def splitOn (lw : Nat) : Expr → List Nat × List Nat × Option Expr
  | .bin .and a rest =>
    match eqKey lw a with
    | some ij =>
      let s := splitOn lw rest
      (ij.1 :: s.1, ij.2 :: s.2.1, s.2.2)
    | none => ([], [], some (.bin .and a rest))
  | e =>
    match eqKey lw e with
    | some ij => ([ij.1], [ij.2], none)
    | none => ([], [], some e)

/-- the residual ON predicate on a (left, right) pair: TRUE or not TRUE -/
def residualOf (fo : FloatOps) (res : Option Expr) (l r : Row) : Bool :=
  match res with
  | none => true
  | some e => Filter.isTrueRes (Filter.eval Filter.Dev.none fo (l ++ r) e)

/-- the static configuration of the join operator for this node -/
def joinCfg (fo : FloatOps) (cfg : ExecCfg) (jt : JoinType) (lw rw : Nat) (on : Expr) : HashJoin.Cfg :=
  match jt with
  | .cross => { lkeys := [], rkeys := [], lw := lw, rw := rw, buildLeft := cfg.buildLeft }
  | _ =>
    let s := splitOn lw on
    { lkeys := s.1, rkeys := s.2.1, residual := residualOf fo s.2.2, lw := lw, rw := rw, buildLeft := cfg.buildLeft }

def notF64 : Val → Bool
  | .f64 _ => false
  | _ => true

/-- hashable key columns: no DOUBLE value -/
def keysHashable (cols : List Nat) (t : Table) : Bool := t.all fun row => (HashJoin.keyVals cols row).all notF64

/-- ON evaluates to a BOOLEAN or NULL on the pair -/
def onOk (fo : FloatOps) (on : Expr) (l r : Row) : Bool :=
  match Filter.eval Filter.Dev.none fo (l ++ r) on with
  | .ok v => Filter.isBoolOrNull v
  | .error _ => false

def joinGuard (fo : FloatOps) (jt : JoinType) (lw : Nat) (on : Expr) (jc : HashJoin.Cfg) (L R : Table) : Except Err Unit :=
  match jt with
  | .cross => .ok ()
  | _ =>
    if !(L.all fun l => l.length == lw) then .error (.bad "join: left row arity differs from the declared width")
    else if !(keysHashable jc.lkeys L && keysHashable jc.rkeys R) then .error (.unsupported "join: DOUBLE equi-key")
    else if !(L.all fun l => R.all fun r => onOk fo on l r) then .error (.type "join condition is not boolean")
    else .ok ()

/-! ### aggregation -/

/-- aggregates of the fragment -/
def aggSupported (a : AggCall) : Bool := !a.distinct && a.fn != .avg

/-- the argument value of one aggregate at one row (`COUNT(*)` has none: NULL) -/
def argOf (fo : FloatOps) (r : Row) (a : AggCall) : Except Err Val :=
  match a.fn with
  | .countStar => .ok .null
  | _ => Filter.eval Filter.Dev.none fo r a.arg

/-- (group key, one argument value per aggregate) of one input row -/
def keyedRow (fo : FloatOps) (keys : List Expr) (aggs : List AggCall) (r : Row) : Except Err (Row × Row) := do
  let k ← Filter.evalList Filter.Dev.none fo r keys
  let args ← aggs.mapM (argOf fo r)
  pure (k, args)

def absVal : Val → Nat
  | .int i => i.natAbs
  | _ => 0

def absSum : List Val → Nat
  | [] => 0
  | v :: vs => absVal v + absSum vs

def isIntOrNull : Val → Bool
  | .null => true
  | .int _ => true
  | _ => false

/-- the argument column of one aggregate is BIGINT/NULL, and a SUM cannot overflow -/
def colOk (a : AggCall) (col : List Val) : Bool :=
  col.all isIntOrNull && (a.fn != .sum || decide ((absSum col : Int) ≤ Val.i64Max))

/-- grouping as `Engine.Acc.groupAgg` does it (all switches off), every aggregate on the hash path, the values of a
    group cut and merged along `cfg.aggTree` -/
def groupAggT (fo : FloatOps) (cfg : ExecCfg) (aggs : List AggCall) (global : Bool) (keyed : List (Row × Row)) :
    List (Row × Row) :=
  let groups : List (Row × Table) := if global then [([], keyed.map (·.2))] else Spec.groupBy keyed
  groups.map fun g =>
    (g.1, ((List.range aggs.length).zip aggs).map fun ja =>
      (Acc.hash {} fo ⟨ja.2.fn, false, .int⟩).run (cfg.aggTree (g.2.map fun (r : Row) => r.getD ja.1 .null)))

def aggGuard (aggs : List AggCall) (keyed : List (Row × Row)) : Except Err Unit :=
  if !(aggs.all aggSupported) then .error (.unsupported "aggregate outside the fragment (AVG / DISTINCT)")
  else if !(((List.range aggs.length).zip aggs).all fun ja => colOk ja.2 (keyed.map fun kr => kr.2.getD ja.1 .null)) then
    .error (.type "aggregate argument is not BIGINT, or SUM may overflow")
  else .ok ()

/-! ### sort keys -/

def firstTy : List Val → Ty
  | [] => .int
  | v :: vs => match v.tyOf with
    | some t => t
    | none => firstTy vs

/-- the column types of `n` key columns, read off the data -/
def keyTys (n : Nat) (kvs : List (List Val)) : List Ty := (List.range n).map fun j => firstTy (kvs.map fun kv => kv.getD j .null)

def typedB : List Ty → List Val → Bool
  | [], [] => true
  | t :: ts, v :: vs => (v.isNull || v.tyOf == some t) && typedB ts vs
  | _, _ => false

def sortGuard (n : Nat) (keyed : List SortLimit.Keyed) : Except Err Unit :=
  if keyed.all fun x => typedB (keyTys n (keyed.map (·.1))) x.1 then .ok ()
  else .error (.type "ORDER BY key column is not uniformly typed")

def usizeGuard (skip len : Nat) : Except Err Unit :=
  if decide ((skip : Int) ≤ Rs.USIZE_MAX) && decide ((len : Int) ≤ Rs.USIZE_MAX) then .ok ()
  else .error (.bad "row count beyond usize::MAX")

/-- (sort-key vector, row) -/
def sortKeyed (fo : FloatOps) (keys : List SortKey) (r : Row) : Except Err SortLimit.Keyed := do
  let kv ← Filter.evalList Filter.Dev.none fo r (keys.map (·.e))
  pure (kv, r)

def flagsOf (keys : List SortKey) : List (Bool × Bool) := keys.map fun k => (k.desc, k.nullsFirst)

/-! ### the pipeline -/

/-- the unordered operators -/
def runBag (fo : FloatOps) (fns : String → List Val → Except Err Val) (cfg : ExecCfg) (cat : List (List Table)) :
    Query → Except Err Table
  | .scan t =>
    match cat[t]? with
    | some batches => .ok (cfg.layout batches.flatten).flatten.flatten
    | none => .error (.bad "no such table")
  | .values rows =>
    Values.lower {} { fo := fo, runSub := fun _ _ => .error (.bad "subquery in VALUES"), fn := fns } [] rows
  | .filter [] p q => do
    let t ← runBag fo fns cfg cat q
    let outs ← (cfg.layout t).flatten.mapM (Filter.filter Filter.Dev.none fo p)
    pure outs.flatten
  | .project [] es q => do
    let t ← runBag fo fns cfg cat q
    let outs ← mapRows (fun r => Filter.evalList Filter.Dev.none fo r es) (cfg.layout t)
    pure outs.flatten.flatten
  | .join jt lw rw [] on l r => do
    let L ← runBag fo fns cfg cat l
    let R ← runBag fo fns cfg cat r
    let jc := joinCfg fo cfg jt lw rw on
    joinGuard fo jt lw on jc L R
    pure (HashJoin.hashJoin {} jt jc (cfg.layout L) (cfg.layout R))
  | .agg keys aggs q => do
    let t ← runBag fo fns cfg cat q
    let keyed ← mapRows (keyedRow fo keys aggs) (cfg.layout t)
    aggGuard aggs keyed.flatten.flatten
    pure ((groupAggT fo cfg aggs keys.isEmpty keyed.flatten.flatten).map fun kv => kv.1 ++ kv.2)
  | .distinct q => do
    let t ← runBag fo fns cfg cat q
    let g ← Acc.groupAgg {} fo .hash [] false ((cfg.layout t).flatten.flatten.map fun r => (r, []))
    pure (g.map (·.1))
  | .setop .union true l r => do
    let L ← runBag fo fns cfg cat l
    let R ← runBag fo fns cfg cat r
    pure (cfg.layout L ++ cfg.layout R).flatten.flatten
  | _ => .error (.unsupported "plan node outside the pipeline fragment")

/-- ORDER BY at the top: evaluate the keys batch by batch, `SortExec` -/
def sortTop (fo : FloatOps) (cfg : ExecCfg) (keys : List SortKey) (t : Table) : Except Err Table := do
  let parts ← mapRows (sortKeyed fo keys) (cfg.layout t)
  sortGuard keys.length parts.flatten.flatten
  pure ((SortLimit.sortExec fo (flagsOf keys) none parts).flatten.map (·.2))

/-- LIMIT / OFFSET over ORDER BY at the top: the plan the planner picks (or the unfused one) -/
def sortLimitTop (fo : FloatOps) (cfg : ExecCfg) (skip : Nat) (fetch : Option Nat) (keys : List SortKey) (t : Table) :
    Except Err Table := do
  let parts ← mapRows (sortKeyed fo keys) (cfg.layout t)
  sortGuard keys.length parts.flatten.flatten
  usizeGuard skip parts.flatten.flatten.length
  let phys := if cfg.fuseTopK then SortLimit.planLimitOverSort skip fetch else .limitOverSort skip fetch
  pure ((SortLimit.execPhys fo (flagsOf keys) parts phys).map (·.2))

/-- LIMIT / OFFSET over an unordered input at the top: `LimitExec` over the partitions in index order -/
def limitTop (cfg : ExecCfg) (skip : Nat) (fetch : Option Nat) (t : Table) : Except Err Table := do
  usizeGuard skip (cfg.layout t).flatten.flatten.length
  pure (SortLimit.limitExec skip fetch (cfg.layout t)).1.flatten

/-- **the pipeline**: the unordered operators below at most one top-level ORDER BY / LIMIT -/
def run (fo : FloatOps) (fns : String → List Val → Except Err Val) (cfg : ExecCfg) (cat : List (List Table)) :
    Query → Except Err Table
  | .sort keys q => do sortTop fo cfg keys (← runBag fo fns cfg cat q)
  | .limit skip fetch (.sort keys q) => do sortLimitTop fo cfg skip fetch keys (← runBag fo fns cfg cat q)
  | .limit skip fetch q => do limitTop cfg skip fetch (← runBag fo fns cfg cat q)
  | q => runBag fo fns cfg cat q

/-! ### the fragment, as a decidable predicate -/

/-- the unordered fragment -/
def bagFrag : Query → Bool
  | .scan _ => true
  | .values _ => true
  | .filter [] _ q => bagFrag q
  | .project [] _ q => bagFrag q
  | .join _ _ _ [] _ l r => bagFrag l && bagFrag r
  | .agg _ aggs q => aggs.all aggSupported && bagFrag q
  | .distinct q => bagFrag q
  | .setop .union true l r => bagFrag l && bagFrag r
  | _ => false

/-- top-level ORDER BY or LIMIT? (same as `Props.C01.ordered`) -/
def ordered : Query → Bool
  | .sort _ _ => true
  | .limit _ _ _ => true
  | _ => false

/-- the fragment of `run`: unordered operators below at most one top-level ORDER BY / LIMIT / LIMIT-over-ORDER BY -/
def pipeFrag : Query → Bool
  | .sort _ q => bagFrag q
  | .limit _ _ (.sort _ q) => bagFrag q
  | .limit _ _ q => bagFrag q
  | q => bagFrag q

abbrev PipeFrag (q : Query) : Prop := pipeFrag q = true

end IQE.Engine.Pipeline
