/-
  IQE.Engine.Iceberg — hand-written executable model of src/storage/iceberg.rs
  (`open_table`, `latest_metadata_file`, `data_files_of`, `resolve_uri`) and of the abstract table
  history it is meant to implement.

  Concrete side (what is on disk):
    metadata files  (name, last-updated-ms, current-snapshot-id?, snapshots (id, timestamp, manifest list))
    version hint    (optional N)
    manifest list   = list of manifests;   manifest = list of entries (status, content, format, uri)
  Data files are identified by a `Nat` (the harness names them so that path order = numeric order); an entry's
  URI is a form (`UriForm`) of that file's path, or a remote URI.

  Abstract side: a history of appends / removals / manifest rewrites / metadata-only rewrites; `live` is the set of
  data files of the table after a prefix of the history.
-/
namespace IQE.Engine.Iceberg

/-! ### sorted, duplicate-free file lists (`files.sort(); files.dedup()`) -/

def insertSorted (x : Nat) : List Nat → List Nat
  | [] => [x]
  | y :: ys => if x < y then x :: y :: ys else if x = y then y :: ys else y :: insertSorted x ys

/-- `sort` + `dedup` of a path list -/
def sortDedup : List Nat → List Nat
  | [] => []
  | x :: xs => insertSorted x (sortDedup xs)

/-! ### manifests -/

inductive UriForm where
  | fileTriple   -- file:///abs
  | fileSingle   -- file:/abs
  | absolute     -- /abs
  | relative     -- rel (to the table directory)
  | remote       -- s3://…, hdfs://…
deriving Repr, DecidableEq

structure Entry where
  status : Nat          -- 0 EXISTING, 1 ADDED, 2 DELETED
  content : Nat := 0    -- 0 data, 1 position deletes, 2 equality deletes
  parquet : Bool := true
  uri : UriForm := .fileTriple
  file : Nat
deriving Repr, DecidableEq

abbrev Manifest := List Entry

inductive Err where
  | deleteFiles | notParquet | remoteUri | unknownSnapshot | noCurrentSnapshot | emptySnapshot | noMetadata | hintMissing
deriving Repr, DecidableEq

deriving instance DecidableEq for Except

/-- one entry of `data_files_of`'s inner loop: skip DELETED first, then refuse delete files, non-Parquet, remote URIs -/
def entryFile (e : Entry) : Except Err (Option Nat) :=
  if e.status = 2 then .ok none
  else if e.content ≠ 0 then .error .deleteFiles
  else if !e.parquet then .error .notParquet
  else if e.uri = .remote then .error .remoteUri
  else .ok (some e.file)

/-- the pushes of `data_files_of` before `sort`/`dedup`, in iteration order; the first offending entry aborts -/
def collectEntries : List Entry → Except Err (List Nat)
  | [] => .ok []
  | e :: rest =>
    match entryFile e with
    | .error x => .error x
    | .ok none => collectEntries rest
    | .ok (some f) => match collectEntries rest with
      | .error x => .error x
      | .ok fs => .ok (f :: fs)

/-- `data_files_of` -/
def dataFilesOf (manifests : List Manifest) : Except Err (List Nat) :=
  match collectEntries manifests.flatten with
  | .error x => .error x
  | .ok fs => .ok (sortDedup fs)

/-! ### metadata choice and snapshot choice -/

structure SnapRef where
  id : Nat
  timestampMs : Nat
  manifests : List Manifest       -- the manifest list the snapshot points to, resolved
deriving Repr

structure MetaFile where
  name : Nat                       -- file-name order (ties of last-updated-ms are broken by path)
  version : Option Nat := none     -- `vN.metadata.json`
  lastUpdatedMs : Nat
  current : Option Nat
  snaps : List SnapRef
deriving Repr

/-- the directory scan of `latest_metadata_file`: keep the greatest `(last-updated-ms, path)` -/
def pickLatest : Option MetaFile → List MetaFile → Option MetaFile
  | best, [] => best
  | none, m :: rest => pickLatest (some m) rest
  | some b, m :: rest =>
    if m.lastUpdatedMs > b.lastUpdatedMs || (m.lastUpdatedMs == b.lastUpdatedMs && m.name > b.name) then pickLatest (some m) rest
    else pickLatest (some b) rest

/-- `latest_metadata_file` -/
def latestMetadata (hint : Option Nat) (metas : List MetaFile) : Except Err MetaFile :=
  match hint with
  | some v => match metas.find? (fun m => m.version == some v) with
    | some m => .ok m
    | none => .error .hintMissing
  | none => match pickLatest none metas with
    | some m => .ok m
    | none => .error .noMetadata

/-- `open_table`: metadata choice, snapshot choice, file set, empty refusal -/
def openTable (hint : Option Nat) (metas : List MetaFile) (snapshot : Option Nat) : Except Err (Nat × List Nat) :=
  match latestMetadata hint metas with
  | .error e => .error e
  | .ok m =>
    let chosen : Except Err SnapRef :=
      match snapshot with
      | some id => match m.snaps.find? (fun s => s.id == id) with
        | some s => .ok s
        | none => .error .unknownSnapshot
      | none => match m.current with
        | none => .error .noCurrentSnapshot
        | some cur => match m.snaps.find? (fun s => s.id == cur) with
          | some s => .ok s
          | none => .error .unknownSnapshot
    match chosen with
    | .error e => .error e
    | .ok s =>
      match dataFilesOf s.manifests with
      | .error e => .error e
      | .ok [] => .error .emptySnapshot
      | .ok fs => .ok (s.id, fs)

/-! ### the abstract history and its encoding -/

inductive HOp where
  | append (fs : List Nat)         -- new snapshot: the files are added in one new manifest
  | remove (fs : List Nat)         -- new snapshot: manifests that hold a removed file are rewritten
  | rewriteManifests               -- new snapshot: all live entries compacted into one manifest (EXISTING)
  | metadataOnly                   -- a new metadata file without a new snapshot (property change)
deriving Repr, DecidableEq

/-- abstract live set after one operation -/
def liveStep (live : List Nat) : HOp → List Nat
  | .append fs => live ++ fs
  | .remove fs => live.filter (fun x => !fs.contains x)
  | .rewriteManifests => live
  | .metadataOnly => live

def live (h : List HOp) : List Nat := h.foldl liveStep []

def isLive (e : Entry) : Bool := e.status != 2

/-- a manifest rewritten by a removal: earlier DELETED entries are dropped, removed files become DELETED, the rest EXISTING -/
def rewriteFor (fs : List Nat) (m : Manifest) : Manifest :=
  (m.filter isLive).map fun e => if fs.contains e.file then { e with status := 2 } else { e with status := 0 }

/-- concrete manifests of the newest snapshot after one operation (untouched manifests are carried as they are) -/
def encStep (uri : Nat → UriForm) (ms : List Manifest) : HOp → List Manifest
  | .append fs => (fs.map fun f => ({ status := 1, file := f, uri := uri f } : Entry)) :: ms
  | .remove fs => ms.map fun m => if m.any (fun e => isLive e && fs.contains e.file) then rewriteFor fs m else m
  | .rewriteManifests => [(ms.flatten.filter isLive).map fun e => { e with status := 0 }]
  | .metadataOnly => ms

def encManifests (uri : Nat → UriForm) (h : List HOp) : List Manifest := h.foldl (encStep uri) []

/-! ### `resolve_uri` on characters -/

def startsWith : List Char → List Char → Bool
  | _, [] => true
  | [], _ :: _ => false
  | a :: as, b :: bs => a == b && startsWith as bs

/-- Rust `str::trim_start_matches("//")`: strip the pattern repeatedly -/
def trimSlashPairs : List Char → List Char
  | '/' :: '/' :: rest => trimSlashPairs rest
  | l => l

def containsSchemeSep : List Char → Bool
  | [] => false
  | c :: cs => startsWith (c :: cs) [':', '/', '/'] || containsSchemeSep cs

/-- `resolve_uri(uri, table_dir)`; `none` = refused (NotImplemented). `table_dir.join(p)` is `dir/p` for a dir without trailing slash. -/
def resolveUri (uri dir : List Char) : Option (List Char) :=
  if startsWith uri ['f', 'i', 'l', 'e', ':'] then
    let path := trimSlashPairs (uri.drop 5)
    some (if startsWith path ['/'] then path else '/' :: path)
  else if containsSchemeSep uri then none
  else if startsWith uri ['/'] then some uri
  else some (dir ++ '/' :: uri)

end IQE.Engine.Iceberg
