/-
  IQE.Engine.FnDev — C36: how the ENGINE's scalar functions deviate from their documented meaning (IQE.Spec.Fn).
  Every entry mirrors the Rust arm of `evaluate_scalar_func` (src/physical/operators/filter.rs) for one function whose
  behaviour is a listed known finding; `devCall` returns the finding id and what the engine computes.  A function
  without an entry is modelled by its specification alone.  With no entry applied the model IS the specification.
-/
import IQE.Spec.Fn
import IQE.Core.Utf8
namespace IQE.Engine.FnDev
open IQE.Spec.Fn

/-- engine outcome: value, `Err(QueryError)`, or a panic -/
inductive EOut
  | val (v : V)
  | err
  | panic
deriving DecidableEq, Repr, Inhabited

def ofOut : Out → EOut | .val v => .val v | .err => .err

/-- what the vectorised evaluation sees besides the row: number of rows of the batch, which arguments are
    plain literals, and row 0 (several arms read a "constant" argument from row 0 only). -/
structure Ctx where
  nrows : Nat
  lit : List Bool
  row0 : List V
deriving Repr, Inhabited

def byteLen (s : List Char) : Nat := (IQE.Utf8.encode s).length
/-- byte offset (0-based) of the first occurrence of `pat` in `s` — Rust `str::find` -/
def findByte (pat : List Char) : List Char → Nat → Option Nat
  | [], off => if pat.isEmpty then some off else none
  | c :: cs, off => if pat.isPrefixOf (c :: cs) then some off else findByte pat cs (off + (IQE.Utf8.encodeChar c).length)

/-- `get_int_value`: reads the value slot without looking at the validity bit (NULL reads as 0) -/
def intSlot : V → Option Int | .int i => some i | .null => some 0 | _ => none
/-- `x as usize` then used as a count: negative values become astronomically large -/
def asUsize (i : Int) : Nat := if i ≥ 0 then i.toNat else (2 ^ 64 - i.natAbs)
def asU32 (i : Int) : Nat := (i % 4294967296).toNat

/-- argument `j` is "constant" for `constant_int_value`: a bare non-negative integer literal, or the batch has one row -/
def isConstArg (c : Ctx) (j : Nat) (v : V) : Bool :=
  c.nrows == 1 || (c.lit.getD j false && (match v with | .int i => decide (i ≥ 0) | _ => false))

def strOrEmpty : V → Option (List Char) | .str s => some s | .null => some [] | _ => none
def nullV : EOut := .val .null
def strV (s : List Char) : EOut := .val (.str s)
def intV (i : Int) : EOut := .val (.int i)

/-- Rust `str::split(pat)`: an empty pattern splits around every character with an empty first and last piece -/
def rustSplit (s d : List Char) : List (List Char) :=
  if d.isEmpty then [[]] ++ s.map (fun c => [c]) ++ [[]] else splitS s d

def digitsOf (b : Nat) (n : Nat) : List Char := (natDigits b 70 n).map digitChar

/-- `i64::from_str_radix` for 2 ≤ radix ≤ 36 -/
def fromStrRadix (s : List Char) (radix : Nat) : Option Int :=
  let (neg, ds) := match s with | '-' :: r => (true, r) | '+' :: r => (false, r) | _ => (false, s)
  if ds.isEmpty then none
  else match digitsVal radix ds 0 with
    | some v => let r : Int := if neg then -(v : Int) else (v : Int)
                if inI64 r then some r else none
    | none => none


/-- engine's width_bucket on the doubles of its integer operands -/
def widthBucketF (v l h count : Int) : Int :=
  let fv := Float.ofInt v; let fl := Float.ofInt l; let fh := Float.ofInt h; let fc := Float.ofInt count
  if fv < fl then 0
  else if fv >= fh then count + 1
  else (Float.floor ((fv - fl) / (fh - fl) * fc)).toInt64.toInt + 1

/-- chrono's NaiveDate range -/
def chronoOk (z : Int) : Bool := let y := yearOf z; decide (-262143 ≤ y) && decide (y ≤ 262142)
def dateOrNull (z : Int) : EOut := if chronoOk z then .val (.date z) else nullV
def unitE (u : List Char) : Option DUnit :=
  let l := u.map Char.toLower
  if l = "day".toList ∨ l = "days".toList then some .day else if l = "week".toList ∨ l = "weeks".toList then some .week
  else if l = "month".toList ∨ l = "months".toList then some .month else if l = "quarter".toList ∨ l = "quarters".toList then some .quarter
  else if l = "year".toList ∨ l = "years".toList then some .year else none
def monthsAdd (z v : Int) : EOut :=
  if v ≥ 0 then dateOrNull (addMonths z (asU32 v)) else dateOrNull (addMonths z (-(asU32 (-v) : Int)))

def hammingE (a b : List Char) : EOut :=
  if byteLen a ≠ byteLen b then nullV else intV (hammingGo a b)

/-- (finding id, engine result) for the functions with a listed deviation -/
def devCall (c : Ctx) (f : String) (args : List V) : Option (String × EOut) :=
  let a0 := c.row0
  match f, args with
  | "abs", [.int x] => some ("C36-F1", if x = i64Min then .panic else intV (if x < 0 then -x else x))
  | "length", [.str s] => some ("C36-F2", intV (byteLen s))
  | "strpos", [.str s, .str p] => some ("C36-F3", intV (match findByte p s 0 with | some o => o + 1 | none => 0))
  | "position", [.str p, .str s] => some ("C36-F3", intV (match findByte p s 0 with | some o => o + 1 | none => 0))
  | "concat", vs => (nonNullStrs vs).map (fun l => ("C36-F4", strV (concatS l)))
  | "substring", s :: st :: rest =>
    match strOrEmpty s, intSlot st, rest with
    | some sv, some start, [] =>
      if isConstArg c 1 st && start ≥ 1 then some ("C36-F5", if s.isNull then nullV else strV (sv.drop (start.toNat - 1)))
      else some ("C36-F5", strV (sv.drop (asUsize start - 1)))
    | some sv, some start, [l] =>
      match intSlot l with
      | some len =>
        if isConstArg c 1 st && isConstArg c 2 l && start ≥ 1 && len ≥ 0 then
          some ("C36-F5", if s.isNull then nullV else strV ((sv.drop (start.toNat - 1)).take len.toNat))
        else some ("C36-F5", strV ((sv.drop (asUsize start - 1)).take (asUsize len)))
      | none => none
    | _, _, _ => none
  -- F7: width_bucket in doubles, bucket count from row 0
  | "width_bucket", [x, lo, hi, _] =>
    (match a0.getD 3 .null |> intSlot with
     | some cnt => match x, lo, hi with
       | .int v, .int l, .int h => some ("C36-F7", intV (widthBucketF v l h cnt))
       | _, _, _ => if x.isNull || lo.isNull || hi.isNull then some ("C36-F7", nullV) else none
     | none => none)
  -- F8: lpad / rpad
  | "lpad", [s, n, _] =>
    (match s, intSlot n, strOrEmpty (a0.getD 2 .null) with
     | .null, some _, some _ => some ("C36-F8", nullV)
     | .str sv, some n, some pad =>
       let t := asUsize n
       some ("C36-F8", if sv.length ≥ t then strV (sv.take t) else strV (cycleTake pad (if pad.isEmpty then 0 else t - sv.length) pad ++ sv))
     | _, _, _ => none)
  | "rpad", [s, n, _] =>
    (match s, intSlot n, strOrEmpty (a0.getD 2 .null) with
     | .null, some _, some _ => some ("C36-F8", nullV)
     | .str sv, some n, some pad =>
       let t := asUsize n
       some ("C36-F8", if sv.length ≥ t then strV (sv.take t) else strV (sv ++ cycleTake pad (if pad.isEmpty then 0 else t - sv.length) pad))
     | _, _, _ => none)
  -- F9: split_part
  | "split_part", [s, d, i] =>
    (match s, d, intSlot i with
     | .str sv, .str dv, some idx =>
       let parts := rustSplit sv dv
       let k := asUsize idx
       some ("C36-F9", if k > 0 && k ≤ parts.length then strV (parts.getD (k - 1) []) else strV [])
     | _, _, some _ => if s.isNull || d.isNull then some ("C36-F9", nullV) else none
     | _, _, _ => none)
  | "hamming_distance", [.str a, .str b] => some ("C36-F11", hammingE a b)
  | "day_of_week", [.date z] => some ("C36-F14", intV ((z + 4) % 7 + 1))
  | "date_diff", [.str u, .date a, .date b] =>
    some ("C36-F15", match unitE u with
      | some .day => intV (b - a)
      | some .week => intV (Int.tdiv (b - a) 7)
      | some .month => intV ((yearOf b * 12 + monthOf b) - (yearOf a * 12 + monthOf a))
      | some .year => intV (yearOf b - yearOf a)
      | _ => nullV)
  | "bitwise_left_shift", [.int x, .int s] => some ("C36-F16", if asU32 s ≥ 64 then .panic else intV ((toBV x <<< asU32 s).toInt))
  | "bitwise_right_shift", [.int x, .int s] => some ("C36-F16", if asU32 s ≥ 64 then .panic else intV ((toBV x >>> asU32 s).toInt))
  | "bitwise_right_shift_arithmetic", [.int x, .int s] => some ("C36-F16", if asU32 s ≥ 64 then .panic else intV ((BitVec.sshiftRight (toBV x) (asU32 s)).toInt))
  -- F17: a NULL count / length argument is read as 0
  | "left", [s, n] =>
    (match s, intSlot n with
     | .str sv, some k => some ("C36-F17", strV (sv.take (asUsize k)))
     | .null, some _ => some ("C36-F17", nullV)
     | _, _ => none)
  | "right", [s, n] =>
    (match s, intSlot n with
     | .str sv, some k => some ("C36-F17", strV (sv.drop (sv.length - asUsize k)))
     | .null, some _ => some ("C36-F17", nullV)
     | _, _ => none)
  | "repeat", [s, n] =>
    (match s, intSlot n with
     | .str sv, some k => some ("C36-F17", strV (repeatS sv k.toNat))
     | .null, some _ => some ("C36-F17", nullV)
     | _, _ => none)
  -- F18: to_base / from_base
  | "to_base", [x, _] =>
    (match x, intSlot (a0.getD 1 .null) with
     | .int v, some r =>
       let u := (v % 18446744073709551616).toNat
       some ("C36-F18", if r = 2 then strV (digitsOf 2 u) else if r = 8 then strV (digitsOf 8 u) else if r = 16 then strV (digitsOf 16 u)
                        else strV ((if v < 0 then ['-'] else []) ++ digitsOf 10 v.natAbs))
     | .null, some _ => some ("C36-F18", nullV)
     | _, _ => none)
  | "from_base", [s, _] =>
    (match s, intSlot (a0.getD 1 .null) with
     | .str sv, some r =>
       let ru := asU32 r
       some ("C36-F18", if ru < 2 || ru > 36 then .panic else match fromStrRadix sv ru with | some v => intV v | none => nullV)
     | .null, some _ => some ("C36-F18", nullV)
     | _, _ => none)
  | "translate", [.str s, .str a, .str b] =>
    some ("C36-F19", strV (s.map (fun ch => match indexOfC ch a 0 with | some i => b.getD i ch | none => ch)))
  | "date_add", [u, n, d] =>
    (match u, intSlot n, d with
     | .str uv, some v, .date z =>
       some ("C36-F21", match unitE uv with
         | some .day => if (v * 86400).natAbs > 9223372036854775 then .panic else dateOrNull (z + v)
         | some .week => if (v * 604800).natAbs > 9223372036854775 then .panic else dateOrNull (z + 7 * v)
         | some .month => monthsAdd z v
         | some .year => if !inI64 (v * 12) then .panic else monthsAdd z (v * 12)
         | _ => nullV)
     | _, some _, _ => if u.isNull || d.isNull then some ("C36-F21", nullV) else none
     | _, _, _ => none)
  -- F24: greatest / least keep going past a NULL (`zip` reads a NULL comparison as false)
  | "greatest", v :: vs => some ("C36-F24", .val (vs.foldl (fun acc b => match acc, b with | .int x, .int y => if x > y then acc else b | _, _ => b) v))
  | "least", v :: vs => some ("C36-F24", .val (vs.foldl (fun acc b => match acc, b with | .int x, .int y => if x < y then acc else b | _, _ => b) v))
  | "chr", [.int n] => some ("C36-F23", let u : Int := asU32 n; if validCodePoint u then strV [Char.ofNat u.toNat] else nullV)
  | _, _ => none

end IQE.Engine.FnDev
