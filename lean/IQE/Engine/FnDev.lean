/-
  IQE.Engine.FnDev — C36: how the ENGINE's scalar functions deviate from their documented meaning (IQE.Spec.Fn).
  Every entry mirrors the Rust arm of `evaluate_scalar_func` (src/physical/operators/filter.rs) for one function whose
  behaviour is a listed known finding; `devCall` returns the finding id and what the engine computes.  A function
  without an entry is modelled by its specification alone.  With no entry applied the model IS the specification.
-/
import IQE.Spec.Fn
import IQE.Core.Utf8
namespace IQE.Engine.FnDev
open IQE.Spec.Fn

/-- engine outcome: value, `Err(QueryError)`, or a panic -/
inductive EOut
  | val (v : V)
  | err
  | panic
deriving DecidableEq, Repr, Inhabited

def ofOut : Out → EOut | .val v => .val v | .err => .err

/-- what the vectorised evaluation sees besides the row: number of rows of the batch, which arguments are
    plain literals, and row 0 (several arms read a "constant" argument from row 0 only). -/
structure Ctx where
  nrows : Nat
  lit : List Bool
  row0 : List V
deriving Repr, Inhabited

def byteLen (s : List Char) : Nat := (IQE.Utf8.encode s).length
/-- byte offset (0-based) of the first occurrence of `pat` in `s` — Rust `str::find` -/
def findByte (pat : List Char) : List Char → Nat → Option Nat
  | [], off => if pat.isEmpty then some off else none
  | c :: cs, off => if pat.isPrefixOf (c :: cs) then some off else findByte pat cs (off + (IQE.Utf8.encodeChar c).length)

/-- `get_int_value`: reads the value slot without looking at the validity bit (NULL reads as 0) -/
def intSlot : V → Option Int | .int i => some i | .null => some 0 | _ => none
/-- `x as usize` then used as a count: negative values become astronomically large -/
def asUsize (i : Int) : Nat := if i ≥ 0 then i.toNat else (2 ^ 64 - i.natAbs)
def asU32 (i : Int) : Nat := (i % 4294967296).toNat

/-- argument `j` is "constant" for `constant_int_value`: a bare non-negative integer literal, or the batch has one row -/
def isConstArg (c : Ctx) (j : Nat) (v : V) : Bool :=
  c.nrows == 1 || (c.lit.getD j false && (match v with | .int i => decide (i ≥ 0) | _ => false))

def strOrEmpty : V → Option (List Char) | .str s => some s | .null => some [] | _ => none
def nullV : EOut := .val .null
def strV (s : List Char) : EOut := .val (.str s)
def intV (i : Int) : EOut := .val (.int i)

/-- Rust `str::split(pat)`: an empty pattern splits around every character with an empty first and last piece -/
def rustSplit (s d : List Char) : List (List Char) :=
  if d.isEmpty then [[]] ++ s.map (fun c => [c]) ++ [[]] else splitS s d

def digitsOf (b : Nat) (n : Nat) : List Char := (natDigits b 70 n).map digitChar

/-- `i64::from_str_radix` for 2 ≤ radix ≤ 36 -/
def fromStrRadix (s : List Char) (radix : Nat) : Option Int :=
  let (neg, ds) := match s with | '-' :: r => (true, r) | '+' :: r => (false, r) | _ => (false, s)
  if ds.isEmpty then none
  else match digitsVal radix ds 0 with
    | some v => let r : Int := if neg then -(v : Int) else (v : Int)
                if inI64 r then some r else none
    | none => none


/-- engine's width_bucket on the doubles of its integer operands -/
def widthBucketF (v l h count : Int) : Int :=
  let fv := Float.ofInt v; let fl := Float.ofInt l; let fh := Float.ofInt h; let fc := Float.ofInt count
  if fv < fl then 0
  else if fv >= fh then count + 1
  else (Float.floor ((fv - fl) / (fh - fl) * fc)).toInt64.toInt + 1

/-- chrono's NaiveDate range -/
def chronoOk (z : Int) : Bool := let y := yearOf z; decide (-262143 ≤ y) && decide (y ≤ 262142)
def dateOrNull (z : Int) : EOut := if chronoOk z then .val (.date z) else nullV
def unitE (u : List Char) : Option DUnit :=
  let l := u.map Char.toLower
  if l = "day".toList ∨ l = "days".toList then some .day else if l = "week".toList ∨ l = "weeks".toList then some .week
  else if l = "month".toList ∨ l = "months".toList then some .month else if l = "quarter".toList ∨ l = "quarters".toList then some .quarter
  else if l = "year".toList ∨ l = "years".toList then some .year else none
/-- `Months::new(u32::try_from(|v|).ok()?)`: an amount beyond 32 bits gives NULL -/
def monthsAdd (z v : Int) : EOut :=
  if v.natAbs > 4294967295 then nullV else dateOrNull (addMonths z v)

def hammingE (a b : List Char) : EOut :=
  if byteLen a ≠ byteLen b then nullV else intV (hammingGo a b)

/-- (finding id, engine result) for the functions with a listed deviation -/
def devCall (c : Ctx) (f : String) (args : List V) : Option (String × EOut) :=
  let _ := c
  match f, args with
  | "length", [.str s] => some ("C36-F2", intV (byteLen s))
  | "strpos", [.str s, .str p] => some ("C36-F3", intV (match findByte p s 0 with | some o => o + 1 | none => 0))
  | "position", [.str p, .str s] => some ("C36-F3", intV (match findByte p s 0 with | some o => o + 1 | none => 0))
  | "concat", vs => (nonNullStrs vs).map (fun l => ("C36-F4", strV (concatS l)))
  -- F5: start <= 0 and negative lengths go through `as usize` (NULL arguments give NULL since 35c48df)
  | "substring", [.str sv, .int start] => some ("C36-F5", strV (sv.drop (asUsize start - 1)))
  | "substring", [.str sv, .int start, .int len] => some ("C36-F5", strV ((sv.drop (asUsize start - 1)).take (asUsize len)))
  | "substring", vs => if vs.any V.isNull && (vs.length == 2 || vs.length == 3) then some ("C36-F5", nullV) else none
  -- F7: width_bucket in doubles, dividing first (the count is read per row since 188d2f5)
  | "width_bucket", [.int v, .int l, .int h, .int cnt] => some ("C36-F7", intV (widthBucketF v l h cnt))
  -- F9: split_part beyond the last field gives '' (a NULL index gives NULL since 35c48df)
  | "split_part", [.str sv, .str dv, .int idx] =>
    let parts := rustSplit sv dv
    let k := asUsize idx
    some ("C36-F9", if k > 0 && k ≤ parts.length then strV (parts.getD (k - 1) []) else strV [])
  | "hamming_distance", [.str a, .str b] => some ("C36-F11", hammingE a b)
  | "day_of_week", [.date z] => some ("C36-F14", intV ((z + 4) % 7 + 1))
  | "date_diff", [.str u, .date a, .date b] =>
    some ("C36-F15", match unitE u with
      | some .day => intV (b - a)
      | some .week => intV (Int.tdiv (b - a) 7)
      | some .month => intV ((yearOf b * 12 + monthOf b) - (yearOf a * 12 + monthOf a))
      | some .year => intV (yearOf b - yearOf a)
      | _ => nullV)
  -- F18: to_base knows radix 2, 8, 16 only (two's complement), anything else prints decimal (radix per row since 188d2f5)
  | "to_base", [.int v, .int r] =>
    let u := (v % 18446744073709551616).toNat
    some ("C36-F18", if r = 2 then strV (digitsOf 2 u) else if r = 8 then strV (digitsOf 8 u) else if r = 16 then strV (digitsOf 16 u)
                     else strV ((if v < 0 then ['-'] else []) ++ digitsOf 10 v.natAbs))
  | "translate", [.str s, .str a, .str b] =>
    some ("C36-F19", strV (s.map (fun ch => match indexOfC ch a 0 with | some i => b.getD i ch | none => ch)))
  -- F21: 'quarter' unsupported; an amount or result that cannot be represented gives NULL (no panic since 67df4b3)
  | "date_add", [.str uv, .int v, .date z] =>
    some ("C36-F21", match unitE uv with
      | some .day => if (v * 86400).natAbs > 9223372036854775 then nullV else dateOrNull (z + v)
      | some .week => if (v * 604800).natAbs > 9223372036854775 then nullV else dateOrNull (z + 7 * v)
      | some .month => monthsAdd z v
      | some .year => if !inI64 (v * 12) then nullV else monthsAdd z (v * 12)
      | _ => nullV)
  | "chr", [.int n] => some ("C36-F23", let u : Int := asU32 n; if validCodePoint u then strV [Char.ofNat u.toNat] else nullV)
  -- F24: greatest / least keep going past a NULL (`zip` reads a NULL comparison as false)
  | "greatest", v :: vs => some ("C36-F24", .val (vs.foldl (fun acc b => match acc, b with | .int x, .int y => if x > y then acc else b | _, _ => b) v))
  | "least", v :: vs => some ("C36-F24", .val (vs.foldl (fun acc b => match acc, b with | .int x, .int y => if x < y then acc else b | _, _ => b) v))
  | _, _ => none

end IQE.Engine.FnDev
