/-
  IQE.Engine.Coordinator — executable model of the scatter–gather coordinator of
  `src/distributed/coordinator.rs` as far as FAILURE PROPAGATION is concerned (property C10):

    * Arrow IPC *stream framing* as read by `decode_ipc` (arrow-ipc `StreamReader` / `MessageReader`):
      a stream is a sequence of messages `FFFFFFFF | len:i32le | metadata[len] | body[bodyLength]`
      terminated by the end-of-stream marker `FFFFFFFF 00000000`.  Only the framing is modelled; the
      flatbuffer metadata is an opaque byte string handed to a parameter `parse` (which yields the
      message kind, the row count of a record batch and `bodyLength`), the body is an opaque byte string.
    * `scatter_sql_over_table`: the initiator's own shard runs in-process, every other active shard is
      fetched through the `FragmentTransport`; local failure first, then the remote answers in shard
      order, each `out.map_err(..)?` then `decode_ipc(..).map_err(..)?`.
    * `execute_distributed` / `execute_gathered`: one fan-out per table (gather: tables in plan order,
      `out?` in that order), then the final step on the initiator.

  Bytes are modelled as `Nat` (< 256 on every path the driver feeds).

  Deviation switches (all off = the intended behaviour = the code since /repo commit caf22ad, which applied
  proposed_fixes/C10-fragment-completeness.patch; both on = the code before it, finding C10-F1, fixed):
    * `eofIsEos`            (C10-F1) arrow's `MessageReader::read_meta_len` maps an `UnexpectedEof` while
                            reading the 4-byte prefix of the NEXT message to "end of stream", and nothing
                            after an explicit EOS marker is looked at.  So a body cut at a message boundary
                            (plus up to 3 stray bytes) decodes successfully to the batches before the cut.
    * `ignoreDeclaredRows`  (C10-F1) the coordinator never compares the decoded row count with the row
                            count the peer declared (`x-qe-rows`, the second component of
                            `FragmentTransport::send`'s answer).
-/
namespace IQE.Engine.Coordinator

abbrev Byte := Nat

structure Dev where
  eofIsEos : Bool := false
  ignoreDeclaredRows : Bool := false
deriving DecidableEq, Repr

/-- the code as it was in /repo before commit caf22ad (finding C10-F1) -/
def Dev.legacy : Dev := { eofIsEos := true, ignoreDeclaredRows := true }
/-- all switches off: the intended decoder / coordinator -/
def Dev.fixed : Dev := {}

/-! ## Arrow IPC stream framing -/

/-- continuation marker `0xFFFFFFFF` -/
def CONT : List Byte := [255, 255, 255, 255]

/-- `i32::to_le_bytes` of a non-negative length -/
def le32 (n : Nat) : List Byte := [n % 256, n / 256 % 256, n / 65536 % 256, n / 16777216 % 256]

/-- `u32::from_le_bytes` of exactly four bytes -/
def rd32 : List Byte → Nat
  | [a, b, c, d] => a + 256 * b + 65536 * c + 16777216 * d
  | _ => 0

/-- end-of-stream marker: continuation + zero length -/
def EOS : List Byte := CONT ++ le32 0

inductive Kind where
  | schema
  | dict
  | batch (rows : Nat)
  | other
deriving DecidableEq, Repr

/-- what the decoder needs from a message's flatbuffer metadata -/
structure Hdr where
  bodyLen : Nat
  kind : Kind
deriving DecidableEq, Repr

/-- one framed message: flatbuffer metadata (incl. padding) and body -/
structure Msg where
  md : List Byte
  body : List Byte
deriving DecidableEq, Repr

def frameMsg (m : Msg) : List Byte := CONT ++ (le32 m.md.length ++ (m.md ++ m.body))

def frameMsgs : List Msg → List Byte
  | [] => []
  | m :: ms => frameMsg m ++ frameMsgs ms

/-- the complete stream `StreamWriter::finish` produces -/
def frame (ms : List Msg) : List Byte := frameMsgs ms ++ EOS

/-- `read_exact(n)` on a cursor: the next `n` bytes and the remainder, `none` = UnexpectedEof -/
def splitN (n : Nat) (bs : List Byte) : Option (List Byte × List Byte) :=
  if bs.length < n then none else some (bs.take n, bs.drop n)

inductive Read where
  | eof                                   -- fewer than 4 bytes where the next message should start
  | eos (rest : List Byte)                -- explicit end-of-stream marker
  | msg (m : Msg) (h : Hdr) (rest : List Byte)
  | err
deriving DecidableEq, Repr

/-- the part of `MessageReader::maybe_next` after the metadata length is known:
    metadata, `root_as_message`, body (`len = 0` is the end-of-stream marker) -/
def readBody (parse : List Byte → Option Hdr) (len : Nat) (r2 : List Byte) : Read :=
  if len = 0 then .eos r2
  else if 2147483648 ≤ len then .err            -- negative i32: "Invalid metadata length"
  else
    match splitN len r2 with
    | none => .err
    | some (md, r3) =>
      match parse md with
      | none => .err
      | some h =>
        match splitN h.bodyLen r3 with
        | none => .err
        | some (body, r4) => .msg ⟨md, body⟩ h r4

/-- `MessageReader::maybe_next`: `read_meta_len` (an `UnexpectedEof` on the first four bytes is "end of
    stream"; legacy streams without the continuation marker carry the length in the first four bytes),
    then `readBody`. -/
def readMsg (parse : List Byte → Option Hdr) (bs : List Byte) : Read :=
  match splitN 4 bs with
  | none => .eof
  | some (w, r1) =>
    if w = CONT then
      match splitN 4 r1 with
      | none => .err
      | some (l, r2) => readBody parse (rd32 l) r2
    else readBody parse (rd32 w) r1

/-- the `for b in reader` loop of `decode_ipc` after the schema message; `acc` = record batches so far -/
def decodeLoop (parse : List Byte → Option Hdr) (dev : Dev) : Nat → List Byte → List Msg → Option (List Msg)
  | 0, _, _ => none
  | fuel + 1, bs, acc =>
    match readMsg parse bs with
    | .eof => if dev.eofIsEos then some acc else none
    | .eos rest => if dev.eofIsEos || rest.isEmpty then some acc else none
    | .err => none
    | .msg m h rest =>
      match h.kind with
      | .schema => none                          -- "Expected a record batch, but found a schema"
      | .other => none
      | .dict => decodeLoop parse dev fuel rest acc
      | .batch _ => decodeLoop parse dev fuel rest (acc ++ [m])

/-- `StreamReader::try_new` + the batch loop: `none` = `Err`, `some ms` = the record-batch messages decoded. -/
def decode (parse : List Byte → Option Hdr) (dev : Dev) (bs : List Byte) : Option (List Msg) :=
  match readMsg parse bs with
  | .msg _ h rest =>
    match h.kind with
    | .schema => decodeLoop parse dev (rest.length + 1) rest []
    | _ => none                                   -- "Expected a schema as the first message"
  | _ => none                                     -- "Expected schema message, found empty stream." / io error

def rowsOfMsg (parse : List Byte → Option Hdr) (m : Msg) : Nat :=
  match parse m.md with
  | some ⟨_, .batch r⟩ => r
  | _ => 0

def totalRows (parse : List Byte → Option Hdr) (ms : List Msg) : Nat :=
  (ms.map (rowsOfMsg parse)).sum

/-- record-batch messages of a message list (what a complete decode yields) -/
def batchesOf (parse : List Byte → Option Hdr) (ms : List Msg) : List Msg :=
  ms.filter (fun m => match parse m.md with | some ⟨_, .batch _⟩ => true | _ => false)

/-- the batch row counts `decode_ipc` returns (an empty result is replaced by one zero-row batch) -/
def rowsOut (parse : List Byte → Option Hdr) (ms : List Msg) : List Nat :=
  if ms.isEmpty then [0] else ms.map (rowsOfMsg parse)

/-! ## The minimal flatbuffer reader used by the driver as `parse` (Message → header type, bodyLength,
     RecordBatch.length).  Not used by any theorem: the theorems hold for every `parse`. -/

def byteAt (bs : List Byte) (o : Nat) : Option Nat := bs[o]?

def uAt (bs : List Byte) (o n : Nat) : Option Nat :=
  match n with
  | 0 => some 0
  | n + 1 => do
    let b ← byteAt bs o
    let r ← uAt bs (o + 1) n
    pure (b + 256 * r)

/-- signed little-endian of `n` bytes -/
def iAt (bs : List Byte) (o n : Nat) : Option Int := do
  let u ← uAt bs o n
  pure (if u < 2 ^ (8 * n - 1) then (u : Int) else (u : Int) - (2 ^ (8 * n) : Nat))

/-- position of field `k` of the table at `tbl` (0 = absent) -/
def fbField (bs : List Byte) (tbl k : Nat) : Option Nat := do
  let soff ← iAt bs tbl 4
  let vtI : Int := (tbl : Int) - soff
  if vtI < 0 then none else
  let vt := vtI.toNat
  let vsz ← uAt bs vt 2
  if 4 + 2 * k + 2 ≤ vsz then do
    let off ← uAt bs (vt + 4 + 2 * k) 2
    pure (if off = 0 then 0 else tbl + off)
  else pure 0

/-- `Message { version, header_type, header, bodyLength, custom_metadata }`,
    `RecordBatch { length, nodes, buffers, .. }`; MessageHeader: 1 Schema, 2 DictionaryBatch, 3 RecordBatch -/
def fbHdr (md : List Byte) : Option Hdr := do
  let tbl ← uAt md 0 4
  let pType ← fbField md tbl 1
  let pHdr ← fbField md tbl 2
  let pBody ← fbField md tbl 3
  let ty ← if pType = 0 then some 0 else byteAt md pType
  let bodyLenI ← if pBody = 0 then some (0 : Int) else iAt md pBody 8
  if bodyLenI < 0 then none else
  let bodyLen := bodyLenI.toNat
  match ty with
  | 1 => pure ⟨bodyLen, .schema⟩
  | 2 => pure ⟨bodyLen, .dict⟩
  | 3 => do
    if pHdr = 0 then none else
    let rel ← uAt md pHdr 4
    let rb := pHdr + rel
    let pLen ← fbField md rb 0
    let len ← if pLen = 0 then some (0 : Int) else iAt md pLen 8
    if len < 0 then none else pure ⟨bodyLen, .batch len.toNat⟩
  | _ => pure ⟨bodyLen, .other⟩

/-! ## Per-shard outcomes and the coordinator -/

/-- what `FragmentTransport::send` returned for one remote shard -/
inductive Wire where
  | resp (body : List Byte) (declaredRows : Nat)
  | transportErr
  | httpErr (status : Nat)
deriving DecidableEq, Repr

/-- the per-shard outcome the coordinator acts on; `ok` carries the complete decoded payload -/
inductive Outcome (ρ : Type) where
  | ok (payload : ρ)
  | transportErr
  | httpErr (status : Nat)
  | badPayload
deriving DecidableEq, Repr

def Outcome.isOk {ρ : Type} : Outcome ρ → Bool
  | .ok _ => true
  | _ => false

/-- decode step of the coordinator on one transport answer -/
def classify (parse : List Byte → Option Hdr) (dev : Dev) : Wire → Outcome (List Msg)
  | .transportErr => .transportErr
  | .httpErr s => .httpErr s
  | .resp body declared =>
    match decode parse dev body with
    | none => .badPayload
    | some ms =>
      if !dev.ignoreDeclaredRows && totalRows parse ms != declared then .badPayload else .ok ms

inductive ErrClass where
  | localFailed
  | transport
  | http (status : Nat)
  | payload
deriving DecidableEq, Repr

inductive Result (ρ : Type) where
  | ok (parts : ρ)
  | error (shard : Nat) (c : ErrClass)
deriving DecidableEq, Repr

/-- the `for (i, out, elapsed) in remote_out` loop: first failure in shard order wins -/
def collectRemote {ρ : Type} : List (Nat × Outcome ρ) → List ρ → Result (List ρ)
  | [], acc => .ok acc
  | (i, o) :: rest, acc =>
    match o with
    | .ok p => collectRemote rest (acc ++ [p])
    | .transportErr => .error i .transport
    | .httpErr s => .error i (.http s)
    | .badPayload => .error i .payload

/-- One fan-out (`scatter_sql_over_table`).
    `loc` = the initiator's own active shard (index, `none` = `execute_fragment` failed);
    `remote` = the other ACTIVE shards in ascending shard order with their outcomes;
    `emptyLocal` = the local run over an empty shard, used only when no shard is active. -/
def scatter {ρ : Type} (emptyLocal : Option ρ) (loc : Option (Nat × Option ρ)) (remote : List (Nat × Outcome ρ)) :
    Result (List ρ) :=
  match loc, remote with
  | none, [] => match emptyLocal with | some p => .ok [p] | none => .error 0 .localFailed
  | some (i, none), _ => .error i .localFailed
  | some (_, some p), _ => collectRemote remote [p]
  | none, _ => collectRemote remote []

structure TableRun (ρ : Type) where
  emptyLocal : Option ρ
  loc : Option (Nat × Option ρ)
  remote : List (Nat × Outcome ρ)

inductive QResult (ρ σ : Type) where
  | ok (answer : σ)
  | fragmentError (table : Nat) (shard : Nat) (c : ErrClass)
  | finalError
deriving DecidableEq, Repr

/-- `for (t, out) in plan.tables.iter().zip(gathers) { let (batches, contrib) = out?; .. }` -/
def gatherAll {ρ : Type} : List (TableRun ρ) → Nat → List (List ρ) → Except (Nat × Nat × ErrClass) (List (List ρ))
  | [], _, acc => .ok acc
  | t :: ts, pos, acc =>
    match scatter t.emptyLocal t.loc t.remote with
    | .error i c => .error (pos, i, c)
    | .ok parts => gatherAll ts (pos + 1) (acc ++ [parts])

/-- `execute_distributed` (one table, `fin` = merge) and `execute_gathered` (several, `fin` = the original
    statement over the gathered tables).  `fin = none` is a failure of the final local step. -/
def runQuery {ρ σ : Type} (tables : List (TableRun ρ)) (fin : List (List ρ) → Option σ) : QResult ρ σ :=
  match gatherAll tables 0 [] with
  | .error (t, i, c) => .fragmentError t i c
  | .ok parts => match fin parts with | some a => .ok a | none => .finalError

/-- every payload an active shard of the table holds, in coordinator order (own shard first) -/
def TableRun.allParts {ρ : Type} (t : TableRun ρ) : List (Outcome ρ) :=
  (match t.loc with | some (_, some p) => [Outcome.ok p] | some (_, none) => [Outcome.badPayload] | none => []) ++ t.remote.map (·.2)

end IQE.Engine.Coordinator
