/-
  IQE.Engine.Tpch — hand-written executable model of the key columns of src/tpch/generator.rs and of
  `TpchRowCounts::for_scale_factor` (src/tpch/schema.rs).
  The generator's only state is its RNG; the model takes the RNG as an ARBITRARY stream `draw : Nat → Nat` (k-th raw output)
  and `sample lo hi u` = the value `gen_range(lo..=hi)` derives from a raw output (some value of the range; rand's actual
  mapping is not modelled — only that it lands in the range, which the correspondence checks).
  Deviation switches = defects of the unchanged tree (known_findings C39-F1, C39-F2).
-/
namespace IQE.Engine.Tpch

structure Dev where
  /-- [C39-F1] `o_custkey` is drawn from `1 ..= floor(1.5 · customers)`: a third of the orders reference no customer. -/
  custkeyOneAndHalf : Bool := false
  /-- [C39-F2] `l_partkey`/`l_suppkey` are derived from the lineitem row index instead of from a partsupp row, so the
      composite key misses partsupp whenever `lcm(parts, suppliers) > partsupp`. -/
  lineitemIgnoresPartsupp : Bool := false
deriving Repr, DecidableEq

structure Counts where
  part : Nat
  supplier : Nat
  partsupp : Nat
  customer : Nat
  orders : Nat
  lineitem : Nat
deriving Repr, DecidableEq

/-- TPC-H rows per unit of scale factor -/
def ratioPart := 200000
def ratioSupplier := 10000
def ratioPartsupp := 800000
def ratioCustomer := 150000
def ratioOrders := 1500000
def ratioLineitem := 6000000

/-- `(ratio * sf) as usize` for the scale factor `num/den` (exact rational; the f64 product is exact on the tested values) -/
def scaled (ratio num den : Nat) : Nat := ratio * num / den
/-- `TpchRowCounts::for_scale_factor` -/
def rowCounts (num den : Nat) : Counts :=
  { part := scaled ratioPart num den, supplier := scaled ratioSupplier num den, partsupp := scaled ratioPartsupp num den,
    customer := scaled ratioCustomer num den, orders := scaled ratioOrders num den, lineitem := scaled ratioLineitem num den }

/-- `rng.gen_range(lo..=hi)` on raw output `u` -/
def sample (lo hi u : Nat) : Nat := lo + u % (hi - lo + 1)

/-- primary-key columns: `(i + 1)` for `i in 0..count` -/
def pkColumn (count : Nat) : List Nat := (List.range count).map (· + 1)

/-- `ps_partkey`, `ps_suppkey` of partsupp row `j` -/
def psKeys (c : Counts) (j : Nat) : Nat × Nat := (j % c.part + 1, j % c.supplier + 1)
def partsuppKeys (c : Counts) : List (Nat × Nat) := (List.range c.partsupp).map (psKeys c)

/-- `l_partkey`, `l_suppkey` of lineitem row `i`; switched off, the row references partsupp row `i % partsupp` -/
def lineKeys (dev : Dev) (c : Counts) (i : Nat) : Nat × Nat :=
  if dev.lineitemIgnoresPartsupp then (i % c.part + 1, i % c.supplier + 1) else psKeys c (i % c.partsupp)

/-- upper end of the `o_custkey` range: `(cust_count as f64 * 1.5) as i64` -/
def custkeyRange (dev : Dev) (c : Counts) : Nat := if dev.custkeyOneAndHalf then 3 * c.customer / 2 else c.customer
/-- `o_custkey` from a raw output -/
def oCustkey (dev : Dev) (c : Counts) (u : Nat) : Nat := sample 1 (custkeyRange dev c) u

/-- `s_nationkey` / `c_nationkey`: `gen_range(0..25)` -/
def nationkey (u : Nat) : Nat := sample 0 24 u

/-- `(l_orderkey, l_linenumber)` of lineitem row `i`: `flip i` = the `gen_bool(0.25)` drawn at row `i > 0`. -/
def orderLine (orders : Nat) (flip : Nat → Bool) : Nat → Nat × Nat
  | 0 => (1, 1)
  | i + 1 =>
    let p := orderLine orders flip i
    if flip (i + 1) then (p.1 % orders + 1, 1) else (p.1, p.2 + 1)

/-- the static tables -/
def nationRegion : List (Nat × Nat) :=
  [(0,0),(1,1),(2,1),(3,1),(4,4),(5,0),(6,3),(7,3),(8,2),(9,2),(10,4),(11,4),(12,2),(13,4),(14,0),(15,0),(16,0),(17,1),(18,2),
   (19,3),(20,4),(21,2),(22,3),(23,3),(24,1)]
def regionKeys : List Nat := [0, 1, 2, 3, 4]

/-- All key columns of one generation, as a function of the counts and the streams only. -/
structure Keys where
  partPk : List Nat
  supplierPk : List Nat
  customerPk : List Nat
  ordersPk : List Nat
  supplierNation : List Nat
  customerNation : List Nat
  partsupp : List (Nat × Nat)
  oCustkey : List Nat
  lineOrder : List (Nat × Nat)
  lineKeys : List (Nat × Nat)
deriving Repr, DecidableEq

/-- `draw` is split by consumer for readability (`uS`, `uC`, `uO`: raw outputs behind the nation keys and `o_custkey`). -/
def generate (dev : Dev) (c : Counts) (uS uC uO : Nat → Nat) (flip : Nat → Bool) : Keys :=
  { partPk := pkColumn c.part, supplierPk := pkColumn c.supplier, customerPk := pkColumn c.customer, ordersPk := pkColumn c.orders,
    supplierNation := (List.range c.supplier).map fun i => nationkey (uS i),
    customerNation := (List.range c.customer).map fun i => nationkey (uC i),
    partsupp := partsuppKeys c,
    oCustkey := (List.range c.orders).map fun i => oCustkey dev c (uO i),
    lineOrder := (List.range c.lineitem).map (orderLine c.orders flip),
    lineKeys := (List.range c.lineitem).map (lineKeys dev c) }

end IQE.Engine.Tpch
