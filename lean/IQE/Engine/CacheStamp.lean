/-
  IQE.Engine.CacheStamp — abstract model of a stamp-validated cache in front of a file system
  (src/storage/metadata_cache.rs `cached_metadata` / `cached_reader_builder[_with_schema]`,
   src/storage/ipc_cache.rs `is_fresh` / `stamp_value` / `ensure_sidecar`, `sidecar_dict_cols`).

  File system: `path ↦ file`, a file being (content, len, mtime in ns). A cache entry is
  `path ↦ (stamp, derived content)`: the stamp of the file the entry was computed from, and what was computed.
  `query p` mirrors every one of the Rust caches: read the current file's stamp; if an entry with an EQUAL stamp
  exists, serve the cached content without looking at the file; otherwise derive from the current file and replace
  the entry. `write p f` changes the file system only (no cache is told).

  `stamp : File → σ` is the parameter: the code uses
    * footer cache:   `mtime` (SystemTime, ns)                      — `stampFooter`
    * IPC sidecar:    `"v2:{len}:{mtime as whole seconds}"`          — `stampSidecar`
    * `sidecar_dict_cols`, `ParquetTable::stats_cache`: nothing (path / provider identity only) — `stampNone`
-/
namespace IQE.Engine.CacheStamp

structure File where
  content : Nat      -- identity of the bytes (two files with different bytes have different `content`)
  len : Nat
  mtimeNs : Nat
deriving Repr, DecidableEq

abbrev Path := Nat

inductive Op where
  | write (p : Path) (f : File)
  | query (p : Path)
deriving Repr, DecidableEq

structure State (σ : Type) where
  fs : Path → Option File
  cache : Path → Option (σ × Nat)

def State.init {σ : Type} : State σ := { fs := fun _ => none, cache := fun _ => none }

def upd {α : Type} (m : Path → Option α) (p : Path) (v : α) : Path → Option α := fun q => if q = p then some v else m q

/-- One step; a query also yields what was served (`none` when the path does not exist). -/
def step {σ : Type} [DecidableEq σ] (stamp : File → σ) (s : State σ) : Op → State σ × Option Nat
  | .write p f => ({ s with fs := upd s.fs p f }, none)
  | .query p =>
    match s.fs p with
    | none => (s, none)
    | some f =>
      match s.cache p with
      | some (st, c) =>
        if st = stamp f then (s, some c)
        else ({ s with cache := upd s.cache p (stamp f, f.content) }, some f.content)
      | none => ({ s with cache := upd s.cache p (stamp f, f.content) }, some f.content)

/-- Run a history from a state: per op, what was served. -/
def run {σ : Type} [DecidableEq σ] (stamp : File → σ) : State σ → List Op → List (Option Nat)
  | _, [] => []
  | s, o :: rest => (step stamp s o).2 :: run stamp (step stamp s o).1 rest

/-- the files ever written to `p` in a history -/
def versions (p : Path) : List Op → List File
  | [] => []
  | .write q f :: rest => if q = p then f :: versions p rest else versions p rest
  | .query _ :: rest => versions p rest

/-- the stamp separates the versions of every path: equal stamp ⇒ equal content -/
def Separates {σ : Type} (stamp : File → σ) (h : List Op) : Prop :=
  ∀ p f g, f ∈ versions p h → g ∈ versions p h → stamp f = stamp g → f.content = g.content

/-- the stamps of the code -/
def stampFooter (f : File) : Nat := f.mtimeNs
def stampSidecar (f : File) : Nat × Nat := (f.len, f.mtimeNs / 1000000000)
def stampNone (_ : File) : Unit := ()
/-- a sound stamp: the content identity itself (e.g. a content hash), or any injective image of it -/
def stampContent (f : File) : Nat := f.content

/-- the answers a cache-free reader gives: the current content at each query -/
def truth : (Path → Option File) → List Op → List (Option Nat)
  | _, [] => []
  | fs, .write p f :: rest => none :: truth (upd fs p f) rest
  | fs, .query p :: rest => (fs p).map (·.content) :: truth fs rest

end IQE.Engine.CacheStamp
