/-
  IQE.Engine.PlanGraph — reading a join graph and a join tree off an exported plan (property C32).

  The *join region* of a plan is the topmost maximal subtree made of Inner/Cross `Join` nodes and `Filter` nodes
  sitting directly above them — exactly what `JoinReorder::collect_relations_and_conditions` flattens
  (src/optimizer/rules/join_reorder.rs).  Everything below is a *relation* (a leaf), named by its alias or, failing
  that, by the table of the scan under it.  Equality predicates are
    * the ON pairs of the region's joins,
    * `a = b` conjuncts of the joins' filters and of the Filter nodes of the region,
  restricted to those whose two sides are plain columns of two *different* relations; a pair of packed keys
  `CAST(a1)*K + CAST(a2) = CAST(b1)*K + CAST(b2)` (what `PackedJoinKeys` leaves behind, same `K` on both sides)
  counts as the two predicates `a1 = b1`, `a2 = b2`.  Columns are attributed to relations with the engine's own
  resolution order (`PlanWf.resolve`) over the concatenated leaf schemas in tree order.
-/
import IQE.Engine.PlanWf
import IQE.Engine.JoinGraph
namespace IQE.Engine.PlanGraph
open IQE.Engine.PlanWf IQE.Engine.JoinGraph

def isFlat : JT → Bool
  | .inner | .cross => true
  | _ => false

/-- AND-conjuncts of a predicate -/
def conjuncts : PExpr → List PExpr
  | .op kind tag args =>
    if kind == "bin" && tag == "and" then
      match args with
      | [a, b] => conjuncts a ++ conjuncts b
      | _ => [.op kind tag args]
    else [.op kind tag args]
  | e => [e]

/-- `a = b` conjuncts as pairs -/
def eqPairs (es : List PExpr) : List (PExpr × PExpr) :=
  (es.flatMap conjuncts).filterMap fun e =>
    match e with
    | .op "bin" "eq" [a, b] => some (a, b)
    | _ => none

def joinUnderFilters : Plan → Bool
  | .filter _ i => joinUnderFilters i
  | .join jt _ _ _ _ _ _ => isFlat jt
  | _ => false

/-- the root of the topmost join region, looking through the unary nodes above it -/
def regionRoot : Plan → Option Plan
  | .filter pr i => if joinUnderFilters i then some (.filter pr i) else regionRoot i
  | .join jt a b c d l r => if isFlat jt then some (.join jt a b c d l r) else none
  | .project _ _ i => regionRoot i
  | .agg _ _ _ i => regionRoot i
  | .sort _ _ i => regionRoot i
  | .limit _ _ i => regionRoot i
  | .distinct i => regionRoot i
  | .alias _ _ _ i => regionRoot i
  | .window _ _ _ i => regionRoot i
  | _ => none

/-- region tree with sub-plans as leaves and candidate equality pairs on the nodes -/
inductive RTree where
  | leaf (p : Plan)
  | node (cross : Bool) (pairs : List (PExpr × PExpr)) (l r : RTree)
  | filt (pairs : List (PExpr × PExpr)) (t : RTree)
deriving Inhabited

def toRTree : Plan → RTree
  | .join jt onL onR filter s l r =>
    if isFlat jt then .node (jt == .cross) (onL.zip onR ++ eqPairs filter) (toRTree l) (toRTree r)
    else .leaf (.join jt onL onR filter s l r)
  | .filter pr i =>
    if joinUnderFilters i then .filt (eqPairs [pr]) (toRTree i) else .leaf (.filter pr i)
  | p => .leaf p

def RTree.leaves : RTree → List Plan
  | .leaf p => [p]
  | .node _ _ l r => l.leaves ++ r.leaves
  | .filt _ t => t.leaves

/-- name of a relation: its alias, else the table of the scan below pass-through nodes -/
def leafName : Plan → Option String
  | .alias n _ _ _ => some n
  | .scan t _ _ _ => some t
  | .filter _ i => leafName i
  | .project _ _ i => leafName i
  | .limit _ _ i => leafName i
  | .sort _ _ i => leafName i
  | .distinct i => leafName i
  | _ => none

def indexOf? [BEq α] (x : α) : List α → Option Nat
  | [] => none
  | y :: ys => if y == x then some 0 else (indexOf? x ys).map (· + 1)

/-- the concatenated leaf schemas, each field tagged with the index of its leaf -/
def taggedSchema (leaves : List Plan) : List (Field × Nat) :=
  (leaves.zipIdx).flatMap fun (p, i) => (outSchema p).map fun f => (f, i)

/-- which leaf a plain column belongs to (engine resolution order), with the field's bare name -/
def colLeaf (ts : List (Field × Nat)) : PExpr → Option (Nat × String)
  | .col rel name =>
    match resolve (ts.map (·.1)) rel name with
    | some i => match ts[i]? with
      | some (f, leaf) => some (leaf, f.name)
      | none => none
    | none => none
  | _ => none

def stripCast : PExpr → PExpr
  | .op "cast" _ [e] => e
  | e => e

/-- `CAST(a)*K + CAST(b)` → (a, b, K) -/
def unpack : PExpr → Option (PExpr × PExpr × Int)
  | .op "bin" "add" [.op "bin" "mul" [a, .lit _ (.int k)], b] => some (stripCast a, stripCast b, k)
  | _ => none

structure NamedPred where
  la : Nat            -- leaf index (position in this tree's leaf list)
  ca : String
  lb : Nat
  cb : String
deriving Repr, Inhabited

def pairPreds (ts : List (Field × Nat)) (a b : PExpr) : List NamedPred :=
  let one (x y : PExpr) : List NamedPred :=
    match colLeaf ts x, colLeaf ts y with
    | some (lx, cx), some (ly, cy) => if lx != ly then [{ la := lx, ca := cx, lb := ly, cb := cy }] else []
    | _, _ => []
  match unpack a, unpack b with
  | some (a1, a2, k), some (b1, b2, k') => if k == k' then one a1 b1 ++ one a2 b2 else []
  | _, _ => one a b

/-- Tree over leaf *positions* with named columns; `crossNodes` counts Cross-typed joins -/
inductive NTree where
  | leaf (i : Nat)
  | node (cross : Bool) (ps : List NamedPred) (l r : NTree)
  | filt (ps : List NamedPred) (t : NTree)
deriving Inhabited

def toNTree (ts : List (Field × Nat)) : RTree → Nat → NTree × Nat
  | .leaf _, n => (.leaf n, n + 1)
  | .node c pairs l r, n =>
    let (lt, n1) := toNTree ts l n
    let (rt, n2) := toNTree ts r n1
    (.node c (pairs.flatMap fun (a, b) => pairPreds ts a b) lt rt, n2)
  | .filt pairs t, n =>
    let (tt, n1) := toNTree ts t n
    (.filt (pairs.flatMap fun (a, b) => pairPreds ts a b) tt, n1)

structure Extracted where
  names : List String           -- relation names in tree order
  tree : NTree
  projLeaf : List Bool := []    -- per relation: is the root of its sub-plan a `Project` node?
deriving Inhabited

def isProjectRoot : Plan → Bool
  | .project _ _ _ => true
  | _ => false

/-- read the join region of a plan; `none`: the plan has no inner/cross join region, or a leaf has no name -/
def extract (p : Plan) : Option Extracted :=
  match regionRoot p with
  | none => none
  | some root =>
    let rt := toRTree root
    let leaves := rt.leaves
    match leaves.mapM leafName with
    | none => none
    | some names => some { names := names, tree := (toNTree (taggedSchema leaves) rt 0).1, projLeaf := leaves.map isProjectRoot }

def NTree.crossCount : NTree → Nat
  | .leaf _ => 0
  | .node c _ l r => (if c then 1 else 0) + l.crossCount + r.crossCount
  | .filt _ t => t.crossCount

/-- number of join nodes whose ON list yields no equality predicate at all -/
def NTree.emptyOnCount : NTree → Nat
  | .leaf _ => 0
  | .node _ ps l r => (if ps.isEmpty then 1 else 0) + l.emptyOnCount + r.emptyOnCount
  | .filt _ t => t.emptyOnCount

/-- rename leaf positions to reference relation ids and column names to ids.
    `none` if a relation of this tree is not among the reference names. -/
def toTree (ref : List String) (cols : List String) (names : List String) : NTree → Option Tree
  | .leaf i => do
    let n ← names[i]?
    let id ← indexOf? n ref
    pure (.leaf id)
  | .node _ ps l r => do
    let ps' ← ps.mapM (conv ref cols names)
    pure (.node ps' (← toTree ref cols names l) (← toTree ref cols names r))
  | .filt ps t => do
    let ps' ← ps.mapM (conv ref cols names)
    pure (.filt ps' (← toTree ref cols names t))
where
  conv (ref cols names : List String) (p : NamedPred) : Option Pred := do
    let a ← indexOf? (← names[p.la]?) ref
    let b ← indexOf? (← names[p.lb]?) ref
    let ca := (indexOf? p.ca cols).getD (cols.length + p.ca.length)
    let cb := (indexOf? p.cb cols).getD (cols.length + p.cb.length)
    pure { a := a, ca := ca, b := b, cb := cb }

def NTree.colNames : NTree → List String
  | .leaf _ => []
  | .node _ ps l r => ps.flatMap (fun p => [p.ca, p.cb]) ++ l.colNames ++ r.colNames
  | .filt ps t => ps.flatMap (fun p => [p.ca, p.cb]) ++ t.colNames

end IQE.Engine.PlanGraph
