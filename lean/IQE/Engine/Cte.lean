/-
  IQE.Engine.Cte — how the engine resolves WITH names (src/planner/binder.rs `bind_ctes` / `bind_table_factor`,
  src/physical/planner.rs `materialize_shared_ctes` / `cte_name_key` / arm `LogicalPlan::SubqueryAlias`).

  The reference semantics (`Spec.run`) works on RESOLVED plans: `cteRef i` is a position of the lexical CTE stack.
  Name resolution itself is therefore modelled here, on *named* statements `NQ`:

  * `lexPlan`    the resolved plan the SQL text means (innermost enclosing definition; a definition sees its earlier
                 siblings) — this is what harness/src/sqlgen serialises as `plan`;
  * `bindL`      the same lexical resolution, but every reference is replaced by (a copy of) its definition, tagged with
                 the name, which is the SHAPE of the binder's output (`SubqueryAlias{cte_name, input: Arc::clone(def)}`);
  * `bindE dev`  what the binder does: ONE map name → bound definition for the whole statement
                 (`self.ctes.insert` on definition; nothing is ever removed or restored when a WITH scope ends) —
                 deviation switch `scopeNeverRestored`; with the switch off the map is restored after each WITH scope;
  * `cacheE dev` what the physical planner does: every name referenced at least twice in the bound plan is materialised
                 ONCE, from ONE of the nodes tagged with that name ("widest schema, first in traversal order" after
                 optimisation — not reproducible here, so the choice is the parameter `pick`), and every node tagged with
                 that name reads the cached rows — deviation switch `cacheByName` (the cache key is the name alone).
  `enginePlan dev tw pick` erases the tags again: a CTE-free `Query` whose `Spec.run` is the engine's answer.
  Both deviations were repaired by /repo 91e8987 (finding C28-F1, fixed); `today` keeps the name of the tree the witnesses were taken from.

  `subst` / `inline` are the plan-level substitution used by the theorem "materialising a shared CTE = evaluating each
  reference separately" (IQE.Props.C28).
-/
import IQE.Spec.Query
namespace IQE.Engine.Cte
open IQE IQE.Spec

/-! ### substitution of CTE references by definitions, on resolved plans -/

mutual
/-- replace `cteRef (n + k)` by `σ[k]` (references below `n` — to an enclosing stack — and beyond `σ` are kept) -/
def subst (n : Nat) (σ : List Query) : Query → Query
  | .scan t => .scan t
  | .cteRef i => if i < n then .cteRef i else (σ[i - n]?).getD (.cteRef i)
  | .values rows => .values rows
  | .filter subs p q => .filter (substL n σ subs) p (subst n σ q)
  | .project subs es q => .project (substL n σ subs) es (subst n σ q)
  | .join jt lw rw subs on l r => .join jt lw rw (substL n σ subs) on (subst n σ l) (subst n σ r)
  | .agg keys aggs q => .agg keys aggs (subst n σ q)
  | .groupingSets keys sets aggs q => .groupingSets keys sets aggs (subst n σ q)
  | .distinct q => .distinct (subst n σ q)
  | .sort keys q => .sort keys (subst n σ q)
  | .limit s f q => .limit s f (subst n σ q)
  | .setop op all l r => .setop op all (subst n σ l) (subst n σ r)
  | .window calls q => .window calls (subst n σ q)
  | .withCte defs body => .withCte (substL n σ defs) (subst n σ body)   -- nested WITH: outside the proved fragment (`noWith`)
def substL (n : Nat) (σ : List Query) : List Query → List Query
  | [] => []
  | q :: qs => subst n σ q :: substL n σ qs
end

/-- the definitions with their references to earlier siblings substituted, left to right (`σ` = those already done) -/
def inlineDefs (n : Nat) (σ : List Query) : List Query → List Query
  | [] => σ
  | d :: ds => inlineDefs n (σ ++ [subst n σ d]) ds

/-- `WITH defs body` (standing under a stack of `n` tables) with every reference replaced by its definition -/
def inline (n : Nat) (defs : List Query) (body : Query) : Query := subst n (inlineDefs n [] defs) body

mutual
/-- no WITH node anywhere (subqueries included) -/
def noWith : Query → Bool
  | .scan _ | .cteRef _ | .values _ => true
  | .filter subs _ q | .project subs _ q => noWithL subs && noWith q
  | .join _ _ _ subs _ l r => noWithL subs && noWith l && noWith r
  | .agg _ _ q | .groupingSets _ _ _ q | .distinct q | .sort _ q | .limit _ _ q | .window _ q => noWith q
  | .setop _ _ l r => noWith l && noWith r
  | .withCte _ _ => false
def noWithL : List Query → Bool
  | [] => true
  | q :: qs => noWith q && noWithL qs
end

/-! ### named statements -/

/-- A statement with its WITH names.  `node sk kids`: any operator other than a WITH or a CTE reference — the plan node `sk`
    with its children (inputs first, then the subqueries of its expressions: the binder's traversal order) replaced by `kids`. -/
inductive NQ where
  | ref (name : String)
  | node (sk : Query) (kids : List NQ)
  | withN (names : List String) (defs : List NQ) (body : NQ)
deriving Inhabited

/-- A bound statement: references are gone, each replaced by a copy of a definition tagged with the name it was bound under. -/
inductive BQ where
  | alias (name : String) (input : BQ)
  | node (sk : Query) (kids : List BQ)
deriving Inhabited

/-- children of a plan node in binder order: inputs, then subqueries -/
def kidsOf : Query → List Query
  | .filter subs _ q | .project subs _ q => q :: subs
  | .join _ _ _ subs _ l r => l :: r :: subs
  | .agg _ _ q | .groupingSets _ _ _ q | .distinct q | .sort _ q | .limit _ _ q | .window _ q => [q]
  | .setop _ _ l r => [l, r]
  | _ => []

/-- the node with its children replaced -/
def setKids : Query → List Query → Query
  | .filter _ p _, k :: ks => .filter ks p k
  | .project _ es _, k :: ks => .project ks es k
  | .join jt lw rw _ on _ _, l :: r :: ks => .join jt lw rw ks on l r
  | .agg keys aggs _, [k] => .agg keys aggs k
  | .groupingSets keys sets aggs _, [k] => .groupingSets keys sets aggs k
  | .distinct _, [k] => .distinct k
  | .sort keys _, [k] => .sort keys k
  | .limit s f _, [k] => .limit s f k
  | .window calls _, [k] => .window calls k
  | .setop op all _ _, [l, r] => .setop op all l r
  | q, _ => q

mutual
/-- forget the tags: a CTE-free plan -/
def BQ.erase : BQ → Query
  | .alias _ x => x.erase
  | .node sk kids => setKids sk (eraseL kids)
def eraseL : List BQ → List Query
  | [] => []
  | b :: bs => b.erase :: eraseL bs
end

/-- position of the LAST occurrence of `n` (the innermost definition of that name) -/
def idxLast (names : List String) (n : String) : Option Nat :=
  match names.reverse.idxOf? n with
  | some k => some (names.length - 1 - k)
  | none => none

mutual
/-- the resolved plan the text means, standing under the lexical name stack `names` (innermost last) -/
def lexPlan (names : List String) : NQ → Query
  | .ref n => .cteRef ((idxLast names n).getD names.length)          -- unbound: an index beyond the stack (an error in `Spec.run`)
  | .node sk kids => setKids sk (lexPlanL names kids)
  | .withN ns defs body => .withCte (lexDefs names ns defs) (lexPlan (names ++ ns.take (lenNQ defs)) body)
def lexPlanL (names : List String) : List NQ → List Query
  | [] => []
  | k :: ks => lexPlan names k :: lexPlanL names ks
def lexDefs (names : List String) : List String → List NQ → List Query
  | n :: ns, d :: ds => lexPlan names d :: lexDefs (names ++ [n]) ns ds
  | _, _ => []
def lenNQ : List NQ → Nat
  | [] => 0
  | _ :: ds => lenNQ ds + 1
end

/-- name → bound definition, newest first -/
abbrev Scope := List (String × BQ)

/-- a reference to a name nothing is bound to (the binder then looks in the catalog; sqlgen never emits one) -/
def unbound : BQ := .node (.cteRef 0) []

def bindRef (m : Scope) (n : String) : BQ :=
  match m.lookup n with
  | some b => .alias n b
  | none => unbound

mutual
/-- lexical resolution: each reference becomes a tagged copy of the innermost enclosing definition of its name -/
def bindL (σ : Scope) : NQ → BQ
  | .ref n => bindRef σ n
  | .node sk kids => .node sk (bindLL σ kids)
  | .withN ns defs body => bindL (bindLDefs σ ns defs) body
def bindLL (σ : Scope) : List NQ → List BQ
  | [] => []
  | k :: ks => bindL σ k :: bindLL σ ks
/-- the scope extended by the definitions, left to right -/
def bindLDefs (σ : Scope) : List String → List NQ → Scope
  | n :: ns, d :: ds => bindLDefs ((n, bindL σ d) :: σ) ns ds
  | _, _ => σ
end

structure Dev where
  /-- binder: the name map is global to the statement and never restored at the end of a WITH scope -/
  scopeNeverRestored : Bool := false
  /-- planner: one materialisation per NAME (≥ 2 references), read by every node tagged with that name -/
  cacheByName : Bool := false
deriving DecidableEq, Repr, Inhabited

/-- the tree before /repo 91e8987 ("fix: WITH names are lexically scoped and a re-used name gets its own materialisation");
    the repaired binder saves / restores the map around every WITH and tags each definition uniquely: `Dev` with both switches off -/
def today : Dev := { scopeNeverRestored := true, cacheByName := true }

mutual
/-- the binder: the name map is threaded through the statement in traversal order -/
def bindE (dev : Dev) : NQ → Scope → BQ × Scope
  | .ref n, m => (bindRef m n, m)
  | .node sk kids, m => let r := bindEL dev kids m; (.node sk r.1, r.2)
  | .withN ns defs body, m =>
    let r := bindE dev body (bindEDefs dev ns defs m)
    (r.1, if dev.scopeNeverRestored then r.2 else m)
def bindEL (dev : Dev) : List NQ → Scope → List BQ × Scope
  | [], m => ([], m)
  | k :: ks, m =>
    let r := bindE dev k m
    let rs := bindEL dev ks r.2
    (r.1 :: rs.1, rs.2)
def bindEDefs (dev : Dev) : List String → List NQ → Scope → Scope
  | n :: ns, d :: ds, m =>
    let r := bindE dev d m
    bindEDefs dev ns ds ((n, r.1) :: r.2)
  | _, _, m => m
end

mutual
/-- every tagged node of a bound plan (those inside tagged copies included: `count_cte_refs` descends into `node.input`) -/
def BQ.aliases : BQ → List (String × BQ)
  | .alias n x => (n, x) :: x.aliases
  | .node _ kids => aliasesL kids
def aliasesL : List BQ → List (String × BQ)
  | [] => []
  | b :: bs => b.aliases ++ aliasesL bs
end

/-- the candidate plans for materialising `n`: the inputs of all nodes tagged `n`, in traversal order -/
def cands (all : List (String × BQ)) (n : String) : List BQ := (all.filter (fun p => p.1 == n)).map (·.2)

/-- number of output columns of a CTE-free plan (`tw` = widths of the catalog's tables) -/
def widthOf (tw : List Nat) : Query → Nat
  | .scan t => tw.getD t 0
  | .cteRef _ => 0
  | .values rows => (rows.headD []).length
  | .filter _ _ q => widthOf tw q
  | .project _ es _ => es.length
  | .join jt lw rw _ _ _ _ => match jt with | .semi | .anti => lw | _ => lw + rw
  | .agg keys aggs _ => keys.length + aggs.length
  | .groupingSets keys _ aggs _ => keys.length + aggs.length + 1
  | .distinct q => widthOf tw q
  | .sort _ q => widthOf tw q
  | .limit _ _ q => widthOf tw q
  | .setop _ _ l _ => widthOf tw l
  | .window calls q => widthOf tw q + calls.length
  | .withCte _ body => widthOf tw body

/-- A consumer bound to a definition of `k` columns reads the materialisation `c` (of `w` columns) BY COLUMN NAME.  Where the
    cached definition spells its first columns like the expected one (the shadow statements of the generator, A.16) that is
    the prefix of `k` columns; a narrower materialisation makes the statement fail ("column not found"), as does this plan. -/
def trimTo (k w : Nat) (c : BQ) : BQ :=
  if w = k then c else .node (.project [] ((List.range k).map .col) (.scan 0)) [c]

mutual
/-- every node tagged with a name that occurs at least twice reads the one materialisation of that name -/
def cacheSub (tw : List Nat) (all : List (String × BQ)) (pick : String → Nat) : BQ → BQ
  | .alias n x =>
    if (cands all n).length ≥ 2 then
      let c := ((cands all n)[pick n]?).getD x
      .alias n (trimTo (widthOf tw x.erase) (widthOf tw c.erase) c)
    else .alias n (cacheSub tw all pick x)
  | .node sk kids => .node sk (cacheSubL tw all pick kids)
def cacheSubL (tw : List Nat) (all : List (String × BQ)) (pick : String → Nat) : List BQ → List BQ
  | [] => []
  | b :: bs => cacheSub tw all pick b :: cacheSubL tw all pick bs
end

def cacheE (dev : Dev) (tw : List Nat) (pick : String → Nat) (b : BQ) : BQ :=
  if dev.cacheByName then cacheSub tw b.aliases pick b else b

/-- the CTE-free plan the engine executes for the statement (`tw` = widths of the catalog's tables) -/
def enginePlan (dev : Dev) (tw : List Nat) (pick : String → Nat) (nq : NQ) : Query :=
  (cacheE dev tw pick (bindE dev nq []).1).erase

/-- the statement with every reference replaced by its lexically visible definition -/
def inlinedPlan (nq : NQ) : Query := (bindL [] nq).erase

mutual
/-- names defined anywhere in the statement, in binder order -/
def defNames : NQ → List String
  | .ref _ => []
  | .node _ kids => defNamesL kids
  | .withN ns defs body => defNamesD ns defs ++ defNames body
def defNamesL : List NQ → List String
  | [] => []
  | k :: ks => defNames k ++ defNamesL ks
def defNamesD : List String → List NQ → List String
  | n :: ns, d :: ds => defNames d ++ n :: defNamesD ns ds
  | _, _ => []
end

mutual
/-- every reference is bound by an enclosing (or earlier sibling) definition -/
def wellScoped (names : List String) : NQ → Bool
  | .ref n => names.contains n
  | .node _ kids => wellScopedL names kids
  | .withN ns defs body => wellScopedD names ns defs && wellScoped (scopeNames names ns defs) body
def wellScopedL (names : List String) : List NQ → Bool
  | [] => true
  | k :: ks => wellScoped names k && wellScopedL names ks
def wellScopedD (names : List String) : List String → List NQ → Bool
  | n :: ns, d :: ds => wellScoped names d && wellScopedD (n :: names) ns ds
  | _, _ => true
/-- names visible in the body of a WITH (newest first) -/
def scopeNames (names : List String) : List String → List NQ → List String
  | n :: ns, _ :: ds => scopeNames (n :: names) ns ds
  | _, _ => names
end

end IQE.Engine.Cte
