/-
  IQE.Engine.Membership — hand-written executable model of `distributed::membership::Membership`
  (src/distributed/membership.rs): the state `State { peers: BTreeMap<String, PeerRecord>, resolved, generation,
  last_resolve_error }` and the public operations `set_members`, `record_up`, `record_down`,
  `record_resolve_error`, and the views `members()`, `peer_addresses()`, `generation()`, `resolved()`.

  * Addresses are an arbitrary type `α` with a comparison `lt` (Rust: `String` with byte-wise `Ord`); the
    environment also carries `isSelf` (Rust: `is_self_address(·, self_address)`, which asks DNS and the local
    interfaces — the environment, so a parameter here) and the advertised address `selfAddr`.
  * `BTreeMap<String, PeerRecord>` = association list kept strictly sorted by key (`insert` / `remove` / `get_mut`).
  * Payloads that are opaque to the property (flight address, error text) are `Nat` tokens; `last_seen_unix_ms`
    (a wall-clock reading) is modelled by its `is_some()`.
  * `generation += 1` on `u64` and `consecutive_failures.saturating_add(1)` on `u32`: the former is modelled on
    `Nat` (2^64 bumps are out of reach), the latter saturates at `u32::MAX` as in the code.
-/
namespace IQE.Engine.Membership

inductive Status where
  | unknown | up | down
  deriving DecidableEq, Repr, Inhabited

/-- `PeerRecord` -/
structure PeerRec where
  nodeId : Option Nat := none
  flight : Option Nat := none
  status : Status := .unknown
  seen : Bool := false            -- last_seen_unix_ms.is_some()
  lastError : Option Nat := none
  fails : Nat := 0                -- consecutive_failures (u32)
  deriving DecidableEq, Repr, Inhabited

/-- `PeerRecord::new()` -/
def PeerRec.new : PeerRec := {}

/-- What the model needs to know about addresses and about this node. -/
structure Env (α : Type) where
  lt : α → α → Bool               -- `String` ordering
  isSelf : α → Bool               -- `is_self_address(·, self_address)`
  selfAddr : α
  selfId : Nat

/-- `State` (+ nothing else: `self_flight` stays `None` in the modelled histories). -/
structure State (α : Type) where
  peers : List (α × PeerRec) := []
  resolved : Bool := false
  generation : Nat := 0
  resolveError : Option Nat := none

/-- `Membership::new` -/
def init {α : Type} : State α := {}

inductive Op (α : Type) where
  | setMembers (addrs : List α)
  | recordUp (a : α) (nodeId : Option Nat) (flight : Option Nat)
  | recordDown (a : α) (err : Nat)
  | resolveError (err : Nat)

/-- `MembershipChange` -/
inductive Change (α : Type) where
  | removed (a : α)
  | added (a : α)
  deriving DecidableEq, Repr

section
variable {α : Type} [DecidableEq α]

def keys (m : List (α × PeerRec)) : List α := m.map (·.1)

/-- `BTreeMap::insert` (replaces the value of an existing key). -/
def insert (lt : α → α → Bool) (k : α) (v : PeerRec) : List (α × PeerRec) → List (α × PeerRec)
  | [] => [(k, v)]
  | (k', v') :: rest =>
    if lt k k' then (k, v) :: (k', v') :: rest
    else if k = k' then (k, v) :: rest
    else (k', v') :: insert lt k v rest

/-- `BTreeMap::get` -/
def lookup (k : α) : List (α × PeerRec) → Option PeerRec
  | [] => none
  | (k', v') :: rest => if k = k' then some v' else lookup k rest

/-- `if let Some(p) = peers.get_mut(k) { *p = f(*p) }` -/
def modify (k : α) (f : PeerRec → PeerRec) : List (α × PeerRec) → List (α × PeerRec)
  | [] => []
  | (k', v') :: rest => if k = k' then (k', f v') :: rest else (k', v') :: modify k f rest

/-- `set_members`: returns the new state and the (sorted) change list. -/
def setMembers (env : Env α) (s : State α) (addrs : List α) : State α × List (Change α) :=
  -- let incoming: HashSet<String> = addresses.into_iter().filter(|a| !self.is_self(a)).collect();
  let incoming := addrs.filter (fun a => !env.isSelf a)
  let existing := keys s.peers
  -- for gone in existing.difference(&incoming) { peers.remove(gone); changes.push(Removed(gone)) }
  let gone := existing.filter (fun k => !incoming.contains k)
  let kept := s.peers.filter (fun p => incoming.contains p.1)
  -- for added in incoming.difference(&existing) { peers.insert(added, PeerRecord::new()); changes.push(Added(added)) }
  let fresh := incoming.filter (fun a => !existing.contains a)
  let peers' := fresh.foldl (fun m a => insert env.lt a PeerRec.new m) kept
  -- the hash-set iteration yields each new address once; sorted by `changes.sort_by_key`
  let addedSorted := keys (fresh.foldl (fun m a => insert env.lt a PeerRec.new m) [])
  let changed := !gone.isEmpty || !fresh.isEmpty
  ({ peers := peers', resolved := true, resolveError := none,
     generation := if changed then s.generation + 1 else s.generation },
   gone.map Change.removed ++ addedSorted.map Change.added)

/-- `record_up` -/
def recordUp (s : State α) (a : α) (nodeId flight : Option Nat) : State α :=
  match lookup a s.peers with
  | none => s
  | some p =>
    let wasDown := p.status != Status.up
    let f : PeerRec → PeerRec := fun p =>
      { p with status := .up, seen := true, lastError := none, fails := 0,
               nodeId := if nodeId.isSome then nodeId else p.nodeId,
               flight := if flight.isSome then flight else p.flight }
    { s with peers := modify a f s.peers,
             generation := if wasDown then s.generation + 1 else s.generation }

/-- `record_down` -/
def recordDown (s : State α) (a : α) (err : Nat) : State α :=
  match lookup a s.peers with
  | none => s
  | some p =>
    let wasUp := p.status == Status.up
    let f : PeerRec → PeerRec := fun p =>
      { p with status := .down, lastError := some err, fails := Nat.min (p.fails + 1) 4294967295 }
    { s with peers := modify a f s.peers,
             generation := if wasUp then s.generation + 1 else s.generation }

/-- `record_resolve_error` -/
def recordResolveError (s : State α) (err : Nat) : State α :=
  { s with resolveError := some err }

def step (env : Env α) (s : State α) : Op α → State α
  | .setMembers addrs => (setMembers env s addrs).1
  | .recordUp a n f => recordUp s a n f
  | .recordDown a e => recordDown s a e
  | .resolveError e => recordResolveError s e

/-- Replaying a whole history. -/
def run (env : Env α) (s : State α) (ops : List (Op α)) : State α := ops.foldl (step env) s

/-- `Member` (serialised view row). -/
structure Member (α : Type) where
  address : α
  nodeId : Option Nat
  flight : Option Nat
  isSelf : Bool
  status : Status
  seen : Bool
  lastError : Option Nat
  fails : Nat
  deriving DecidableEq, Repr

def toMember (p : α × PeerRec) : Member α :=
  { address := p.1, nodeId := p.2.nodeId, flight := p.2.flight, isSelf := false, status := p.2.status,
    seen := p.2.seen, lastError := p.2.lastError, fails := p.2.fails }

def selfMember (env : Env α) : Member α :=
  { address := env.selfAddr, nodeId := some env.selfId, flight := none, isSelf := true, status := .up,
    seen := true, lastError := none, fails := 0 }

/-- Stable insertion: `x` originally precedes every element of the list, so it goes before the first
    element that is not strictly smaller. -/
def sortIns (lt : α → α → Bool) (x : Member α) : List (Member α) → List (Member α)
  | [] => [x]
  | y :: r => if lt y.address x.address then y :: sortIns lt x r else x :: y :: r

/-- `members.sort_by(|a, b| a.address.cmp(&b.address))` — a stable sort (the result of a stable sort is
    unique, so insertion sort stands for it). -/
def sortByAddress (lt : α → α → Bool) (l : List (Member α)) : List (Member α) := l.foldr (sortIns lt) []

/-- `members()` -/
def members (env : Env α) (s : State α) : List (Member α) :=
  sortByAddress env.lt (s.peers.map toMember ++ [selfMember env])

/-- `peer_addresses()` -/
def peerAddresses (s : State α) : List α := keys s.peers

end
end IQE.Engine.Membership

namespace IQE.Engine.Membership

/-- The concrete environment of the correspondence runs: addresses are strings ordered by `String.<`
    (lexicographic by code point = Rust's byte-wise order on UTF-8), `isSelf` is the table of
    `is_self_address(a, self_address)` answers measured on the real code at the start of a case. -/
def strEnv (selfAddr : String) (selfId : Nat) (table : List (String × Bool)) : Env String :=
  { lt := fun a b => decide (a < b),
    isSelf := fun a => match table.lookup a with | some b => b | none => a == selfAddr,
    selfAddr := selfAddr, selfId := selfId }

end IQE.Engine.Membership
