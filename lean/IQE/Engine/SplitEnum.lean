/-
  IQE.Engine.SplitEnum — hand-written executable model of `enumerate_parquet`, `target_split_bytes`
  and `file_key` (src/distributed/splits.rs).

  Rust control flow mirrored:
    ordered = files stable-sorted by file_key (the final path component)                       → `orderFiles`
    pass 1: for path in ordered { footer (Err → return Err); for (index, rg) in row_groups.enumerate()
              { if rows <= 0 {continue}; bytes = total_byte_size.max(0); totals += …; inventory.push } } → `inventory`
    target = target_split_bytes(total_bytes, nodes)                                               → `targetSplitBytes`
    pass 2: per row group: pieces/base/remainder, `for piece in 0..pieces` with offset/bytes_left   → `cut`, `cutGo`
    splits.sort_by(canonical_key) (stable)
  A file is modelled by what the code reads of it: its name and its footer inventory (or an unreadable footer).
  The mount path is NOT part of the model: `file_key` keeps only the file name.

  Known defect (finding C11-F1, deviation switch `Dev.dupNames`): two files with the SAME name tie in both sorts,
  the stable sorts keep the caller's order, and splits/digest depend on file order. With the switch off the model is
  the intended algorithm: duplicate file names are refused (`Except.error .duplicateName`).
-/
import IQE.Engine.SplitKey
import IQE.Engine.Fnv
import IQE.Core.StableSort
namespace IQE.Engine.SplitEnum
open IQE.Engine

def MIN_SPLIT_BYTES : Nat := 4 * 1024 * 1024
def MAX_SPLIT_BYTES : Nat := 64 * 1024 * 1024
def SPLITS_PER_NODE : Nat := 32

/-- unsigned `div_ceil` (b > 0) -/
def ceilDiv (a b : Nat) : Nat := if a % b > 0 then a / b + 1 else a / b

/-- `target_split_bytes(total_bytes, nodes)`; `clamp(lo, hi)` panics iff `lo > hi`, impossible here (`hi = MAX.max(lo)`). -/
def targetSplitBytes (total nodes : Nat) : Nat :=
  let nodes := max nodes 1
  let floor := max (min MIN_SPLIT_BYTES (ceilDiv total nodes)) 1
  let ideal := total / max (SPLITS_PER_NODE * nodes) 1
  let hi := max MAX_SPLIT_BYTES floor
  if ideal < floor then floor else if ideal > hi then hi else ideal

structure Piece where
  off : Nat
  n : Nat
  bytes : Nat
deriving Repr, DecidableEq

/-- `pieces` of the cutting loop -/
def pieces (rgBytes rows target : Nat) : Nat :=
  if rgBytes ≤ target then 1 else max (min (ceilDiv rgBytes target) rows) 1

/-- `for piece in 0..pieces { … }` with `k` iterations left, current `piece`, `offset`, `bytes_left`. -/
def cutGo (rgBytes rows npieces base rem : Nat) : Nat → Nat → Nat → Nat → List Piece
  | 0, _, _, _ => []
  | k + 1, piece, off, bl =>
    let n := base + (if piece < rem then 1 else 0)
    if n = 0 then cutGo rgBytes rows npieces base rem k (piece + 1) off bl
    else
      let b := if piece + 1 = npieces then bl else rgBytes * n / rows   -- u128 product, exact
      { off := off, n := n, bytes := b } :: cutGo rgBytes rows npieces base rem k (piece + 1) (off + n) (bl - b)  -- saturating_sub

/-- the row ranges one row group (`rows ≥ 1`) is cut into -/
def cut (rows rgBytes target : Nat) : List Piece :=
  let p := pieces rgBytes rows target
  cutGo rgBytes rows p (rows / p) (rows % p) p 0 0 rgBytes

/-- what the footer says about one row group: `num_rows()`, `total_byte_size()` (both i64) -/
structure RgMeta where
  rows : Int
  bytes : Int
deriving Repr, DecidableEq, Ord

structure FileMeta where
  name : List UInt8                 -- file_key(path)
  footer : Option (List RgMeta)     -- none: the footer cannot be read
deriving Repr, DecidableEq

/-- one non-empty row group of the inventory -/
structure Rg where
  file : List UInt8
  index : Nat
  rows : Nat
  bytes : Nat
deriving Repr, DecidableEq

def nameLe (a b : FileMeta) : Bool := (compare a.name b.name).isLE

/-- `ordered.sort_by_key(file_key)` (stable) -/
def orderFiles (files : List FileMeta) : List FileMeta := IQE.StableSort.sort nameLe files

def rgsOf (name : List UInt8) (rgs : List RgMeta) : List Rg :=
  rgs.zipIdx.filterMap fun (rg, i) =>
    if rg.rows ≤ 0 then none
    else some { file := name, index := i, rows := rg.rows.toNat, bytes := (max rg.bytes 0).toNat }

inductive Err where
  | footer          -- "cannot read parquet footer for …"
  | duplicateName   -- intended behaviour only (switch off): two files share a canonical name
deriving Repr, DecidableEq

/-- pass 1 over the ordered files; the first unreadable footer aborts -/
def inventory : List FileMeta → Except Err (List Rg)
  | [] => .ok []
  | f :: fs =>
    match f.footer with
    | none => .error .footer
    | some rgs =>
      match inventory fs with
      | .error e => .error e
      | .ok rest => .ok (rgsOf f.name rgs ++ rest)

def splitsOfRg (table : List UInt8) (target : Nat) (rg : Rg) : List Split :=
  (cut rg.rows rg.bytes target).map fun p =>
    { table := table, file := rg.file, rowGroup := rg.index, rowOffset := p.off, numRows := p.n, bytes := p.bytes }

structure SplitSet where
  table : List UInt8
  splits : List Split
  totalBytes : Nat
  totalRows : Int
  target : Nat
deriving Repr, DecidableEq

def SplitSet.digest (s : SplitSet) : UInt64 := Fnv.digest s.table s.splits

structure Dev where
  /-- C11-F1: duplicate file names are enumerated in the caller's order instead of being refused -/
  dupNames : Bool := false
deriving Repr, DecidableEq

def hasDup : List (List UInt8) → Bool
  | [] => false
  | x :: xs => xs.contains x || hasDup xs

def enumerate (dev : Dev) (table : List UInt8) (files : List FileMeta) (nodes : Nat) : Except Err SplitSet :=
  if !dev.dupNames && hasDup (files.map (·.name)) then .error .duplicateName
  else
    match inventory (orderFiles files) with
    | .error e => .error e
    | .ok inv =>
      let totalBytes := (inv.map (·.bytes)).sum
      let totalRows : Int := ((inv.map (·.rows)).sum : Nat)
      let target := targetSplitBytes totalBytes nodes
      let splits := inv.flatMap (splitsOfRg table target)
      .ok { table := table, splits := IQE.StableSort.sort Split.keyLe splits,
            totalBytes := totalBytes, totalRows := totalRows, target := target }

end IQE.Engine.SplitEnum
