/-
  IQE.Engine.Gather — model of `plan_gather` / `collect_scans` / `collect_expr_columns`
  (src/distributed/gather.rs, property C45): which columns of which base tables a distributed statement gathers.

    * `exprCols`      — `collect_expr_columns`: the bare column names an expression mentions (window functions,
                        subquery expressions, literals and wildcards contribute nothing);
    * `scanCols`      — what one `Scan` node requires of its table: `none` (every column) without a projection, else
                        the projected names of the provider's FULL schema ∪ the full-schema columns loosely matched
                        (`nameMatches`) by a name in the pushed-down filter; never empty (first column as fallback);
    * `insertReq` / `mergeCols` — several scans of one table merge: union, `none` absorbs;
    * `collect`       — the walk.  The code recurses through `LogicalPlan::children()` ONLY and never enters the plans
                        of subquery EXPRESSIONS: that is the deviation switch `Dev.skipSubqueryPlans` (finding C45-F1);
                        with all switches off the walk also visits every subquery plan held by a node's expressions;
    * `gatherPlan`    — the result of `plan_gather`: tables sorted by name, columns in full-schema order.
  Mathlib-free, executable.
-/
import IQE.Engine.PlanWf
namespace IQE.Engine.Gather
open IQE.Engine.PlanWf

/-- deviation switches: all off = the intended algorithm -/
structure Dev where
  /-- today's code: the walk follows `children()` only and skips the plans of subquery expressions (C45-F1) -/
  skipSubqueryPlans : Bool := false
deriving Repr, DecidableEq, Inhabited

/-- required columns of one table; `none` = every column -/
abbrev Cols := Option (List String)
/-- table ↦ required columns, in first-visit order -/
abbrev Req := List (String × Cols)

/-! ### `collect_expr_columns` -/

/-- the expression constructs `collect_expr_columns` recurses through -/
def recKind (k : String) : Bool :=
  k == "bin" || k == "un" || k == "cast" || k == "agg" || k == "fn" || k == "case" || k == "inlist" || k == "between"

mutual
def exprCols : PExpr → List String
  | .col _ name => [name]
  | .lit _ _ => []
  | .op kind _ args => if recKind kind then exprColsL args else []
  | .alias e _ => exprCols e
  | .sub _ _ _ _ => []
  | .star _ => []
def exprColsL : List PExpr → List String
  | [] => []
  | e :: es => exprCols e ++ exprColsL es
end

/-- `c == f || c.ends_with("." + f) || f.ends_with("." + c)` -/
def nameMatches (c f : String) : Bool :=
  c == f || ("." ++ f).toList.isSuffixOf c.toList || ("." ++ c).toList.isSuffixOf f.toList

/-! ### one scan -/

/-- the columns a scan READS: projected names ∪ filter-matched names (`none` = all); no fallback -/
def readCols (full : List String) (proj : Option (List Nat)) (filter : List PExpr) : Cols :=
  match proj with
  | none => none
  | some idx =>
    some (idx.filterMap (fun i => full[i]?) ++ full.filter (fun f => (exprColsL filter).any (fun c => nameMatches c f)))

/-- the columns a scan REQUIRES: what it reads, or the first column when it reads none (it still reads every row) -/
def scanCols (full : List String) (proj : Option (List Nat)) (filter : List PExpr) : Cols :=
  match readCols full proj filter with
  | none => none
  | some set => some (if set.isEmpty then full.take 1 else set)

/-! ### the requirement map -/

/-- union; `none` (= every column) absorbs -/
def mergeCols : Cols → Cols → Cols
  | some a, some b => some (a ++ b.filter (fun x => !a.contains x))
  | _, _ => none

def covers : Cols → String → Bool
  | none, _ => true
  | some l, x => l.contains x

/-- merge into the table's entry, else append a new entry -/
def insertReq (t : String) (c : Cols) : Req → Req
  | [] => [(t, c)]
  | (t', c') :: rest => if t' == t then (t', mergeCols c' c) :: rest else (t', c') :: insertReq t c rest

def lookup (t : String) : Req → Option Cols
  | [] => none
  | (t', c') :: rest => if t' == t then some c' else lookup t rest

/-! ### structure of a plan node -/

mutual
/-- the plans of the subquery expressions inside an expression (not entering those plans) -/
def subPlans : PExpr → List Plan
  | .col _ _ => []
  | .lit _ _ => []
  | .op _ _ args => subPlansL args
  | .alias e _ => subPlans e
  | .sub _ _ args p => subPlansL args ++ [p]
  | .star _ => []
def subPlansL : List PExpr → List Plan
  | [] => []
  | e :: es => subPlans e ++ subPlansL es
end

/-- the expressions a node carries -/
def nodeExprs : Plan → List PExpr
  | .scan _ _ _ filter => filter
  | .filter pred _ => [pred]
  | .project exprs _ _ => exprs
  | .join _ onL onR filter _ _ _ => onL ++ onR ++ filter
  | .agg group aggs _ _ => group ++ aggs
  | .window _ wexprs _ _ => wexprs
  | .sort keys _ _ => keys
  | .values rows _ _ => rows
  | .delimJoin _ delim onL onR _ _ _ => delim ++ onL ++ onR
  | .delimGet cols _ _ => cols
  | .vsearch _ filter sortKey _ _ _ _ => filter ++ [sortKey]
  | _ => []

/-- `LogicalPlan::children()` -/
def children : Plan → List Plan
  | .scan _ _ _ _ => []
  | .filter _ i => [i]
  | .project _ _ i => [i]
  | .join _ _ _ _ _ l r => [l, r]
  | .agg _ _ _ i => [i]
  | .window _ _ _ i => [i]
  | .sort _ _ i => [i]
  | .limit _ _ i => [i]
  | .distinct i => [i]
  | .union _ _ inputs => inputs
  | .alias _ _ _ i => [i]
  | .empty _ _ => []
  | .values _ _ _ => []
  | .delimJoin _ _ _ _ _ l r => [l, r]
  | .delimGet _ _ _ => []
  | .vsearch _ _ _ _ _ _ i => [i]

/-! ### the walk -/

mutual
/-- `collect_scans` on one node: a scan registers its requirement; every other node visits its children, then (switch
    off) the subquery plans held by its own expressions -/
def collectP (dev : Dev) (full : String → Option (List String)) : Plan → Req → Except String Req
  | .scan t _ proj filter, req =>
    match full t with
    | none => .error ("no provider: " ++ t)
    | some cs => collectEs dev full filter (insertReq t (scanCols cs proj filter) req)
  | .filter pred i, req => do collectE dev full pred (← collectP dev full i req)
  | .project exprs _ i, req => do collectEs dev full exprs (← collectP dev full i req)
  | .join _ onL onR filter _ l r, req => do
    let req ← collectP dev full l req
    let req ← collectP dev full r req
    let req ← collectEs dev full onL req
    let req ← collectEs dev full onR req
    collectEs dev full filter req
  | .agg group aggs _ i, req => do
    let req ← collectP dev full i req
    let req ← collectEs dev full group req
    collectEs dev full aggs req
  | .window _ wexprs _ i, req => do collectEs dev full wexprs (← collectP dev full i req)
  | .sort keys _ i, req => do collectEs dev full keys (← collectP dev full i req)
  | .limit _ _ i, req => collectP dev full i req
  | .distinct i, req => collectP dev full i req
  | .union _ _ inputs, req => collectPs dev full inputs req
  | .alias _ _ _ i, req => collectP dev full i req
  | .empty _ _, req => .ok req
  | .values rows _ _, req => collectEs dev full rows req
  | .delimJoin _ delim onL onR _ l r, req => do
    let req ← collectP dev full l req
    let req ← collectP dev full r req
    let req ← collectEs dev full delim req
    let req ← collectEs dev full onL req
    collectEs dev full onR req
  | .delimGet cols _ _, req => collectEs dev full cols req
  | .vsearch _ filter sortKey _ _ _ i, req => do
    let req ← collectP dev full i req
    let req ← collectEs dev full filter req
    collectE dev full sortKey req
def collectPs (dev : Dev) (full : String → Option (List String)) : List Plan → Req → Except String Req
  | [], req => .ok req
  | p :: ps, req => do collectPs dev full ps (← collectP dev full p req)
/-- the subquery plans inside an expression (nothing at all when `skipSubqueryPlans`) -/
def collectE (dev : Dev) (full : String → Option (List String)) : PExpr → Req → Except String Req
  | .col _ _, req => .ok req
  | .lit _ _, req => .ok req
  | .op _ _ args, req => collectEs dev full args req
  | .alias e _, req => collectE dev full e req
  | .sub _ _ args p, req => do
    let req ← collectEs dev full args req
    if dev.skipSubqueryPlans then pure req else collectP dev full p req
  | .star _, req => .ok req
def collectEs (dev : Dev) (full : String → Option (List String)) : List PExpr → Req → Except String Req
  | [], req => .ok req
  | e :: es, req => do collectEs dev full es (← collectE dev full e req)
end

/-- `collect_scans` -/
def collect (dev : Dev) (full : String → Option (List String)) (p : Plan) (req : Req) : Except String Req :=
  collectP dev full p req

/-! ### every scan the walk reaches -/

abbrev ScanInfo := String × Option (List Nat) × List PExpr

mutual
def scansP (dev : Dev) : Plan → List ScanInfo
  | .scan t _ proj filter => (t, proj, filter) :: scansEs dev filter
  | .filter pred i => scansP dev i ++ scansE dev pred
  | .project exprs _ i => scansP dev i ++ scansEs dev exprs
  | .join _ onL onR filter _ l r =>
    scansP dev l ++ (scansP dev r ++ (scansEs dev onL ++ (scansEs dev onR ++ scansEs dev filter)))
  | .agg group aggs _ i => scansP dev i ++ (scansEs dev group ++ scansEs dev aggs)
  | .window _ wexprs _ i => scansP dev i ++ scansEs dev wexprs
  | .sort keys _ i => scansP dev i ++ scansEs dev keys
  | .limit _ _ i => scansP dev i
  | .distinct i => scansP dev i
  | .union _ _ inputs => scansPs dev inputs
  | .alias _ _ _ i => scansP dev i
  | .empty _ _ => []
  | .values rows _ _ => scansEs dev rows
  | .delimJoin _ delim onL onR _ l r =>
    scansP dev l ++ (scansP dev r ++ (scansEs dev delim ++ (scansEs dev onL ++ scansEs dev onR)))
  | .delimGet cols _ _ => scansEs dev cols
  | .vsearch _ filter sortKey _ _ _ i => scansP dev i ++ (scansEs dev filter ++ scansE dev sortKey)
def scansPs (dev : Dev) : List Plan → List ScanInfo
  | [] => []
  | p :: ps => scansP dev p ++ scansPs dev ps
def scansE (dev : Dev) : PExpr → List ScanInfo
  | .col _ _ => []
  | .lit _ _ => []
  | .op _ _ args => scansEs dev args
  | .alias e _ => scansE dev e
  | .sub _ _ args p => scansEs dev args ++ (if dev.skipSubqueryPlans then [] else scansP dev p)
  | .star _ => []
def scansEs (dev : Dev) : List PExpr → List ScanInfo
  | [] => []
  | e :: es => scansE dev e ++ scansEs dev es
end

/-- every scan node `collect dev` reaches, in visiting order (with the switch on: through `children()` only) -/
def allScans (dev : Dev) (p : Plan) : List ScanInfo := scansP dev p

/-! ### `plan_gather` -/

def insertSorted (x : String × Cols) : List (String × Cols) → List (String × Cols)
  | [] => [x]
  | y :: ys => if x.1 < y.1 then x :: y :: ys else y :: insertSorted x ys

def sortByName (r : List (String × Cols)) : List (String × Cols) := r.foldr insertSorted []

/-- schema order, duplicates gone -/
def normCols (full : String → Option (List String)) (t : String) : Cols → Cols
  | none => none
  | some set => some (match full t with | some cs => cs.filter (fun n => set.contains n) | none => set)

/-- what `plan_gather` returns: per table (sorted by name) `none` = all columns / the columns in full-schema order;
    a statement reading no base table is refused -/
def gatherPlan (dev : Dev) (full : String → Option (List String)) (p : Plan) :
    Except String (List (String × Option (List String))) := do
  let req ← collect dev full p []
  if req.isEmpty then .error "no base table"
  else pure ((sortByName req).map fun tc => (tc.1, normCols full tc.1 tc.2))

end IQE.Engine.Gather
