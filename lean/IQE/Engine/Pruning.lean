/-
  IQE.Engine.Pruning — executable model of `src/storage/row_group_pruning.rs`:
  `row_group_might_match`, `row_group_definitely_matches`, `check_comparison`, `definite_comparison`, the `check_*_stats`
  dispatchers and `prune_row_groups`, over hand copies of the loop-free tables that `IQE.Props.C05` proves equal to the TRANSLATED
  `Gen.Pruning.{BinaryOp, flip_op, eval_range, eval_range_i32, eval_range_f64, eval_range_str, definite_table}`.

  A row group is seen through its per-column statistics (`ColMeta`: typed min / max, null count — or no statistics at all).
  Strings are compared as UTF-8 byte strings (`Rs.Str`), exactly as Rust's `&str` comparison does.
  `ofInt` is Rust's `i64 as f64` / `i32 as f64` (round to nearest) — a parameter; the theorems need it monotone only.

  Deviation switches (with both off this is the intended algorithm, which is what the tree does since fix e356a0a):
  * `definiteViaF64` (A.4, finding C05-F1): `definite_comparison` converts integer min / max AND an integer literal to f64 and
    compares there; beyond 2^53 rounding makes `max <= val` true for max = val + 1.  Off: integers are compared as integers.
  * `i32Narrowing` (finding C05-F2): `check_i32_stats` on Int64 statistics narrows min / max with `as i32` (wrap-around).
    Off: the Int32 / Date32 literal is widened instead.
-/
import IQE.Core.Val
import IQE.Core.Rs
namespace IQE.Engine.Pruning
open IQE

/-! Hand-written copies of the loop-free tables (the driver must not depend on generated code). `IQE.Props.C05` proves each of
    them equal to its TRANSLATED counterpart in `IQE.Gen.Pruning` (bridge theorems), so a source edit of a table breaks the
    proof obligations of C05, not the shared driver. -/

/-- `planner::BinaryOp` -/
inductive BinaryOp where
  | Add | Subtract | Multiply | Divide | Modulo | Eq | NotEq | Lt | LtEq | Gt | GtEq | And | Or | Like | NotLike | StringConcat
deriving DecidableEq, Repr, Inhabited

/-- `flip_op` -/
def flip_op (op : BinaryOp) : BinaryOp :=
  match op with
  | .Lt => .Gt | .LtEq => .GtEq | .Gt => .Lt | .GtEq => .LtEq | other => other

/-- the body shared by `eval_range`, `eval_range_i32`, `eval_range_f64`, `eval_range_str` -/
def evalRangeG {T : Type} [Rs.Cmp T] (op : BinaryOp) (val min max : T) : Bool :=
  match op with
  | .Eq => (Rs.Cmp.le min val) && (Rs.Cmp.le val max)
  | .NotEq => !((Rs.Cmp.eq min val) && (Rs.Cmp.eq max val))
  | .Lt => Rs.Cmp.lt min val
  | .LtEq => Rs.Cmp.le min val
  | .Gt => Rs.gt max val
  | .GtEq => Rs.ge max val
  | _ => true
def eval_range (op : BinaryOp) (val min max : Int) : Bool := evalRangeG op val min max
def eval_range_i32 (op : BinaryOp) (val min max : Int) : Bool := evalRangeG op val min max
def eval_range_f64 (op : BinaryOp) (val min max : F64) : Bool := evalRangeG op val min max
def eval_range_str (op : BinaryOp) (val min max : Rs.Str) : Bool := evalRangeG op val min max

/-- the final `match effective_op` of `definite_comparison` -/
def definite_table (effective_op : BinaryOp) (min max val : F64) : Bool :=
  match effective_op with
  | .Lt => Rs.Cmp.lt max val
  | .LtEq => Rs.Cmp.le max val
  | .Gt => Rs.gt min val
  | .GtEq => Rs.ge min val
  | .Eq => (Rs.Cmp.eq min val) && (Rs.Cmp.eq max val)
  | .NotEq => (Rs.Cmp.lt val min) || (Rs.gt val max)
  | _ => false

structure Dev where
  definiteViaF64 : Bool := false
  i32Narrowing : Bool := false
deriving DecidableEq, Repr, Inhabited
def Dev.none : Dev := {}
/-- the tree before fix e356a0a (both deviations): kept for the negation witnesses -/
def Dev.old : Dev := { definiteViaF64 := true, i32Narrowing := true }
/-- the current tree: since fix e356a0a integers are compared in the integer domain -/
def Dev.current : Dev := {}

/-- `ScalarValue` as `check_comparison` / `definite_comparison` distinguish it -/
inductive Lit
  | i64 (n : Int) | i32 (n : Int) | date (n : Int) | ts (n : Int) | f64 (x : F64) | str (s : Rs.Str) | other
deriving DecidableEq, Repr, Inhabited

/-- `ParquetStatistics` of one column chunk (typed min / max; `none` = absent) -/
inductive Stats
  | int64 (min max : Option Int)
  | int32 (min max : Option Int)
  | double (min max : Option F64)
  | bytes (min max : Option (Option Rs.Str))     -- inner `none`: the bytes are not valid UTF-8
  | other
deriving Repr, Inhabited

/-- `col_meta.statistics()` and its `null_count_opt()` -/
structure ColMeta where
  stats : Stats
  nullCount : Option Nat
deriving Repr, Inhabited

/-- a row group's metadata: per column index `none` = the chunk carries no statistics -/
abbrev Rg := List (Option ColMeta)

/-- a comparison operand as `check_comparison` / `definite_comparison` see it -/
inductive Opd
  | col (c : Nat)
  | lit (l : Lit)
  | other
deriving Repr, Inhabited

/-- `planner::Expr` as the pruner sees it. `cmp op l r` is a `BinaryExpr` whose operator is not AND / OR (any operator:
    the tables answer conservatively for non-comparison operators); `other` = anything treated conservatively. -/
inductive PE
  | cmp (op : BinaryOp) (l r : Opd)
  | and (a b : PE)
  | or (a b : PE)
  | not (e : PE)
  | between (e lo hi : Opd) (neg : Bool)
  | inList (e : Opd) (items : List Opd) (neg : Bool)
  | other
deriving Repr, Inhabited

/-- `i64 as i32` -/
def wrapI32 (x : Int) : Int := (x + 2 ^ 31) % 2 ^ 32 - 2 ^ 31

/-- `check_i64_stats` -/
def checkI64 (st : Stats) (op : BinaryOp) (val : Int) : Bool :=
  match st with
  | .int64 (some mn) (some mx) => eval_range op val mn mx
  | .int32 (some mn) (some mx) => eval_range op val mn mx          -- `as i64` widening is exact
  | _ => true

/-- `check_i32_stats` -/
def checkI32 (dev : Dev) (st : Stats) (op : BinaryOp) (val : Int) : Bool :=
  match st with
  | .int32 (some mn) (some mx) => eval_range_i32 op val mn mx
  | .int64 (some mn) (some mx) =>
    if dev.i32Narrowing then eval_range_i32 op val (wrapI32 mn) (wrapI32 mx) else eval_range op val mn mx
  | _ => true

/-- `check_f64_stats` (the `Float` arm widens f32 exactly and is folded into `double` by the harness) -/
def checkF64 (st : Stats) (op : BinaryOp) (val : F64) : Bool :=
  match st with
  | .double (some mn) (some mx) => eval_range_f64 op val mn mx
  | _ => true

/-- `check_utf8_stats` -/
def checkUtf8 (st : Stats) (op : BinaryOp) (val : Rs.Str) : Bool :=
  match st with
  | .bytes (some (some mn)) (some (some mx)) => eval_range_str op val mn mx
  | _ => true

/-- the (column, literal, flipped) shapes both comparison functions accept -/
def colLit : Opd → Opd → Option (Nat × Lit × Bool)
  | .col c, .lit l => some (c, l, false)
  | .lit l, .col c => some (c, l, true)
  | _, _ => none

/-- `check_comparison` -/
def checkComparison (dev : Dev) (l : Opd) (op : BinaryOp) (r : Opd) (rg : Rg) : Bool :=
  match colLit l r with
  | none => true
  | some (c, lit, flipped) =>
    match rg[c]? with
    | some (some cm) =>
      let eop := if flipped then flip_op op else op
      match lit with
      | .i64 v => checkI64 cm.stats eop v
      | .i32 v => checkI32 dev cm.stats eop v
      | .f64 v => checkF64 cm.stats eop v
      | .date v => checkI32 dev cm.stats eop v
      | .str v => checkUtf8 cm.stats eop v
      | .ts v => checkI64 cm.stats eop v
      | .other => true
    | _ => true

def isCmpOp (op : BinaryOp) : Bool :=
  match op with
  | .Eq | .NotEq | .Lt | .LtEq | .Gt | .GtEq => true
  | _ => false

/-- the intended integer form of `definite_table` (used when statistics and literal are both integers) -/
def definiteInt (op : BinaryOp) (mn mx val : Int) : Bool :=
  match op with
  | .Lt => decide (mx < val)
  | .LtEq => decide (mx ≤ val)
  | .Gt => decide (mn > val)
  | .GtEq => decide (mn ≥ val)
  | .Eq => decide (mn = val) && decide (mx = val)
  | .NotEq => decide (val < mn) || decide (val > mx)
  | _ => false

/-- integer min / max of Int64 / Int32 statistics -/
def Stats.intBounds : Stats → Option (Int × Int)
  | .int64 (some a) (some b) => some (a, b)
  | .int32 (some a) (some b) => some (a, b)
  | _ => none
/-- the `(min, max): (f64, f64)` of `definite_comparison` -/
def Stats.floatBounds (ofInt : Int → F64) : Stats → Option (F64 × F64)
  | .int64 (some a) (some b) => some (ofInt a, ofInt b)
  | .int32 (some a) (some b) => some (ofInt a, ofInt b)
  | .double (some a) (some b) => some (a, b)
  | _ => none
def Lit.int? : Lit → Option Int
  | .i64 v => some v | .i32 v => some v | .date v => some v | .ts v => some v | _ => none
/-- the `val: f64` of `definite_comparison` -/
def Lit.float? (ofInt : Int → F64) : Lit → Option F64
  | .i64 v => some (ofInt v) | .i32 v => some (ofInt v) | .date v => some (ofInt v) | .ts v => some (ofInt v)
  | .f64 v => some v | _ => none

/-- the tail of `definite_comparison` once column statistics and literal are in hand -/
def definiteCore (dev : Dev) (ofInt : Int → F64) (st : Stats) (lit : Lit) (eop : BinaryOp) : Bool :=
  match st.intBounds, lit.int? with
  | some (mn, mx), some v =>
    -- the code: everything through f64; intended: integers as integers
    if dev.definiteViaF64 then definite_table eop (ofInt mn) (ofInt mx) (ofInt v) else definiteInt eop mn mx v
  | _, _ =>
    match st.floatBounds ofInt, lit.float? ofInt with
    | some (mn, mx), some v => definite_table eop mn mx v
    | _, _ => false

/-- `definite_comparison` -/
def definiteComparison (dev : Dev) (ofInt : Int → F64) (l : Opd) (op : BinaryOp) (r : Opd) (rg : Rg) : Bool :=
  match colLit l r with
  | none => false
  | some (c, lit, flipped) =>
    match rg[c]? with
    | some (some cm) =>
      if cm.nullCount != some 0 then false      -- a null row fails every comparison
      else definiteCore dev ofInt cm.stats lit (if flipped then flip_op op else op)
    | _ => false

/-- `row_group_definitely_matches` -/
def definitelyMatches (dev : Dev) (ofInt : Int → F64) (rg : Rg) : PE → Bool
  | .and a b => definitelyMatches dev ofInt rg a && definitelyMatches dev ofInt rg b
  | .or a b => definitelyMatches dev ofInt rg a || definitelyMatches dev ofInt rg b
  | .cmp op l r => definiteComparison dev ofInt l op r rg
  | .between e lo hi false =>
    definiteComparison dev ofInt e .GtEq lo rg && definiteComparison dev ofInt e .LtEq hi rg
  | _ => false

/-- `row_group_might_match` -/
def mightMatch (dev : Dev) (ofInt : Int → F64) (rg : Rg) : PE → Bool
  | .and a b => mightMatch dev ofInt rg a && mightMatch dev ofInt rg b
  | .or a b => mightMatch dev ofInt rg a || mightMatch dev ofInt rg b
  | .cmp op l r => checkComparison dev l op r rg
  | .not e => !definitelyMatches dev ofInt rg e
  | .between e lo hi neg =>
    if neg then true else checkComparison dev e .GtEq lo rg && checkComparison dev e .LtEq hi rg
  | .inList e items neg =>
    if neg then true else items.any (fun v => checkComparison dev e .Eq v rg)
  | .other => true

/-- `prune_row_groups`: indices of the row groups kept -/
def pruneRowGroups (dev : Dev) (ofInt : Int → F64) (rgs : List Rg) (pred : Option PE) : List Nat :=
  match pred with
  | none => List.range rgs.length
  | some p => (List.range rgs.length).filter (fun i => mightMatch dev ofInt (rgs.getD i []) p)

end IQE.Engine.Pruning

/-! ### reference semantics of the pruned fragment (three-valued; what `evaluate_expr` computes on a decoded row group) -/
namespace IQE.Engine.Pruning
open IQE

/-- a cell of a decoded row group: Int32 / Int64 / Date32 are integers, strings are their UTF-8 bytes -/
inductive Cell
  | null | int (n : Int) | f64 (x : F64) | str (s : Rs.Str)
deriving DecidableEq, Repr, Inhabited

def satI (op : BinaryOp) (a b : Int) : Bool :=
  match op with
  | .Eq => decide (a = b) | .NotEq => decide (a ≠ b) | .Lt => decide (a < b) | .LtEq => decide (a ≤ b)
  | .Gt => decide (a > b) | .GtEq => decide (a ≥ b) | _ => false

/-- comparison by keys of the float TOTAL order (Arrow's kernels) -/
def satF (op : BinaryOp) (a b : F64) : Bool := satI op a.totalKey b.totalKey

def satS (op : BinaryOp) (a b : Rs.Str) : Bool :=
  match op with
  | .Eq => decide (a = b) | .NotEq => decide (a ≠ b) | .Lt => Rs.bytesLt a.utf8 b.utf8 | .LtEq => Rs.bytesLe a.utf8 b.utf8
  | .Gt => Rs.bytesLt b.utf8 a.utf8 | .GtEq => Rs.bytesLe b.utf8 a.utf8 | _ => false

/-- `a op b` on cells: NULL if either side is NULL; integers are widened to f64 against a float (`coerce_arrays`) -/
def cmpCells (ofInt : Int → F64) (op : BinaryOp) : Cell → Cell → Option Bool
  | .null, _ => none
  | _, .null => none
  | .int a, .int b => some (satI op a b)
  | .f64 a, .f64 b => some (satF op a b)
  | .int a, .f64 b => some (satF op (ofInt a) b)
  | .f64 a, .int b => some (satF op a (ofInt b))
  | .str a, .str b => some (satS op a b)
  | _, _ => none

def Lit.cell : Lit → Cell
  | .i64 n => .int n | .i32 n => .int n | .date n => .int n | .ts n => .int n
  | .f64 x => .f64 x | .str s => .str s | .other => .null

def and3o : Option Bool → Option Bool → Option Bool
  | some false, _ => some false
  | _, some false => some false
  | some true, some true => some true
  | _, _ => none
def or3o : Option Bool → Option Bool → Option Bool
  | some true, _ => some true
  | _, some true => some true
  | some false, some false => some false
  | _, _ => none
def not3o : Option Bool → Option Bool
  | some b => some (!b)
  | none => none

/-- value of an operand at a row; `oth` interprets operands outside the fragment -/
def Opd.val (oth : List Cell → Cell) (row : List Cell) : Opd → Cell
  | .col c => row.getD c .null
  | .lit l => l.cell
  | .other => oth row

def inSem (ofInt : Int → F64) (x : Cell) : List Cell → Option Bool
  | [] => some false
  | v :: vs => or3o (cmpCells ofInt .Eq x v) (inSem ofInt x vs)

/-- SQL three-valued meaning of a predicate at a row; `othP` interprets predicates outside the fragment -/
def sem (ofInt : Int → F64) (oth : List Cell → Cell) (othP : List Cell → Option Bool) (row : List Cell) : PE → Option Bool
  | .cmp op l r => if isCmpOp op then cmpCells ofInt op (l.val oth row) (r.val oth row) else othP row
  | .and a b => and3o (sem ofInt oth othP row a) (sem ofInt oth othP row b)
  | .or a b => or3o (sem ofInt oth othP row a) (sem ofInt oth othP row b)
  | .not e => not3o (sem ofInt oth othP row e)
  | .between e lo hi neg =>
    let r := and3o (cmpCells ofInt .GtEq (e.val oth row) (lo.val oth row)) (cmpCells ofInt .LtEq (e.val oth row) (hi.val oth row))
    if neg then not3o r else r
  | .inList e items neg =>
    let r := inSem ofInt (e.val oth row) (items.map (Opd.val oth row))
    if neg then not3o r else r
  | .other => othP row

end IQE.Engine.Pruning
