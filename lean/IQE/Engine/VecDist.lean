/-
  IQE.Engine.VecDist — hand-written executable model of src/physical/vector.rs
  (`dot`, `l2_sq`, `norm`, `distance_column`, `distance_columns`).
  Element arithmetic is exact (`Int`): rounding is out of scope (the correspondence uses integer-valued test vectors, for
  which every f32 product and lane sum is exact). `sqrt` and `/` are not ring operations: the model returns the exact
  ingredients of each formula (`Val`), and the driver applies the same IEEE `sqrt`, `*`, `/`, `1 - x` to them.
-/
namespace IQE.Engine.VecDist

/-- `slice.chunks_exact(n)`: the full chunks, and `remainder()`. `fuel` bounds the number of chunks (any `fuel ≥ len/n` is enough;
    `chunksExact` passes `len`). -/
def chunksGo {α : Type} (n : Nat) : Nat → List α → List (List α) × List α
  | 0, l => ([], l)
  | fuel + 1, l =>
    if l.length < n then ([], l)
    else
      let r := chunksGo n fuel (l.drop n)
      (l.take n :: r.1, r.2)
def chunksExact {α : Type} (n : Nat) (l : List α) : List (List α) × List α := chunksGo n l.length l

/-- `for i in 0..LANES { acc[i] += term(x[i], y[i]) }` -/
def lanesStep (lanes : Nat) (term : Int → Int → Int) (acc x y : List Int) : List Int :=
  (List.range lanes).map fun i => acc.getD i 0 + term (x.getD i 0) (y.getD i 0)

/-- The shared shape of `dot` and `l2_sq`: `lanes` independent accumulators over the zipped `chunks_exact(lanes)`,
    summed, then the zipped remainders added one by one. -/
def chunked (lanes : Nat) (term : Int → Int → Int) (a b : List Int) : Int :=
  let ca := chunksExact lanes a
  let cb := chunksExact lanes b
  let acc := (ca.1.zip cb.1).foldl (fun acc p => lanesStep lanes term acc p.1 p.2) (List.replicate lanes 0)
  (ca.2.zip cb.2).foldl (fun s p => s + term p.1 p.2) acc.sum

def dotTerm (x y : Int) : Int := x * y
def l2Term (x y : Int) : Int := (x - y) * (x - y)
/-- `dot(a, b)` -/
def dot (a b : List Int) : Int := chunked 8 dotTerm a b
/-- `l2_sq(a, b)` -/
def l2sq (a b : List Int) : Int := chunked 8 l2Term a b
/-- `norm(a)²` -/
def normSq (a : List Int) : Int := dot a a

/-- the documented formulas' exact ingredients -/
def dotSpec (a b : List Int) : Int := (List.zipWith dotTerm a b).sum
def l2Spec (a b : List Int) : Int := (List.zipWith l2Term a b).sum

inductive Kind | l2 | cosine | cosineSimilarity | dot
deriving Repr, DecidableEq

/-- value of one row: `sqrt(sq)`; `d`; cosine: similarity `d / (sqrt na * sqrt nb)`, or 0 when the denominator is 0
    (`zero`), returned as `1 - sim` when `dist`. -/
inductive Val
  | l2 (sq : Int)
  | dot (d : Int)
  | cos (dist : Bool) (zero : Bool) (d na nb : Int)
deriving Repr, DecidableEq

/-- the `match kind { … }` of both loops (`q_norm`/`norm(b)` enters as its square `nb`) -/
def rowValue (kind : Kind) (a b : List Int) : Val :=
  match kind with
  | .l2 => .l2 (l2sq a b)
  | .dot => .dot (dot a b)
  | .cosine => .cos true (normSq a == 0 || normSq b == 0) (dot a b) (normSq a) (normSq b)
  | .cosineSimilarity => .cos false (normSq a == 0 || normSq b == 0) (dot a b) (normSq a) (normSq b)

inductive Err | notVector | dimMismatch | notFloat | shortBuffer
deriving Repr, DecidableEq

inductive Elem | f32 | f64 | other
deriving Repr, DecidableEq

/-- A `FixedSizeList<elem, dim>` array as the kernels see it: `flat` = `list.values()` (already offset-adjusted),
    one validity bit per row. `isList = false` models any other Arrow type. -/
structure Col where
  isList : Bool := true
  elem : Elem := .f32
  dim : Nat
  flat : List Int
  valid : List Bool
deriving Repr

def Col.len (c : Col) : Nat := c.valid.length
/-- `&flat[i*dim .. (i+1)*dim]` -/
def Col.row (c : Col) (i : Nat) : List Int := (c.flat.drop (i * c.dim)).take c.dim
def Col.isNull (c : Col) (i : Nat) : Bool := !(c.valid.getD i false)
/-- `FixedSizeListArray::slice(off, len)` -/
def Col.slice (c : Col) (off len : Nat) : Col :=
  { c with flat := (c.flat.drop (off * c.dim)).take (len * c.dim), valid := (c.valid.drop off).take len }

/-- `distance_column(column, query, kind, _)` -/
def distanceColumn (c : Col) (query : List Int) (kind : Kind) : Except Err (List (Option Val)) :=
  if !c.isList then .error .notVector
  else if c.dim != query.length then .error .dimMismatch
  else if c.elem == .other then .error .notFloat
  else if c.flat.length < c.len * c.dim then .error .shortBuffer
  else .ok ((List.range c.len).map fun i => if c.isNull i then none else some (rowValue kind (c.row i) query))

/-- `distance_columns(left, right, kind)` (Float32 columns only; `n = min(left.len(), right.len())`) -/
def distanceColumns (l r : Col) (kind : Kind) : Except Err (List (Option Val)) :=
  if !l.isList || l.elem != .f32 then .error .notVector
  else if !r.isList || r.elem != .f32 then .error .notVector
  else if l.dim != r.dim then .error .dimMismatch
  else .ok ((List.range (min l.len r.len)).map fun i =>
    if l.isNull i || r.isNull i then none else some (rowValue kind (l.row i) (r.row i)))

end IQE.Engine.VecDist
