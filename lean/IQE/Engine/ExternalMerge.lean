/-
  IQE.Engine.ExternalMerge — executable model of the spilled paths of src/physical/operators/spillable.rs.

  ExternalSortExec: `generate_runs` (consecutive input batches are buffered until the budget would be exceeded; each buffer is
  concatenated, sorted with the ORDER BY comparator and written as one run), `merge_runs` / `multi_pass_merge` (fan-in 8) /
  `streaming_k_way_merge` (repeatedly pop the run whose current row is minimal under `compare_rows`; the earliest run wins ties).
  SpillableHashJoinExec / SpillableHashAggregateExec spill paths: hash-partition both inputs (64 partitions, any hash), treat
  each partition on its own, concatenate.

  Deviation switches = defects of the unchanged tree (all off = the intended algorithm):
    * `ignoreFetch`        — C08-F1 (repaired by 6bbb4e5): the spilled path never applied `fetch` (ORDER BY … LIMIT k returned every row)
    * `mergeNullsByDir`    — C08-F2: `compare_array_values` puts NULLs last and `compare_rows` reverses the WHOLE comparison for
                             DESC keys, so the merge orders NULLs "last for ASC, first for DESC" whatever NULLS FIRST/LAST says,
                             while the runs were sorted with the requested placement
    * `mergeBoolEqual`     — C08-F3: key types outside {Int64, Int32, Float64, Utf8, Date32} compare Equal in the merge
    * `joinDropsOtherKeys` — C08-F5: join keys outside {Int64, Int32, UInt64, Float64, Utf8} are read as NULL and never match
-/
import IQE.Spec.OrderAgg
namespace IQE.Engine.ExternalMerge
open IQE IQE.Spec

structure Dev where
  ignoreFetch : Bool := false
  mergeNullsByDir : Bool := false
  mergeBoolEqual : Bool := false
  joinDropsOtherKeys : Bool := false
deriving Repr, DecidableEq

variable {α : Type}

/-! ### streaming k-way merge -/

/-- one step of `streaming_k_way_merge`: the minimal current row over all runs (the earliest run wins ties: a later run replaces
    the candidate only when `compare_rows` says strictly `Less`) and the runs with that row consumed -/
def extractMin (lt : α → α → Bool) : List (List α) → Option (α × List (List α))
  | [] => none
  | [] :: rs => (extractMin lt rs).map (fun r => (r.1, [] :: r.2))
  | (x :: xs) :: rs =>
    match extractMin lt rs with
    | none => some (x, xs :: rs)
    | some (m, rs') => if lt m x then some (m, (x :: xs) :: rs') else some (x, xs :: rs)

/-- the merge loop; `fuel` ≥ total number of rows -/
def kWayMerge (lt : α → α → Bool) (runs : List (List α)) : Nat → List α
  | 0 => []
  | fuel + 1 =>
    match extractMin lt runs with
    | none => []
    | some (m, rs) => m :: kWayMerge lt rs fuel

def totalLen (runs : List (List α)) : Nat := (runs.map List.length).sum

def mergeRuns (lt : α → α → Bool) (runs : List (List α)) : List α := kWayMerge lt runs (totalLen runs)

/-- `chunks(fanin)` -/
def chunksOf (n : Nat) (l : List (List α)) : Nat → List (List (List α))
  | 0 => []
  | fuel + 1 => if l.isEmpty then [] else l.take n :: chunksOf n (l.drop n) fuel

/-- `multi_pass_merge`: while more than `fanin` runs remain, merge them in chunks of `fanin` (a chunk of one run is passed on,
    an empty merge result is dropped); then the final merge -/
def multiPass (lt : α → α → Bool) (fanin : Nat) (runs : List (List α)) : Nat → List α
  | 0 => mergeRuns lt runs
  | fuel + 1 =>
    if runs.length > fanin then
      let next := (chunksOf fanin runs runs.length).filterMap fun chunk =>
        match chunk with
        | [r] => some r
        | _ => let m := mergeRuns lt chunk; if m.isEmpty then none else some m
      multiPass lt fanin next fuel
    else mergeRuns lt runs

/-- `merge_runs` (MAX_MERGE_FANIN = 8) -/
def mergeAll (lt : α → α → Bool) (runs : List (List α)) : List α :=
  match runs with
  | [] => []
  | [r] => r
  | _ => if runs.length > 8 then multiPass lt 8 runs runs.length else mergeRuns lt runs

/-! ### ExternalSortExec on key-carrying rows -/

abbrev Keyed := List Val × Row

/-- the comparator the runs are sorted with (`sort_batch`: arrow lexsort with the requested direction and NULL placement) -/
def leSort (fo : FloatOps) (flags : List (Bool × Bool)) (a b : Keyed) : Bool := cmpKeys fo flags a.1 b.1 != .gt

/-- `compare_array_values` + `compare_rows` as they are: NULLs last, then the whole result reversed for a DESC key -/
def cmpMergeVal (fo : FloatOps) (dev : Dev) (desc : Bool) (a b : Val) : Ordering :=
  let o : Ordering := match a, b with
    | .null, .null => .eq
    | .null, _ => .gt
    | _, .null => .lt
    | .bool x, .bool y => if dev.mergeBoolEqual then .eq else compare x.toNat y.toNat
    | a, b => match Val.cmpNonNull fo a b with | .ok o => o | .error _ => .eq
  if desc then o.swap else o

def cmpMerge (fo : FloatOps) (dev : Dev) : List (Bool × Bool) → List Val → List Val → Ordering
  | (d, nf) :: fs, a :: as, b :: bs =>
    let o := if dev.mergeNullsByDir || dev.mergeBoolEqual then cmpMergeVal fo dev d a b else cmpKeyVal fo d nf a b
    match o with
    | .eq => cmpMerge fo dev fs as bs
    | o => o
  | _, _, _ => .eq

def ltMerge (fo : FloatOps) (dev : Dev) (flags : List (Bool × Bool)) (a b : Keyed) : Bool := cmpMerge fo dev flags a.1 b.1 == .lt

/-- the spilled path of `ExternalSortExec::execute`: `runsOfBatches` = how `generate_runs` grouped the input batches into runs -/
def externalSort (fo : FloatOps) (dev : Dev) (flags : List (Bool × Bool)) (fetch : Option Nat) (runsOfBatches : List (List (List Keyed))) : List Keyed :=
  let runs := (runsOfBatches.filter (fun bs => !bs.isEmpty)).map (fun bs => bs.flatten.mergeSort (leSort fo flags))
  let merged := mergeAll (ltMerge fo dev flags) runs
  match fetch with
  | some k => if dev.ignoreFetch then merged else merged.take k
  | none => merged

/-! ### grace hash join / partitioned aggregation -/

/-- nested-loop inner join on a match predicate -/
def joinOn {β : Type} (m : α → β → Bool) (L : List α) (R : List β) : List (α × β) :=
  L.flatMap fun l => (R.filter (m l)).map fun r => (l, r)

/-- partition both sides with `pl` / `pr` into `P` partitions, join partition-wise, concatenate -/
def graceJoin {β : Type} (P : Nat) (pl : α → Nat) (pr : β → Nat) (m : α → β → Bool) (L : List α) (R : List β) : List (α × β) :=
  (List.range P).flatMap fun p => joinOn m (L.filter (fun l => pl l == p)) (R.filter (fun r => pr r == p))

/-- distinct keys in order of first appearance -/
def dedup {κ : Type} [DecidableEq κ] : List κ → List κ
  | [] => []
  | x :: xs => x :: (dedup xs).filter (fun y => y ≠ x)

/-- GROUP BY: one output per distinct key, computed from the rows of that key (in input order) -/
def groupAgg {κ γ : Type} [DecidableEq κ] (key : α → κ) (agg : List α → γ) (L : List α) : List (κ × γ) :=
  (dedup (L.map key)).map fun k => (k, agg (L.filter (fun x => key x = k)))

/-- partition the rows by a hash of the key, aggregate every partition on its own, concatenate -/
def partitionedAgg {κ γ : Type} [DecidableEq κ] (P : Nat) (h : κ → Nat) (key : α → κ) (agg : List α → γ) (L : List α) : List (κ × γ) :=
  (List.range P).flatMap fun p => groupAgg key agg (L.filter (fun x => h (key x) == p))

/-- `execute_spill_path`: INNER only, no ON filter — anything else is an explicit error, never a wrong answer -/
inductive JoinKind | inner | other
deriving DecidableEq, Repr

def spilledJoin {β : Type} (kind : JoinKind) (hasFilter : Bool) (P : Nat) (pl : α → Nat) (pr : β → Nat) (m : α → β → Bool)
    (L : List α) (R : List β) : Except String (List (α × β)) :=
  if kind ≠ .inner then .error "join spill path supports only INNER joins"
  else if hasFilter then .error "join spill path cannot evaluate an ON-clause filter"
  else .ok (graceJoin P pl pr m L R)

end IQE.Engine.ExternalMerge
