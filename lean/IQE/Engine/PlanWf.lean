/-
  IQE.Engine.PlanWf — the exported-plan model: a name-based mirror of the engine's public
  `LogicalPlan` / `Expr` enums (src/planner/logical_plan.rs, logical_expr.rs), the engine's run-time column
  resolution order (`find_column_index`, src/physical/operators/filter.rs), the schema a node reports
  (`LogicalPlan::schema()`), the schema its physical operator produces, and the well-formedness checker of C31.

  Expressions: every non-leaf scalar construct is `op kind tag args` — `kind` names the construct
  ("bin","un","agg","fn","cast","case","inlist","between","window"), `tag` carries its operator / function /
  flags, `args` its sub-expressions in source order.  Subquery expressions keep their plan: `sub kind neg args p`
  (kind "scalar" | "exists" | "in").  Options are lists of length ≤ 1, pair lists are two lists.
-/
namespace IQE.Engine.PlanWf

structure Field where
  name : String
  rel : Option String := none
  ty : String := "?"
deriving DecidableEq, Repr, Inhabited

abbrev Schema := List Field

/-- the Arrow field name the physical layer uses (`SchemaField::qualified_name`) -/
def Field.qname (f : Field) : String :=
  match f.rel with
  | some r => r ++ "." ++ f.name
  | none => f.name

inductive Lit where
  | null
  | bool (b : Bool)
  | int (i : Int)
  | f64 (bits : Nat)
  | str (s : String)
  | date (d : Int)
  | vec (xs : List Nat)          -- list literal of floats, as f64 bit patterns
  | other (s : String)
deriving DecidableEq, Repr, Inhabited

inductive JT where
  | inner | left | right | full | semi | anti | cross | single | mark
deriving DecidableEq, Repr, Inhabited

structure VsInfo where
  table : String
  column : String
  query : List Nat
  k : Nat
  skip : Nat
  metric : String
  outputs : List (String × Field)
deriving Repr, Inhabited

mutual
inductive PExpr where
  | col (rel : Option String) (name : String)
  | lit (ty : String) (v : Lit)
  | op (kind : String) (tag : String) (args : List PExpr)
  | alias (e : PExpr) (name : String)
  | sub (kind : String) (neg : Bool) (args : List PExpr) (p : Plan)
  | star (rel : Option String)
inductive Plan where
  | scan (table : String) (schema : Schema) (proj : Option (List Nat)) (filter : List PExpr)
  | filter (pred : PExpr) (input : Plan)
  | project (exprs : List PExpr) (schema : Schema) (input : Plan)
  | join (jt : JT) (onL onR : List PExpr) (filter : List PExpr) (schema : Schema) (l r : Plan)
  | agg (group aggs : List PExpr) (schema : Schema) (input : Plan)
  | window (names : List String) (wexprs : List PExpr) (schema : Schema) (input : Plan)
  | sort (keys : List PExpr) (flags : List (Bool × Bool)) (input : Plan)      -- flags: (desc, nullsFirst)
  | limit (skip : Nat) (fetch : Option Nat) (input : Plan)
  | distinct (input : Plan)
  | union (all : Bool) (schema : Schema) (inputs : List Plan)
  | alias (name : String) (cte : Option String) (schema : Schema) (input : Plan)
  | empty (oneRow : Bool) (schema : Schema)
  | values (rows : List PExpr) (width : Nat) (schema : Schema)                 -- rows flattened row-major
  | delimJoin (jt : JT) (delim onL onR : List PExpr) (schema : Schema) (l r : Plan)
  | delimGet (cols : List PExpr) (schema : Schema) (id : Nat)
  | vsearch (info : VsInfo) (filter : List PExpr) (sortKey : PExpr) (desc nf : Bool) (schema : Schema) (input : Plan)
end

instance : Inhabited PExpr := ⟨.star none⟩
instance : Inhabited Plan := ⟨.empty false []⟩

/-! ### column resolution (run time) -/

/-- index of the first element satisfying `p` -/
def findIdx (p : α → Bool) : List α → Option Nat
  | [] => none
  | x :: xs => if p x then some 0 else (findIdx p xs).map (· + 1)

/-- `find_column_index`: (1) the qualified name if the reference is qualified, (2) the bare name as a whole field
    name, (3) the first field that ends in `.name` or equals it.  Never ambiguous: the first match wins. -/
def resolve (s : Schema) (rel : Option String) (name : String) : Option Nat :=
  let byQual : Option Nat := match rel with
    | some r => findIdx (fun f => f.qname == r ++ "." ++ name) s
    | none => none
  match byQual with
  | some i => some i
  | none =>
    match findIdx (fun f => f.qname == name) s with
    | some i => some i
    | none => findIdx (fun f => ("." ++ name).toList.isSuffixOf f.qname.toList || f.qname == name) s

/-! ### schemas -/

def projectSchema (s : Schema) (idx : List Nat) : Schema := idx.filterMap (fun i => s[i]?)

/-- `LogicalPlan::schema()`: the stored schema; pass-through nodes report their input's -/
def schemaOf : Plan → Schema
  | .scan _ s _ _ => s
  | .filter _ i => schemaOf i
  | .project _ s _ => s
  | .join _ _ _ _ s _ _ => s
  | .agg _ _ s _ => s
  | .window _ _ s _ => s
  | .sort _ _ i => schemaOf i
  | .limit _ _ i => schemaOf i
  | .distinct i => schemaOf i
  | .union _ s _ => s
  | .alias _ _ s _ => s
  | .empty _ s => s
  | .values _ _ s => s
  | .delimJoin _ _ _ _ s _ _ => s
  | .delimGet _ s _ => s
  | .vsearch _ _ _ _ _ s _ => s

/-- The schema of the batches the node's physical operator emits (src/physical/planner.rs): a scan emits its
    projected columns, a hash join the concatenation of its inputs' batches (semi/anti: the left input; mark:
    left plus the stored mark column), a SubqueryAlias is lowered to its input, every other operator is built with the
    node's stored schema. -/
def outSchema : Plan → Schema
  | .scan _ s proj _ => match proj with | some idx => projectSchema s idx | none => s
  | .filter _ i => outSchema i
  | .project _ s _ => s
  | .join jt _ _ _ s l r =>
    match jt with
    | .semi | .anti => outSchema l
    | .mark => outSchema l ++ s.drop (s.length - 1)
    | _ => outSchema l ++ outSchema r
  | .agg _ _ s _ => s
  | .window _ _ s _ => s
  | .sort _ _ i => outSchema i
  | .limit _ _ i => outSchema i
  | .distinct i => outSchema i
  | .union _ s _ => s
  | .alias _ _ _ i => outSchema i        -- SubqueryAlias is not an operator: the planner lowers its input (the fields are already qualified by the binder)
  | .empty _ s => s
  | .values _ _ s => s
  | .delimJoin _ _ _ _ s _ _ => s
  | .delimGet _ s _ => s
  | .vsearch _ _ _ _ _ s _ => s

/-! ### well-formedness (the C31 checker)

  `scopes` are the schemas a column reference may resolve in, innermost first: the batch the operator receives,
  then — inside subquery plans — the batches of the enclosing queries (the subquery executor falls back to the outer
  row when the inner lookup reports ColumnNotFound, src/physical/operators/subquery.rs). -/

mutual
def wfE (scopes : List Schema) : PExpr → Bool
  | .col rel name => scopes.any (fun s => (resolve s rel name).isSome)
  | .lit _ _ => true
  | .op _ _ args => wfEs scopes args
  | .alias e _ => wfE scopes e
  | .sub _ _ args p => wfEs scopes args && wfP scopes p
  | .star _ => true
def wfEs (scopes : List Schema) : List PExpr → Bool
  | [] => true
  | e :: es => wfE scopes e && wfEs scopes es
/-- every column reference resolves in the schema of the batches the operator receives (by the engine's
    resolution order), and the arities the physical operators rely on match -/
def wfP (outer : List Schema) : Plan → Bool
  | .scan _ s proj filter =>
    (match proj with | some idx => idx.all (fun i => decide (i < s.length)) | none => true)
      && wfEs ((match proj with | some idx => projectSchema s idx | none => s) :: outer) filter
  | .filter pred i => wfP outer i && wfE (outSchema i :: outer) pred
  | .project exprs s i => wfP outer i && (wfEs (outSchema i :: outer) exprs && exprs.length == s.length)
  | .join jt onL onR filter s l r =>
    wfP outer l && (wfP outer r && (wfEs (outSchema l :: outer) onL && (wfEs (outSchema r :: outer) onR
      && (onL.length == onR.length && (wfEs ((outSchema l ++ outSchema r) :: outer) filter
      && (match jt with | .mark => decide (1 ≤ s.length) | _ => true))))))
  | .agg group aggs s i =>
    wfP outer i && (wfEs (outSchema i :: outer) group && (wfEs (outSchema i :: outer) aggs && group.length + aggs.length == s.length))
  | .window names wexprs s i =>
    wfP outer i && (wfEs (outSchema i :: outer) wexprs && ((outSchema i).length + wexprs.length == s.length && names.length == wexprs.length))
  | .sort keys _ i => wfP outer i && wfEs (outSchema i :: outer) keys
  | .limit _ _ i => wfP outer i
  | .distinct i => wfP outer i
  | .union _ s inputs => wfPs outer s.length inputs
  | .alias _ _ _ i => wfP outer i
  | .empty _ _ => true
  | .values rows width s => wfEs outer rows && (width == s.length && (decide (0 < width) && rows.length % width == 0 || rows.isEmpty))
  | .delimJoin jt delim onL onR s l r =>
    wfP outer l && (wfP outer r && (wfEs (outSchema l :: outer) delim && (wfEs (outSchema l :: outer) onL
      && (wfEs (outSchema r :: outer) onR && (onL.length == onR.length
      && (match jt with
          | .semi | .anti => (outSchema l).length == s.length
          | .mark => (outSchema l).length + 1 == s.length
          | _ => (outSchema l).length + (outSchema r).length == s.length))))))
  | .delimGet _ _ _ => true
  | .vsearch _ _ sortKey _ _ s i => wfP outer i && (wfE (outSchema i :: outer) sortKey && (outSchema i).length == s.length)
/-- all inputs well-formed and of the union's arity -/
def wfPs (outer : List Schema) (arity : Nat) : List Plan → Bool
  | [] => true
  | p :: ps => wfP outer p && ((outSchema p).length == arity && wfPs outer arity ps)
end

/-- top-level well-formedness of an exported plan -/
def wf (p : Plan) : Bool := wfP [] p

/-- names and types of a schema -/
def nameTy (s : Schema) : List (String × String) := s.map (fun f => (f.name, f.ty))

/-- the rule kept the reported output schema (`LogicalPlan::schema()`): same column names and types, in order -/
def preserved (before after : Plan) : Bool := nameTy (schemaOf after) == nameTy (schemaOf before)

end IQE.Engine.PlanWf
