/-
  IQE.Engine.DistPlan — model of the distributed planner of `src/distributed/plan.rs` (property C09), stated over the
  resolved plans of `IQE.Spec.Query`:

    * `scanCount` / `noScan`     — the table census of `walk_census` (every reference counts, subquery expressions included);
    * `shardSafe T q`            — the AGGREGATE-FREE part of the capability check: `T` is scanned exactly once, in the main
                                   FROM tree, on the preserved side of every outer join and the probe side of every semi /
                                   anti join on its path, never inside a subquery expression, and no DISTINCT / set
                                   operation / window / LIMIT / aggregate / VALUES / CTE on the way (derived tables are
                                   nested select blocks: Project / Filter / Sort are harmless, everything else refuses);
    * `scatterShape q T`         — which merge shape (`Concat`, `TwoPhase`, `TopN`) `plan_distributed` may choose when it
                                   shards `T`; `none` = the shape has no exact split over `T` (gather or refusal);
    * the partial-aggregate rewrite of `Rewriter` (`partialAggs`, `finalAggs`, `finalExprs`): COUNT → SUM of counts,
      SUM/MIN/MAX → themselves, AVG → SUM and COUNT divided once at the end (`CAST(.. AS DOUBLE) / CAST(.. AS DOUBLE)`),
      HAVING / ORDER BY / LIMIT at the merge stage;
    * the TopN merge (`topnShard`, `topnMerge`).

  No deviation switch: no defect of the split itself is known (findings C09-F1/F2 are failures of the merge step to
  RUN — an error, never a wrong row — and are mirrored by signatures in Driver/C09.lean).
-/
import IQE.Spec.Query
namespace IQE.Engine.DistPlan
open IQE IQE.Spec

/-! ## census: how often is table `T` referenced (subquery expressions, CTE definitions included) -/

mutual
def scanCount (T : Nat) : Query → Nat
  | .scan t => if t = T then 1 else 0
  | .cteRef _ => 0
  | .values _ => 0
  | .filter subs _ q => scanCountL T subs + scanCount T q
  | .project subs _ q => scanCountL T subs + scanCount T q
  | .join _ _ _ subs _ l r => scanCountL T subs + scanCount T l + scanCount T r
  | .agg _ _ q => scanCount T q
  | .groupingSets _ _ _ q => scanCount T q
  | .distinct q => scanCount T q
  | .sort _ q => scanCount T q
  | .limit _ _ q => scanCount T q
  | .setop _ _ l r => scanCount T l + scanCount T r
  | .window _ q => scanCount T q
  | .withCte defs body => scanCountL T defs + scanCount T body
def scanCountL (T : Nat) : List Query → Nat
  | [] => 0
  | q :: qs => scanCount T q + scanCountL T qs
end

def noScan (T : Nat) (q : Query) : Bool := scanCount T q == 0
def noScanL (T : Nat) (qs : List Query) : Bool := scanCountL T qs == 0

/-! ## the aggregate-free part of the capability check -/

/-- `shardSafe T q`: running `q` per shard of `T` (all other tables fully replicated) and concatenating is exact.
    Mirrors `walk_census` with `WalkFlags { in_subquery: false, shard_safe: true }` reaching the single scan of `T`:
    Inner/Cross keep the flag on both sides, Left/Semi/Anti on the left only, Right on the right only, Full on neither. -/
def shardSafe (T : Nat) : Query → Bool
  | .scan t => t == T
  | .filter subs _ q => noScanL T subs && shardSafe T q
  | .project subs _ q => noScanL T subs && shardSafe T q
  | .sort _ q => shardSafe T q
  | .join jt _ _ subs _ l r =>
    noScanL T subs &&
    (match jt with
     | .inner | .cross => (shardSafe T l && noScan T r) || (noScan T l && shardSafe T r)
     | .left | .semi | .anti => shardSafe T l && noScan T r
     | .right => noScan T l && shardSafe T r
     | .full => false)
  | _ => false

/-! ## merge shapes -/

inductive Shape | concat | twoPhase | topN
deriving DecidableEq, Repr, Inhabited

def Shape.name : Shape → String
  | .concat => "Concat" | .twoPhase => "TwoPhase" | .topN => "TopN"

/-- the aggregate functions with an exact partial / final split (`check_agg_decomposable`) -/
def decomposable (a : AggCall) : Bool := !a.distinct

/-- sort keys of the merge stage may only name output columns (`plan_topn`, `rewrite_order_by`) -/
def keyIsOutputCol (k : SortKey) : Bool := match k.e with | .col _ => true | _ => false

/-- the select block under the statement's trailing ORDER BY / LIMIT -/
def blockShape (T : Nat) (hasOrderLimit : Bool) : Query → Option Shape
  | .project subs _ (.filter hsubs _ (.agg _ aggs core)) =>
    if subs.isEmpty && hsubs.isEmpty && aggs.all decomposable && shardSafe T core then some .twoPhase else none
  | .project subs _ (.agg _ aggs core) =>
    if subs.isEmpty && aggs.all decomposable && shardSafe T core then some .twoPhase else none
  | .project subs es core =>
    if shardSafe T (.project subs es core) then some (if hasOrderLimit then .topN else .concat) else none
  | _ => none

/-- Which exact shape may `plan_distributed` choose when it shards `T`?  `none`: no exact split (gather / refusal). -/
def scatterShape (T : Nat) : Query → Option Shape
  | .limit _ _ (.sort keys body) => if keys.all keyIsOutputCol then blockShape T true body else none
  | .limit _ _ body => blockShape T true body
  | .sort keys body => if keys.all keyIsOutputCol then blockShape T true body else none
  | body => blockShape T false body

/-! ## the partial / final rewrite of aggregates -/

/-- what each worker computes for one aggregate of the statement -/
def partialOf (a : AggCall) : List AggCall :=
  match a.fn with
  | .avg => [{ fn := .sum, arg := a.arg }, { fn := .count, arg := a.arg }]
  | _ => [{ fn := a.fn, arg := a.arg }]

def partialAggs (aggs : List AggCall) : List AggCall := aggs.flatMap partialOf

/-- the merge aggregate(s) over the partial column(s) starting at position `c` of the partial table -/
def finalOf (c : Nat) (a : AggCall) : List AggCall :=
  match a.fn with
  | .countStar | .count => [{ fn := .sum, arg := .col c }]
  | .sum => [{ fn := .sum, arg := .col c }]
  | .min => [{ fn := .min, arg := .col c }]
  | .max => [{ fn := .max, arg := .col c }]
  | .avg => [{ fn := .sum, arg := .col c }, { fn := .sum, arg := .col (c + 1) }]

def finalAggsFrom : Nat → List AggCall → List AggCall
  | _, [] => []
  | c, a :: as => finalOf c a ++ finalAggsFrom (c + (partialOf a).length) as

/-- the merge projection restoring the statement's aggregate columns from the merge aggregate's output -/
def finalExprOf (c : Nat) (a : AggCall) : Expr :=
  match a.fn with
  | .avg => .bin .div (.cast (.col c) .f64) (.cast (.col (c + 1)) .f64)
  | _ => .col c

def finalExprsFrom : Nat → List AggCall → List Expr
  | _, [] => []
  | c, a :: as => finalExprOf c a :: finalExprsFrom (c + (partialOf a).length) as

def colsUpTo (k : Nat) : List Expr := (List.range k).map Expr.col

/-- the merge query over the concatenated partial rows: `SELECT qe_g…, <merge exprs> FROM qe_dist_partial GROUP BY qe_g…`
    (output = the statement's aggregate node output: keys ++ aggregates) -/
def finalStage (cx : EvalCtx) (nkeys : Nat) (aggs : List AggCall) (partials : Table) : Except Err Table := do
  let merged ← aggregate cx [] (colsUpTo nkeys) (finalAggsFrom nkeys aggs) partials
  merged.mapM fun r => evalList cx [r] (colsUpTo nkeys ++ finalExprsFrom nkeys aggs)

/-! ## TopN -/

def takeOpt {α : Type} (fetch : Option Nat) (l : List α) : List α :=
  match fetch with | some n => l.take n | none => l

/-- per-shard pre-truncation: `ORDER BY … LIMIT skip + fetch` when a LIMIT exists, the shard's rows otherwise -/
def topnKeep (skip : Nat) (fetch : Option Nat) : Option Nat := fetch.map (· + skip)

end IQE.Engine.DistPlan
