/-
  IQE.Engine.SortLimit — executable models of
    * `LimitExec::execute` (src/physical/operators/limit.rs): the `stream::unfold` loop that walks the input's
      partitions in index order around the TRANSLATED step functions `LimitState::{satisfied, take_from}`
      (IQE.Gen.Limit — regenerated from the Rust source on every run);
    * `SortExec::execute` / `sort_batch` (src/physical/operators/sort.rs): concat every batch of every partition,
      `lexsort_to_indices(keys, fetch)`, `take`;
    * the planner's Sort+Limit fusion (src/physical/planner.rs, `LogicalPlan::Limit` arm).
  Arrow's `lexsort_to_indices` is a library routine (trusted base): it returns the indices of SOME sorted order
  (`sort_unstable_by`; with a limit: `select_nth_unstable` + sort of the prefix).  The model picks the stable one;
  the correspondence check compares up to ties and C25_topk_fusion covers every selection.
-/
import IQE.Spec.OrderAgg
import IQE.Gen.Limit
namespace IQE.Engine.SortLimit
open IQE IQE.Spec IQE.Gen.Limit

/-! ### LimitExec -/

/-- `LimitState { skip, fetch, skipped: 0, fetched: 0, .. }` -/
def initState (skip : Nat) (fetch : Option Nat) : LimitState :=
  { skip := skip, fetch := fetch.map Int.ofNat, skipped := 0, fetched := 0 }

/-- the inner part of the unfold loop while one input partition stream is open: before every poll the loop
    re-checks `satisfied()`; `take_from` may contribute no output (`None`) -/
def drain (st : LimitState) : List Slice → LimitState × List Slice
  | [] => (st, [])
  | b :: bs =>
    if st.satisfied then (st, [])
    else
      let r := st.take_from b
      let rest := drain r.1 bs
      (rest.1, r.2.toList ++ rest.2)

/-- the whole loop: a partition is opened (`input.execute(p)`) only if the limit is not yet satisfied.
    Returns the final state, the emitted slices and the number of partitions opened. -/
def runParts (st : LimitState) : List (List Slice) → LimitState × List Slice × Nat
  | [] => (st, [], 0)
  | p :: ps =>
    if st.satisfied then (st, [], 0)
    else
      let d := drain st p
      let rest := runParts d.1 ps
      (rest.1, d.2 ++ rest.2.1, rest.2.2 + 1)

/-- the side conditions (no `usize` overflow, `RecordBatch::slice` in bounds) of every `take_from` call made by `drain` -/
def drainInRange (st : LimitState) : List Slice → Prop
  | [] => True
  | b :: bs =>
    if st.satisfied then True
    else LimitState.take_from_inRange st b ∧ drainInRange (st.take_from b).1 bs

def runPartsInRange (st : LimitState) : List (List Slice) → Prop
  | [] => True
  | p :: ps =>
    if st.satisfied then True
    else drainInRange st p ∧ runPartsInRange (drain st p).1 ps

/-- batches of consecutive rows: lengths `ls`, the first one starting at global row `c` -/
def layoutFrom (c : Nat) : List Nat → List Slice
  | [] => []
  | n :: ns => ⟨c, n⟩ :: layoutFrom (c + n) ns

def layoutParts (c : Nat) : List (List Nat) → List (List Slice)
  | [] => []
  | p :: ps => layoutFrom c p :: layoutParts (c + p.sum) ps

/-- the rows a slice denotes -/
def rowsOf {α : Type} (xs : List α) (s : Slice) : List α := (xs.drop s.off.toNat).take s.len.toNat

/-- `LimitExec(skip, fetch).execute(0)` over an input given as partitions × batches × rows:
    output batches and the number of input partitions that were opened -/
def limitExec {α : Type} (skip : Nat) (fetch : Option Nat) (parts : List (List (List α))) : List (List α) × Nat :=
  let xs := parts.flatten.flatten
  let r := runParts (initState skip fetch) (layoutParts 0 (parts.map (·.map List.length)))
  (r.2.1.map (rowsOf xs), r.2.2)

/-! ### SortExec -/

/-- a row together with its evaluated sort-key vector -/
abbrev Keyed := List Val × Row

/-- `arrow::compute::lexsort_to_indices(columns, limit)`: indices of the rows in sorted order, truncated to `limit` -/
def lexsortToIndices (fo : FloatOps) (flags : List (Bool × Bool)) (keys : List (List Val)) (limit : Option Nat) : List Nat :=
  let idx := (List.range keys.length).mergeSort (fun i j => cmpKeys fo flags (keys.getD i []) (keys.getD j []) != .gt)
  match limit with
  | some k => idx.take k
  | none => idx

/-- `sort_batch(batch, order_by, fetch)`: evaluate keys, indices, `take` every column -/
def sortBatch (fo : FloatOps) (flags : List (Bool × Bool)) (fetch : Option Nat) (batch : List Keyed) : List Keyed :=
  if batch.isEmpty then batch
  else (lexsortToIndices fo flags (batch.map (·.1)) fetch).map (fun i => batch.getD i ([], []))

/-- `SortExec::execute(0)`: all batches of all partitions, concatenated, sorted; no output batch for an empty input -/
def sortExec (fo : FloatOps) (flags : List (Bool × Bool)) (fetch : Option Nat) (parts : List (List (List Keyed))) : List (List Keyed) :=
  let all := parts.flatten
  if all.isEmpty then [] else [sortBatch fo flags fetch all.flatten]

/-! ### the planner's Sort + Limit fusion -/

inductive Phys
  | sortFetch (k : Nat)                                -- SortExec::with_fetch(input, order_by, k)
  | limitOverSort (skip : Nat) (fetch : Option Nat)    -- LimitExec(skip, fetch) over SortExec::new
deriving DecidableEq, Repr

/-- `LogicalPlan::Limit` over `LogicalPlan::Sort` (no memory limit configured): fuse iff `skip == 0` and a fetch is present -/
def planLimitOverSort (skip : Nat) (fetch : Option Nat) : Phys :=
  if skip == 0 then
    match fetch with
    | some k => .sortFetch k
    | none => .limitOverSort skip fetch
  else .limitOverSort skip fetch

/-- rows produced by the physical plan chosen for `… ORDER BY keys LIMIT fetch OFFSET skip` -/
def execPhys (fo : FloatOps) (flags : List (Bool × Bool)) (parts : List (List (List Keyed))) : Phys → List Keyed
  | .sortFetch k => (sortExec fo flags (some k) parts).flatten
  | .limitOverSort skip fetch => (limitExec skip fetch [sortExec fo flags none parts]).1.flatten

def orderLimit (fo : FloatOps) (flags : List (Bool × Bool)) (skip : Nat) (fetch : Option Nat) (parts : List (List (List Keyed))) : List Keyed :=
  execPhys fo flags parts (planLimitOverSort skip fetch)

end IQE.Engine.SortLimit
