/-
  IQE.Engine.Acc — accumulator algebras of the engine's aggregation paths (C21), one per path, each
  `(State, init, update, merge, finalize)`, mirroring the Rust:

  * `hash`       src/physical/operators/hash_agg.rs — `struct AccumulatorState` (304) restricted to
                 count / sum / sum_i64 / min_* / max_* / distinct_set; `update_accumulator` (2170),
                 `merge_accumulator_states` (1359), `build_agg_array` (2542).
  * `vectorized` same file — `VectorizedGroupTable` flat arrays (448), update loops (623–811),
                 `build_vectorized_agg_column` (975).  The engine never merges two tables (one table
                 is fed all batches in order); `merge` here is the component-wise combination and the
                 sequential use is the left-comb merge tree.
  * `morsel`     src/physical/morsel_agg.rs — `enum AccumulatorState` (705): `new` (734), `update` /
                 `update_f64` / `update_i64` (768–968), `merge` (978), `finalize` (1065).
  * `rawSum`     the bare sums without a "seen" bit: `raw_sums: HashMap<u64, f64>` (morsel_agg.rs 2045–2077,
                 today gated to NULL-free inputs) and the dense-direct path
                 src/physical/operators/morsel_agg.rs `try_execute_dense_direct` (392): `acc_f64` / `acc_i64`
                 cells for SumF64 / SumI64 / Avg / Count, finalised at 729–765 with no NULL case.

  Deviation switches (`Dev`) reproduce the defects of the unchanged tree; all off = intended algorithm.
  Group level: `groupAgg` = group rows by key (NULL keys form one group) and run one algebra per aggregate.
  No Mathlib; imports only Core / Spec.
-/
import IQE.Spec.Query
namespace IQE.Engine.Acc
open IQE IQE.Spec

/-- deviation switches of the aggregation paths -/
structure Dev where
  /-- hash path: `SUM(DISTINCT x)` is finalised with `unwrap_or(0)` — 0 instead of NULL when no non-NULL input (A.3) -/
  sumDistinctEmptyZero : Bool := false
  /-- raw / dense-direct sums carry no "seen" bit: SUM over no non-NULL input is 0 (0.0), AVG is 0.0/0 -/
  rawSumNoSeenBit : Bool := false
  /-- with an empty aggregate list (DISTINCT, GROUP BY alone, UNION dedup) NULL keys are not grouped: every row
      whose key has a NULL component is its own group (A.24) -/
  emptyAggNullKeysUngrouped : Bool := false
  /-- a group whose key is NULL in every column is dropped when all its accumulators stayed empty — vacuously so
      with an empty aggregate list (A.25, `slot_has_data` / the perfect-hash occupancy test) -/
  nullKeyEmptyAccDropped : Bool := false
  /-- dense-direct aggregation over Parquet refuses NULL group keys with an error (A.5, shared with C04) -/
  denseRefusesNullKeys : Bool := false
  /-- `aggregate_scalar_simd` (global, one batch, one aggregate): MIN / MAX over no valid value return the fold's
      start sentinel (`unwrap_or(i64::MAX)` …) instead of NULL -/
  scalarMinMaxSentinel : Bool := false
  /-- MorselAggregateExec over Parquet: the input type of an aggregate whose argument is written with a qualified
      column name (`t.x`) cannot be looked up (`data_type(..).unwrap_or(Float64)`): SUM over BIGINT accumulates in the
      f64 arm and the Float64 result does not fit the BIGINT output column — NULL -/
  qualifiedSumIntNull : Bool := false
deriving Repr, DecidableEq, Inhabited

/-- an aggregate as the physical operator sees it: function, DISTINCT flag, input column type
    (`ty` is what the Rust obtains by down-casting the input array / from `input_types`) -/
structure Agg where
  fn : AggFn
  distinct : Bool := false
  ty : Ty := .int
deriving Repr, DecidableEq, Inhabited

structure Alg (σ : Type) where
  init : σ
  update : σ → Val → σ
  merge : σ → σ → σ
  finalize : σ → Val

/-- a merge tree: how partial states are combined (`empty` = no partial state at all, e.g. zero batches) -/
inductive MTree (α : Type)
  | empty
  | leaf (a : α)
  | node (l r : MTree α)
deriving Repr

namespace MTree
def leaves {α} : MTree α → List α
  | empty => []
  | leaf a => [a]
  | node l r => l.leaves ++ r.leaves
def map {α β} (f : α → β) : MTree α → MTree β
  | empty => empty
  | leaf a => leaf (f a)
  | node l r => node (l.map f) (r.map f)
/-- left comb over a list: `((c₁ ⊔ c₂) ⊔ c₃) …` -/
def comb {α} : List α → MTree α
  | [] => empty
  | a :: as => as.foldl (fun t x => node t (leaf x)) (leaf a)
end MTree

namespace Alg
variable {σ : Type} (A : Alg σ)
/-- consume one chunk of input values -/
def fold (xs : List Val) : σ := xs.foldl A.update A.init
def evalTree : MTree σ → σ
  | .empty => A.init
  | .leaf s => s
  | .node l r => A.merge (evalTree l) (evalTree r)
/-- fold every chunk to a partial state, combine along the tree, finalise -/
def run (t : MTree (List Val)) : Val := A.finalize (A.evalTree (t.map A.fold))
end Alg

/-! ### scalar helpers (the Rust `min` / `max` / compare-and-replace idioms: the new value replaces the
    current one iff it is strictly better) -/

def imin (cur new : Int) : Int := if new < cur then new else cur
def imax (cur new : Int) : Int := if cur < new then new else cur
def fmin (cur new : F64) : F64 := if F64.lt new cur then new else cur
def fmax (cur new : F64) : F64 := if F64.lt cur new then new else cur
def smin (cur new : String) : String := if compare new cur == .lt then new else cur
def smax (cur new : String) : String := if compare new cur == .gt then new else cur

/-- `Some(cur.map_or(v, |m| f m v))` -/
def optUpd {α} (f : α → α → α) (cur : Option α) (v : α) : Option α :=
  match cur with | none => some v | some m => some (f m v)

/-- merge of two optional extrema (`if let (Some t, Some s) … else if source.is_some()`) -/
def optMerge {α} (f : α → α → α) : Option α → Option α → Option α
  | some t, some s => some (f t s)
  | none, s => s
  | t, none => t

/-- `HashSet::insert` on a duplicate-free list (only membership and size are observable) -/
def setInsert (s : List Val) (v : Val) : List Val := if s.contains v then s else s ++ [v]
def setUnion (a b : List Val) : List Val := b.foldl setInsert a

/-- the f64 a numeric input contributes to a float sum (`as f64`) -/
def asF64 (fo : FloatOps) : Val → Option F64
  | .f64 x => some x
  | .int i => some (fo.ofInt i)
  | _ => none

/-! ### hash path -/

structure HashSt where
  count : Int := 0
  sum : F64 := F64.posZero
  sumI : Int := 0
  minI : Option Int := none
  maxI : Option Int := none
  minF : Option F64 := none
  maxF : Option F64 := none
  minS : Option String := none
  maxS : Option String := none
  distinct : Option (List Val) := none
deriving Repr, DecidableEq, Inhabited

def hashInsert (s : HashSt) (v : Val) : HashSt :=
  { s with distinct := some (setInsert (s.distinct.getD []) v) }

/-- `update_accumulator` -/
def hashUpdate (fo : FloatOps) (a : Agg) (s : HashSt) (v : Val) : HashSt :=
  match a.fn with
  | .countStar => { s with count := s.count + 1 }      -- COUNT(*) is Count over a never-NULL input
  | .count =>
    if v.isNull then s
    else if a.distinct then hashInsert s v              -- AggregateFunction::CountDistinct
    else { s with count := s.count + 1 }
  | .sum =>
    if v.isNull then s
    else if a.distinct then hashInsert s v
    else match v with
      | .int i => { s with count := s.count + 1, sumI := s.sumI + i, sum := fo.add s.sum (fo.ofInt i) }
      | .f64 x => { s with count := s.count + 1, sum := fo.add s.sum x }
      | _ => { s with count := s.count + 1 }
  | .avg =>                                              -- `distinct` is ignored by the Avg arm
    if v.isNull then s
    else match asF64 fo v with
      | some x => { s with count := s.count + 1, sum := fo.add s.sum x }
      | none => { s with count := s.count + 1 }
  | .min =>
    match v with
    | .int i => { s with minI := optUpd imin s.minI i }
    | .date d => { s with minI := optUpd imin s.minI d }
    | .f64 x => { s with minF := optUpd fmin s.minF x }
    | .str t => { s with minS := optUpd smin s.minS t }
    | _ => s
  | .max =>
    match v with
    | .int i => { s with maxI := optUpd imax s.maxI i }
    | .date d => { s with maxI := optUpd imax s.maxI d }
    | .f64 x => { s with maxF := optUpd fmax s.maxF x }
    | .str t => { s with maxS := optUpd smax s.maxS t }
    | _ => s

/-- the `distinct_set` union at the top of `merge_accumulator_states` -/
def mergeDistinct (t s : Option (List Val)) : Option (List Val) :=
  match s with
  | some ss => some (setUnion (t.getD []) ss)
  | none => t

/-- `merge_accumulator_states` (the i64 sum merges with `saturating_add`; overflow is outside the property) -/
def hashMerge (fo : FloatOps) (a : Agg) (t s : HashSt) : HashSt :=
  let t := { t with distinct := mergeDistinct t.distinct s.distinct }
  match a.fn with
  | .countStar | .count => { t with count := t.count + s.count }
  | .sum => { t with count := t.count + s.count, sum := fo.add t.sum s.sum, sumI := t.sumI + s.sumI }
  | .avg => { t with sum := fo.add t.sum s.sum, count := t.count + s.count }
  | .min => { t with minF := optMerge fmin t.minF s.minF, minI := optMerge imin t.minI s.minI,
                     minS := optMerge smin t.minS s.minS }
  | .max => { t with maxF := optMerge fmax t.maxF s.maxF, maxI := optMerge imax t.maxI s.maxI,
                     maxS := optMerge smax t.maxS s.maxS }

def sumIntStep (acc : Int) (v : Val) : Int := match v with | .int i => acc + i | .date d => acc + d | _ => acc
def sumIntSet (s : List Val) : Int := s.foldl sumIntStep 0
def sumF64Step (fo : FloatOps) (acc : F64) (v : Val) : F64 := match asF64 fo v with | some x => fo.add acc x | none => acc
def sumF64Set (fo : FloatOps) (s : List Val) : F64 := s.foldl (sumF64Step fo) F64.posZero

/-- `build_agg_array`, one group -/
def hashFinalize (dev : Dev) (fo : FloatOps) (a : Agg) (s : HashSt) : Val :=
  match a.fn with
  | .countStar => .int s.count
  | .count => if a.distinct then .int ((s.distinct.getD []).length) else .int s.count
  | .sum =>
    if a.distinct then
      -- `distinct_set.as_ref().map(|s| s.iter().sum()).unwrap_or(0)`: no NULL case at all in the code
      match s.distinct with
      | some set =>
        if set.isEmpty && !dev.sumDistinctEmptyZero then .null
        else (match a.ty with | .f64 => .f64 (sumF64Set fo set) | _ => .int (sumIntSet set))
      | none =>
        if dev.sumDistinctEmptyZero then (match a.ty with | .f64 => .f64 F64.posZero | _ => .int 0) else .null
    else if s.count > 0 then (match a.ty with | .f64 => .f64 s.sum | _ => .int s.sumI) else .null
  | .avg => if s.count > 0 then .f64 (fo.div s.sum (fo.ofInt s.count)) else .null
  | .min =>
    match a.ty with
    | .int => (match s.minI with | some v => .int v | none => .null)
    | .date => (match s.minI with | some v => .date v | none => .null)
    | .f64 => (match s.minF with | some v => .f64 v | none => .null)
    | .str => (match s.minS with | some v => .str v | none => .null)
    | .bool => .null
  | .max =>
    match a.ty with
    | .int => (match s.maxI with | some v => .int v | none => .null)
    | .date => (match s.maxI with | some v => .date v | none => .null)
    | .f64 => (match s.maxF with | some v => .f64 v | none => .null)
    | .str => (match s.maxS with | some v => .str v | none => .null)
    | .bool => .null

def hash (dev : Dev) (fo : FloatOps) (a : Agg) : Alg HashSt :=
  { init := {}, update := hashUpdate fo a, merge := hashMerge fo a, finalize := hashFinalize dev fo a }

/-! ### vectorized path (flat arrays; one cell per group and aggregate) -/

structure VecSt where
  count : Int := 0
  sumI : Int := 0
  sumF : F64 := F64.posZero
  minI : Option Int := none
  maxI : Option Int := none
  minF : Option F64 := none
  maxF : Option F64 := none
  minS : Option String := none
  maxS : Option String := none
deriving Repr, DecidableEq, Inhabited

/-- the per-aggregate loops of `aggregate_batches_vectorized` (no DISTINCT on this path:
    `can_vectorize_aggregation` refuses it) -/
def vecUpdate (fo : FloatOps) (a : Agg) (s : VecSt) (v : Val) : VecSt :=
  match a.fn with
  | .countStar => { s with count := s.count + 1 }
  | .count => if v.isNull then s else { s with count := s.count + 1 }
  | .sum | .avg =>
    match v with
    | .int i => { s with sumI := s.sumI + i, sumF := fo.add s.sumF (fo.ofInt i), count := s.count + 1 }
    | .f64 x => { s with sumF := fo.add s.sumF x, count := s.count + 1 }
    | _ => s
  | .min =>
    match v with
    | .int i => { s with minI := optUpd imin s.minI i }
    | .date d => { s with minI := optUpd imin s.minI d }
    | .f64 x => { s with minF := optUpd fmin s.minF x }
    | .str t => { s with minS := optUpd smin s.minS t }
    | _ => s
  | .max =>
    match v with
    | .int i => { s with maxI := optUpd imax s.maxI i }
    | .date d => { s with maxI := optUpd imax s.maxI d }
    | .f64 x => { s with maxF := optUpd fmax s.maxF x }
    | .str t => { s with maxS := optUpd smax s.maxS t }
    | _ => s

/-- component-wise combination (the engine itself only ever continues the same cell with the next batch) -/
def vecMerge (fo : FloatOps) (t s : VecSt) : VecSt :=
  { count := t.count + s.count, sumI := t.sumI + s.sumI, sumF := fo.add t.sumF s.sumF,
    minI := optMerge imin t.minI s.minI, maxI := optMerge imax t.maxI s.maxI,
    minF := optMerge fmin t.minF s.minF, maxF := optMerge fmax t.maxF s.maxF,
    minS := optMerge smin t.minS s.minS, maxS := optMerge smax t.maxS s.maxS }

/-- `build_vectorized_agg_column` -/
def vecFinalize (fo : FloatOps) (a : Agg) (s : VecSt) : Val :=
  match a.fn with
  | .countStar | .count => .int s.count
  | .sum => if s.count > 0 then (match a.ty with | .f64 => .f64 s.sumF | _ => .int s.sumI) else .null
  | .avg => if s.count > 0 then .f64 (fo.div s.sumF (fo.ofInt s.count)) else .null
  | .min =>
    match a.ty with
    | .int => (match s.minI with | some v => .int v | none => .null)
    | .date => (match s.minI with | some v => .date v | none => .null)
    | .f64 => (match s.minF with | some v => .f64 v | none => .null)
    | .str => (match s.minS with | some v => .str v | none => .null)
    | .bool => .null
  | .max =>
    match a.ty with
    | .int => (match s.maxI with | some v => .int v | none => .null)
    | .date => (match s.maxI with | some v => .date v | none => .null)
    | .f64 => (match s.maxF with | some v => .f64 v | none => .null)
    | .str => (match s.maxS with | some v => .str v | none => .null)
    | .bool => .null

def vectorized (fo : FloatOps) (a : Agg) : Alg VecSt :=
  { init := {}, update := vecUpdate fo a, merge := vecMerge fo, finalize := vecFinalize fo a }

/-! ### morsel path (`enum AccumulatorState`) -/

inductive MorselSt
  | count (c : Int)
  | sum (s : F64) (seen : Bool)
  | sumInt (s : Int) (seen : Bool)
  | avg (sum : F64) (count : Int)
  | min (v : Option Val)
  | max (v : Option Val)
deriving Repr, DecidableEq, Inhabited

/-- `AccumulatorState::new(func, input_type)` (DISTINCT never reaches this path: the planner skips it) -/
def morselInit (a : Agg) : MorselSt :=
  match a.fn with
  | .countStar | .count => .count 0
  | .sum => (match a.ty with | .int => .sumInt 0 false | _ => .sum F64.posZero false)
  | .avg => .avg F64.posZero 0
  | .min => .min none
  | .max => .max none

/-- strictly-less on two non-NULL scalars of the same kind (`compare_scalar_values` / the typed fast paths) -/
def valLt : Val → Val → Bool
  | .int a, .int b => a < b
  | .date a, .date b => a < b
  | .f64 a, .f64 b => F64.lt a b
  | .str a, .str b => compare a b == .lt
  | .bool a, .bool b => !a && b
  | _, _ => false

/-- `update` / `update_f64` / `update_i64` / `update_count`; `star` = COUNT(*) -/
def morselUpdate (fo : FloatOps) (a : Agg) (s : MorselSt) (v : Val) : MorselSt :=
  match s with
  | .count c => if a.fn == .countStar || !v.isNull then .count (c + 1) else s
  | .sum x seen => (match asF64 fo v with | some y => .sum (fo.add x y) true | none => s)
  | .sumInt x seen => (match v with | .int i => .sumInt (x + i) true | _ => s)
  | .avg x c => (match asF64 fo v with | some y => .avg (fo.add x y) (c + 1) | none => s)
  | .min cur =>
    if v.isNull then s else
    (match cur with | none => .min (some v) | some m => if valLt v m then .min (some v) else s)
  | .max cur =>
    if v.isNull then s else
    (match cur with | none => .max (some v) | some m => if valLt m v then .max (some v) else s)

/-- `AccumulatorState::merge` -/
def morselMerge (fo : FloatOps) (t s : MorselSt) : MorselSt :=
  match t, s with
  | .count a, .count b => .count (a + b)
  | .sum a sa, .sum b sb => .sum (fo.add a b) (sa || sb)
  | .sumInt a sa, .sumInt b sb => .sumInt (a + b) (sa || sb)
  | .avg s1 c1, .avg s2 c2 => .avg (fo.add s1 s2) (c1 + c2)
  | .min a, .min b =>
    (match b with
     | none => t
     | some bv => (match a with | none => .min (some bv) | some av => if valLt bv av then .min (some bv) else t))
  | .max a, .max b =>
    (match b with
     | none => t
     | some bv => (match a with | none => .max (some bv) | some av => if valLt av bv then .max (some bv) else t))
  | t, _ => t

/-- `AccumulatorState::finalize` -/
def morselFinalize (fo : FloatOps) (s : MorselSt) : Val :=
  match s with
  | .count c => .int c
  | .sum x seen => if seen then .f64 x else .null
  | .sumInt x seen => if seen then .int x else .null
  | .avg x c => if c == 0 then .null else .f64 (fo.div x (fo.ofInt c))
  | .min v => v.getD .null
  | .max v => v.getD .null

def morsel (fo : FloatOps) (a : Agg) : Alg MorselSt :=
  { init := morselInit a, update := morselUpdate fo a, merge := morselMerge fo, finalize := morselFinalize fo }

/-! ### raw sums (bare f64 / i64 cells; dense-direct path and `raw_sums`) -/

structure RawSt where
  f : F64 := F64.posZero      -- acc_f64 cell / raw_sums entry
  i : Int := 0                -- acc_i64 cell (SumI64, Count, and the Avg count)
  seen : Bool := false        -- NOT in the code: the bit the intended algorithm needs (ignored when `rawSumNoSeenBit`)
deriving Repr, DecidableEq, Inhabited

/-- dense-direct accumulation loops (morsel_agg.rs operators, 592–663): NULL inputs are skipped -/
def rawUpdate (fo : FloatOps) (a : Agg) (s : RawSt) (v : Val) : RawSt :=
  match a.fn with
  | .countStar => { s with i := s.i + 1 }
  | .count => if v.isNull then s else { s with i := s.i + 1 }
  | .sum =>
    (match v with
     | .int x => { s with i := s.i + x, seen := true }
     | .f64 x => { s with f := fo.add s.f x, seen := true }
     | _ => s)
  | .avg =>
    (match v with
     | .f64 x => { s with f := fo.add s.f x, i := s.i + 1, seen := true }
     | _ => s)
  | .min | .max => s            -- not supported on this path (`_ => return Ok(None)`)

def rawMerge (fo : FloatOps) (t s : RawSt) : RawSt :=
  { f := fo.add t.f s.f, i := t.i + s.i, seen := t.seen || s.seen }

/-- output construction 729–765: the cells are emitted as they are.  Intended (switch off): NULL unless seen. -/
def rawFinalize (dev : Dev) (fo : FloatOps) (a : Agg) (s : RawSt) : Val :=
  match a.fn with
  | .countStar | .count => .int s.i
  | .sum =>
    if !dev.rawSumNoSeenBit && !s.seen then .null
    else (match a.ty with | .f64 => .f64 s.f | _ => .int s.i)
  | .avg =>
    if !dev.rawSumNoSeenBit && !s.seen then .null
    else .f64 (fo.div s.f (fo.ofInt s.i))
  | .min | .max => .null

def rawSum (dev : Dev) (fo : FloatOps) (a : Agg) : Alg RawSt :=
  { init := {}, update := rawUpdate fo a, merge := rawMerge fo, finalize := rawFinalize dev fo a }

/-! ### group level -/

inductive Path | hash | vectorized | morsel | raw | scalar
deriving Repr, DecidableEq, Inhabited

/-- one aggregate over the argument values of one group, sequentially (by `C21_*_hom` any chunking and
    merge tree gives the same value) -/
def aggOne (dev : Dev) (fo : FloatOps) (p : Path) (a : Agg) (args : List Val) : Val :=
  match p with
  | .hash => (hash dev fo a).run (.leaf args)
  | .vectorized => (vectorized fo a).run (.leaf args)
  | .morsel =>
    if dev.qualifiedSumIntNull && a.fn == .sum && a.ty == .int then .null
    else (morsel fo a).run (.leaf args)
  | .raw => (rawSum dev fo a).run (.leaf args)
  | .scalar =>
    -- hash_agg.rs `aggregate_scalar_simd` (1503): Arrow iterators over the single batch; same values as the hash
    -- algebra except for the MIN / MAX start sentinels
    let v := (hash dev fo a).run (.leaf args)
    if dev.scalarMinMaxSentinel && v.isNull then
      match a.fn, a.ty with
      | .min, .int => .int Val.i64Max
      | .max, .int => .int Val.i64Min
      | .min, .f64 => .f64 ⟨0x7FEFFFFFFFFFFFFF⟩      -- f64::MAX
      | .max, .f64 => .f64 ⟨0xFFEFFFFFFFFFFFFF⟩      -- f64::MIN
      | .min, .date => .date 2147483647
      | .max, .date => .date (-2147483648)
      | _, _ => v
    else v

def keyHasNull (k : Row) : Bool := k.any Val.isNull
def keyAllNull (k : Row) : Bool := !k.isEmpty && k.all Val.isNull

/-- is every accumulator of this group still "empty" (the probe of `slot_has_data`) -/
def allEmpty (aggs : List Agg) (cols : List (List Val)) : Bool :=
  (aggs.zip cols).all fun (a, args) =>
    match a.fn with
    | .countStar => args.isEmpty
    | _ => args.all Val.isNull

/-- grouping as the engine does it.  `keyed` = (key values, one argument value per aggregate) per input row.
    Result: one `(key, aggregate values)` per group, or an error (dense-direct refusal). -/
def groupAgg (dev : Dev) (fo : FloatOps) (p : Path) (aggs : List Agg) (global : Bool)
    (keyed : List (Row × Row)) : Except Err (List (Row × Row)) :=
  if global then
    -- a global aggregate is exactly one group, also over zero rows
    .ok [([], (List.range aggs.length).zip aggs |>.map fun (j, a) => aggOne dev fo p a (keyed.map fun kr => kr.2.getD j .null))]
  else if dev.denseRefusesNullKeys && p == .raw && keyed.any (fun kr => keyHasNull kr.1) then
    .error (.unsupported "dense agg: null group keys unsupported")
  else
    let groups : List (Row × Table) :=
      if dev.emptyAggNullKeysUngrouped && aggs.isEmpty then
        -- rows with a NULL key component are never merged with anything
        Spec.groupBy (keyed.filter fun kr => !keyHasNull kr.1) ++
          (keyed.filter fun kr => keyHasNull kr.1).map fun kr => (kr.1, [kr.2])
      else Spec.groupBy keyed
    let out : List (Row × List (List Val) × Row) := groups.map fun (k, rows) =>
      let cols : List (List Val) := (List.range aggs.length).map fun j => rows.map fun (r : Row) => r.getD j .null
      (k, cols, (aggs.zip cols).map fun (a, args) => aggOne dev fo p a args)
    let out := if dev.nullKeyEmptyAccDropped then
        out.filter fun (k, cols, _) => !(keyAllNull k && allEmpty aggs cols)
      else out
    .ok (out.map fun (k, _, vals) => (k, vals))

end IQE.Engine.Acc
