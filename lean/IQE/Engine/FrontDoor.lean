/-
  IQE.Engine.FrontDoor — executable model of the SQL front door of `src/distributed/server.rs`
  (`sql`, `fragment`, `execute_statement`) and of the Flight front door of `src/distributed/flight.rs`
  (`parse_command`, `do_get` ticket validation, `encode_flight_stream` slicing) as DECISION functions:

      sql():       ResultFormat::parse(query)?  → 400
                   DistMode::parse(query)?      → 400
                   state.context().is_none()    → 503 (before the body is read)
                   body > 1 MiB → 413; not UTF-8 → 400; empty after trim → 400
                   execute_statement(state, statement, mode)
      execute_statement():
                   context None                 → NotReady
                   members = participants(state)            (self + peers seen Up)
                   (distribute, reason) = match mode {
                       Off   => (false, "distributed=0 requested"),
                       Force => (true, None),
                       Auto  => if members.len() < 2 { (false, "only one cluster member is up") }
                                else match plan_distributed(ctx, stmt) { Ok => (true, None), Err(e) => (false, e) } }
                   run: !distribute → ctx.sql(stmt)   |   distribute → execute_any_distributed(..)   (NO other path)
      status:      Ok → 200 (+ x-qe-distributed, x-qe-distributed-skipped) ; NotReady → 503 ;
                   QueryError::NotImplemented → 501 ; other QueryError → 400 ; task join error → 500
      fragment():  context None → 503 first; body > 1 MiB → 413; bad JSON → 400; run: Ok → 200, Err → 400, join error → 500

  The statement outcomes are inputs: `localOut` = what `ctx.sql` would return, `distOut` = what
  `execute_any_distributed` would return.  `respond` consults exactly one of them.
  No deviation switches: no defect of this code is known.
-/
namespace IQE.Engine.FrontDoor

inductive Mode where
  | auto | force | off
deriving DecidableEq, Repr

inductive Format where
  | arrow | json | csv
deriving DecidableEq, Repr

/-- why a statement was answered locally (`x-qe-distributed-skipped`, Flight `skipped_reason`) -/
inductive Reason where
  | offRequested          -- "distributed=0 requested"
  | oneMember             -- "only one cluster member is up"
  | planRefused           -- the text of plan_distributed's error
deriving DecidableEq, Repr

/-- outcome of running a statement on one path -/
inductive Exec where
  | ok
  | notImplemented        -- QueryError::NotImplemented
  | queryError            -- any other QueryError
  | taskFailed            -- the spawned query task died
deriving DecidableEq, Repr

/-- the distribute-or-local decision of `execute_statement` -/
def route (mode : Mode) (membersUp : Nat) (planOk : Bool) : Bool × Option Reason :=
  match mode with
  | .off => (false, some .offRequested)
  | .force => (true, none)
  | .auto =>
    if membersUp < 2 then (false, some .oneMember)
    else if planOk then (true, none) else (false, some .planRefused)

inductive Response where
  | ok (distributed : Bool) (skipped : Option Reason)     -- 200
  | notReady                                              -- 503
  | error (status : Nat)                                  -- 400 / 413 / 500 / 501, `x-qe-distributed: false`
deriving DecidableEq, Repr

def Response.status : Response → Nat
  | .ok _ _ => 200
  | .notReady => 503
  | .error s => s

def statusOfExec : Exec → Nat
  | .ok => 200
  | .notImplemented => 501
  | .queryError => 400
  | .taskFailed => 500

/-- `execute_statement` + the status mapping shared by `/sql` and (through `exec_error_status`) Flight -/
def respond (ready : Bool) (mode : Mode) (membersUp : Nat) (planOk : Bool) (localOut distOut : Exec) : Response :=
  if !ready then .notReady
  else
    let (distribute, reason) := route mode membersUp planOk
    let out := if distribute then distOut else localOut
    match out with
    | .ok => .ok distribute reason
    | e => .error (statusOfExec e)

/-! ### mode vocabularies and size constants (hand-written copies used by the driver; `IQE.Props.C35` /
     `IQE.Props.C34` prove them equal to the translator-generated `IQE.Gen.FrontDoor` definitions) -/

/-- `DistMode::parse`'s value table (server.rs): `?distributed=<v>` -/
def parseModeHttp (v : String) : Option Mode :=
  if v = "1" ∨ v = "true" ∨ v = "yes" ∨ v = "force" then some .force
  else if v = "0" ∨ v = "false" ∨ v = "no" ∨ v = "local" then some .off
  else if v = "auto" then some .auto
  else none

/-- `parse_mode` (flight.rs): the HTTP vocabulary plus "off" -/
def parseModeFlight (v : String) : Option Mode :=
  if v = "auto" then some .auto
  else if v = "1" ∨ v = "true" ∨ v = "yes" ∨ v = "force" then some .force
  else if v = "0" ∨ v = "false" ∨ v = "no" ∨ v = "local" ∨ v = "off" then some .off
  else none

/-- `flight::MAX_ENCODE_ROWS` -/
def maxEncodeRows : Nat := 4096
/-- `flight::MAX_TICKET_BYTES` -/
def maxTicketBytes : Nat := 1024 * 1024

/-! ### the `/sql` request as a whole -/

/-- `query.split('&')`, `pair.split_once('=')`, first pair whose key is `key` (a pair without '=' is skipped) -/
def splitOnce (c : Char) : List Char → Option (List Char × List Char)
  | [] => none
  | x :: xs => if x = c then some ([], xs) else
    match splitOnce c xs with
    | some (a, b) => some (x :: a, b)
    | none => none

def splitAll (c : Char) : List Char → List (List Char)
  | [] => [[]]
  | x :: xs =>
    match splitAll c xs with
    | [] => [[]]            -- unreachable
    | p :: ps => if x = c then [] :: p :: ps else (x :: p) :: ps

def firstValue (key : String) (query : String) : Option String :=
  ((splitAll '&' query.toList).filterMap (fun pair =>
    match splitOnce '=' pair with
    | some (k, v) => if String.ofList k = key then some (String.ofList v) else none
    | none => none)).head?

/-- `ResultFormat::parse`'s vocabulary -/
def parseFormatValue (v : String) : Option Format :=
  if v = "arrow" || v = "ipc" then some .arrow
  else if v = "json" then some .json
  else if v = "csv" then some .csv
  else none

structure SqlRequest where
  formatOk : Bool               -- ResultFormat::parse(query) is Ok
  mode : Option Mode            -- DistMode::parse(query): none = Err
  bodyTooLarge : Bool
  bodyUtf8 : Bool
  bodyEmpty : Bool              -- after trim

/-- the `/sql` handler -/
def sqlHandler (r : SqlRequest) (ready : Bool) (membersUp : Nat) (planOk : Bool) (localOut distOut : Exec) : Response :=
  if !r.formatOk then .error 400
  else match r.mode with
    | none => .error 400
    | some mode =>
      if !ready then .notReady
      else if r.bodyTooLarge then .error 413
      else if !r.bodyUtf8 then .error 400
      else if r.bodyEmpty then .error 400
      else respond ready mode membersUp planOk localOut distOut

/-- the `/fragment` handler: readiness first -/
def fragmentHandler (ready : Bool) (bodyTooLarge : Bool) (jsonOk : Bool) (out : Exec) : Response :=
  if !ready then .notReady
  else if bodyTooLarge then .error 413
  else if !jsonOk then .error 400
  else match out with
    | .ok => .ok false none
    | .taskFailed => .error 500
    | _ => .error 400            -- a fragment's QueryError is always 400, NotImplemented included

/-! ### Flight: `encode_flight_stream` slicing and ticket validation (C34) -/

/-- The slices emitted for ONE batch of `n` rows starting at `offset` (the `loop` of `encode_flight_stream`):
    `len = min (n - offset) maxRows`; emit (offset, len); `offset += len`; stop when `offset >= n`.
    `fuel` bounds the loop (it runs at most `n + 1` times when `maxRows > 0`). -/
def sliceLoop (maxRows n : Nat) : Nat → Nat → List (Nat × Nat)
  | 0, _ => []
  | fuel + 1, offset =>
    let len := min (n - offset) maxRows
    (offset, len) :: (if offset + len ≥ n then [] else sliceLoop maxRows n fuel (offset + len))

def slicesOf (maxRows n : Nat) : List (Nat × Nat) := sliceLoop maxRows n (n + 1) 0

/-- one emitted record-batch message: which batch it slices (`none` = the trailer batch), offset, length,
    and whether it carries the `app_metadata` -/
structure Slice where
  batch : Option Nat
  offset : Nat
  len : Nat
  carriesMetadata : Bool := false
deriving DecidableEq, Repr

def batchSlices (maxRows : Nat) : Nat → List Nat → List Slice
  | _, [] => []
  | i, n :: rest => (slicesOf maxRows n).map (fun (o, l) => ⟨some i, o, l, false⟩) ++ batchSlices maxRows (i + 1) rest

/-- the record-batch messages of the DoGet stream after the schema message: every batch re-sliced, then
    the zero-row trailer; `out.last_mut().app_metadata = metadata` -/
def flightStream (maxRows : Nat) (batches : List Nat) : List Slice :=
  batchSlices maxRows 0 batches ++ [⟨none, 0, 0, true⟩]

/-- `do_get` ticket validation -/
structure Ticket where
  bytes : Nat                   -- ticket length
  jsonOk : Bool                 -- serde_json::from_slice::<QueryTicket> succeeds
  version : Nat
  mode : Option Mode            -- parse_mode(&ticket.mode): none = Err

inductive TicketVerdict where
  | refused
  | run (mode : Mode)
deriving DecidableEq, Repr

def validateTicket (maxTicketBytes : Nat) (t : Ticket) : TicketVerdict :=
  if t.bytes > maxTicketBytes then .refused
  else if !t.jsonOk then .refused
  else if t.version ≠ 1 then .refused
  else match t.mode with
    | none => .refused
    | some m => .run m

/-- `parse_command` (GetFlightInfo): size cap, UTF-8, non-empty, JSON form needs non-empty `sql` and a known mode -/
structure Command where
  bytes : Nat
  utf8 : Bool
  emptyAfterTrim : Bool
  isJson : Bool                 -- starts with '{'
  jsonOk : Bool
  sqlEmpty : Bool
  mode : Option Mode

def validateCommand (maxTicketBytes : Nat) (c : Command) : TicketVerdict :=
  if c.bytes > maxTicketBytes then .refused
  else if !c.utf8 then .refused
  else if c.emptyAfterTrim then .refused
  else if c.isJson then
    if !c.jsonOk then .refused
    else if c.sqlEmpty then .refused
    else match c.mode with
      | none => .refused
      | some m => .run m
  else .run .auto

end IQE.Engine.FrontDoor
