/-
  IQE.Engine.Compiled — executable model of `src/physical/compiled_expr.rs`:
  the `Compiler` (`num_f64`, `side`, `boolean` → flat register program, or `none`) and `CompiledPredicate::evaluate`
  (1024-row chunks, bit packing of the 0/1 chunk into bytes, validity = AND of the referenced columns' validities).

  Uses the TRANSLATED definitions `Gen.Compiled.{Cmp, Cmp.apply, CHUNK, MAX_REGS}` (regenerated from the source on every run).

  The Rust loops are element-wise, so a chunk is modelled as the list of its rows and the register slabs by one value per
  row (`RS`); 0/1 bytes in the M-slabs are `Bool`s (`x & y`, `x | y`, `1 - x` on {0,1} are `&&`, `||`, `!`).
  Values under NULL slots are arbitrary in Arrow; the model reads 0 there — results at such rows are masked by the validity.

  `evaluate` is the fused loop; `evaluateNow` is `CompiledPredicate::evaluate` of the current tree, which since fix e4c7c04
  (Kleene AND/OR in the interpreter) hands batches with NULLs to the interpreter when the program contains AND/OR.

  Deviation switch `compiledIeeeCmp` (finding C06-F1, fixed by 7400978): before the fix `CmpF64` compared with Rust's IEEE operators (`Cmp::apply` on f64 =
  `PartialOrd`), the interpreter with Arrow's total order. With the switch off the f64 comparison is the total-order one.

  Not modelled: the `Alias` and no-op `Cast(Float64)` arms (transparent wrappers, not generated), the name-based column
  resolution (`find_field`; columns are indices here), the per-batch type re-check of `evaluate` (batches conform to the schema).
-/
import IQE.Engine.Filter
import IQE.Gen.Compiled
namespace IQE.Engine.Compiled
open IQE IQE.Spec
open IQE.Gen.Compiled (Cmp CHUNK MAX_REGS)

structure Dev where
  /-- f64 comparison leaves use IEEE `==`/`<` (NaN unordered, -0.0 = +0.0) instead of the total order -/
  compiledIeeeCmp : Bool := false
deriving DecidableEq, Repr, Inhabited
def Dev.none : Dev := { compiledIeeeCmp := false }
/-- the tree before fix 7400978 (IEEE operators in the f64 comparison shapes): kept for the negation witnesses -/
def Dev.ieee : Dev := { compiledIeeeCmp := true }
/-- the current tree: since fix 7400978 the f64 shapes compare `total_order_key` values -/
def Dev.current : Dev := { compiledIeeeCmp := false }

/-- arrow column types the compiler distinguishes -/
inductive CTy | f64 | i64 | i32 | date32 | other
deriving DecidableEq, Repr, Inhabited

/-- `planner::Expr` as the compiler sees it: literals keep their width, everything it declines is `other` -/
inductive PExpr where
  | col (i : Nat)
  | litF64 (x : F64)
  | litI64 (n : Int)
  | litI32 (n : Int)
  | litDate (n : Int)
  | litOther (v : Val)
  | bin (op : BinOp) (a b : PExpr)
  | not (e : PExpr)
  | between (e lo hi : PExpr) (neg : Bool)
  | other (e : Expr)
deriving Repr, Inhabited

/-- the same expression for the interpreter (literal width is irrelevant there: it coerces) -/
def PExpr.toExpr : PExpr → Expr
  | .col i => .col i
  | .litF64 x => .lit (.f64 x)
  | .litI64 n => .lit (.int n)
  | .litI32 n => .lit (.int n)
  | .litDate n => .lit (.date n)
  | .litOther v => .lit v
  | .bin op a b => .bin op a.toExpr b.toExpr
  | .not e => .un .not e.toExpr
  | .between e lo hi neg => .between e.toExpr lo.toExpr hi.toExpr neg
  | .other e => e

inductive Src where
  | col (slot : Nat)
  | litF64 (x : F64)
  | litI64 (n : Int)
  | litI32 (n : Int)
  | reg (r : Nat)
deriving Repr, Inhabited, DecidableEq

inductive Instr where
  | loadF64 (col dst : Nat)
  | litF64 (v : F64) (dst : Nat)
  | arith (op : BinOp) (a b dst : Nat)
  | cmpF64 (a b : Src) (op : Cmp) (dst : Nat)
  | cmpI64 (a b : Src) (op : Cmp) (dst : Nat)
  | cmpI32 (a b : Src) (op : Cmp) (dst : Nat)
  | and (a b dst : Nat)
  | or (a b dst : Nat)
  | not (a dst : Nat)
deriving Repr, Inhabited

/-- `struct Compiler` -/
structure CState where
  cols : List Nat := []
  colTypes : List CTy := []
  prog : List Instr := []
  nextF : Nat := 0
  nextM : Nat := 0
deriving Repr, Inhabited

def position (c : Nat) : List Nat → Option Nat
  | [] => none
  | x :: xs => if x = c then some 0 else (position c xs).map (· + 1)

/-- `col_slot` -/
def colSlot (s : CState) (c : Nat) (dt : CTy) : Option (Nat × CState) :=
  match position c s.cols with
  | some i => if s.colTypes[i]? = some dt then some (i, s) else none
  | none => some (s.cols.length, { s with cols := s.cols ++ [c], colTypes := s.colTypes ++ [dt] })

/-- `falloc` -/
def falloc (s : CState) : Option (Nat × CState) :=
  if (s.nextF : Int) ≥ MAX_REGS then none else some (s.nextF, { s with nextF := s.nextF + 1 })
/-- `malloc` -/
def malloc (s : CState) : Option (Nat × CState) :=
  if (s.nextM : Int) ≥ MAX_REGS then none else some (s.nextM, { s with nextM := s.nextM + 1 })

def push (s : CState) (i : Instr) : CState := { s with prog := s.prog ++ [i] }

def isArith (op : BinOp) : Bool := op == .add || op == .sub || op == .mul || op == .div

def cmpOf (op : BinOp) : Option Cmp :=
  match op with
  | .eq => some .Eq | .ne => some .Ne | .lt => some .Lt | .le => some .Le | .gt => some .Gt | .ge => some .Ge
  | _ => none

/-- `num_f64` -/
def numF64 (sch : List CTy) : PExpr → CState → Option (Nat × CState)
  | .col c, s =>
    if sch[c]? = some .f64 then do
      let (slot, s) ← colSlot s c .f64
      let (dst, s) ← falloc s
      pure (dst, push s (.loadF64 slot dst))
    else none
  | .litF64 x, s => do
    let (dst, s) ← falloc s
    pure (dst, push s (.litF64 x dst))
  | .bin op a b, s =>
    if isArith op then do
      let (ra, s) ← numF64 sch a s
      let (rb, s) ← numF64 sch b s
      let (dst, s) ← falloc s
      pure (dst, push s (.arith op ra rb dst))
    else none
  | _, _ => none

/-- `side` -/
def side (sch : List CTy) (e : PExpr) (s : CState) : Option ((Src × CTy) × CState) :=
  match e with
  | .col c =>
    match sch[c]? with
    | some .f64 => do let (slot, s) ← colSlot s c .f64; pure ((.col slot, .f64), s)
    | some .i64 => do let (slot, s) ← colSlot s c .i64; pure ((.col slot, .i64), s)
    | some .i32 => do let (slot, s) ← colSlot s c .i32; pure ((.col slot, .i32), s)
    | some .date32 => do let (slot, s) ← colSlot s c .date32; pure ((.col slot, .date32), s)
    | _ => none
  | .litF64 x => some ((.litF64 x, .f64), s)
  | .litI64 n => some ((.litI64 n, .i64), s)
  | .litI32 n => some ((.litI32 n, .i32), s)
  | .litDate n => some ((.litI32 n, .date32), s)
  | .bin op a b =>
    if isArith op then do
      let (r, s) ← numF64 sch (.bin op a b) s
      pure ((.reg r, .f64), s)
    else none
  | _ => none

/-- the comparison arm of `boolean` -/
def cmpArm (sch : List CTy) (cmp : Cmp) (l r : PExpr) (s : CState) : Option (Nat × CState) := do
  let ((a, ta), s) ← side sch l s
  let ((b, tb), s) ← side sch r s
  if ta ≠ tb then none else
  let (dst, s) ← malloc s
  match ta with
  | .f64 => pure (dst, push s (.cmpF64 a b cmp dst))
  | .i64 => pure (dst, push s (.cmpI64 a b cmp dst))
  | .i32 => pure (dst, push s (.cmpI32 a b cmp dst))
  | .date32 => pure (dst, push s (.cmpI32 a b cmp dst))
  | .other => none

/-- `boolean` -/
def boolean (sch : List CTy) : PExpr → CState → Option (Nat × CState)
  | .bin op l r, s =>
    if op == .and || op == .or then do
      let (a, s) ← boolean sch l s
      let (b, s) ← boolean sch r s
      let (dst, s) ← malloc s
      pure (dst, push s (if op == .and then .and a b dst else .or a b dst))
    else match cmpOf op with
      | some cmp => cmpArm sch cmp l r s
      | none => none
  | .not e, s => do
    let (a, s) ← boolean sch e s
    let (dst, s) ← malloc s
    pure (dst, push s (.not a dst))
  | .between e lo hi neg, s => do
    let (ge, s) ← cmpArm sch .Ge e lo s
    let (le, s) ← cmpArm sch .Le e hi s
    let (dst, s) ← malloc s
    let s := push s (.and ge le dst)
    if neg then do
      let (ndst, s) ← malloc s
      pure (ndst, push s (.not dst ndst))
    else pure (dst, s)
  | _, _ => none

def Instr.isLogic : Instr → Bool
  | .and _ _ _ => true
  | .or _ _ _ => true
  | _ => false

/-- `has_logic`: does the program contain AND/OR (three-valued under NULL operands)? -/
def hasLogic (prog : List Instr) : Bool := prog.any Instr.isLogic

/-- `struct CompiledPredicate` -/
structure Prog where
  cols : List Nat
  prog : List Instr
  out : Nat
  fRegs : Nat
  mRegs : Nat
  /-- the source expression, for batches handed to the interpreter (since fix e4c7c04) -/
  expr : PExpr
  hasLogic : Bool
deriving Repr, Inhabited

/-- `CompiledPredicate::compile` (with compilation enabled) -/
def compile (sch : List CTy) (e : PExpr) : Option Prog := do
  let (out, c) ← boolean sch e {}
  pure { cols := c.cols, prog := c.prog, out := out, fRegs := c.nextF, mRegs := c.nextM, expr := e, hasLogic := hasLogic c.prog }

/-! ### evaluation -/

/-- one row of the register slabs -/
structure RS where
  f : Nat → F64
  m : Nat → Bool

def RS.init : RS := { f := fun _ => ⟨0⟩, m := fun _ => false }
def RS.setF (rs : RS) (d : Nat) (v : F64) : RS := { rs with f := fun k => if k = d then v else rs.f k }
def RS.setM (rs : RS) (d : Nat) (v : Bool) : RS := { rs with m := fun k => if k = d then v else rs.m k }

def rawF (r : Row) (c : Nat) : F64 := match r[c]? with | some (.f64 x) => x | _ => ⟨0⟩
def rawI (r : Row) (c : Nat) : Int := match r[c]? with | some (.int n) => n | some (.date n) => n | _ => 0

def arithF (fo : FloatOps) (op : BinOp) (x y : F64) : F64 :=
  match op with
  | .add => fo.add x y | .sub => fo.sub x y | .mul => fo.mul x y | .div => fo.div x y | _ => ⟨0⟩

def binOpOf : Cmp → BinOp
  | .Eq => .eq | .Ne => .ne | .Lt => .lt | .Le => .le | .Gt => .gt | .Ge => .ge

/-- the f64 comparison of the `cmp_shapes!` loops -/
def cmpF (dev : Dev) (op : Cmp) (x y : F64) : Bool :=
  if dev.compiledIeeeCmp then Cmp.apply (T := F64) op x y else ordSat (binOpOf op) (F64.totalCmp x y)

def srcF (cols : List Nat) (r : Row) (rs : RS) : Src → F64
  | .col slot => rawF r (cols.getD slot 0)
  | .litF64 x => x
  | .reg k => rs.f k
  | _ => ⟨0⟩
def srcI (cols : List Nat) (r : Row) : Src → Int
  | .col slot => rawI r (cols.getD slot 0)
  | .litI64 n => n
  | .litI32 n => n
  | _ => 0

/-- one instruction of `eval_chunk` at one row -/
def exec (dev : Dev) (fo : FloatOps) (cols : List Nat) (r : Row) (rs : RS) : Instr → RS
  | .loadF64 col dst => rs.setF dst (rawF r (cols.getD col 0))
  | .litF64 v dst => rs.setF dst v
  | .arith op a b dst => rs.setF dst (arithF fo op (rs.f a) (rs.f b))
  | .cmpF64 a b op dst => rs.setM dst (cmpF dev op (srcF cols r rs a) (srcF cols r rs b))
  | .cmpI64 a b op dst => rs.setM dst (Cmp.apply (T := Int) op (srcI cols r a) (srcI cols r b))
  | .cmpI32 a b op dst => rs.setM dst (Cmp.apply (T := Int) op (srcI cols r a) (srcI cols r b))
  | .and a b dst => rs.setM dst (rs.m a && rs.m b)
  | .or a b dst => rs.setM dst (rs.m a || rs.m b)
  | .not a dst => rs.setM dst (!rs.m a)

def run (dev : Dev) (fo : FloatOps) (cols : List Nat) (r : Row) (prog : List Instr) (rs : RS) : RS :=
  prog.foldl (exec dev fo cols r) rs

/-- the mask bit of one row -/
def rowBit (dev : Dev) (fo : FloatOps) (p : Prog) (r : Row) : Bool := (run dev fo p.cols r p.prog RS.init).m p.out
/-- the validity bit of one row: every referenced column is valid -/
def rowValid (p : Prog) (r : Row) : Bool := p.cols.all (fun c => !(r.getD c .null).isNull)

/-! bit packing of one chunk (`packed[bi] = out[o] | out[o+1] << 1 | …`, then the remainder loop) and `append_packed_range(0..len)` -/

def packByte : List Bool → Nat
  | [] => 0
  | b :: bs => b.toNat + 2 * packByte bs

/-- `packed`: byte j holds bits 8j … 8j+7 of the chunk (full bytes and the remainder byte obey the same formula) -/
def pack (bits : List Bool) : List Nat :=
  (List.range ((bits.length + 7) / 8)).map (fun j => packByte ((bits.drop (8 * j)).take 8))

def getBit (bytes : List Nat) (i : Nat) : Bool := (bytes.getD (i / 8) 0 / 2 ^ (i % 8)) % 2 == 1

/-- the bits `append_packed_range(0..len, &packed)` appends -/
def unpack (len : Nat) (bytes : List Nat) : List Bool := (List.range len).map (getBit bytes)

/-- the `while start < n` loop: chunks of `CHUNK` rows, each evaluated, packed and appended (`fuel` ≥ number of chunks) -/
def evalChunks (f : Row → Bool) : Nat → List Row → List Bool
  | 0, _ => []
  | fuel + 1, rows =>
    if rows.isEmpty then []
    else
      let chunk := rows.take CHUNK.toNat
      unpack chunk.length (pack (chunk.map f)) ++ evalChunks f fuel (rows.drop CHUNK.toNat)

/-- `CompiledPredicate::evaluate`: value bits through the chunk loop, validity per row; as the observable array (NULL where invalid) -/
def evaluate (dev : Dev) (fo : FloatOps) (p : Prog) (rows : List Row) : List Val :=
  let bits := evalChunks (rowBit dev fo p) (rows.length + 1) rows
  (rows.zip bits).map (fun (r, b) => if rowValid p r then .bool b else .null)

/-- `CompiledPredicate::evaluate` of the current tree (since fix e4c7c04): a program with AND/OR hands a batch in which a referenced
    column has NULLs to the interpreter (`evaluate_expr(batch, &self.expr).ok()?` — an interpreter error makes it decline: `none`);
    every other batch takes the fused loop. -/
def evaluateNow (dev : Dev) (fo : FloatOps) (p : Prog) (rows : List Row) : Option (List Val) :=
  if p.hasLogic && rows.any (fun r => !rowValid p r) then
    rows.mapM (fun r => (Filter.eval Filter.Dev.current fo r p.expr.toExpr).toOption)
  else some (evaluate dev fo p rows)

/-- AND / OR / BETWEEN anywhere in the predicate (what makes `has_logic` true) -/
def logicE : PExpr → Bool
  | .bin op a b => op == .and || op == .or || logicE a || logicE b
  | .not e => logicE e
  | .between _ _ _ _ => true
  | _ => false

/-! ### denotation of the compiled subset on raw values (used by the correctness proof and the driver) -/

def kindOf (sch : List CTy) : PExpr → Option CTy
  | .col c => sch[c]?
  | .litF64 _ => some .f64
  | .litI64 _ => some .i64
  | .litI32 _ => some .i32
  | .litDate _ => some .date32
  | .bin _ _ _ => some .f64
  | _ => none

def denoteF (fo : FloatOps) (r : Row) : PExpr → F64
  | .col c => rawF r c
  | .litF64 x => x
  | .bin op a b => arithF fo op (denoteF fo r a) (denoteF fo r b)
  | _ => ⟨0⟩

def denoteI (r : Row) : PExpr → Int
  | .col c => rawI r c
  | .litI64 n => n
  | .litI32 n => n
  | .litDate n => n
  | _ => 0

def denoteCmp (dev : Dev) (fo : FloatOps) (sch : List CTy) (r : Row) (cmp : Cmp) (l rr : PExpr) : Bool :=
  match kindOf sch l with
  | some .f64 => cmpF dev cmp (denoteF fo r l) (denoteF fo r rr)
  | _ => Cmp.apply (T := Int) cmp (denoteI r l) (denoteI r rr)

def denoteB (dev : Dev) (fo : FloatOps) (sch : List CTy) (r : Row) : PExpr → Bool
  | .bin op a b =>
    if op == .and then denoteB dev fo sch r a && denoteB dev fo sch r b
    else if op == .or then denoteB dev fo sch r a || denoteB dev fo sch r b
    else match cmpOf op with
      | some cmp => denoteCmp dev fo sch r cmp a b
      | none => false
  | .not e => !denoteB dev fo sch r e
  | .between e lo hi neg => (denoteCmp dev fo sch r .Ge e lo && denoteCmp dev fo sch r .Le e hi) != neg
  | _ => false

def colsOf : PExpr → List Nat
  | .col c => [c]
  | .bin _ a b => colsOf a ++ colsOf b
  | .not e => colsOf e
  | .between e lo hi _ => colsOf e ++ colsOf lo ++ (colsOf e ++ colsOf hi)
  | _ => []

/-- a row whose cells have the column types of the schema (or are NULL) -/
def cellOk : CTy → Val → Bool
  | _, .null => true
  | .f64, .f64 _ => true
  | .i64, .int _ => true
  | .i32, .int _ => true
  | .date32, .date _ => true
  | .other, _ => true
  | _, _ => false
def conforms : List CTy → Row → Bool
  | [], [] => true
  | t :: ts, v :: vs => cellOk t v && conforms ts vs
  | _, _ => false

/-- SSA shape of a program (C06_regs_ssa): walking the instructions with the next free F/M register, every destination is
    exactly the next free register of its file, every register operand is below it, and nothing reaches `MAX_REGS`. -/
def srcBelow (nf : Nat) : Src → Bool
  | .reg k => k < nf
  | _ => true
def ssaFrom : List Instr → Nat → Nat → Bool
  | [], nf, nm => decide ((nf : Int) ≤ MAX_REGS) && decide ((nm : Int) ≤ MAX_REGS)
  | .loadF64 _ dst :: is, nf, nm => dst == nf && ssaFrom is (nf + 1) nm
  | .litF64 _ dst :: is, nf, nm => dst == nf && ssaFrom is (nf + 1) nm
  | .arith _ a b dst :: is, nf, nm => dst == nf && decide (a < nf) && decide (b < nf) && ssaFrom is (nf + 1) nm
  | .cmpF64 a b _ dst :: is, nf, nm => dst == nm && srcBelow nf a && srcBelow nf b && ssaFrom is nf (nm + 1)
  | .cmpI64 a b _ dst :: is, nf, nm => dst == nm && srcBelow nf a && srcBelow nf b && ssaFrom is nf (nm + 1)
  | .cmpI32 a b _ dst :: is, nf, nm => dst == nm && srcBelow nf a && srcBelow nf b && ssaFrom is nf (nm + 1)
  | .and a b dst :: is, nf, nm => dst == nm && decide (a < nm) && decide (b < nm) && ssaFrom is nf (nm + 1)
  | .or a b dst :: is, nf, nm => dst == nm && decide (a < nm) && decide (b < nm) && ssaFrom is nf (nm + 1)
  | .not a dst :: is, nf, nm => dst == nm && decide (a < nm) && ssaFrom is nf (nm + 1)

end IQE.Engine.Compiled
