/-
  IQE.Engine.Subquery — executable model of subquery evaluation and of the decorrelation rewrites.

  Mirrors, per Rust function (/repo):
    src/physical/operators/subquery.rs
      evaluate_in_subquery (1259-1318)            → `scan` (inner `for j` loop: NULL element ⇒ `continue`, match ⇒ `break`)
                                                     and `evalInSubquery` (one iteration of the outer `for i` loop)
      SubqueryExecutor::execute_exists (354-377)  → `hasRows` (over the collected batches) / `evalExists`
      evaluate_subquery_expr, Exists arm (694-715)→ `evalExists` (`if negated { !exists } else { exists }`)
      execute_correlated_exists_subquery (775-816)→ `evalExistsCorr`  (`.unwrap_or_default()`: a failing run counts as "no rows")
      SubqueryExecutor::execute_scalar (258-302)  → `evalScalar` (0 rows ⇒ NULL, 1 row ⇒ its first column, else error)
                                                     `executeScalarBatches` (the same over the collected batches: only `batches[0]` is looked at)
      execute_correlated_scalar_subquery (724-772)→ `evalScalarCorr` (`Err(_) => ScalarValue::Null`)
    src/physical/planner.rs
      precompute_uncorrelated_scalars (203-349)   → `precomputeScalar` / `evalPre` (literal on success, expression kept on error)
    src/optimizer/rules/subquery_decorrelation.rs
      decorrelate_exists (252-319)                → `existsJoin` (Query level), `existsRewrite` (table level): EXISTS → Semi, NOT EXISTS → Anti
      decorrelate_in_subquery (376-428)           → `inJoin`, `inRewrite` (IN → Semi on x = y), `notInRewrite` (NOT IN → Anti on x = y)
      decorrelate_scalar_subquery (453-580) with
      ensure_grouped_by_correlation (584-721)     → `groupedAgg` + `scalarLeftJoin`: Left join with the subquery's aggregate grouped by the
                                                     correlation column
      add_semi_join_reduction (726-912)           → `reducedInput`
    src/physical/operators/subquery.rs
      execute_scalar over batches (277-292)       → `evalScalarB`;  results_array_from_scalars (1196-1256) → `typedFromFirst`

  One subquery result is a `Table` (list of rows) whose FIRST column is the value column; an outer row is a
  `Row`; a correlated subquery is "the inner table `S` restricted by a predicate `m l` of the outer row `l`".

  Deviation switches (DESIGN §3.4); with all off this is the intended algorithm.  Repaired in /repo meanwhile (switch no longer in
  `Dev.current`, witness replayed from corpus/C23 on every run): notInPlainAnti 47485db, inSubquerySkipsNulls 08ac987,
  scalarCountBug 51cab70, nonEqFilterFlipped 1caf07a, inDropsNonEqCorr + inDropsProjectedCorr 2272b7e, scalarFirstBatchOnly 8fe594c,
  corrScalarFirstRowTyped 9a7f30b, scalarReductionDup ba41c49, inSubqueryTypesLimited (DATE / BOOLEAN) 69c41ef.
  Still in the tree: corrScalarInSelectNull (A.26), corrErrorsSwallowed.
    inSubquerySkipsNulls   — the row-by-row IN loop ignores NULL elements and answers FALSE for a NULL left operand
                             whatever `negated` is (subquery.rs:1268-1276); so `1 NOT IN {2, NULL}` is TRUE (must be NULL)
                             and `NULL [NOT] IN {…}` is FALSE (must be NULL, or FALSE/TRUE over the empty set).
    notInPlainAnti         — NOT IN is rewritten to a plain Anti join on x = y (subquery_decorrelation.rs:410-414); the
                             NULL side conditions (no NULL y; x non-NULL or empty set) are not checked.
    corrScalarInSelectNull — A.26: a correlated scalar subquery in the SELECT list whose outer column is not otherwise
                             projected yields NULL for every row.
    corrErrorsSwallowed    — the row-by-row correlated paths turn ANY failure of the subquery run (also the ">1 row"
                             cardinality error) into NULL (scalar, subquery.rs:756-759) / "no rows" (EXISTS, :802-804).
    scalarCountBug         — the scalar → Left-join rewrite takes the NULL-extended aggregate column as the subquery
                             value, so COUNT over an outer row without partner is NULL instead of 0 (:552-577).
    inSubqueryTypesLimited — the row-by-row IN loop refuses every type pair but Int64/Int64, Int32/Int32, Float64/Float64,
                             Utf8/Utf8 with NotImplemented (subquery.rs:1278-1306), raised at the first non-NULL pair.
    nonEqFilterFlipped     — A.20 (a): `CorrelationPredicate.op` is recorded in the orientation `outer op inner`
                             (try_extract_correlation, subquery_decorrelation.rs:1305-1326) but `build_filter_expr` (:360-364)
                             emits `inner op outer`: `w > v` becomes the join filter `w < v` (=, <> unaffected).
    inDropsNonEqCorr       — A.20 (b): `extract_correlation_from_expr` (:1246-1257) removes EVERY comparison correlation
                             predicate from the subquery, `build_join_conditions` (:1407-1410) keeps only `=`, and
                             `decorrelate_in_subquery` / `decorrelate_scalar_subquery` set `filter: None` (:423, :558): the
                             non-equality correlation predicates of an IN / scalar subquery are lost.
    inDropsProjectedCorr   — `decorrelate_in_subquery` looks the inner column of every correlation predicate up in the OUTPUT schema
                             of the subquery (`build_join_conditions`, :1426-1436; unlike `decorrelate_exists` it does not strip the
                             projection) and silently skips the predicate when the column was projected away — after
                             `extract_correlation_predicates` already removed it from the subquery's WHERE.  So
                             `x IN (SELECT y FROM S WHERE S.k = R.k)` becomes `R ⋉_{x = y} S`: the correlation is lost.
    scalarFirstBatchOnly   — `execute_scalar` looks at `batches[0]` only (subquery.rs:277-292): an empty first batch of the subquery's
                             result is NULL whatever follows, a one-row first batch hides the rows of later batches (no error).
    corrScalarFirstRowTyped— `results_array_from_scalars` (subquery.rs:1196-1256) types the result column of a row-by-row correlated
                             scalar subquery from the FIRST outer row of the batch: a NULL (or Date32 / Int32 …) first result makes
                             the whole batch NULL.
    scalarReductionDup     — `add_semi_join_reduction` (subquery_decorrelation.rs:726-912) joins the aggregate's input with the
                             (filtered) outer source by an INNER join on the correlation key, assuming that key is unique there;
                             with duplicate outer keys every inner row is repeated once per matching outer row, so COUNT / SUM of the
                             decorrelated scalar subquery are multiplied (MIN / MAX unaffected).  Fires when the outer side carries
                             a filter of its own.
    (A.20 (c), not a property of the rule and not modelled here: the filtered Semi/Anti probe of hash_join.rs looks up an
     empty generic hash table when the probe side has ≤ 1000 rows — C22.)

  Float caveat: the Rust loop compares Float64 with IEEE `==`; the model (as `Spec.compareOp`) uses the total order, so the two
  differ on NaN and ±0.0, which the properties leave engine-defined and the generators avoid.
  Mathlib-free; imports only IQE.Spec.* / IQE.Core.*.
-/
import IQE.Spec.Query
namespace IQE.Engine.Subquery
open IQE IQE.Spec

structure Dev where
  inSubquerySkipsNulls : Bool := false
  notInPlainAnti : Bool := false
  corrScalarInSelectNull : Bool := false
  corrErrorsSwallowed : Bool := false
  scalarCountBug : Bool := false
  inSubqueryTypesLimited : Bool := false
  nonEqFilterFlipped : Bool := false
  inDropsNonEqCorr : Bool := false
  inDropsProjectedCorr : Bool := false
  scalarFirstBatchOnly : Bool := false
  corrScalarFirstRowTyped : Bool := false
  scalarReductionDup : Bool := false
deriving DecidableEq, Repr, Inhabited

/-- the intended algorithm -/
def Dev.none : Dev := {}
/-- the tree as it is now: the switches of the defects repaired in /repo are off —
    notInPlainAnti (47485db), inSubquerySkipsNulls (08ac987), scalarCountBug (51cab70), nonEqFilterFlipped (1caf07a),
    inDropsNonEqCorr / inDropsProjectedCorr (2272b7e: the rule now declines the rewrite instead of losing a predicate),
    scalarFirstBatchOnly (8fe594c), corrScalarFirstRowTyped (9a7f30b), scalarReductionDup (ba41c49),
    inSubqueryTypesLimited for DATE / BOOLEAN (69c41ef; mixed numeric pairs are still refused). -/
def Dev.current : Dev :=
  { corrScalarInSelectNull := true, corrErrorsSwallowed := true }

/-- the tree before the `fix:` commits listed above -/
def Dev.original : Dev :=
  { inSubquerySkipsNulls := true, notInPlainAnti := true, corrScalarInSelectNull := true,
    corrErrorsSwallowed := true, scalarCountBug := true, inSubqueryTypesLimited := true,
    nonEqFilterFlipped := true, inDropsNonEqCorr := true, inDropsProjectedCorr := true,
    scalarFirstBatchOnly := true, corrScalarFirstRowTyped := true, scalarReductionDup := true }

/-! ### IN / NOT IN, row by row -/

/-- `x = v` is TRUE in SQL (both non-NULL, comparable, equal) -/
def eqTrue (fo : FloatOps) (x v : Val) : Bool :=
  match Val.cmp3 fo x v with
  | .ok (some .eq) => true
  | _ => false

/-- the comparison `x = v` is well-typed (does not raise) -/
def comparable (fo : FloatOps) (x v : Val) : Bool :=
  match Val.cmp3 fo x v with
  | .ok _ => true
  | .error _ => false

/-- the type pairs `evaluate_in_subquery` implements (both values non-NULL) -/
def supportedPair : Val → Val → Bool
  | .int _, .int _ => true
  | .f64 _, .f64 _ => true
  | .str _, .str _ => true
  | _, _ => false

/-- The inner `for j in 0..right.len()` loop for one non-NULL left value `x`.
    State: `hasNull` (the intended algorithm remembers that it skipped a NULL element; today's code has no such flag).
    Result: `(found, hasNull)`; a match leaves the loop at once (`break`). -/
def scan (dev : Dev) (fo : FloatOps) (x : Val) : List Val → Bool → Except Err (Bool × Bool)
  | [], hasNull => .ok (false, hasNull)
  | v :: vs, hasNull =>
    if v.isNull then scan dev fo x vs (hasNull || !dev.inSubquerySkipsNulls)       -- `continue`
    else if dev.inSubqueryTypesLimited && !supportedPair x v then
      .error (.unsupported "IN subquery not supported for types")
    else match Val.cmp3 fo x v with
      | .error e => .error e
      | .ok (some .eq) => .ok (true, hasNull)                                       -- `found = true; break`
      | .ok _ => scan dev fo x vs hasNull

/-- One iteration of the outer loop of `evaluate_in_subquery`: the truth value of `x [NOT] IN set`. -/
def evalInSubquery (dev : Dev) (fo : FloatOps) (x : Val) (set : List Val) (neg : Bool) : Except Err Val :=
  if x.isNull then
    if dev.inSubquerySkipsNulls then .ok (.bool false)      -- `result.push(Some(false)); continue;` — not even negated
    else if set.isEmpty then .ok (.bool neg)                -- x IN {} is FALSE, x NOT IN {} is TRUE, also for a NULL x
    else .ok .null
  else
    match scan dev fo x set false with
    | .error e => .error e
    | .ok (found, hasNull) =>
      let r : Val := if found then .bool true else if hasNull then .null else .bool false
      if neg then Val.not3 r else .ok r

/-- the WHERE clause keeps a row iff the predicate is TRUE -/
def keeps : Except Err Val → Bool
  | .ok (.bool true) => true
  | _ => false

/-- `σ_{xv(l) [NOT] IN (first column of sub(l))} R`, row by row: the rows kept (an error fails the query). -/
def inFilterRows (dev : Dev) (fo : FloatOps) (xv : Row → Val) (sub : Row → Table) (neg : Bool) (R : Table) :
    Except Err Table :=
  R.filterMapM fun l =>
    match evalInSubquery dev fo (xv l) ((sub l).map (fun r => r.headD .null)) neg with
    | .error e => .error e
    | .ok (.bool true) => .ok (some l)
    | .ok _ => .ok none

/-! ### EXISTS -/

/-- `batches.iter().any(|b| b.num_rows() > 0)` -/
def hasRows (batches : List Table) : Bool := batches.any fun b => !b.isEmpty

/-- `[NOT] EXISTS` over the subquery result `t`: never NULL. -/
def evalExists (t : Table) (neg : Bool) : Val :=
  let ex := !t.isEmpty
  .bool (if neg then !ex else ex)

/-- the correlated row-by-row path: `executor.execute_exists(&substituted_plan).unwrap_or_default()` -/
def evalExistsCorr (dev : Dev) (r : Except Err Table) (neg : Bool) : Except Err Val :=
  match r with
  | .ok t => .ok (evalExists t neg)
  | .error e => if dev.corrErrorsSwallowed then .ok (evalExists [] neg) else .error e

/-! ### scalar subqueries -/

/-- `execute_scalar` on the rows of the subquery: 0 rows ⇒ NULL, 1 row ⇒ its first column, more ⇒ error. -/
def evalScalar : Table → Except Err Val
  | [] => .ok .null
  | [r] => .ok (r.headD .null)
  | _ => .error (.card "scalar subquery returned more than one row")

/-- `execute_scalar` as written, over the collected batches: only `batches[0]` is inspected. -/
def executeScalarBatches : List Table → Except Err Val
  | [] => .ok .null
  | b :: _ => evalScalar b

/-- the scalar value of a subquery result that arrives in batches -/
def evalScalarB (dev : Dev) (batches : List Table) : Except Err Val :=
  if dev.scalarFirstBatchOnly then executeScalarBatches batches else evalScalar batches.flatten

/-- `results_array_from_scalars` on the per-row results of one outer batch: the array type is chosen from the first
    result; Int64 / Float64 / Boolean / Utf8 are implemented, anything else (NULL, Date32, …) gives a NullArray. -/
def typedFromFirst (dev : Dev) (vals : List Val) : List Val :=
  if !dev.corrScalarFirstRowTyped then vals else
  match vals with
  | [] => []
  | .int _ :: _ | .f64 _ :: _ | .bool _ :: _ | .str _ :: _ => vals
  | _ => vals.map fun _ => .null

/-- outcome of `precompute_uncorrelated_scalars` on one uncorrelated scalar subquery -/
inductive Pre
  | lit (v : Val)     -- `Ok(scalar) => Expr::Literal(scalar)`
  | keep              -- `Err(_) => expr` : the subquery expression stays and is evaluated (and fails) at run time
deriving DecidableEq, Repr, Inhabited

def precomputeScalar (r : Except Err Table) : Pre :=
  match r >>= evalScalar with
  | .ok v => .lit v
  | .error _ => .keep

/-- run-time value of what `precomputeScalar` left behind -/
def evalPre (r : Except Err Table) : Pre → Except Err Val
  | .lit v => .ok v
  | .keep => r >>= evalScalar

/-- the correlated row-by-row path: `match executor.execute_scalar(..) { Ok(s) => s, Err(_) => ScalarValue::Null }` -/
def evalScalarCorr (dev : Dev) (r : Except Err Table) : Except Err Val :=
  match r >>= evalScalar with
  | .ok v => .ok v
  | .error e => if dev.corrErrorsSwallowed then .ok .null else .error e

/-- A correlated scalar subquery of the SELECT list, for one outer row (A.26).  `outerColProjected`: the correlated outer
    column is itself an output column of the SELECT.  If it is not, today's plan has pruned it from the projection's input
    (the binder leaves the outer reference unqualified, binder.rs:1927-1934; `ProjectionPushdown` only keeps qualified outer
    references, projection_pushdown.rs:329-338), `substitute_correlated_columns` (subquery.rs:819-865) finds nothing to
    substitute, the run fails with ColumnNotFound and subquery.rs:756-759 turns the failure into NULL — for every row. -/
def evalScalarSelect (dev : Dev) (outerColProjected : Bool) (r : Except Err Table) : Except Err Val :=
  if dev.corrScalarInSelectNull && !outerColProjected then .ok .null else evalScalarCorr dev r

/-! ### decorrelation: the rewritten plans as `Spec.Query` terms

`sub` is the correlated subquery (it reads the outer row through `.outer 1 i`), `sub'` the decorrelated inner plan,
`on` the join predicate over the concatenated row `l ++ r` (`lw` = arity of the outer plan). -/

/-- `σ_{[NOT] EXISTS (sub)} q` -/
def existsFilter (sub q : Query) (neg : Bool) : Query := .filter [sub] (.exists_ 0 neg) q

/-- `decorrelate_exists`: `q ⋉_on sub'` / `q ▷_on sub'` -/
def existsJoin (lw rw : Nat) (on : Expr) (q sub' : Query) (neg : Bool) : Query :=
  .join (if neg then .anti else .semi) lw rw [] on q sub'

/-- `σ_{x [NOT] IN (sub)} q` -/
def inFilter (x : Expr) (sub q : Query) (neg : Bool) : Query := .filter [sub] (.inSub x 0 neg) q

/-- `decorrelate_in_subquery`: Semi (IN) / Anti (NOT IN — the rule as written, without NULL side conditions) join -/
def inJoin (lw rw : Nat) (on : Expr) (q sub' : Query) (neg : Bool) : Query :=
  .join (if neg then .anti else .semi) lw rw [] on q sub'

/-- the ON predicate `outer column i = first inner column` of the uncorrelated IN rewrite -/
def inOn (lw i : Nat) : Expr := .bin .eq (.col i) (.col lw)

/-! ### decorrelation: the rewritten plans over tables

`m l r` is the correlation predicate of the subquery (`fun _ _ => true` when uncorrelated), `xv l` the value of the left
operand on the outer row, `y r = r.headD .null` the subquery's output column. -/

def yOf (r : Row) : Val := r.headD .null

/-- EXISTS → Semi join, NOT EXISTS → Anti join, over the correlation predicate -/
def existsRewrite (m : Row → Row → Bool) (neg : Bool) (R S : Table) : Table :=
  R.filter fun l => if neg then !S.any (m l) else S.any (m l)

/-- the match predicate of the IN rewrite: `x = y` is TRUE and the correlation predicate holds -/
def inMatch (fo : FloatOps) (xv : Row → Val) (m : Row → Row → Bool) (l r : Row) : Bool :=
  eqTrue fo (xv l) (yOf r) && m l r

/-- IN → Semi join on `x = y` (∧ correlation predicate) -/
def inRewrite (fo : FloatOps) (xv : Row → Val) (m : Row → Row → Bool) (R S : Table) : Table :=
  R.filter fun l => S.any (inMatch fo xv m l)

/-- the NULL side condition of NOT IN for the outer row `l`: the set of `l` holds a NULL, or `x` is NULL and the set is
    not empty — then `x NOT IN set` is not TRUE although no element equals `x`. -/
def notInNullBlocked (xv : Row → Val) (m : Row → Row → Bool) (S : Table) (l : Row) : Bool :=
  let part := S.filter (m l)
  ((xv l).isNull && !part.isEmpty) || part.any fun r => (yOf r).isNull

/-- NOT IN → Anti join on `x = y`. As written (`notInPlainAnti`) it is the plain anti join; the intended rewrite
    also drops the rows blocked by the NULL side condition (a NULL-aware anti join). -/
def notInRewrite (dev : Dev) (fo : FloatOps) (xv : Row → Val) (m : Row → Row → Bool) (R S : Table) : Table :=
  R.filter fun l =>
    !S.any (inMatch fo xv m l) && (dev.notInPlainAnti || !notInNullBlocked xv m S l)

/-! ### correlation predicates as the rule sees them (column operands) -/

/-- `CorrelationPredicate { outer_expr, inner_col, op }` (subquery_decorrelation.rs:1066-1070): `outer op inner` -/
structure CorrPred where
  outerCol : Nat
  innerCol : Nat
  op : BinOp
deriving Repr, Inhabited

/-- the comparison `a op b` is TRUE -/
def cmpTrue (fo : FloatOps) (op : BinOp) (a b : Val) : Bool :=
  match compareOp fo op a b with
  | .ok (.bool true) => true
  | _ => false

/-- the predicate as the subquery states it -/
def CorrPred.holds (fo : FloatOps) (p : CorrPred) (l r : Row) : Bool :=
  cmpTrue fo p.op (l.getD p.outerCol .null) (r.getD p.innerCol .null)

/-- `flip_op` (subquery_decorrelation.rs:1277-1285) -/
def flipOp : BinOp → BinOp
  | .lt => .gt | .le => .ge | .gt => .lt | .ge => .le | o => o

/-- `build_filter_expr` (322-365) builds `inner_expr pred.op outer_expr`; the intended expression flips the operator. -/
def CorrPred.filterHolds (dev : Dev) (fo : FloatOps) (p : CorrPred) (l r : Row) : Bool :=
  cmpTrue fo (if dev.nonEqFilterFlipped then p.op else flipOp p.op) (r.getD p.innerCol .null) (l.getD p.outerCol .null)

/-- `decorrelate_exists`: the `=` predicates become join keys (`build_join_conditions`), the others the join filter. -/
def existsMatch (dev : Dev) (fo : FloatOps) (ps : List CorrPred) (l r : Row) : Bool :=
  (ps.filter fun p => p.op == .eq).all (fun p => p.holds fo l r) &&
  (ps.filter fun p => !(p.op == .eq)).all (fun p => p.filterHolds dev fo l r)

/-- `decorrelate_in_subquery` / `decorrelate_scalar_subquery`: which correlation predicates reach the join.  As written only
    the `=` predicates whose inner column is an output column of the subquery (`outCols`) do — the others are lost; the
    intended rewrite keeps them all. -/
def inCorrKept (dev : Dev) (outCols : List Nat) (p : CorrPred) : Bool :=
  !(dev.inDropsNonEqCorr && !(p.op == .eq)) && !(dev.inDropsProjectedCorr && p.op == .eq && !outCols.contains p.innerCol)

def inCorrMatch (dev : Dev) (fo : FloatOps) (outCols : List Nat) (ps : List CorrPred) (l r : Row) : Bool :=
  (ps.filter (inCorrKept dev outCols)).all (fun p => p.holds fo l r)

/-! ### scalar aggregate subquery → Left join with the grouped aggregate -/

/-- duplicate elimination keeping first occurrences (`Val` equality: NULL keys form one group) -/
def dedupKeys : List Val → List Val
  | [] => []
  | k :: ks => k :: (dedupKeys ks).filter (fun k' => k' ≠ k)

/-- the aggregate of the group of rows, as `Spec.aggregate` computes it for one call `f(ev row)` -/
def aggOf (fo : FloatOps) (f : AggFn) (distinct : Bool) (ev : Row → Val) (rows : Table) : Except Err Val :=
  aggVal fo f distinct rows.length (rows.map ev)

/-- the value of the aggregate over no rows: 0 for COUNT / COUNT(*), NULL otherwise -/
def emptyAgg (fo : FloatOps) (f : AggFn) (distinct : Bool) : Val :=
  match aggVal fo f distinct 0 [] with
  | .ok v => v
  | .error _ => .null

/-- `ensure_grouped_by_correlation`: the subquery's aggregate with the correlation column `key` added to GROUP BY:
    one `(key, aggregate)` pair per distinct key value of `S`. -/
def groupedAgg (fo : FloatOps) (f : AggFn) (distinct : Bool) (key ev : Row → Val) (S : Table) :
    Except Err (List (Val × Val)) :=
  (dedupKeys (S.map key)).mapM fun k =>
    match aggOf fo f distinct ev (S.filter fun r => key r = k) with
    | .ok v => .ok (k, v)
    | .error e => .error e

/-- `decorrelate_scalar_subquery`: `R ⟕_{okey = key} groupedAgg`, returning each outer row with the value the rewritten
    plan uses in place of the scalar subquery. An outer row without partner group is NULL-extended by the Left join:
    the correct rewrite must replace that NULL by the aggregate of the empty input (COUNT ⇒ 0); the rule as written
    (`scalarCountBug`) does not. -/
def scalarLeftJoin (dev : Dev) (fo : FloatOps) (f : AggFn) (distinct : Bool) (okey : Row → Val) (key ev : Row → Val)
    (R S : Table) : Except Err (List (Row × Val)) :=
  match groupedAgg fo f distinct key ev S with
  | .error e => .error e
  | .ok g =>
    .ok (R.map fun l =>
      match g.find? (fun p => eqTrue fo (okey l) p.1) with
      | some p => (l, p.2)
      | none => (l, if dev.scalarCountBug then .null else emptyAgg fo f distinct))

/-- `add_semi_join_reduction`: the aggregate's input as the rule rewrites it when the outer side `Rf` is filtered — an Inner
    join with the outer keys: each inner row once per outer row with an equal key (the intended reduction is a Semi join:
    each inner row at most once; dropping the partner-less inner rows changes nothing for the Left join above). -/
def reducedInput (dev : Dev) (fo : FloatOps) (okey key : Row → Val) (Rf S : Table) : Table :=
  if dev.scalarReductionDup then S.flatMap fun s => (Rf.filter fun l => eqTrue fo (okey l) (key s)).map fun _ => s
  else S

/-- the row-by-row reference: for each outer row the aggregate over its partner rows `S.filter (m l)` -/
def scalarRowByRow (fo : FloatOps) (f : AggFn) (distinct : Bool) (m : Row → Row → Bool) (ev : Row → Val)
    (R S : Table) : Except Err (List (Row × Val)) :=
  R.mapM fun l =>
    match aggOf fo f distinct ev (S.filter (m l)) with
    | .ok v => .ok (l, v)
    | .error e => .error e

end IQE.Engine.Subquery
