/-
  IQE.Engine.SplitKey — the `Split` record of src/distributed/splits.rs and its canonical ordering key.

  Rust:  struct Split { table: String, path: PathBuf (NOT canonical, not modelled), file: String,
                        row_group: usize, row_offset: i64, num_rows: i64, bytes: u64 }
         fn canonical_key(&self) -> (&str, &str, usize, i64) = (table, file, row_group, row_offset)
  `&str` is ordered bytewise (UTF-8), tuples lexicographically. Strings are therefore modelled by their
  UTF-8 bytes (`List UInt8`, shipped as arrays of 0..255 by the harness).
-/
namespace IQE.Engine

structure Split where
  table : List UInt8
  file : List UInt8
  rowGroup : Nat
  rowOffset : Int
  numRows : Int
  bytes : Nat
deriving Repr, DecidableEq, Inhabited

/-- `a.canonical_key().cmp(&b.canonical_key())`. -/
def Split.keyCmp : Split → Split → Ordering :=
  compareLex (compareOn (·.table))
    (compareLex (compareOn (·.file))
      (compareLex (compareOn (·.rowGroup)) (compareOn (·.rowOffset))))

/-- `a.canonical_key() <= b.canonical_key()` -/
def Split.keyLe (a b : Split) : Bool := (Split.keyCmp a b).isLE

/-- u64 / i64 ranges (overflow of `+=` is a panic in the checked build the harness uses). -/
def U64_LIMIT : Nat := 18446744073709551616
def I64_MIN : Int := -9223372036854775808
def I64_MAX : Int := 9223372036854775807

end IQE.Engine
