/-
  IQE.Engine.ScanPath — models of the scan / aggregation paths the physical planner chooses between for a Parquet table
  (src/physical/planner.rs `create_physical_plan_inner` Scan arm, `prescan_shared_tables`, `lower_aggregate_cpu`;
   src/physical/operators/{streaming_parquet_scan,morsel_agg}.rs; src/storage/parquet.rs `scan_with_filter`).

  A stored table is `files × row groups × rows`.  Paths:
    * eager          : `provider.scan(projection)` reads every row group of every file into batches; a FilterExec above
                       applies the predicate (the decoder-level RowFilter of `scan_with_filter` is the same predicate).
    * streaming      : `StreamingParquetScanExec` (unfiltered single-use scans always; filtered ones above 400 MB or with
                       QE_VERIF_FORCE_STREAMING_SCAN): row groups are pruned by footer statistics (`mayMatch`), the
                       surviving ones are decoded lazily with the predicate applied by the decoder; no FilterExec.
    * prescan-shared : a table scanned ≥ 2 times (≤ 400 MB, not QE_VERIF_NO_PRESCAN) is read ONCE with the union of the
                       requested projections; each consumer picks its columns out of the cached batches by position of the
                       column in the union.
    * morsel         : `MorselAggregateExec` aggregates morsels (slices of row groups) in parallel and merges the states;
                       its dense direct-address variant serves a single bounded integer key.
  Deviation switch `denseRejectsNullKeys` (DESIGN A.5): the dense variant aborts the statement on a NULL key.
-/
import IQE.Engine.Partition
import IQE.Core.Val
namespace IQE.Engine.ScanPath
open IQE IQE.Engine.Partition

abbrev Stored (α : Type) := List (List (List α))

def rowsOf {α : Type} (s : Stored α) : List α := s.flatten.flatten

/-- eager scan + FilterExec + projection -/
def scanEager {α β : Type} (pred : α → Bool) (proj : α → β) (s : Stored α) : List β :=
  ((rowsOf s).filter pred).map proj

/-- streaming scan: statistics pruning per row group, decoder-level filter on the surviving groups -/
def scanStreaming {α β : Type} (mayMatch : List α → Bool) (pred : α → Bool) (proj : α → β) (s : Stored α) : List β :=
  (s.flatten.filter mayMatch).flatMap (fun rg => (rg.filter pred).map proj)

/-- pick columns by index (a missing column reads as NULL) -/
def pick (idx : List Nat) (r : Row) : Row := idx.map (fun i => r.getD i .null)

/-- shared prescan: the cache holds `pick union`; a consumer asking for `req` reads position `union.idxOf i` for column `i` -/
def scanPrescan (union req : List Nat) (s : Stored Row) : Table :=
  ((rowsOf s).map (pick union)).map (pick (req.map (fun i => union.idxOf i)))

structure Dev where
  denseRejectsNullKeys : Bool := false

/-- generic morsel aggregation: every morsel (any slicing of the row groups) is folded on its own, states are merged -/
def morselAgg {α σ : Type} (A : Acc α σ) (morsels : List (List α)) : σ := (morsels.map A.fold).foldl A.merge A.e

/-- which aggregation path runs, and what it returns -/
inductive AggPath | memory | morsel | dense

def aggRun {σ : Type} (dev : Dev) (A : Acc (Option Int × Option Int) σ) (path : AggPath) (s : Stored (Option Int × Option Int)) :
    Except String σ :=
  match path with
  | .memory => .ok (A.fold (rowsOf s))
  | .morsel => .ok (morselAgg A s.flatten)
  | .dense =>
    if dev.denseRejectsNullKeys && (rowsOf s).any (fun r => r.1.isNone) then .error "dense agg: null group keys unsupported"
    else .ok (morselAgg A s.flatten)

/-- per-key COUNT(*) and SUM(v) over rows (key, value): an association list ordered by first appearance is NOT a lawful
    accumulator (merge order shows); the state here is the function key ↦ (count, sum), represented extensionally by the
    list of all rows of the group being queried. -/
def groupAcc (k : Option Int) : Acc (Option Int × Option Int) IntAggState where
  e := intAgg.e
  inj := fun r => if r.1 = k then intAgg.inj r.2 else intAgg.e
  merge := intAgg.merge

end IQE.Engine.ScanPath
