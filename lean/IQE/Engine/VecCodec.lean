/-
  IQE.Engine.VecCodec — hand-written executable model of
    src/arrow_ffi/array.rs  (analyze_encoding / is_constant / encode_optimal / EncodedArray::decode)
    src/arrow_ffi/codec.rs  (filter_simd, compare_simd, add_simd, multiply_simd, sum_simd, count_simd)
  An Arrow array is a window `[off, off+len)` into buffers holding, for every slot, the validity bit AND the
  physical value (Arrow leaves the value under a NULL slot arbitrary; the code reads it in several places).
  Loops `for i in 0..len` are `List.range len` maps/folds reading `value(off+i)` / `is_null(off+i)`.

  Deviation switches (DESIGN §3.4): with every switch off the model is the intended algorithm; with a switch on it
  reproduces the defect of the unchanged tree that known_findings.json lists under the id in brackets.
-/
import IQE.Core.F64
namespace IQE.Engine.VecCodec

structure Dev where
  /-- [C37-F1] `is_constant` scans `values()` / accepts `len ≤ 1` without looking at the validity bitmap. -/
  constIgnoresValidity : Bool := false
  /-- [C37-F2] Int32 / Boolean arrays reach the scalar path (`len ≤ 1` → Constant, `len ≥ 7` → RLE), which cannot rebuild them. -/
  encodeUnsupportedFails : Bool := false
  /-- [C37-F3] `filter_simd` drops selected NULL entries. -/
  filterDropsNulls : Bool := false
  /-- [C37-F4] `compare_simd` compares the physical values and returns no validity. -/
  compareIgnoresValidity : Bool := false
  /-- [C37-F5] `compare_simd` on Float64 uses IEEE `==`/`<` where Arrow's `cmp` kernels use totalOrder. -/
  compareFloatIeee : Bool := false
  /-- [C37-F6] `add_simd`/`multiply_simd` compute on physical values and return no validity. -/
  arithIgnoresValidity : Bool := false
  /-- [C37-F7] `add_simd`/`multiply_simd` do not check that the lengths agree (truncate, or index out of bounds). -/
  arithNoLenCheck : Bool := false
  /-- [C37-F8] `sum_simd` of an array without a valid value is `Some(0)` instead of NULL. -/
  sumNoValidIsZero : Bool := false
deriving Repr, DecidableEq

inductive Ty | int32 | int64 | float64 | utf8 | bool
deriving Repr, DecidableEq

inductive ErrKind | unsupported | len | downcast | other
deriving Repr, DecidableEq

/-- Outcome of a public function: value, `Err(QueryError)` (classified), or a panic. -/
inductive Out (β : Type) | ok (v : β) | err (k : ErrKind) | panic
deriving Repr, DecidableEq

abbrev Slot (α : Type) := Bool × α

structure Arr (α : Type) where
  buf : List (Slot α)
  off : Nat
  len : Nat
deriving Repr

variable {α : Type} [Inhabited α]

/-- the window lies inside the buffers (an invariant of every Arrow array) -/
def Arr.WF (a : Arr α) : Prop := a.off + a.len ≤ a.buf.length

def Arr.slot (a : Arr α) (i : Nat) : Slot α := a.buf.getD (a.off + i) (false, default)
/-- `array.is_null(i)` -/
def Arr.isNull (a : Arr α) (i : Nat) : Bool := !(a.slot i).1
/-- `array.value(i)`: the physical value, also under a NULL slot -/
def Arr.value (a : Arr α) (i : Nat) : α := (a.slot i).2
/-- the slots of the window, in order -/
def Arr.slots (a : Arr α) : List (Slot α) := (a.buf.drop a.off).take a.len

/-- logical content of a slot / of an array: NULL hides the physical value -/
def opt (s : Slot α) : Option α := if s.1 then some s.2 else none
def logical (l : List (Slot α)) : List (Option α) := l.map opt

/-! ## codec.rs -/

def filterSupported : Ty → Bool | .int64 | .float64 | .bool => true | _ => false
def numSupported : Ty → Bool | .int64 | .float64 => true | _ => false

/-- `filter_simd`: `for (i, &p) in predicate.iter().enumerate()`. -/
def filterSimd (dev : Dev) (ty : Ty) (a : Arr α) (mask : List Bool) : Out (List (Option α)) :=
  if a.len != mask.length then .err .len
  else if !filterSupported ty then .err .unsupported
  else .ok (mask.zipIdx.filterMap fun (p, i) =>
    if p then (if a.isNull i then (if dev.filterDropsNulls then none else some none) else some (some (a.value i)))
    else none)

inductive CmpOp | eq | ne | lt | le | gt | ge
deriving Repr, DecidableEq

/-- the element `==` and `<` the loops are instantiated with -/
structure Cmp (α : Type) where
  eq : α → α → Bool
  lt : α → α → Bool

def compareEq (c : Cmp α) (a b : Arr α) : List Bool := (List.range a.len).map fun i => c.eq (a.value i) (b.value i)
def compareLt (c : Cmp α) (a b : Arr α) : List Bool := (List.range a.len).map fun i => c.lt (a.value i) (b.value i)
def compareNe (c : Cmp α) (a b : Arr α) : List Bool :=
  let e := compareEq c a b
  (List.range a.len).map fun i => !(e.getD i false)
def compareLe (c : Cmp α) (a b : Arr α) : List Bool :=
  let l := compareLt c a b
  let e := compareEq c a b
  (List.range a.len).map fun i => l.getD i false || e.getD i false

def compareValues (c : Cmp α) : CmpOp → Arr α → Arr α → List Bool
  | .eq, a, b => compareEq c a b
  | .ne, a, b => compareNe c a b
  | .lt, a, b => compareLt c a b
  | .le, a, b => compareLe c a b
  | .gt, a, b => compareLt c b a
  | .ge, a, b => compareLe c b a

/-- `compare_simd` (`tyb` = data type of the right operand). -/
def compareSimd (dev : Dev) (ty tyb : Ty) (c : Cmp α) (op : CmpOp) (a b : Arr α) : Out (List (Option Bool)) :=
  if a.len != b.len then .err .len
  else if !numSupported ty then .err .unsupported
  else if tyb != ty then .err .downcast
  else
    let vals := compareValues c op a b
    .ok (if dev.compareIgnoresValidity then vals.map some
         else vals.zipIdx.map fun (v, i) => if a.isNull i || b.isNull i then none else some v)

/-- `add_simd` / `multiply_simd` (`f` = the element operation). -/
def arithSimd (dev : Dev) (ty tyb : Ty) (f : α → α → α) (a b : Arr α) : Out (List (Option α)) :=
  if !dev.arithNoLenCheck && a.len != b.len then .err .len
  else if !numSupported ty then .err .unsupported
  else if tyb != ty then .err .downcast
  else if a.len > b.len then .panic      -- `right_arr.value(i)` with `i ≥ right.len()`
  else .ok ((List.range a.len).map fun i =>
    if !dev.arithIgnoresValidity && (a.isNull i || b.isNull i) then none else some (f (a.value i) (b.value i)))

/-- `sum_simd`. -/
def sumSimd (dev : Dev) (ty : Ty) (add : α → α → α) (zero : α) (a : Arr α) : Out (Option α) :=
  if !numSupported ty then .err .unsupported
  else
    let r := (List.range a.len).foldl
      (fun (acc : α × Bool) i => if !a.isNull i then (add acc.1 (a.value i), true) else acc) (zero, false)
    .ok (if r.2 || dev.sumNoValidIsZero then some r.1 else none)

/-- `count_simd`. -/
def countSimd (a : Arr α) : Nat :=
  (List.range a.len).foldl (fun c i => if !a.isNull i then c + 1 else c) 0

/-! ## what the equivalent Arrow kernels compute, on logical arrays -/

/-- `arrow::compute::filter` -/
def arrowFilter {β : Type} (l : List (Option β)) (mask : List Bool) : List (Option β) := ((l.zip mask).filter (·.2)).map (·.1)
/-- a binary kernel (`cmp::*`, `numeric::add/mul`): NULL if either side is NULL -/
def arrowBinary {β γ : Type} (f : β → β → γ) (x y : List (Option β)) : List (Option γ) :=
  List.zipWith (fun a b => match a, b with | some a, some b => some (f a b) | _, _ => none) x y
/-- `aggregate::sum`: NULL when there is no valid value -/
def arrowSum {β : Type} (add : β → β → β) (zero : β) (l : List (Option β)) : Option β :=
  let vs := l.filterMap id
  if vs.isEmpty then none else some (vs.foldl add zero)
/-- number of valid entries (`len - null_count`) -/
def arrowCount {β : Type} (l : List (Option β)) : Nat := (l.filter Option.isSome).length
/-- meaning of the six comparison operators given `==`, `<`, `<=` of the element order -/
def cmpSem {β : Type} (eq lt le : β → β → Bool) : CmpOp → β → β → Bool
  | .eq => eq | .ne => fun x y => !eq x y | .lt => lt | .le => le | .gt => fun x y => lt y x | .ge => fun x y => le y x

/-! ## array.rs -/

/-- types `extract_scalar_value` + `ConstantArray::to_arrow_array` can rebuild -/
def scalarSupported : Ty → Bool | .int64 | .float64 | .utf8 => true | _ => false

inductive Enc (α : Type)
  | flat (a : List (Slot α))
  | dict (keys : List Nat) (vals : List (Slot α))
  | rle (a : List (Slot α))          -- `encode_rle` returns the original array
  | const (a : List (Slot α))        -- `ConstantArray::to_arrow_array`, materialised
deriving Repr

/-- `EncodedArray::decode` (a dictionary array is read through its keys). -/
def decode : Enc α → List (Slot α)
  | .flat a => a
  | .dict keys vals => keys.map fun k => vals.getD k (false, default)
  | .rle a => a
  | .const a => a

variable [DecidableEq α]

/-- the `all(..)` scans of `is_constant` for `len ≥ 2` -/
def valuesAllEqual (ty : Ty) (s : List (Slot α)) : Bool :=
  match ty, s with
  | .int64, first :: _ => s.all fun x => x.2 == first.2          -- `primitive.values().iter().all(|&v| v == first)`
  | .utf8, first :: _ => s.all fun x => opt x == opt first         -- `string_array.iter().all(|v| v == first)`
  | _, _ => false

/-- `is_constant`; switched off, a constant array has no NULL (a ConstantArray stores one non-null scalar). -/
def isConstant (dev : Dev) (ty : Ty) (s : List (Slot α)) : Bool :=
  (dev.constIgnoresValidity || s.all (·.1)) && (s.length ≤ 1 || valuesAllEqual ty s)

/-- `encode_constant` on a non-empty array: `extract_scalar_value(&array, 0)` then `to_arrow_array`. -/
def encodeConstant (ty : Ty) (zero : α) (s : List (Slot α)) : Out (Enc α) :=
  match s with
  | [] => .ok (.const [])
  | (v0, x0) :: _ =>
    if !v0 then                       -- ScalarValue::Null → the fallback arm
      if scalarSupported ty then .ok (.const (List.replicate s.length (true, zero))) else .panic
    else match ty with
      | .int64 | .float64 | .utf8 => .ok (.const (List.replicate s.length (true, x0)))
      | .bool => .panic                -- ScalarValue::Boolean falls into the fallback arm, which panics on Boolean
      | .int32 => .err .unsupported    -- `extract_scalar_value` has no Int32 arm

/-- `run_count` of `calculate_rle_savings` (starts at 1 and counts the first element again);
    unsupported types stringify the whole array, so every element looks equal. -/
def runCount (ty : Ty) (s : List (Slot α)) : Nat :=
  let keys : List (Option (Option α)) := s.map fun x => if scalarSupported ty then some (opt x) else none
  let rec go (prev : Option (Option (Option α))) : List (Option (Option α)) → Nat
    | [] => 0
    | k :: rest => if prev = some k then go prev rest else 1 + go (some k) rest
  1 + go none keys

/-- `1.0 - run_count/len > 0.7` -/
def rleChosen (ty : Ty) (s : List (Slot α)) : Bool := decide (10 * runCount ty s < 3 * s.length)

/-- `encode_rle`: walks the array with `extract_scalar_value`, then returns the array unchanged. -/
def encodeRle (ty : Ty) (s : List (Slot α)) : Out (Enc α) :=
  if ty == .int32 && s.any (·.1) then .err .unsupported else .ok (.rle s)

/-- `calculate_dict_savings(..) > 0.5`: strings only, `None` when a NULL is met. -/
def dictChosen (ty : Ty) (s : List (Slot α)) : Bool :=
  ty == .utf8 && s.all (·.1) && decide (2 * (s.map (·.2)).eraseDups.length < s.length)

/-- `encode_optimal`. -/
def encodeOptimal (dev : Dev) (ty : Ty) (zero : α) (s : List (Slot α)) : Out (Enc α) :=
  if s.length == 0 then .ok (.flat s)
  else if !dev.encodeUnsupportedFails && !scalarSupported ty then .ok (.flat s)
  else if isConstant dev ty s then encodeConstant ty zero s
  else if rleChosen ty s then encodeRle ty s
  else if dictChosen ty s then .ok (.dict (List.range s.length) s)
  else .ok (.flat s)

/-- `encode_optimal(a)?.decode()` -/
def roundtrip (dev : Dev) (ty : Ty) (zero : α) (s : List (Slot α)) : Out (List (Slot α)) :=
  match encodeOptimal dev ty zero s with
  | .ok e => .ok (decode e)
  | .err k => .err k
  | .panic => .panic

/-! ## element types used by the correspondence driver -/

inductive Raw | i (n : Int) | f (bits : UInt64) | s (str : String) | b (v : Bool)
deriving Repr, DecidableEq, Inhabited

def Raw.zero : Ty → Raw
  | .int32 | .int64 => .i 0 | .float64 => .f 0 | .utf8 => .s "" | .bool => .b false

def Raw.add : Raw → Raw → Raw
  | .i x, .i y => .i (x + y)
  | .f x, .f y => .f (Float.ofBits x + Float.ofBits y).toBits
  | x, _ => x
def Raw.mul : Raw → Raw → Raw
  | .i x, .i y => .i (x * y)
  | .f x, .f y => .f (Float.ofBits x * Float.ofBits y).toBits
  | x, _ => x

/-- element comparators: integers; floats by totalOrder (Arrow) or IEEE (the code, switch `compareFloatIeee`). -/
def Raw.cmp (ieee : Bool) : Cmp Raw where
  eq := fun x y => match x, y with
    | .i x, .i y => decide (x = y)
    | .f x, .f y => if ieee then F64.eq ⟨x⟩ ⟨y⟩ else F64.totalEq ⟨x⟩ ⟨y⟩
    | x, y => decide (x = y)
  lt := fun x y => match x, y with
    | .i x, .i y => decide (x < y)
    | .f x, .f y => if ieee then F64.lt ⟨x⟩ ⟨y⟩ else F64.totalLt ⟨x⟩ ⟨y⟩
    | _, _ => false

end IQE.Engine.VecCodec
