/-
  IQE.Engine.StatsFold — hand-written executable model of the footer fold in
  `ParquetTable::compute_statistics` (src/storage/parquet.rs:114).

  The Rust loop visits every file, every row group, every column chunk and merges, per (lower-cased)
  column name, `null_count`, integer `min`/`max` and `has_int_stats` into a `ColAcc`; afterwards each
  accumulator becomes a `ColumnStatistics` (with the estimate `ndv_est`).

  A column chunk, as the fold sees it, is `(rows, nullCount?, (min,max)?)`:
    * `col_chunk.statistics() == None`              ↦ nullCount = none, minmax = none
    * statistics without `null_count`               ↦ nullCount = none
    * statistics that are not Int32/Int64, or that lack min or max ↦ minmax = none
  (behaviourally these collapse exactly as in the Rust: the `continue` of a stats-less chunk does
  what an empty statistics object does).  `values` is the chunk's real content; the fold never
  reads it — it is there so the theorems can speak about "every value".

  Deviation switches (defects of the tree before `fix:` 35af6bd — `Dev.preFix`; `Dev` all-false = intended algorithm = current tree):
    * `statslessKeepsMinMax` — a chunk that reports no (min,max) leaves the accumulated min/max
      untouched and they are published as bounds of the whole column (C18-F1, DESIGN A.11);
    * `ndvRangeOverflow` — `(max - min) as u64 + 1` is computed in `i64`: panics (debug build,
      overflow checks) when `max - min > i64::MAX` (C18-F2);
    * `unsignedAsSigned` — the footer min/max of a column with an unsigned logical type (UINT_8..UINT_64, chunk
      field `ub` = bit width of the physical type, 0 = signed) are read through the signed `Int32`/`Int64` arms
      and published bit-reinterpreted (u32 4294967295 ↦ −1) (C18-F3).
-/
namespace IQE.Engine.StatsFold

structure Dev where
  statslessKeepsMinMax : Bool := false
  ndvRangeOverflow : Bool := false
  unsignedAsSigned : Bool := false
deriving Repr, DecidableEq

/-- the tree before `fix:` commit 35af6bd (all three defects present) -/
def Dev.preFix : Dev := { statslessKeepsMinMax := true, ndvRangeOverflow := true, unsignedAsSigned := true }

/-- the current tree: commit 35af6bd repaired C18-F1/F2/F3, every switch is off -/
def Dev.current : Dev := {}

structure Chunk where
  rows : Nat
  nullCount : Option Nat
  minmax : Option (Int × Int)
  values : List (Option Int)
  ub : Nat := 0                  -- 0: signed physical/logical type; 32 / 64: unsigned logical type over INT32 / INT64
deriving Repr

/-- `ColAcc` (+ `void`, which only the intended algorithm sets). -/
structure Acc where
  min : Option Int := none
  max : Option Int := none
  nullCount : Option Nat := some 0
  hasInt : Bool := false
  void : Bool := false
deriving Repr, DecidableEq

/-- null-count merge: `Some(n)` adds while the total is still known; `None` poisons. -/
def addNulls (total : Option Nat) (n : Option Nat) : Option Nat :=
  match n, total with
  | some n, some t => some (t + n)
  | _, _ => none

/-- the chunk provably holds no non-NULL value (so it needs no min/max) -/
def Chunk.allNull (c : Chunk) : Bool := c.rows == 0 || c.nullCount == some c.rows

def optMin (a : Option Int) (x : Int) : Int := match a with | none => x | some m => if m ≤ x then m else x
def optMax (a : Option Int) (x : Int) : Int := match a with | none => x | some m => if x ≤ m then m else x

def i64Max : Int := 9223372036854775807

/-- the (min,max) the fold takes from a chunk. Intended: an unsigned column's stored bit patterns are decoded
    (`x mod 2^ub`) and used only when they fit `i64`; otherwise the chunk counts as not reporting. -/
def Chunk.eff (dev : Dev) (c : Chunk) : Option (Int × Int) :=
  match c.minmax with
  | none => none
  | some (lo, hi) =>
    if c.ub == 0 || dev.unsignedAsSigned then some (lo, hi)
    else if hi % (2 ^ c.ub) ≤ i64Max && lo % (2 ^ c.ub) ≤ i64Max then some (lo % (2 ^ c.ub), hi % (2 ^ c.ub)) else none

/-- one column chunk -/
def step (dev : Dev) (a : Acc) (c : Chunk) : Acc :=
  let nc := addNulls a.nullCount c.nullCount
  match c.eff dev with
  | some (lo, hi) =>
    { a with nullCount := nc, hasInt := true, min := some (optMin a.min lo), max := some (optMax a.max hi) }
  | none =>
    { a with nullCount := nc, void := a.void || (!dev.statslessKeepsMinMax && !c.allNull) }

def foldCol (dev : Dev) (cs : List Chunk) : Acc := cs.foldl (step dev) {}

/-- published per-column statistics -/
structure ColStats where
  min : Option Int
  max : Option Int
  nullCount : Option Nat
  ndv : Option Nat         -- only modelled for integer columns (`has_int_stats`)
  hasInt : Bool
deriving Repr, DecidableEq

inductive Outcome (α : Type) where
  | ok : α → Outcome α
  | panic : Outcome α
deriving Repr, DecidableEq

/-- `ndv_est` of an integer column: `non_null.min((max - min) as u64 + 1)`. -/
def ndvOf (dev : Dev) (nonNull : Nat) (hasInt : Bool) (mn mx : Option Int) : Outcome (Option Nat) :=
  if hasInt then
    match mn, mx with
    | some lo, some hi =>
      if hi ≥ lo then
        if dev.ndvRangeOverflow && hi - lo > i64Max then .panic
        else .ok (some (Nat.min nonNull (hi - lo + 1).toNat))
      else .ok none
    | _, _ => .ok none
  else .ok none

def finishCol (dev : Dev) (totalRows : Nat) (a : Acc) : Outcome ColStats :=
  let mn := if a.void then none else a.min
  let mx := if a.void then none else a.max
  let hasInt := a.hasInt && !a.void
  let nonNull : Nat := match a.nullCount with | some n => totalRows - n | none => totalRows
  match ndvOf dev nonNull hasInt mn mx with
  | .panic => .panic
  | .ok ndv => .ok { min := mn, max := mx, nullCount := a.nullCount, hasInt := hasInt, ndv := ndv }

/-- A row group: its row count and its column chunks by (lower-cased) name. -/
structure RowGroup where
  rows : Nat
  cols : List (String × Chunk)
deriving Repr

/-- A table is the files' row groups in file order, file sizes aside. -/
abbrev Table := List RowGroup

def totalRows (t : Table) : Nat := (t.map (·.rows)).sum

/-- the chunks of column `name`, in visiting order (`cols.entry(name)`) -/
def chunksOf (t : Table) (name : String) : List Chunk :=
  t.flatMap fun rg => (rg.cols.filter (fun p => p.1 == name)).map (·.2)

/-- every value of column `name` -/
def valuesOf (t : Table) (name : String) : List (Option Int) := (chunksOf t name).flatMap (·.values)

/-- column names in first-seen order -/
def namesOf (t : Table) : List String :=
  (t.flatMap fun rg => rg.cols.map (·.1)).eraseDups

structure TableStats where
  rowCount : Nat
  cols : List (String × ColStats)
deriving Repr, DecidableEq

def collect : List (String × Outcome ColStats) → Outcome (List (String × ColStats))
  | [] => .ok []
  | (n, .ok s) :: rest => match collect rest with | .ok l => .ok ((n, s) :: l) | .panic => .panic
  | (_, .panic) :: _ => .panic

/-- `compute_statistics` (byte size aside): panics iff some column's finish panics. -/
def stats (dev : Dev) (t : Table) : Outcome TableStats :=
  match collect ((namesOf t).map fun n => (n, finishCol dev (totalRows t) (foldCol dev (chunksOf t n)))) with
  | .ok l => .ok { rowCount := totalRows t, cols := l }
  | .panic => .panic

/-- number of NULLs among values -/
def nulls (vs : List (Option Int)) : Nat := (vs.filter (·.isNone)).length

end IQE.Engine.StatsFold
