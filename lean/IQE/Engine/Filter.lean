/-
  IQE.Engine.Filter — executable model of the expression interpreter
  `physical::operators::filter::evaluate_expr_internal` (src/physical/operators/filter.rs) for the
  boolean / scalar fragment, one row at a time (the Rust code is vectorised; every kernel it calls in this
  fragment is element-wise, so a batch is the list of its rows).

  Mirrors, per Rust function:
    evaluate_binary_op   → `binaryOp`  (coerce_arrays + arrow cmp kernels = `cmpK`; `boolean::and/or` = `andK/orK`)
    evaluate_unary_op    → `unaryOp`
    evaluate_in_list     → `inList` / `inAcc`  (left fold: eq₁, then OR-accumulate eqᵢ with the boolean kernel, then NOT)
    Expr::Between arm    → ge/le comparison kernels + the AND kernel (+ NOT)
    evaluate_case        → `caseZip`   (ALL arms are evaluated for the batch, then zipped back to front; a NULL condition selects the else side)
    ScalarFunction::Coalesce / NullIf → `coalesceZip`, `nullifZip`
    evaluate_filter      → `filter`    (arrow `filter` keeps a row iff its mask bit is valid and true)

  Deviation switch `strictAndOr` (DESIGN §3.4): before fix e4c7c04 the code used Arrow's *null-strict* `boolean::and` /
  `boolean::or` where SQL needs Kleene logic — in AND, OR, the IN-list accumulation and BETWEEN (finding C02-F1, fixed).
  With the switch off this is the intended algorithm, which is what the tree now does (`Dev.current = Dev.none`).

  Eagerness: the vectorised code evaluates every CASE / COALESCE branch for the whole batch; an error in a
  branch SQL would not evaluate fails the batch.  The model keeps that (errors are an outcome).
  Not modelled (→ `.error (.unsupported …)`): outer references, CAST, scalar functions other than
  COALESCE/NULLIF, subquery expressions, dictionary fast paths.  The LIKE matcher (`like_match`,
  `classify_like`) is taken as the kernel `Spec.likeMatch` (validated by the correspondence runs only).
-/
import IQE.Spec.Expr
namespace IQE.Engine.Filter
open IQE IQE.Spec

structure Dev where
  /-- AND / OR / IN-list accumulation / BETWEEN use Arrow's null-strict kernels instead of Kleene logic -/
  strictAndOr : Bool := false
deriving DecidableEq, Repr, Inhabited

/-- the intended algorithm -/
def Dev.none : Dev := { strictAndOr := false }
/-- the tree before the repair e4c7c04 (`boolean::and` / `boolean::or`): kept for the negation witnesses and the regression corpus -/
def Dev.strict : Dev := { strictAndOr := true }
/-- the current tree: since fix e4c7c04 the interpreter calls `boolean::and_kleene` / `or_kleene` -/
def Dev.current : Dev := { strictAndOr := false }

/-- the boolean AND kernel the interpreter calls -/
def andK (dev : Dev) (a b : Val) : Except Err Val := if dev.strictAndOr then Val.andStrict a b else Val.and3 a b
/-- the boolean OR kernel the interpreter calls -/
def orK (dev : Dev) (a b : Val) : Except Err Val := if dev.strictAndOr then Val.orStrict a b else Val.or3 a b

/-- `coerce_arrays` followed by an arrow `cmp::{eq,neq,lt,lt_eq,gt,gt_eq}` kernel: NULL if either side is NULL,
    ints are widened to f64 against a float, floats compare by total order. -/
def cmpK (fo : FloatOps) (op : BinOp) (a b : Val) : Except Err Val :=
  match Val.cmp3 fo a b with
  | .error e => .error e
  | .ok none => .ok .null
  | .ok (some o) => .ok (.bool (ordSat op o))

/-- LIKE / NOT LIKE: NULL if either side is NULL. -/
def likeK (negate : Bool) (a b : Val) : Except Err Val :=
  match a, b with
  | .null, _ => .ok .null
  | _, .null => .ok .null
  | .str s, .str p => .ok (.bool ((likeMatch p.toList s.toList) == !negate))
  | _, _ => .error (.type "LIKE on non-string")

def concatK (a b : Val) : Except Err Val :=
  match a, b with
  | .null, _ => .ok .null
  | _, .null => .ok .null
  | .str s, .str t => .ok (.str (s ++ t))
  | _, _ => .error (.type "|| on non-string")

/-- `evaluate_binary_op` -/
def binaryOp (dev : Dev) (fo : FloatOps) (op : BinOp) (a b : Val) : Except Err Val :=
  match op with
  | .eq => cmpK fo .eq a b
  | .ne => cmpK fo .ne a b
  | .lt => cmpK fo .lt a b
  | .le => cmpK fo .le a b
  | .gt => cmpK fo .gt a b
  | .ge => cmpK fo .ge a b
  | .and => andK dev a b
  | .or => orK dev a b
  | .add => Val.arith fo .add a b
  | .sub => Val.arith fo .sub a b
  | .mul => Val.arith fo .mul a b
  | .div => Val.arith fo .div a b
  | .mod => Val.arith fo .mod a b
  | .like => likeK false a b
  | .notLike => likeK true a b
  | .concat => concatK a b

/-- `evaluate_unary_op` -/
def unaryOp (fo : FloatOps) (op : UnOp) (a : Val) : Except Err Val :=
  match op with
  | .not => Val.not3 a                       -- boolean::not: NULL stays NULL
  | .isNull => .ok (.bool a.isNull)
  | .isNotNull => .ok (.bool !a.isNull)
  | .neg => match a with
    | .null => .ok .null
    | .int i => Val.checkI64 (-i)
    | .f64 x => .ok (.f64 (fo.neg x))
    | _ => .error (.type "negation of non-numeric")

/-- the loop of `evaluate_in_list`: `result = result OR (value = list_val)`, left to right -/
def inAcc (dev : Dev) (fo : FloatOps) (x : Val) : Val → List Val → Except Err Val
  | acc, [] => .ok acc
  | acc, v :: vs => do
    let eq ← cmpK fo .eq x v
    let acc' ← orK dev acc eq
    inAcc dev fo x acc' vs

/-- `evaluate_in_list` -/
def inList (dev : Dev) (fo : FloatOps) (x : Val) (vs : List Val) (neg : Bool) : Except Err Val :=
  match vs with
  | [] => .ok (.bool neg)
  | v :: vs => do
    let first ← cmpK fo .eq x v
    let r ← inAcc dev fo x first vs
    if neg then Val.not3 r else pure r

/-- `evaluate_case` on the already evaluated flattened arm list `[c₁, t₁, …, else?]`:
    `zip(condition, then, else)` takes `then` iff the condition is valid and true. -/
def caseZip : List Val → Except Err Val
  | [] => .ok .null
  | [e] => .ok e
  | c :: t :: rest => do
    let els ← caseZip rest
    match c with
    | .bool true => .ok t
    | .bool false => .ok els
    | .null => .ok els
    | _ => .error (.type "CASE WHEN requires boolean condition")

/-- `ScalarFunction::Coalesce`: `result = zip(is_null(result), next, result)` left to right -/
def coalesceZip : List Val → Val
  | [] => .null
  | v :: vs => match v with
    | .null => coalesceZip vs
    | v => v

/-- `ScalarFunction::NullIf`: `zip(a = b, NULL, a)` -/
def nullifZip (fo : FloatOps) (x y : Val) : Except Err Val :=
  match cmpK fo .eq x y with
  | .error e => .error e
  | .ok (.bool true) => .ok .null
  | .ok _ => .ok x

/-- `find_column_index` + `batch.column(idx)` at one row -/
def colAt (r : Row) (i : Nat) : Except Err Val :=
  match r[i]? with
  | some v => .ok v
  | none => .error (.bad "column index out of range")

mutual
/-- `evaluate_expr_internal` at one row -/
def eval (dev : Dev) (fo : FloatOps) (r : Row) : Expr → Except Err Val
  | .lit v => .ok v
  | .col i => colAt r i
  | .un op e => do unaryOp fo op (← eval dev fo r e)
  | .bin op a b => do
    let x ← eval dev fo r a
    let y ← eval dev fo r b
    binaryOp dev fo op x y
  | .inList e items neg => do
    let x ← eval dev fo r e
    let vs ← evalList dev fo r items
    inList dev fo x vs neg
  | .between e lo hi neg => do
    let x ← eval dev fo r e
    let l ← eval dev fo r lo
    let h ← eval dev fo r hi
    let ge ← cmpK fo .ge x l
    let le ← cmpK fo .le x h
    let res ← andK dev ge le
    if neg then Val.not3 res else pure res
  | .case_ arms => do
    let vs ← evalList dev fo r arms
    if vs.isEmpty then .error (.bad "CASE must have at least one WHEN clause") else caseZip vs
  | .coalesce es => do
    let vs ← evalList dev fo r es
    if vs.isEmpty then .error (.bad "COALESCE requires at least 1 argument") else pure (coalesceZip vs)
  | .nullif a b => do
    let x ← eval dev fo r a
    let y ← eval dev fo r b
    nullifZip fo x y
  | .outer _ _ => .error (.unsupported "outer reference")
  | .cast _ _ => .error (.unsupported "cast")
  | .fn _ _ => .error (.unsupported "scalar function")
  | .exists_ _ _ => .error (.unsupported "subquery")
  | .inSub _ _ _ => .error (.unsupported "subquery")
  | .scalarSub _ => .error (.unsupported "subquery")

def evalList (dev : Dev) (fo : FloatOps) (r : Row) : List Expr → Except Err (List Val)
  | [] => .ok []
  | e :: es => do
    let v ← eval dev fo r e
    let vs ← evalList dev fo r es
    pure (v :: vs)
end

/-- the mask of a batch: the predicate at every row (any row's error fails the batch) -/
def mask (dev : Dev) (fo : FloatOps) (e : Expr) : List Row → Except Err (List Val)
  | [] => .ok []
  | r :: rs => do
    let v ← eval dev fo r e
    let vs ← mask dev fo e rs
    pure (v :: vs)

/-- decidable equality of evaluation outcomes (used by the kernel-checked witnesses) -/
instance decEqExcept {ε α : Type} [DecidableEq ε] [DecidableEq α] : DecidableEq (Except ε α)
  | .ok a, .ok b => if h : a = b then isTrue (by rw [h]) else isFalse (by intro h'; cases h'; exact h rfl)
  | .error a, .error b => if h : a = b then isTrue (by rw [h]) else isFalse (by intro h'; cases h'; exact h rfl)
  | .ok _, .error _ => isFalse (by intro h; cases h)
  | .error _, .ok _ => isFalse (by intro h; cases h)

/-- "the predicate is TRUE" on an evaluation result -/
def isTrueRes : Except Err Val → Bool
  | .ok (.bool true) => true
  | _ => false

def isBoolOrNull : Val → Bool
  | .bool _ => true | .null => true | _ => false

/-- arrow `filter(col, mask)`: keep a row iff its mask value is valid and true -/
def keep : List Row → List Val → List Row
  | r :: rs, v :: vs => if v = .bool true then r :: keep rs vs else keep rs vs
  | _, _ => []

/-- `evaluate_filter`: mask must be a boolean array; rows whose mask is TRUE are kept (NULL and FALSE dropped). -/
def filter (dev : Dev) (fo : FloatOps) (e : Expr) (rows : List Row) : Except Err (List Row) := do
  let m ← mask dev fo e rows
  if m.all isBoolOrNull then pure (keep rows m)
  else .error (.type "Filter predicate must evaluate to boolean")

/-! ### Syntactic classes used by the "cannot tell strict from Kleene" lemma -/

mutual
/-- no construct that calls the boolean AND/OR kernels: no AND, OR, IN-list, BETWEEN anywhere -/
def kernelFree : Expr → Bool
  | .lit _ => true
  | .col _ => true
  | .outer _ _ => true
  | .un _ e => kernelFree e
  | .bin op a b => (op != .and && op != .or) && kernelFree a && kernelFree b
  | .inList _ _ _ => false
  | .between _ _ _ _ => false
  | .case_ arms => kernelFreeList arms
  | .coalesce es => kernelFreeList es
  | .nullif a b => kernelFree a && kernelFree b
  | .cast e _ => kernelFree e
  | .fn _ args => kernelFreeList args
  | .exists_ _ _ => true
  | .inSub e _ _ => kernelFree e
  | .scalarSub _ => true
def kernelFreeList : List Expr → Bool
  | [] => true
  | e :: es => kernelFree e && kernelFreeList es
end

/-- "No OR, and no AND beneath NOT (or beneath anything but AND)": a conjunction, at the top of the predicate,
    of kernel-free conjuncts and un-negated BETWEENs over kernel-free operands. -/
def conjunctive : Expr → Bool
  | .bin .and a b => conjunctive a && conjunctive b
  | .between e lo hi false => kernelFree e && kernelFree lo && kernelFree hi
  | e => kernelFree e

end IQE.Engine.Filter
