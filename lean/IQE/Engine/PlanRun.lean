/-
  IQE.Engine.PlanRun — a run-time model of the exported plans (for theorem C31_wf_runs): rows flow bottom-up through
  the operators and every column reference is resolved per batch, where the engine calls `find_column_index`.
-/
import IQE.Engine.PlanWf
namespace IQE.Engine.PlanWf

/-! ### the run-time model (for C31_wf_runs)

  Rows flow bottom-up through the operators; every column reference is resolved *per batch* against the schema of
  the batch the operator receives (`lookup`), exactly where `find_column_index` is called.  What the scalar
  operators, aggregates, window functions and subquery predicates compute is irrelevant to column resolution and is
  left abstract (`Ops`); they never invent a column-not-found error (`Ops.Sane`).  The only modelled failure of
  interest is `RErr.cnf`: a reference that resolves in no scope, or a resolved index beyond the row's width. -/

inductive RErr where
  | cnf            -- QueryError::ColumnNotFound
  | other
deriving DecidableEq, Repr, Inhabited

abbrev RVal := Option Int
abbrev Row := List RVal
abbrev Scope := Schema × Row

structure Ops where
  lit : String → Lit → RVal
  scalar : String → String → List RVal → Except RErr RVal
  agg : String → List (List RVal) → Except RErr RVal
  win : String → Nat → List (List RVal) → Except RErr RVal
  subq : String → Bool → List RVal → List Row → Except RErr RVal

structure Ops.Sane (o : Ops) : Prop where
  scalar : ∀ k t vs, o.scalar k t vs ≠ .error .cnf
  agg : ∀ t vs, o.agg t vs ≠ .error .cnf
  win : ∀ t i vs, o.win t i vs ≠ .error .cnf
  subq : ∀ k n vs rows, o.subq k n vs rows ≠ .error .cnf

def truthy : RVal → Bool
  | some n => n != 0
  | none => false

/-- `find_column_index` on the innermost batch, falling back to the enclosing queries' rows -/
def lookup (rel : Option String) (name : String) : List Scope → Except RErr RVal
  | [] => .error .cnf
  | (s, r) :: rest =>
    match resolve s rel name with
    | some i => match r[i]? with
      | some v => .ok v
      | none => .error .cnf
    | none => lookup rel name rest

def nulls (n : Nat) : Row := List.replicate n none

def mapME (f : α → Except RErr β) : List α → Except RErr (List β)
  | [] => .ok []
  | a :: as => do
    let b ← f a
    let bs ← mapME f as
    pure (b :: bs)

def filterME (f : α → Except RErr Bool) : List α → Except RErr (List α)
  | [] => .ok []
  | a :: as => do
    let keep ← f a
    let rest ← filterME f as
    pure (if keep then a :: rest else rest)

def withIdx : Nat → List α → List (α × Nat)
  | _, [] => []
  | n, a :: as => (a, n) :: withIdx (n + 1) as

def dedupRows : List Row → List Row
  | [] => []
  | r :: rs => r :: (dedupRows rs).filter (fun x => x != r)

/-- key equality of a join: all pairs equal and non-NULL -/
def keysMatch (kl kr : List RVal) : Bool :=
  kl.length == kr.length && (kl.zip kr).all (fun (a, b) => a.isSome && a == b)

/-- rows a join emits, given for every left row the right rows it matches (`ms`) and all right rows -/
def emitJoin (jt : JT) (wl wr : Nat) (pairs : List (Row × List Row)) (unmatchedR : List Row) : List Row :=
  match jt with
  | .inner | .cross => pairs.flatMap (fun (l, ms) => ms.map (l ++ ·))
  | .left => pairs.flatMap (fun (l, ms) => if ms.isEmpty then [l ++ nulls wr] else ms.map (l ++ ·))
  | .single => pairs.map (fun (l, ms) => match ms with | [] => l ++ nulls wr | m :: _ => l ++ m)
  | .right => pairs.flatMap (fun (l, ms) => ms.map (l ++ ·)) ++ unmatchedR.map (nulls wl ++ ·)
  | .full => pairs.flatMap (fun (l, ms) => if ms.isEmpty then [l ++ nulls wr] else ms.map (l ++ ·)) ++ unmatchedR.map (nulls wl ++ ·)
  | .semi => (pairs.filter (fun (_, ms) => !ms.isEmpty)).map (·.1)
  | .anti => (pairs.filter (fun (_, ms) => ms.isEmpty)).map (·.1)
  | .mark => pairs.map (fun (l, ms) => l ++ [some (if ms.isEmpty then 0 else 1)])

/-- group rows by key, first-appearance order -/
def groupRows : List (List RVal × Row) → List (List RVal × List Row)
  | [] => []
  | (k, r) :: rest =>
    let gs := groupRows rest
    if gs.any (fun g => g.1 == k) then gs.map (fun g => if g.1 == k then (g.1, r :: g.2) else g)
    else (k, [r]) :: gs

def chunk (w : Nat) : Nat → List α → List (List α)
  | 0, _ => []
  | fuel + 1, xs => if xs.isEmpty || w == 0 then [] else xs.take w :: chunk w fuel (xs.drop w)

mutual
def evalE (o : Ops) (cat : String → Option (List Row)) (scopes : List Scope) : PExpr → Except RErr RVal
  | .col rel name => lookup rel name scopes
  | .lit ty v => .ok (o.lit ty v)
  | .op kind tag args => do
    let vs ← evalEs o cat scopes args
    o.scalar kind tag vs
  | .alias e _ => evalE o cat scopes e
  | .sub kind neg args p => do
    let vs ← evalEs o cat scopes args
    let rows ← exec o cat scopes p
    o.subq kind neg vs rows
  | .star _ => .ok none
def evalEs (o : Ops) (cat : String → Option (List Row)) (scopes : List Scope) : List PExpr → Except RErr (List RVal)
  | [] => .ok []
  | e :: es => do
    let v ← evalE o cat scopes e
    let vs ← evalEs o cat scopes es
    pure (v :: vs)
/-- an expression of an Aggregate node over one group: aggregate calls fold their arguments over the group's rows,
    everything else is evaluated on the group's first row -/
def evalAggE (o : Ops) (cat : String → Option (List Row)) (outer : List Scope) (sch : Schema) (group : List Row) : PExpr → Except RErr RVal
  | .col rel name => match group with
    | [] => .ok none
    | r :: _ => lookup rel name ((sch, r) :: outer)
  | .lit ty v => .ok (o.lit ty v)
  | .op kind tag args =>
    if kind == "agg" then do
      let vecs ← mapME (fun r => evalEs o cat ((sch, r) :: outer) args) group
      o.agg tag vecs
    else do
      let vs ← evalAggEs o cat outer sch group args
      o.scalar kind tag vs
  | .alias e _ => evalAggE o cat outer sch group e
  | .sub kind neg args p => match group with
    | [] => .ok none
    | r :: _ => do
      let vs ← evalEs o cat ((sch, r) :: outer) args
      let rows ← exec o cat ((sch, r) :: outer) p
      o.subq kind neg vs rows
  | .star _ => .ok none
def evalAggEs (o : Ops) (cat : String → Option (List Row)) (outer : List Scope) (sch : Schema) (group : List Row) : List PExpr → Except RErr (List RVal)
  | [] => .ok []
  | e :: es => do
    let v ← evalAggE o cat outer sch group e
    let vs ← evalAggEs o cat outer sch group es
    pure (v :: vs)
/-- the window expressions of a Window node for the row at position `idx` of `rows`: a window call evaluates its
    argument / partition / order expressions on every row of the input, anything else is an ordinary expression -/
def evalWinEs (o : Ops) (cat : String → Option (List Row)) (outer : List Scope) (sch : Schema) (rows : List Row) (idx : Nat) (row : Row) :
    List PExpr → Except RErr (List RVal)
  | [] => .ok []
  | e :: es => do
    let v ← (match e with
      | .op kind tag args =>
        if kind == "window" then do
          let vecs ← mapME (fun r => evalEs o cat ((sch, r) :: outer) args) rows
          o.win tag idx vecs
        else do
          let vs ← evalEs o cat ((sch, row) :: outer) args
          o.scalar kind tag vs
      | .col rel name => lookup rel name ((sch, row) :: outer)
      | .lit ty v => .ok (o.lit ty v)
      | .alias e' _ => evalE o cat ((sch, row) :: outer) e'
      | .sub kind neg args p => do
        let vs ← evalEs o cat ((sch, row) :: outer) args
        let srows ← exec o cat ((sch, row) :: outer) p
        o.subq kind neg vs srows
      | .star _ => .ok none)
    let vs ← evalWinEs o cat outer sch rows idx row es
    pure (v :: vs)
def exec (o : Ops) (cat : String → Option (List Row)) (outer : List Scope) : Plan → Except RErr (List Row)
  | .scan table s proj filter =>
    match cat table with
    | none => .error .other
    | some rows =>
      -- a provider whose batches do not have the declared width fails with a schema error, not ColumnNotFound
      if rows.all (fun (r : Row) => r.length == s.length) then
        let sch := match proj with | some idx => projectSchema s idx | none => s
        let prows := match proj with
          | some idx => rows.map (fun (r : Row) => idx.filterMap (fun i => r[i]?))
          | none => rows
        filterME (fun r => do
          let vs ← evalEs o cat ((sch, r) :: outer) filter
          pure (vs.all truthy)) prows
      else .error .other
  | .filter pred i => do
    let rows ← exec o cat outer i
    filterME (fun r => do pure (truthy (← evalE o cat ((outSchema i, r) :: outer) pred))) rows
  | .project exprs _ i => do
    let rows ← exec o cat outer i
    mapME (fun r => evalEs o cat ((outSchema i, r) :: outer) exprs) rows
  | .join jt onL onR filter _ l r => do
    let ls ← exec o cat outer l
    let rs ← exec o cat outer r
    let sl := outSchema l
    let sr := outSchema r
    let pairs ← mapME (fun lr => do
      let kl ← evalEs o cat ((sl, lr) :: outer) onL
      let ms ← filterME (fun rr => do
        let kr ← evalEs o cat ((sr, rr) :: outer) onR
        let fs ← evalEs o cat ((sl ++ sr, lr ++ rr) :: outer) filter
        pure ((onL.isEmpty || keysMatch kl kr) && fs.all truthy)) rs
      pure (lr, ms)) ls
    let matched := pairs.flatMap (·.2)
    pure (emitJoin jt sl.length sr.length pairs (rs.filter (fun rr => !matched.contains rr)))
  | .agg group aggs _ i => do
    let rows ← exec o cat outer i
    let sch := outSchema i
    let keyed ← mapME (fun r => do pure ((← evalEs o cat ((sch, r) :: outer) group), r)) rows
    let groups := if group.isEmpty then [([], rows)] else groupRows keyed
    mapME (fun (kg : List RVal × List Row) => do pure (kg.1 ++ (← evalAggEs o cat outer sch kg.2 aggs))) groups
  | .window _ wexprs _ i => do
    let rows ← exec o cat outer i
    let sch := outSchema i
    mapME (fun (ri : Row × Nat) => do pure (ri.1 ++ (← evalWinEs o cat outer sch rows ri.2 ri.1 wexprs))) (withIdx 0 rows)
  | .sort keys _ i => do
    let rows ← exec o cat outer i
    let _ ← mapME (fun r => evalEs o cat ((outSchema i, r) :: outer) keys) rows
    pure rows                                   -- row order plays no role in column resolution
  | .limit skip fetch i => do
    let rows ← exec o cat outer i
    let rest := rows.drop skip
    pure (match fetch with | some n => rest.take n | none => rest)
  | .distinct i => do
    let rows ← exec o cat outer i
    pure (dedupRows rows)
  | .union all _ inputs => do
    let rows ← execAll o cat outer inputs
    pure (if all then rows else dedupRows rows)
  | .alias _ _ _ i => exec o cat outer i
  | .empty oneRow s => .ok (if oneRow then [nulls s.length] else [])
  | .values rows width _ => do
    let vs ← evalEs o cat outer rows
    pure (chunk width vs.length vs)
  | .delimJoin jt delim onL onR _ l r => do
    let ls ← exec o cat outer l
    let rs ← exec o cat outer r
    let sl := outSchema l
    let sr := outSchema r
    let pairs ← mapME (fun lr => do
      let _ ← evalEs o cat ((sl, lr) :: outer) delim
      let kl ← evalEs o cat ((sl, lr) :: outer) onL
      let ms ← filterME (fun rr => do
        let kr ← evalEs o cat ((sr, rr) :: outer) onR
        pure (onL.isEmpty || keysMatch kl kr)) rs
      pure (lr, ms)) ls
    let matched := pairs.flatMap (·.2)
    pure (emitJoin jt sl.length sr.length pairs (rs.filter (fun rr => !matched.contains rr)))
  | .delimGet _ _ _ => .ok []                    -- fed by the parent DelimJoin at run time; produces no rows in this model
  | .vsearch info _ sortKey _ _ _ i => do
    let rows ← exec o cat outer i
    let _ ← mapME (fun r => evalE o cat ((outSchema i, r) :: outer) sortKey) rows
    pure ((rows.drop info.skip).take info.k)
def execAll (o : Ops) (cat : String → Option (List Row)) (outer : List Scope) : List Plan → Except RErr (List Row)
  | [] => .ok []
  | p :: ps => do
    let a ← exec o cat outer p
    let b ← execAll o cat outer ps
    pure (a ++ b)
end

end IQE.Engine.PlanWf
