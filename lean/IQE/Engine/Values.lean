/-
  IQE.Engine.Values — the physical planner's lowering of a VALUES node
  (src/physical/planner.rs, arm `LogicalPlan::Values`).

  Intended algorithm: evaluate every row's constant expressions and emit them as one batch.
  The code on the unchanged tree builds `MemoryTableExec::new("values", schema, vec![], None)` — no batch at all —
  so the node yields no rows: deviation switch `valuesEmpty`.

  `devPlan` pushes the switch through a whole plan, so the driver can compute what the engine answers for a statement
  that contains VALUES lists anywhere.  `values [[]]` is the harness's encoding of a FROM-less SELECT (the binder
  produces `EmptyRelation{produce_one_row}`, lowered correctly by a different arm) and is left alone.
-/
import IQE.Spec.Query
namespace IQE.Engine.Values
open IQE IQE.Spec

structure Dev where
  valuesEmpty : Bool := false
deriving DecidableEq, Repr, Inhabited

/-- rows produced by the lowered VALUES node -/
def lower (dev : Dev) (cx : EvalCtx) (env : Env) (rows : List (List Expr)) : Except Err Table :=
  if dev.valuesEmpty then .ok [] else rows.mapM (evalList cx env)

mutual
/-- the plan as the engine executes it under `dev` -/
def devPlan (dev : Dev) : Query → Query
  | .values [[]] => .values [[]]
  | .values rows => if dev.valuesEmpty then .values [] else .values rows
  | .scan t => .scan t
  | .cteRef i => .cteRef i
  | .filter subs p q => .filter (devPlans dev subs) p (devPlan dev q)
  | .project subs es q => .project (devPlans dev subs) es (devPlan dev q)
  | .join jt lw rw subs on l r => .join jt lw rw (devPlans dev subs) on (devPlan dev l) (devPlan dev r)
  | .agg keys aggs q => .agg keys aggs (devPlan dev q)
  | .groupingSets keys sets aggs q => .groupingSets keys sets aggs (devPlan dev q)
  | .distinct q => .distinct (devPlan dev q)
  | .sort keys q => .sort keys (devPlan dev q)
  | .limit s f q => .limit s f (devPlan dev q)
  | .setop op all l r => .setop op all (devPlan dev l) (devPlan dev r)
  | .window calls q => .window calls (devPlan dev q)
  | .withCte defs body => .withCte (devPlans dev defs) (devPlan dev body)

def devPlans (dev : Dev) : List Query → List Query
  | [] => []
  | q :: qs => devPlan dev q :: devPlans dev qs
end

mutual
/-- does the plan contain a (non-degenerate) VALUES list? -/
def hasValues : Query → Bool
  | .values [[]] => false
  | .values _ => true
  | .scan _ | .cteRef _ => false
  | .filter subs _ q | .project subs _ q => hasValuesL subs || hasValues q
  | .join _ _ _ subs _ l r => hasValuesL subs || hasValues l || hasValues r
  | .agg _ _ q | .groupingSets _ _ _ q | .distinct q | .sort _ q | .limit _ _ q | .window _ q => hasValues q
  | .setop _ _ l r => hasValues l || hasValues r
  | .withCte defs body => hasValuesL defs || hasValues body

def hasValuesL : List Query → Bool
  | [] => false
  | q :: qs => hasValues q || hasValuesL qs
end

end IQE.Engine.Values
