/-
  IQE.Engine.Partition — executable models of the partition / batch plumbing of the physical operators
  (src/physical/plan.rs `check_partition`; src/physical/operators/{scan,filter,project,limit,union,hash_join,
  hash_agg,spillable}.rs `output_partitions` / `execute(partition)`).

  A *layout* of a relation is `partitions × batches × rows` (`List (List (List α))`).  Rows are an arbitrary type `α`
  (the theorems are parametric; the driver instantiates `α := Row`).  Every operator model mirrors the Rust:
    * what it declares (`output_partitions`),
    * that `execute(p)` starts with `check_partition` (out-of-range ⇒ `none`, the `Internal` error),
    * which partitions of which child it requests, and what it does to the batches.
-/
namespace IQE.Engine.Partition

/-! ### MemoryTableExec (scan.rs) -/

/-- `MemoryTableExec::output_partitions`: `threads = rayon::current_num_threads()`, `batchRows` = rows per batch -/
def scanOutputPartitions (threads : Nat) (batchRows : List Nat) : Nat :=
  if batchRows.sum < 1000 then 1 else min threads batchRows.length

/-- the batches `MemoryTableExec::execute(p)` yields once `check_partition` passed:
    `.enumerate().filter(|(i, _)| i % num_partitions == partition)` with `num_partitions = output_partitions().max(1)` -/
def scanExecute {α : Type} (n p : Nat) (batches : List α) : List α :=
  (batches.zipIdx.filter (fun bi => bi.2 % n == p)).map (·.1)

/-- `check_partition`: accepted iff `partition < declared` -/
def checkPartition (declared p : Nat) : Bool := decide (p < declared)

/-! ### LimitExec (limit.rs): the `stream::unfold` loop over `LimitState` -/

structure LimitSt where
  skip : Nat
  fetch : Option Nat
  skipped : Nat := 0
  fetched : Nat := 0
  deriving DecidableEq, Repr

/-- `LimitState::satisfied` -/
def LimitSt.satisfied (s : LimitSt) : Bool :=
  match s.fetch with
  | some limit => decide (s.fetched ≥ limit)
  | none => false

/-- second half of `LimitState::take_from`: apply LIMIT to the (already offset) batch -/
def takeRest {α : Type} (s : LimitSt) (b : List α) : LimitSt × Option (List α) :=
  let available := b.length
  let emit := match s.fetch with
    | some limit => min (limit - s.fetched) available      -- saturating_sub
    | none => available
  if emit = 0 then (s, none)
  else ({ s with fetched := s.fetched + emit }, some (if emit < available then b.take emit else b))

/-- `LimitState::take_from`: OFFSET then LIMIT on one batch -/
def takeFrom {α : Type} (s : LimitSt) (batch : List α) : LimitSt × Option (List α) :=
  let numRows := batch.length
  if s.skipped < s.skip then
    let toSkip := min (s.skip - s.skipped) numRows
    let s1 := { s with skipped := s.skipped + toSkip }
    if toSkip = numRows then (s1, none)
    else takeRest s1 (batch.drop toSkip)                   -- batch.slice(to_skip, num_rows - to_skip)
  else takeRest s batch

/-- poll the currently opened partition stream until it ends or the limit is satisfied -/
def drainPartition {α : Type} (s : LimitSt) : List (List α) → LimitSt × List (List α)
  | [] => (s, [])
  | b :: bs =>
    if s.satisfied then (s, [])
    else
      let r := takeFrom s b
      let r' := drainPartition r.1 bs
      (r'.1, r.2.toList ++ r'.2)

/-- the unfold loop: partitions are opened lazily in index order; returns the emitted batches and the indices of the
    input partitions that were opened (`next_partition` trace) -/
def limitLoop {α : Type} (s : LimitSt) (idx : Nat) : List (List (List α)) → List (List α) × List Nat
  | [] => ([], [])
  | part :: rest =>
    if s.satisfied then ([], [])
    else
      let r := drainPartition s part
      let r' := limitLoop r.1 (idx + 1) rest
      (r.2 ++ r'.1, idx :: r'.2)

/-- `LimitExec::execute(0)` over the input's partitions -/
def limitExecute {α : Type} (skip : Nat) (fetch : Option Nat) (parts : List (List (List α))) : List (List α) × List Nat :=
  limitLoop { skip := skip, fetch := fetch } 0 parts

def takeOpt {α : Type} (fetch : Option Nat) (l : List α) : List α :=
  match fetch with | some n => l.take n | none => l

/-! ### UnionExec (union.rs) -/

/-- `UnionExec::all_input_partitions`: every `(input, local partition)` pair in input order -/
def unionPairs (counts : List Nat) : List (Nat × Nat) :=
  counts.zipIdx.flatMap (fun ci => (List.range ci.1).map (fun p => (ci.2, p)))

/-- `UnionExec::execute(0)`: chain the streams of all pairs; `inputs[i][p]` = batches of partition `p` of input `i` -/
def unionExecute {α : Type} (inputs : List (List (List (List α)))) : List (List α) :=
  (unionPairs (inputs.map List.length)).flatMap (fun ip => (inputs.getD ip.1 []).getD ip.2 [])

/-! ### a small algebra of physical plans and the partition contract -/

inductive Plan (α : Type) where
  /-- MemoryTableExec over `batches`, planned with `threads` rayon threads -/
  | scan (threads : Nat) (batches : List (List α))
  /-- FilterExec / ProjectExec / any per-row operator: same partitions as the input, applied batch by batch -/
  | rowLocal (g : α → List α) (input : Plan α)
  /-- LimitExec: declares 1, walks the input's partitions -/
  | limit (skip : Nat) (fetch : Option Nat) (input : Plan α)
  /-- UnionExec (binary): declares 1, drains every partition of both inputs -/
  | union (l r : Plan α)
  /-- HashJoinExec (Inner): build side = ALL partitions of `build`, one output partition per probe partition -/
  | join (m : α → α → Bool) (comb : α → α → α) (build probe : Plan α)
  /-- pipeline breaker (HashAggregateExec / SortExec via `collect_input_partitions_concurrently`):
      declares 1, collects `0..input.output_partitions()` and applies `f` to all rows -/
  | collectAll (f : List α → List α) (input : Plan α)

def Plan.outputPartitions {α : Type} : Plan α → Nat
  | .scan threads batches => scanOutputPartitions threads (batches.map List.length)
  | .rowLocal _ i => i.outputPartitions
  | .limit _ _ _ => 1
  | .union _ _ => 1
  | .join _ _ _ probe => max probe.outputPartitions 1
  | .collectAll _ _ => 1

/-- drive `exec` over `0..n` (what every parent does with a child); `none` as soon as one call is rejected -/
def collect {β : Type} (exec : Nat → Option β) (n : Nat) : Option (List β) := (List.range n).mapM exec

/-- `execute(partition)`: `none` = the `Internal` error of `check_partition` (own or a child's) -/
def Plan.execute {α : Type} : Plan α → Nat → Option (List (List α))
  | .scan threads batches, p =>
    let n := scanOutputPartitions threads (batches.map List.length)
    if checkPartition n p then some (scanExecute (max n 1) p batches) else none
  | .rowLocal g i, p =>
    if checkPartition i.outputPartitions p then (i.execute p).map (fun bs => bs.map (fun b => b.flatMap g)) else none
  | .limit skip fetch i, p =>
    if checkPartition 1 p then
      (collect i.execute (max i.outputPartitions 1)).map (fun parts => (limitExecute skip fetch parts).1)
    else none
  | .union l r, p =>
    if checkPartition 1 p then
      match collect l.execute l.outputPartitions, collect r.execute r.outputPartitions with
      | some a, some b => some (unionExecute [a, b])
      | _, _ => none
    else none
  | .join m comb build probe, p =>
    if checkPartition (max probe.outputPartitions 1) p then
      match collect build.execute (max build.outputPartitions 1), probe.execute p with
      | some bparts, some pb =>
        let buildRows := bparts.flatten.flatten
        some (pb.map (fun b => b.flatMap (fun r => (buildRows.filter (fun l => m l r)).map (fun l => comb l r))))
      | _, _ => none
    else none
  | .collectAll f i, p =>
    if checkPartition 1 p then
      (collect i.execute (max i.outputPartitions 1)).map (fun parts => [f parts.flatten.flatten])
    else none

/-- what `ExecutionContext::sql` does: execute every declared partition, concatenate -/
def Plan.executeAll {α : Type} (pl : Plan α) : Option (List α) :=
  (collect pl.execute (max pl.outputPartitions 1)).map (fun parts => parts.flatten.flatten)

/-- every scan was planned with at least one rayon thread -/
def Plan.WF {α : Type} : Plan α → Prop
  | .scan threads _ => 1 ≤ threads
  | .rowLocal _ i => i.WF
  | .limit _ _ i => i.WF
  | .union l r => l.WF ∧ r.WF
  | .join _ _ b p => b.WF ∧ p.WF
  | .collectAll _ i => i.WF

/-- The set of correct answers of a plan, independent of any layout: a bag semantics where LIMIT and a
    pipeline breaker may see the input rows in any order. -/
def Plan.Sem {α : Type} : Plan α → List α → Prop
  | .scan _ batches, out => out.Perm batches.flatten
  | .rowLocal g i, out => ∃ r, i.Sem r ∧ out.Perm (r.flatMap g)
  | .limit skip fetch i, out => ∃ r, i.Sem r ∧ out.Perm (takeOpt fetch (r.drop skip))
  | .union l r, out => ∃ a b, l.Sem a ∧ r.Sem b ∧ out.Perm (a ++ b)
  | .join m comb build probe, out => ∃ rb rp, build.Sem rb ∧ probe.Sem rp ∧
      out.Perm (rp.flatMap (fun r => (rb.filter (fun l => m l r)).map (fun l => comb l r)))
  | .collectAll f i, out => ∃ r, i.Sem r ∧ out.Perm (f r)

/-! ### partial aggregation: per-partition states merged in any order (hash_agg.rs `merge_accumulator_states`) -/

/-- an accumulator: `inj` lifts one row, `merge` combines two states, `e` is the empty state -/
structure Acc (α σ : Type) where
  e : σ
  inj : α → σ
  merge : σ → σ → σ

def Acc.fold {α σ : Type} (A : Acc α σ) (rows : List α) : σ := rows.foldl (fun s r => A.merge s (A.inj r)) A.e

/-- aggregate every batch on its own, merge the batch states per partition, merge the partition states -/
def Acc.foldLayout {α σ : Type} (A : Acc α σ) (layout : List (List (List α))) : σ :=
  (layout.map (fun part => (part.map A.fold).foldl A.merge A.e)).foldl A.merge A.e

/-- COUNT(*), COUNT(x), SUM(x), MIN(x), MAX(x) over a nullable integer column -/
structure IntAggState where
  countStar : Nat
  count : Nat
  sum : Int
  min : Option Int
  max : Option Int
  deriving DecidableEq, Repr

def optMin : Option Int → Option Int → Option Int
  | none, b => b
  | a, none => a
  | some a, some b => some (if a ≤ b then a else b)
def optMax : Option Int → Option Int → Option Int
  | none, b => b
  | a, none => a
  | some a, some b => some (if a ≤ b then b else a)

def intAgg : Acc (Option Int) IntAggState where
  e := ⟨0, 0, 0, none, none⟩
  inj := fun v => match v with
    | none => ⟨1, 0, 0, none, none⟩
    | some x => ⟨1, 1, x, some x, some x⟩
  merge := fun a b => ⟨a.countStar + b.countStar, a.count + b.count, a.sum + b.sum, optMin a.min b.min, optMax a.max b.max⟩

end IQE.Engine.Partition
