/-
  IQE.Engine.OptDriver — model of the optimizer's fix-point driver,
  `Optimizer::optimize_with_rules` in /repo/src/optimizer/mod.rs:

      let (loop_rules, final_rules) = rules.partition(|r| r.name() != "PackedJoinKeys");
      let mut current = plan;
      for iter in 0..max_iterations {
          let mut changed = false;
          for rule in &loop_rules {
              let new_plan = rule.optimize(&current).map_err(|e| Internal("optimizer rule `name` failed: e"))?;
              if format!("{:?}", new_plan) != format!("{:?}", current) { changed = true; current = new_plan; }
          }
          if !changed { break; }
      }
      for rule in &final_rules { current = rule.optimize(&current).map_err(..)?; }
      Ok(current)

  Plans are an abstract type `P`; "changed" is decided by a parameter `same` (the Rust compares Debug strings).
  Every rule application is counted (`apps`), so that termination is a theorem about a number:
  `apps ≤ max_iterations × |loop rules| + |final rules|` whatever the rules do (C29_optimizer_terminates).
  `optimizeFuel` is the same driver paying one unit of fuel per rule application; with fuel = that bound it never runs dry.
-/
namespace IQE.Engine.OptDriver

structure Rule (P E : Type) where
  name : String
  apply : P → Except E P

/-- result of a run: the plan or (failing rule's name, its error), and the number of rule applications performed -/
structure Run (P E : Type) where
  out : Except (String × E) P
  apps : Nat

variable {P E : Type}

/-- one sweep over the loop rules (the inner `for`); `ch` is the `changed` flag so far -/
def pass (same : P → P → Bool) : List (Rule P E) → P → Bool → Except (String × E) (P × Bool) × Nat
  | [], p, ch => (.ok (p, ch), 0)
  | r :: rs, p, ch =>
    match r.apply p with
    | .error e => (.error (r.name, e), 1)
    | .ok p' =>
      let res := if same p' p then pass same rs p ch else pass same rs p' true
      (res.1, res.2 + 1)

/-- the outer `for iter in 0..max_iterations` with its `if !changed { break }` -/
def iterate (same : P → P → Bool) (rules : List (Rule P E)) : Nat → P → Except (String × E) P × Nat
  | 0, p => (.ok p, 0)
  | n + 1, p =>
    match pass same rules p false with
    | (.error e, k) => (.error e, k)
    | (.ok (p', ch), k) =>
      if ch then
        let res := iterate same rules n p'
        (res.1, k + res.2)
      else (.ok p', k)

/-- the rules that run exactly once after the loop; their result always replaces the plan -/
def finals : List (Rule P E) → P → Except (String × E) P × Nat
  | [], p => (.ok p, 0)
  | r :: rs, p =>
    match r.apply p with
    | .error e => (.error (r.name, e), 1)
    | .ok p' =>
      let res := finals rs p'
      (res.1, res.2 + 1)

def loopRules (rules : List (Rule P E)) : List (Rule P E) := rules.filter (fun r => r.name != "PackedJoinKeys")
def finalRules (rules : List (Rule P E)) : List (Rule P E) := rules.filter (fun r => !(r.name != "PackedJoinKeys"))

def bound (maxIter : Nat) (rules : List (Rule P E)) : Nat := maxIter * (loopRules rules).length + (finalRules rules).length

def optimize (same : P → P → Bool) (maxIter : Nat) (rules : List (Rule P E)) (p : P) : Run P E :=
  match iterate same (loopRules rules) maxIter p with
  | (.error e, k) => ⟨.error e, k⟩
  | (.ok p', k) =>
    let res := finals (finalRules rules) p'
    ⟨res.1, k + res.2⟩

/-! ### the same driver with fuel: one unit per rule application, `none` = ran dry -/

def passF (same : P → P → Bool) : List (Rule P E) → P → Bool → Nat → Option (Except (String × E) (P × Bool) × Nat)
  | [], p, ch, f => some (.ok (p, ch), f)
  | _ :: _, _, _, 0 => none
  | r :: rs, p, ch, f + 1 =>
    match r.apply p with
    | .error e => some (.error (r.name, e), f)
    | .ok p' => if same p' p then passF same rs p ch f else passF same rs p' true f

def iterateF (same : P → P → Bool) (rules : List (Rule P E)) : Nat → P → Nat → Option (Except (String × E) P × Nat)
  | 0, p, f => some (.ok p, f)
  | n + 1, p, f =>
    match passF same rules p false f with
    | none => none
    | some (.error e, f') => some (.error e, f')
    | some (.ok (p', ch), f') => if ch then iterateF same rules n p' f' else some (.ok p', f')

def finalsF : List (Rule P E) → P → Nat → Option (Except (String × E) P × Nat)
  | [], p, f => some (.ok p, f)
  | _ :: _, _, 0 => none
  | r :: rs, p, f + 1 =>
    match r.apply p with
    | .error e => some (.error (r.name, e), f)
    | .ok p' => finalsF rs p' f

/-- `some (result, fuel left)`, or `none` when the fuel does not suffice -/
def optimizeFuel (same : P → P → Bool) (maxIter : Nat) (rules : List (Rule P E)) (p : P) (fuel : Nat) :
    Option (Except (String × E) P × Nat) :=
  match iterateF same (loopRules rules) maxIter p fuel with
  | none => none
  | some (.error e, f) => some (.error e, f)
  | some (.ok p', f) => finalsF (finalRules rules) p' f

end IQE.Engine.OptDriver
