/-
  IQE.Engine.VectorSearch — executable models for C43 (exact vector search is the literal ORDER BY … LIMIT):

  * the exact order of the four SQL distance functions on integer-valued vectors (`score`, `keyLe`, `rowLe`): every function's
    value is a strictly increasing function of an exact rational `Score` (no rounding in the model; the float evaluation is C38's
    subject and is tied by correspondence);
  * `canonicalKnn` — the shape matcher of `VectorSearchPushdown::try_match` (src/optimizer/rules/vector_search.rs) over the exported
    plan model `PlanWf.Plan`, gate by gate in source order, and `rewrite`, the rule's traversal;
  * `meaning` — the literal meaning of the plan fragment the rule may touch (Scan with pushed filter, column-only Project,
    Sort by one distance key, Limit/Offset), and `knnAnswer`, the k nearest rows a `KnnSpec` asks for;
  * `execute` — `VectorSearchExec::{try_index, shape_output, execute}` (src/physical/operators/vector_search.rs) with the
    deviation switch `partition0Only` (the defect repaired by /repo commit b96001d).
-/
import IQE.Engine.PlanWf
import IQE.Engine.VecDist
namespace IQE.Engine.VectorSearch
open IQE.Engine.PlanWf

/-! ### exact order of the distance functions -/

/-- the four SQL functions (`ScalarFunction::{L2Distance, CosineDistance, CosineSimilarity, DotProduct}`) -/
inductive DistFn | l2 | cosDist | cosSim | dot
deriving DecidableEq, Repr, Inhabited

/-- `VectorMetric` -/
inductive Metric | l2 | cosine | dot
deriving DecidableEq, Repr, Inhabited

/-- `metric_of`: the metric a function implies and the sort direction that means "nearest first" (true = DESC) -/
def DistFn.metric : DistFn → Metric
  | .l2 => .l2 | .cosDist => .cosine | .cosSim => .cosine | .dot => .dot
def DistFn.nearestDesc : DistFn → Bool
  | .l2 => false | .cosDist => false | .cosSim => true | .dot => true

/-- `Debug` name of the `ScalarFunction` variant, as the plan exporter renders it -/
def DistFn.ofName (s : String) : Option DistFn :=
  if s == "L2Distance" then some .l2
  else if s == "CosineDistance" then some .cosDist
  else if s == "CosineSimilarity" then some .cosSim
  else if s == "DotProduct" then some .dot
  else none

def Metric.name : Metric → String
  | .l2 => "l2" | .cosine => "cosine" | .dot => "dot"

/-- an exact rational `num / den` (`den > 0` for every score built by `score`) -/
structure Score where
  num : Int
  den : Nat
deriving DecidableEq, Repr, Inhabited

def scoreLe (a b : Score) : Bool := decide (a.num * (b.den : Int) ≤ b.num * (a.den : Int))

/-- `x ↦ sgn(x)·x²` (strictly increasing) -/
def sgnSq (d : Int) : Int := if d < 0 then -(d * d) else d * d

/-- The SQL value of `f(a, q)` is a strictly increasing function of `score f q a`:
      l2_distance = sqrt(num);  dot_product = num;
      cosine_similarity = sgn·sqrt(|num/den|) with num/den = sgn(a·q)(a·q)²/(|a|²|q|²), and 0 when a norm is 0 (as the kernel does);
      cosine_distance = 1 − similarity, so its score is the negated one. -/
def score (f : DistFn) (q a : List Int) : Score :=
  match f with
  | .l2 => ⟨VecDist.l2Spec a q, 1⟩
  | .dot => ⟨VecDist.dotSpec a q, 1⟩
  | .cosSim =>
    let n := VecDist.dotSpec a a * VecDist.dotSpec q q
    if n ≤ 0 then ⟨0, 1⟩ else ⟨sgnSq (VecDist.dotSpec a q), n.toNat⟩
  | .cosDist =>
    let n := VecDist.dotSpec a a * VecDist.dotSpec q q
    if n ≤ 0 then ⟨0, 1⟩ else ⟨-(sgnSq (VecDist.dotSpec a q)), n.toNat⟩

/-- ORDER BY comparison of two keys under (DESC?, NULLS FIRST?): `none` is the NULL distance of a NULL vector -/
def keyLe (desc nf : Bool) : Option Score → Option Score → Bool
  | none, none => true
  | none, some _ => nf
  | some _, none => !nf
  | some a, some b => if desc then scoreLe b a else scoreLe a b

/-- cells of a vector table: integer-valued vector components -/
inductive Cell | null | int (i : Int) | vec (xs : List Int) | other (s : String)
deriving DecidableEq, Repr, Inhabited

abbrev VRow := List Cell

/-- the distance key of a row: NULL for a NULL vector -/
def rowKey (f : DistFn) (q : List Int) (col : Nat) (r : VRow) : Option Score :=
  match r.getD col .null with
  | .vec xs => some (score f q xs)
  | _ => none

/-- the ORDER BY comparator on rows -/
def rowLe (f : DistFn) (desc nf : Bool) (q : List Int) (col : Nat) (a b : VRow) : Bool :=
  keyLe desc nf (rowKey f q col a) (rowKey f q col b)

/-- "nearest first, NULL vectors last": the order of the canonical k-NN query -/
def nearLe (f : DistFn) (q : List Int) (col : Nat) : VRow → VRow → Bool := rowLe f f.nearestDesc false q col

/-- `ORDER BY key LIMIT k OFFSET skip` over rows -/
def window {α : Type} (le : α → α → Bool) (skip : Nat) (fetch : Option Nat) (rows : List α) : List α :=
  let s := (rows.mergeSort le).drop skip
  match fetch with
  | some k => s.take k
  | none => s

/-! ### the shape matcher of VectorSearchPushdown -/

def stripAlias : PExpr → PExpr
  | .alias e _ => stripAlias e
  | e => e

/-- `str::eq_ignore_ascii_case` -/
def eqIgnoreAsciiCase (a b : String) : Bool := a.toList.map Char.toLower == b.toList.map Char.toLower

/-- `constant_vector`: a (possibly aliased) list literal of numbers, non-empty -/
def constantVector (e : PExpr) : Option (List Nat) :=
  match stripAlias e with
  | .lit _ (.vec bits) => if bits.isEmpty then none else some bits
  | _ => none

def digitsToNat : List Char → Option Nat
  | [] => none
  | cs => cs.foldl (fun acc c => match acc with
      | some n => if c.isDigit then some (n * 10 + (c.toNat - '0'.toNat)) else none
      | none => none) (some 0)

/-- `as_float_vector` on the exported type name: `fsl<f32,n>` / `fsl<f64,n>` / `fsl<Float16,n>` -/
def vecDim (ty : String) : Option Nat :=
  let cs := ty.toList
  if "fsl<".toList.isPrefixOf cs && cs.getLast? == some '>' then
    let inner := (cs.drop 4).dropLast
    let el := inner.takeWhile (· != ',')
    let n := (inner.dropWhile (· != ',')).drop 1
    if el == "f32".toList || el == "f64".toList || el == "Float16".toList then digitsToNat n else none
  else none

/-- `PlanSchema::resolve_column(Column::new(name))`: the unqualified name must name exactly one field -/
def uniqueByName (s : Schema) (name : String) : Option Field :=
  match s.filter (fun f => f.name == name) with
  | [f] => some f
  | _ => none

/-- all elements present -/
def allSome {α : Type} : List (Option α) → Option (List α)
  | [] => some []
  | none :: _ => none
  | some x :: xs => (allSome xs).map (x :: ·)

/-- a bare (possibly aliased) column reference: its column name -/
def colName (e : PExpr) : Option String :=
  match stripAlias e with
  | .col _ c => some c
  | _ => none

/-- "Every expression must be a bare (possibly aliased) column" -/
def colsOf (exprs : List PExpr) : Option (List String) := allSome (exprs.map colName)

/-- one `Project` level: (output name, source column name) per expression; `p.schema.fields().get(i)?` fails on a shorter schema -/
def projectLevel (exprs : List PExpr) (s : Schema) : Option (List (String × String)) :=
  match colsOf exprs with
  | none => none
  | some cs => if cs.length ≤ s.length then some ((s.map (·.name)).zip cs) else none

/-- "Compose: current alias -> this level's source" -/
def compose (a2s level : List (String × String)) : Option (List (String × String)) :=
  allSome (a2s.map (fun e => (level.find? (fun l => eqIgnoreAsciiCase l.1 e.2)).map (fun n => (e.1, n.2))))

structure ScanHit where
  table : String
  column : String
  filter : List PExpr
  a2s : List (String × String)
  scanSchema : Schema
deriving Inhabited

/-- the `loop { match cursor { Project … | Scan … | _ => return None } }` of `try_match` -/
def walk (vecCol : String) (qlen : Nat) (a2s : List (String × String)) : Plan → Option ScanHit
  | .project exprs s i =>
    match projectLevel exprs s with
    | none => none
    | some level =>
      match compose a2s level with
      | none => none
      | some a2s' => walk vecCol qlen a2s' i
  | .scan table schema _ filter =>
    let scanCol := ((a2s.find? (fun e => eqIgnoreAsciiCase e.1 vecCol)).map (·.2)).getD vecCol
    match uniqueByName schema scanCol with
    | none => none
    | some f =>
      match vecDim f.ty with
      | none => none
      | some d => if d == qlen then some { table := table, column := scanCol, filter := filter, a2s := a2s, scanSchema := schema } else none
  | _ => none

/-- what the rule extracts from a matching plan (the fields of `VectorSearchNode`) -/
structure KnnSpec where
  table : String
  column : String
  query : List Nat                      -- f64 bit patterns of the literal's elements
  k : Nat
  skip : Nat
  fn : DistFn
  desc : Bool
  filter : List PExpr                   -- the scan's pushed filter: the prefilter
  outputs : List (String × Field)       -- (scan column, output field)
  sortKey : PExpr
  input : Plan
  scanSchema : Schema                   -- the schema the scan column was resolved in
deriving Inhabited

/-- the (column, literal) arguments of the distance call, either order -/
def splitArgs (a0 a1 : PExpr) : Option (PExpr × List Nat) :=
  match constantVector a1, constantVector a0 with
  | some q, _ => some (a0, q)
  | none, some q => some (a1, q)
  | none, none => none

/-- `try_match`, gate by gate in source order -/
def canonicalKnn : Plan → Option KnnSpec
  | .limit skip (some fetch) (.sort [key] [(desc, nf)] input) =>
    if fetch == 0 then none
    else if nf then none
    else
      match stripAlias key with
      | .op "fn" tag [a0, a1] =>
        match DistFn.ofName tag with
        | none => none
        | some f =>
          if desc != f.nearestDesc then none
          else
            match splitArgs a0 a1 with
            | none => none
            | some (colExpr, q) =>
              match stripAlias colExpr with
              | .col _ vecCol =>
                let outSchema := schemaOf input
                match walk vecCol q.length (outSchema.map (fun f => (f.name, f.name))) input with
                | none => none
                | some hit =>
                  some { table := hit.table, column := hit.column, query := q, k := fetch, skip := skip, fn := f, desc := desc,
                         filter := hit.filter, outputs := (hit.a2s.map (·.2)).zip outSchema, sortKey := key, input := input,
                         scanSchema := hit.scanSchema }
              | _ => none
      | _ => none
  | _ => none

/-- does the rewritten node carry what the spec says? (what the exporter shows of a `VectorSearchNode`) -/
def KnnSpec.describes (s : KnnSpec) (info : VsInfo) (filter : List PExpr) (desc nf : Bool) : Bool :=
  info.table == s.table && info.column == s.column && info.query == s.query && info.k == s.k && info.skip == s.skip
    && info.metric == s.fn.metric.name && info.outputs.map (·.1) == s.outputs.map (·.1)
    && info.outputs.map (fun o => o.2.name) == s.outputs.map (fun o => o.2.name)
    && filter.length == s.filter.length && desc == s.desc && nf == false

/-! ### the literal meaning of the fragment, and the k nearest rows of a spec -/

structure VTable where
  name : String
  schema : Schema
  rows : List VRow
deriving Inhabited

/-- first field with exactly this name -/
def colIndex (s : Schema) (name : String) : Option Nat := findIdx (fun f => f.name == name) s

def pick (idx : List Nat) (r : VRow) : VRow := idx.map (fun i => r.getD i .null)

/-- one distance sort key over a schema: (function, column position, query as integers) -/
structure DistKey where
  fn : DistFn
  col : Nat
  q : List Int
deriving Repr, Inhabited

/-- Meaning of the fragment. `pred` evaluates a pushed scan filter on a row of the table (its semantics is C02's subject),
    `litInts` reads the literal's elements as integers (the driver's decoding of the f64 bit patterns).  `none`: outside the fragment. -/
def meaning (pred : List PExpr → Schema → VRow → Bool) (litInts : List Nat → List Int) (cat : List VTable) : Plan → Option (Schema × List VRow)
  | .scan table schema proj filter =>
    match cat.find? (fun t => t.name == table) with
    | none => none
    | some t =>
      -- the scan emits its projected columns (all `schema.length` of them without a projection)
      let idx := proj.getD (List.range schema.length)
      some (projectSchema schema idx, (t.rows.filter (pred filter schema)).map (pick idx))
  | .project exprs s i =>
    match meaning pred litInts cat i with
    | none => none
    | some (si, rows) =>
      match colsOf exprs with
      | none => none
      | some cs =>
        match allSome (cs.map (colIndex si)) with
        | none => none
        | some idx => some (s, rows.map (pick idx))
  | .sort [key] [(desc, nf)] i =>
    match meaning pred litInts cat i with
    | none => none
    | some (si, rows) =>
      match stripAlias key with
      | .op "fn" tag [a0, a1] =>
        match DistFn.ofName tag, splitArgs a0 a1 with
        | some f, some (colExpr, q) =>
          match stripAlias colExpr with
          | .col _ c =>
            match colIndex si c with
            | some ci => some (si, rows.mergeSort (rowLe f desc nf (litInts q) ci))
            | none => none
          | _ => none
        | _, _ => none
      | _ => none
  | .limit skip fetch i =>
    match meaning pred litInts cat i with
    | none => none
    | some (si, rows) => some (si, match fetch with | some k => (rows.drop skip).take k | none => rows.drop skip)
  | _ => none

/-- The answer a `KnnSpec` asks for, stated on the TABLE: prefilter, order the rows nearest-first by the scan column, skip, take k,
    and output the listed scan columns. -/
def knnAnswer (pred : List PExpr → Schema → VRow → Bool) (litInts : List Nat → List Int) (cat : List VTable) (s : KnnSpec) : Option (List VRow) :=
  match cat.find? (fun t => t.name == s.table) with
  | none => none
  | some t =>
    match colIndex t.schema s.column, allSome (s.outputs.map (fun o => colIndex t.schema o.1)) with
    | some ci, some idx =>
      some ((((t.rows.filter (pred s.filter t.schema)).mergeSort (nearLe s.fn (litInts s.query) ci)).drop s.skip).take s.k |>.map (pick idx))
    | _, _ => none

/-- lower-cased characters of a name: `eqIgnoreAsciiCase a b ↔ lc a = lc b` -/
def lc (s : String) : List Char := s.toList.map Char.toLower

/-- names pairwise distinct ignoring ASCII case -/
def noCiDup (names : List String) : Bool := decide ((names.map lc).Nodup)

/-- the (decidable) side condition of the meaning theorem on the chain below the Sort: at every level the names are pairwise distinct
    ignoring case, a projection has as many expressions as fields, a scan's pushed projection is in range -/
def chainOk : Plan → Bool
  | .project exprs s i => noCiDup (s.map (·.name)) && exprs.length == s.length && chainOk i
  | .scan _ s proj _ => noCiDup (s.map (·.name)) && (match proj with | some idx => idx.all (fun i => decide (i < s.length)) | none => true)
  | _ => true

/-! ### VectorSearchExec -/

inductive Mode | exact | indexed
deriving DecidableEq, Repr, Inhabited

inductive ShapeErr | missingColumn | typeDrift
deriving DecidableEq, Repr, Inhabited

/-- one batch returned by the provider's index: its rows (already in output column order) or the reason `shape_output` rejects it -/
structure IdxBatch (α : Type) where
  rows : List α
  bad : Option ShapeErr := none

/-- the loop of `shape_output` with its two counters -/
def shapeGo {α : Type} (k skip : Nat) : Nat → Nat → List (IdxBatch α) → Except ShapeErr (List (List α))
  | _, _, [] => .ok []
  | skipped, taken, b :: bs =>
    if taken ≥ k then .ok []
    else
      match b.bad with
      | some e => .error e
      | none =>
        if skipped < skip then
          let d := min (skip - skipped) b.rows.length
          if d == b.rows.length then shapeGo k skip (skipped + d) taken bs
          else
            let rows := b.rows.drop d
            let rows := if taken + rows.length > k then rows.take (k - taken) else rows
            (shapeGo k skip (skipped + d) (taken + rows.length) bs).map (rows :: ·)
        else
          let rows := if taken + b.rows.length > k then b.rows.take (k - taken) else b.rows
          (shapeGo k skip skipped (taken + rows.length) bs).map (rows :: ·)

def shapeOutput {α : Type} (k skip : Nat) (bs : List (IdxBatch α)) : Except ShapeErr (List (List α)) := shapeGo k skip 0 0 bs

/-- deviation switches: with all off the model is the intended operator -/
structure Dev where
  /-- before /repo commit b96001d the exact path executed `fallback.execute(0)` only -/
  partition0Only : Bool := false
deriving Repr, Inhabited

/-- the provider as the operator sees it: `scan_knn(projection, VectorQuery{k := want, ..})`; `none` = `Ok(None)` (no index / declined) -/
abbrev ScanKnn (α : Type) := Nat → Option (List (IdxBatch α))

structure Exec (α : Type) where
  mode : Mode
  provider : Option (ScanKnn α)
  k : Nat
  skip : Nat
  /-- `usize::MAX` of the platform (`skip.checked_add(k)`) -/
  usizeMax : Nat
  /-- the fallback operator's declared partitions × batches × rows -/
  fallback : List (List (List α))

inductive Path | index | fallback
deriving DecidableEq, Repr, Inhabited

structure Outcome (α : Type) where
  path : Path
  /-- values of `VectorQuery::k` the provider was asked for (empty: never consulted) -/
  asked : List Nat
  result : Except ShapeErr (List (List α))
  /-- fallback partitions executed, in order -/
  opened : List Nat

/-- `try_index` then `execute` -/
def execute {α : Type} (dev : Dev) (e : Exec α) : Outcome α :=
  let fb : Outcome α :=
    if dev.partition0Only then { path := .fallback, asked := [], result := .ok (e.fallback.headD []), opened := [0] }
    else { path := .fallback, asked := [], result := .ok e.fallback.flatten, opened := List.range (max e.fallback.length 1) }
  match e.mode with
  | .exact => fb
  | .indexed =>
    match e.provider with
    | none => fb
    | some scanKnn =>
      if e.skip + e.k > e.usizeMax then fb
      else
        match scanKnn (e.skip + e.k) with
        | none => { fb with asked := [e.skip + e.k] }
        | some batches => { path := .index, asked := [e.skip + e.k], result := shapeOutput e.k e.skip batches, opened := [] }

end IQE.Engine.VectorSearch
