/-
  IQE.Engine.Sidecar — small-step protocol model of the IPC sidecar cache (src/storage/ipc_cache.rs:
  `ensure_sidecar`, `is_fresh`, `build_sidecar`, `read_row_group`) for a FIXED source file (the stamp a fresh
  sidecar must carry does not change; rewrites of the source are C19).

  Abstract file system: the final directory `<parquet>.qeipc` and one private staging directory per builder
  (`.<pid>.building`, builders of one process are serialised by BUILD_LOCK so the pid suffix is private while it is
  used). Atomic single steps: create a file, finish writing it, write `.complete`, `unlink` ONE entry, `rmdir` of an
  empty directory, `rename` of a directory (fails when the target exists and is not empty).
  `remove_dir_all(final)` is a SEQUENCE of unlinks (any order) followed by `rmdir`, and may give up at any point
  (its result is ignored by the code).

  Builders: `start` —is_fresh?→ (`done` | `wantLock`) —lock→ `locked` —is_fresh?→ (`done` | `building`) … `removing` …
  `renaming` —rename ok / failed→ `done`.   Readers: `start` —is_fresh?→ (`fallback` (parquet path) | `reading`) —open rg_k→ …
-/
namespace IQE.Engine.Sidecar

inductive Stamp where
  | fresh | stale
deriving Repr, DecidableEq

/-- a directory: row-group files (index, completely written?) and the `.complete` marker -/
structure Dir where
  rgs : List (Nat × Bool)
  complete : Option Stamp
deriving Repr, DecidableEq

def Dir.empty : Dir := { rgs := [], complete := none }
def Dir.has (d : Dir) (k : Nat) : Bool := d.rgs.any (fun p => p.1 == k)
def Dir.allComplete (d : Dir) : Bool := d.rgs.all (·.2)
/-- every row group 0..n-1 is present -/
def Dir.full (n : Nat) (d : Dir) : Bool := (List.range n).all d.has

def isFresh : Option Dir → Bool
  | some d => d.complete == some .fresh
  | none => false

inductive BPhase where
  | start
  | wantLock
  | locked
  | building (st : Dir)
  | removing (st : Dir)
  | renaming (st : Dir)
  | done
deriving Repr, DecidableEq

inductive RPhase where
  | start
  | reading (opened : List Nat)      -- saw a fresh `.complete`; row groups opened (and mapped) so far
  | failed                           -- an open failed: the reader observed a partial sidecar (I/O error)
  | sawPartial                       -- opened a file that was not completely written (wrong rows)
  | fallback                         -- not fresh: parquet path
deriving Repr, DecidableEq

structure State where
  final : Option Dir
  bph : Nat → BPhase                 -- builder i's phase
  rph : Nat → RPhase                 -- reader j's phase
  lock : Nat → Option Nat            -- BUILD_LOCK of process p: the builder holding it

def updB (f : Nat → BPhase) (i : Nat) (v : BPhase) : Nat → BPhase := fun j => if j = i then v else f j
def updR (f : Nat → RPhase) (i : Nat) (v : RPhase) : Nat → RPhase := fun j => if j = i then v else f j
def updL (f : Nat → Option Nat) (p : Nat) (v : Option Nat) : Nat → Option Nat := fun q => if q = p then v else f q

/-- One atomic step. `n` = number of row groups, `proc i` = the process builder `i` runs in. -/
inductive Step (n : Nat) (proc : Nat → Nat) : State → State → Prop where
  -- builders
  | check1Fresh (s i) : s.bph i = .start → isFresh s.final = true → Step n proc s { s with bph := updB s.bph i .done }
  | check1Stale (s i) : s.bph i = .start → isFresh s.final = false → Step n proc s { s with bph := updB s.bph i .wantLock }
  | acquire (s i) : s.bph i = .wantLock → s.lock (proc i) = none →
      Step n proc s { s with bph := updB s.bph i .locked, lock := updL s.lock (proc i) (some i) }
  | check2Fresh (s i) : s.bph i = .locked → isFresh s.final = true →
      Step n proc s { s with bph := updB s.bph i .done, lock := updL s.lock (proc i) none }
  | check2Stale (s i) : s.bph i = .locked → isFresh s.final = false → Step n proc s { s with bph := updB s.bph i (.building Dir.empty) }
  | createRg (s i st k) : s.bph i = .building st → k < n → st.has k = false →
      Step n proc s { s with bph := updB s.bph i (.building { st with rgs := (k, false) :: st.rgs }) }
  | finishRg (s i st k) : s.bph i = .building st →
      Step n proc s { s with bph := updB s.bph i (.building { st with rgs := st.rgs.map fun p => if p.1 = k then (p.1, true) else p }) }
  | writeComplete (s i st) : s.bph i = .building st → st.full n = true → st.allComplete = true →
      Step n proc s { s with bph := updB s.bph i (.removing { st with complete := some .fresh }) }
  -- remove_dir_all(final), one entry at a time
  | unlinkRg (s i st d k) : s.bph i = .removing st → s.final = some d →
      Step n proc s { s with final := some { d with rgs := d.rgs.filter fun p => p.1 != k } }
  | unlinkComplete (s i st d) : s.bph i = .removing st → s.final = some d → Step n proc s { s with final := some { d with complete := none } }
  | rmdir (s i st d) : s.bph i = .removing st → s.final = some d → d.rgs = [] → d.complete = none → Step n proc s { s with final := none }
  | removeEnds (s i st) : s.bph i = .removing st → Step n proc s { s with bph := updB s.bph i (.renaming st) }
  | renameOk (s i st) : s.bph i = .renaming st → (s.final = none ∨ s.final = some Dir.empty) →
      Step n proc s { s with final := some st, bph := updB s.bph i .done, lock := updL s.lock (proc i) none }
  | renameFails (s i st d) : s.bph i = .renaming st → s.final = some d → d ≠ Dir.empty →
      Step n proc s { s with bph := updB s.bph i .done, lock := updL s.lock (proc i) none }
  -- readers
  | readFresh (s j) : s.rph j = .start → isFresh s.final = true → Step n proc s { s with rph := updR s.rph j (.reading []) }
  | readStale (s j) : s.rph j = .start → isFresh s.final = false → Step n proc s { s with rph := updR s.rph j .fallback }
  | openOk (s j o d k) : s.rph j = .reading o → s.final = some d → (k, true) ∈ d.rgs → Step n proc s { s with rph := updR s.rph j (.reading (k :: o)) }
  | openPartial (s j o d k) : s.rph j = .reading o → s.final = some d → (k, false) ∈ d.rgs → Step n proc s { s with rph := updR s.rph j .sawPartial }
  | openMissing (s j o k) : s.rph j = .reading o → k < n → (∀ d, s.final = some d → d.has k = false) → Step n proc s { s with rph := updR s.rph j .failed }

/-- reachability -/
inductive Reach (n : Nat) (proc : Nat → Nat) (s0 : State) : State → Prop where
  | refl : Reach n proc s0 s0
  | step {s t} : Reach n proc s0 s → Step n proc s t → Reach n proc s0 t

/-- initial states: nobody has started, no lock is held; the final directory is absent, stale (in any shape), or a
    fresh complete one (built earlier); whatever is there was published by this protocol, so its files are whole -/
structure Init (n : Nat) (s : State) : Prop where
  builders : ∀ i, s.bph i = .start
  readers : ∀ j, s.rph j = .start
  locks : ∀ p, s.lock p = none
  final : ∀ d, s.final = some d → d.allComplete = true ∧ (d.complete = some .fresh → d.full n = true)

def critical : BPhase → Bool
  | .locked | .building _ | .removing _ | .renaming _ => true
  | _ => false

def mutating : BPhase → Bool
  | .building _ | .removing _ | .renaming _ => true
  | _ => false

/-! ### re-slicing (the two loops of ipc_cache.rs) -/

/-- `while off < n { let len = (n - off).min(to); push(slice(off, len)); off += len }` -/
def chunksFuel {α : Type} (to : Nat) : Nat → List α → List (List α)
  | 0, _ => []
  | fuel + 1, l => if l.isEmpty then [] else l.take to :: chunksFuel to fuel (l.drop to)

def chunks {α : Type} (to : Nat) (l : List α) : List (List α) := chunksFuel to l.length l

/-- `reslice_large(batches, min, to)` -/
def resliceLarge {α : Type} (bs : List (List α)) (min to : Nat) : List (List α) :=
  bs.flatMap fun b => if b.length ≥ Nat.max min (to + 1) then chunks to b else [b]


end IQE.Engine.Sidecar
