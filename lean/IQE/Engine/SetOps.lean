/-
  IQE.Engine.SetOps — how the engine evaluates UNION / INTERSECT / EXCEPT [ALL] (src/planner/binder.rs `bind_set_expr`):
    UNION ALL  = concatenation;            UNION      = Distinct over the concatenation;
    INTERSECT  = Distinct (SemiJoin on all columns);   INTERSECT ALL = that SemiJoin, as is;
    EXCEPT     = Distinct (AntiJoin on all columns);   EXCEPT ALL    = that AntiJoin, as is.
  Deviation switches (all off = SQL's multiset semantics, `Spec.run`):
    nullNeverMatches      join keys never match NULL, so a row with a NULL in ANY column is never "in" the right side (C24-F1)
    allIgnoresCount       the ALL forms keep the left multiplicity of every matching / non-matching row: no `min`, no monus (C24-F2)
    distinctNullOwnGroup  the Distinct operator (empty aggregate list) keeps every row that contains a NULL as its own group
                          (C21's defect, Appendix A.24) — visible through UNION and EXCEPT
-/
import IQE.Spec.Query
namespace IQE.Engine.SetOps
open IQE IQE.Spec

structure Dev where
  nullNeverMatches : Bool := false
  allIgnoresCount : Bool := false
  distinctNullOwnGroup : Bool := false
deriving DecidableEq, Repr, Inhabited

/-- the unchanged tree -/
def today : Dev := { nullNeverMatches := true, allIgnoresCount := true, distinctNullOwnGroup := true }

def nullFree (x : Row) : Bool := x.all (fun v => !v.isNull)

/-- can this left row match anything at all? -/
def matchable (dev : Dev) (x : Row) : Bool := !dev.nullNeverMatches || nullFree x

def semi (dev : Dev) (l r : Table) : Table := l.filter (fun x => matchable dev x && r.contains x)
def anti (dev : Dev) (l r : Table) : Table := l.filter (fun x => !(matchable dev x && r.contains x))

def distinct (dev : Dev) (t : Table) : Table :=
  if dev.distinctNullOwnGroup then t.filter (fun x => !nullFree x) ++ dedupRows (t.filter nullFree) else dedupRows t

def intersectAll (dev : Dev) (l r : Table) : Table :=
  if dev.allIgnoresCount then semi dev l r else Spec.intersectAll (l.filter (matchable dev)) r

def exceptAll (dev : Dev) (l r : Table) : Table :=
  if dev.allIgnoresCount then anti dev l r
  else Spec.exceptAll (l.filter (matchable dev)) r ++ l.filter (fun x => !matchable dev x)

/-- the engine's answer for one set operation on evaluated operands -/
def setop (dev : Dev) (op : SetOp) (all : Bool) (l r : Table) : Table :=
  match op, all with
  | .union, true => l ++ r
  | .union, false => distinct dev (l ++ r)
  | .intersect, true => intersectAll dev l r
  | .intersect, false => distinct dev (semi dev l r)
  | .except, true => exceptAll dev l r
  | .except, false => distinct dev (anti dev l r)

/-- the reference answer for one set operation on evaluated operands (what `Spec.run` computes inline) -/
def specSetop (op : SetOp) (all : Bool) (ls rs : Table) : Table :=
  match op, all with
  | .union, true => ls ++ rs
  | .union, false => dedupRows (ls ++ rs)
  | .intersect, true => Spec.intersectAll ls rs
  | .intersect, false => dedupRows (Spec.intersectAll ls rs)
  | .except, true => Spec.exceptAll ls rs
  | .except, false => (dedupRows ls).filter (fun x => !rs.contains x)

/-- Evaluate a plan whose set operations sit at the top (under ORDER BY / LIMIT / further set operations) the way the
    engine does under `dev`: operands by the reference semantics, set operations by `setop dev`.  Wrappers are
    re-applied by running the reference semantics on the wrapper over the materialised child (a VALUES list of its
    rows — sound by `C44_values`). -/
def lits (vs : Table) : List (List Expr) := vs.map (·.map Expr.lit)

def runTop (dev : Dev) (fo : FloatOps) (fns : String → List Val → Except Err Val) (cat : List Table) : Query → Except Err Table
  | .setop op all l r => do
    let ls ← runTop dev fo fns cat l
    let rs ← runTop dev fo fns cat r
    pure (setop dev op all ls rs)
  | .sort keys q => do
    let t ← runTop dev fo fns cat q
    Spec.run fo fns cat (.sort keys (.values (lits t))) [] []
  | .limit s f q => do
    let t ← runTop dev fo fns cat q
    Spec.run fo fns cat (.limit s f (.values (lits t))) [] []
  | q => Spec.run fo fns cat q [] []

/-- the plan with its top-level set operations evaluated under `dev` and replaced by their rows; ORDER BY / LIMIT
    wrappers kept, so that `Spec.acceptable` can judge an output against the engine model's answer -/
def materialiseTop (dev : Dev) (fo : FloatOps) (fns : String → List Val → Except Err Val) (cat : List Table) : Query → Except Err Query
  | .sort keys q => do pure (.sort keys (← materialiseTop dev fo fns cat q))
  | .limit s f q => do pure (.limit s f (← materialiseTop dev fo fns cat q))
  | .setop op all l r => do pure (.values (lits (← runTop dev fo fns cat (.setop op all l r))))
  | q => pure q

def hasTopSetop : Query → Bool
  | .sort _ q | .limit _ _ q => hasTopSetop q
  | .setop _ _ _ _ => true
  | _ => false

end IQE.Engine.SetOps
