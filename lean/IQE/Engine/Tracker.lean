/-
  IQE.Engine.Tracker — small-step model of `HashJoinExec`'s shared build-side match tracker
  (src/physical/operators/hash_join.rs: `BuildSideCache::{build_matched, completed_partitions}`,
  the publish loops at the end of `probe_hash_table` / `probe_vectorized` and the "last finisher" block
  at the end of `HashJoinExec::execute`).

  Real protocol, per probe partition `p` (one call of `execute(p)`; the calls run concurrently on tokio workers):

      for every build row (b, r) this partition matched:   shared[b][r].store(true, Relaxed)       -- publish
      done = completed_partitions.fetch_add(1, SeqCst) + 1                                         -- count
      if done == output_partitions().max(1):                                                       -- last finisher
          for every build row i in batch-major order:  if !shared[i].load(SeqCst) { unmatched.push(i) }
          result.push(build_only_batch(unmatched))                                                 -- emit

  Model: the flags are flattened batch-major into `bits : List Bool` (build row = index), `completed` is the
  counter, and every probe partition carries a program counter.  ONE MODEL STEP = ONE ATOMIC ACTION of one partition
  (one `store`, the `fetch_add`, one `load`), or the thread-local return after the last load.  The step function is
  total in the thread id: `step c t = none` iff partition `t` has returned (or does not exist), so every partition
  that has not returned is always enabled — there is no blocking anywhere in the protocol.

  Assumption (stated in the registry): each atomic location is sequentially consistent, i.e. a load returns the
  latest store in the interleaving.  (The real `Relaxed` stores are sequenced before the partition's `SeqCst`
  read-modify-write; the RMWs on `completed_partitions` form a release sequence that the last finisher's RMW
  acquires, so under the C11 model the last finisher's loads do see every store.  That argument is not mechanised.)
  The number of partitions is `c.pcs.length` — arbitrary.
-/
namespace IQE.Engine.Tracker

inductive Pc where
  /-- still has to store `true` into these build-row slots (in this order), then `fetch_add` -/
  | publish (todo : List Nat)
  /-- saw `done == n`: about to load flag `i`; `acc` = unmatched rows found so far (ascending) -/
  | scan (i : Nat) (acc : List Nat)
  /-- returned; `some l` = pushed the build-only batch for rows `l`, `none` = was not the last finisher -/
  | finished (emitted : Option (List Nat))
  deriving DecidableEq, Repr, Inhabited

structure Cfg where
  bits : List Bool
  completed : Nat
  pcs : List Pc
  deriving DecidableEq, Repr

/-- Fresh `BuildSideCache` for a build side of `B` rows; partition `p` will match the build rows `ms[p]`. -/
def init (B : Nat) (ms : List (List Nat)) : Cfg :=
  { bits := List.replicate B false, completed := 0, pcs := ms.map .publish }

/-- The next atomic action of partition `t`. -/
def step (c : Cfg) (t : Nat) : Option Cfg :=
  match c.pcs[t]? with
  | none => none
  | some (.publish (b :: rest)) =>                         -- shared[b].store(true)
    some { c with bits := c.bits.set b true, pcs := c.pcs.set t (.publish rest) }
  | some (.publish []) =>                                  -- done = completed.fetch_add(1) + 1; if done == n …
    let done := c.completed + 1
    some { c with completed := done,
                  pcs := c.pcs.set t (if done = c.pcs.length then .scan 0 [] else .finished none) }
  | some (.scan i acc) =>
    if i < c.bits.length then                              -- shared[i].load()
      some { c with pcs := c.pcs.set t (.scan (i + 1) (if c.bits.getD i false then acc else acc ++ [i])) }
    else                                                   -- loop done: push the build-only batch, return
      some { c with pcs := c.pcs.set t (.finished (some acc)) }
  | some (.finished _) => none

/-- `c'` is reached from `c` by one atomic action of some partition. -/
def Step (c c' : Cfg) : Prop := ∃ t, step c t = some c'

/-- reflexive-transitive closure: every finite interleaving -/
inductive Reach : Cfg → Cfg → Prop where
  | refl (c : Cfg) : Reach c c
  | tail {a b c : Cfg} : Reach a b → Step b c → Reach a c

/-- run a given schedule (list of partition ids); disabled picks are skipped (used by the driver and examples) -/
def runSchedule (c : Cfg) : List Nat → Cfg
  | [] => c
  | t :: ts => runSchedule ((step c t).getD c) ts

/-- the partition-by-partition schedule: each partition runs to completion in index order (fuel = enough steps) -/
def runSequential (c : Cfg) (fuel : Nat) : Cfg :=
  runSchedule c ((List.range c.pcs.length).flatMap (fun t => List.replicate fuel t))

/-- What the protocol is meant to emit: the build rows matched by NO partition, ascending. -/
def unmatched (B : Nat) (ms : List (List Nat)) : List Nat :=
  (List.range B).filter (fun i => ms.all (fun m => !m.contains i))

def Pc.isPublish : Pc → Bool | .publish _ => true | _ => false
/-- a partition that is scanning the flags or has pushed the build-only batch -/
def Pc.isEmitter : Pc → Bool | .scan _ _ => true | .finished (some _) => true | _ => false
def Pc.isFinished : Pc → Bool | .finished _ => true | _ => false

/-- the build-only batch this partition has pushed, if any -/
def Pc.emitted : Pc → Option (List Nat)
  | .finished (some l) => some l
  | _ => none

/-- all batches of build-only rows that have been pushed so far, by partition -/
def emissions (c : Cfg) : List (List Nat) := c.pcs.filterMap Pc.emitted

/-- termination measure: an upper bound on the number of steps still possible -/
def Pc.fuel (B : Nat) : Pc → Nat
  | .publish todo => todo.length + B + 3
  | .scan i _ => (B - i) + 1
  | .finished _ => 0

def measure (c : Cfg) : Nat := (c.pcs.map (Pc.fuel c.bits.length)).sum

end IQE.Engine.Tracker
