/-
  IQE.Engine.HttpParse — executable model of `distributed::http_client::parse_response`
  (src/distributed/http_client.rs), byte for byte:

      let split = raw.windows(4).position(|w| w == b"\r\n\r\n").ok_or(InvalidData)?;        -- position4
      let head = &raw[..split];   let body = raw[split + 4..].to_vec();                      -- checked slices
      let status_line = head.split(|b| *b == b'\n').next().ok_or(InvalidData)?;
      let status = from_utf8_lossy(status_line).split_whitespace().nth(1)
                      .and_then(|s| s.parse::<u16>().ok()).ok_or(InvalidData)?;
      let headers = head.split(|b| *b == b'\n').skip(1).filter_map(|line| {
              let line = from_utf8_lossy(line); let (k, v) = line.split_once(':')?;
              Some((k.trim().to_ascii_lowercase(), v.trim().to_string())) }).collect();
      -- (fix) every `content-length` header must parse as usize (else InvalidData) and must not
      --       exceed body.len() (else UnexpectedEof)
      Ok(HttpResponse { status, headers, body })

  A Rust panic (slice out of range) is the explicit outcome `.panic`; `usize` = 2^64.
  Deviation switch (off = the intended parser = the code since /repo commit b8ec721, `fix: parse_response …`;
  on = `Dev.legacy`, the parser before that commit):
    * `ignoreContentLength` (C16-F1) the declared Content-Length is never read: a body cut short by a
      closed connection is returned as a success.
-/
import IQE.Core.TextMore
import IQE.Core.Utf8
namespace IQE.Engine.HttpParse
open IQE.Text IQE

structure Resp where
  status : Nat
  headers : List (List Char × List Char)
  body : List UInt8
deriving DecidableEq, Repr

/-- `std::io::ErrorKind` of the error returned -/
inductive Err where
  | invalidData
  | unexpectedEof
deriving DecidableEq, Repr

inductive Outcome where
  | ok (r : Resp)
  | error (e : Err)
  | panic
deriving DecidableEq, Repr

structure Dev where
  ignoreContentLength : Bool := false
deriving DecidableEq, Repr

def Dev.legacy : Dev := { ignoreContentLength := true }
def Dev.fixed : Dev := {}

def CR : UInt8 := 13
def LF : UInt8 := 10

/-- the window at the front of the slice is `\r\n\r\n` -/
def startsTerm : List UInt8 → Bool
  | a :: b :: c :: d :: _ => a == CR && b == LF && c == CR && d == LF
  | _ => false

/-- `raw.windows(4).position(|w| w == b"\r\n\r\n")` -/
def position4 : List UInt8 → Option Nat
  | [] => none
  | a :: t => if startsTerm (a :: t) then some 0 else (position4 t).map (· + 1)

/-- `&raw[i..]`: panics iff `i > raw.len()` -/
def sliceFrom (raw : List UInt8) (i : Nat) : Option (List UInt8) :=
  if i ≤ raw.length then some (raw.drop i) else none

/-- `&raw[..i]`: panics iff `i > raw.len()` -/
def sliceTo (raw : List UInt8) (i : Nat) : Option (List UInt8) :=
  if i ≤ raw.length then some (raw.take i) else none

def contentLength : List Char := ['c', 'o', 'n', 't', 'e', 'n', 't', '-', 'l', 'e', 'n', 'g', 't', 'h']

/-- status line → status code -/
def parseStatus (line : List UInt8) : Option Nat :=
  match (splitWhitespace (Utf8.decodeLossy line))[1]? with
  | none => none
  | some tok => parseU16 tok

/-- one header line (`filter_map` closure) -/
def parseHeader (line : List UInt8) : Option (List Char × List Char) :=
  match splitOnce ':' (Utf8.decodeLossy line) with
  | none => none
  | some (k, v) => some (asciiLower (trim k), trim v)

/-- the Content-Length enforcement added by the fix: first offending header decides the error -/
def checkLengths (bodyLen : Nat) : List (List Char × List Char) → Option Err
  | [] => none
  | (k, v) :: rest =>
    if k == contentLength then
      match parseUsize v with
      | none => some .invalidData
      | some n => if bodyLen < n then some .unexpectedEof else checkLengths bodyLen rest
    else checkLengths bodyLen rest

/-- everything after the two slices have been taken -/
def finish (dev : Dev) (head body : List UInt8) : Outcome :=
  let lines := splitByte LF head
  match lines.head? with
  | none => .error .invalidData          -- `.next()` of a split is never `None`
  | some statusLine =>
    match parseStatus statusLine with
    | none => .error .invalidData
    | some status =>
      let headers := (lines.drop 1).filterMap parseHeader
      if dev.ignoreContentLength then .ok ⟨status, headers, body⟩
      else match checkLengths body.length headers with
        | some e => .error e
        | none => .ok ⟨status, headers, body⟩

def parse (dev : Dev) (raw : List UInt8) : Outcome :=
  match position4 raw with
  | none => .error .invalidData
  | some split =>
    match sliceTo raw split, sliceFrom raw (split + 4) with
    | some head, some body => finish dev head body
    | _, _ => .panic

/-! ### renderer used to state round trip and prefix rejection (the harness has its own, in Rust) -/

def crlf : List UInt8 := [CR, LF]

/-- `HTTP/1.1 <status> <reason>` then one `CRLF name: value` per header (names as sent, any case) -/
def renderHead (statusText reason : List Char) (headers : List (List Char × List Char)) : List UInt8 :=
  Utf8.asciiBytes (['H', 'T', 'T', 'P', '/', '1', '.', '1', ' '] ++ statusText ++ ' ' :: reason) ++
  headers.flatMap (fun kv => crlf ++ Utf8.asciiBytes (kv.1 ++ ':' :: ' ' :: kv.2))

def render (statusText reason : List Char) (headers : List (List Char × List Char)) (body : List UInt8) : List UInt8 :=
  renderHead statusText reason headers ++ (crlf ++ crlf ++ body)

/-- ASCII text without CR / LF -/
def lineText (l : List Char) : Bool := l.all (fun c => isAscii c && c != '\r' && c != '\n')
/-- a status code as written: 1..5 decimal digits denoting a u16 -/
def statusOk (t : List Char) : Bool := !t.isEmpty && t.all isDigit && decVal t < 2 ^ 16
/-- header name: ASCII, non-empty, no CR LF `:`, no white space at either end; value: ASCII, no CR LF, no white space at either end -/
def headerOk (kv : List Char × List Char) : Bool :=
  lineText kv.1 && !kv.1.isEmpty && kv.1.all (· != ':') && edgeOk kv.1 && lineText kv.2 && edgeOk kv.2

/-- every Content-Length header (any case) of `headers` is a number ≤ `n` -/
def declaredOk (headers : List (List Char × List Char)) (n : Nat) : Bool :=
  headers.all fun kv =>
    if asciiLower kv.1 == contentLength then
      (match parseUsize kv.2 with
       | some m => decide (m ≤ n)
       | none => false)
    else true

/-- some Content-Length header (any case) of `headers` declares exactly `n` -/
def declares (headers : List (List Char × List Char)) (n : Nat) : Bool :=
  headers.any fun kv => asciiLower kv.1 == contentLength && parseUsize kv.2 == some n

/-- what the parser is expected to return for the headers as sent -/
def lowerHeaders (headers : List (List Char × List Char)) : List (List Char × List Char) :=
  headers.map (fun kv => (asciiLower kv.1, kv.2))

end IQE.Engine.HttpParse
