/-
  IQE.Engine.Lpt — hand-written executable model of `assign_lpt` (src/distributed/splits.rs).

  Rust control flow mirrored:
    nodes = nodes.max(1)
    order = (0..n) stable-sorted by (bytes DESC, canonical_key ASC)            → `order`
    for idx in order: best = lowest index of a minimal node_bytes (linear scan)  → `argmin`, `place`
                      per_node[best].push(idx); node_bytes[best] += bytes; node_rows[best] += num_rows
    each per_node[i] stable-sorted by canonical_key                              → `finish`
    node_splits = lens; total_bytes = set.total_bytes (copied, not recomputed)
  `+=` on u64 / i64 panics on overflow in the checked build: recorded in `State.ovf` → `Outcome.panic`.
-/
import IQE.Engine.SplitKey
import IQE.Core.StableSort
namespace IQE.Engine.Lpt
open IQE.Engine

/-- comparator of the first sort: `y.bytes.cmp(&x.bytes).then_with(|| x.key.cmp(&y.key))` -/
def lptCmp : Split → Split → Ordering :=
  compareLex (fun x y => compare y.bytes x.bytes) Split.keyCmp

def lptLe (a b : Split × Nat) : Bool := (lptCmp a.1 b.1).isLE

def keyLeIdx (a b : Split × Nat) : Bool := (Split.keyCmp a.1 b.1).isLE

/-- The processing order: splits paired with their index, stable sort (Rust `sort_by` is stable; the structural
    `StableSort.sort` equals `List.mergeSort`, see IQE.StableSort.sort_eq_mergeSort). -/
def order (splits : List Split) : List (Split × Nat) := IQE.StableSort.sort lptLe splits.zipIdx

/-- `best = 0; for n in 1..nodes { if node_bytes[n] < node_bytes[best] { best = n } }` -/
def argminGo : List Nat → Nat → Nat → Nat → Nat
  | [], _, best, _ => best
  | x :: xs, n, best, bv => if x < bv then argminGo xs (n + 1) n x else argminGo xs (n + 1) best bv

def argmin : List Nat → Nat
  | [] => 0
  | x :: xs => argminGo xs 1 0 x

structure State where
  perNode : List (List (Split × Nat))   -- in placement order
  nodeBytes : List Nat
  nodeRows : List Int
  ovf : Bool
deriving Repr

def init (n : Nat) : State :=
  { perNode := List.replicate n [], nodeBytes := List.replicate n 0, nodeRows := List.replicate n 0, ovf := false }

def place (st : State) (p : Split × Nat) : State :=
  let best := argmin st.nodeBytes
  let nb := st.nodeBytes.getD best 0 + p.1.bytes
  let nr := st.nodeRows.getD best 0 + p.1.numRows
  { perNode := st.perNode.modify best (· ++ [p])
    nodeBytes := st.nodeBytes.modify best (· + p.1.bytes)
    nodeRows := st.nodeRows.modify best (· + p.1.numRows)
    ovf := st.ovf || decide (nb ≥ U64_LIMIT) || decide (nr < I64_MIN) || decide (nr > I64_MAX) }

def greedy (splits : List Split) (nodes : Nat) : State :=
  (order splits).foldl place (init (max nodes 1))

structure Assignment where
  nodes : Nat
  perNode : List (List Nat)
  nodeBytes : List Nat
  nodeRows : List Int
  nodeSplits : List Nat
  totalBytes : Nat
deriving Repr, DecidableEq

/-- per-node canonical sort (`sort_by_key(canonical_key)`, stable) and projection to indices -/
def sortOwned (l : List (Split × Nat)) : List Nat := (IQE.StableSort.sort keyLeIdx l).map (·.2)

def finish (st : State) (nodes totalBytes : Nat) : Assignment :=
  let per := st.perNode.map sortOwned
  { nodes := nodes, perNode := per, nodeBytes := st.nodeBytes, nodeRows := st.nodeRows,
    nodeSplits := per.map List.length, totalBytes := totalBytes }

/-- `assign_lpt` over unbounded integers. -/
def assign (splits : List Split) (totalBytes nodes : Nat) : Assignment :=
  finish (greedy splits nodes) (max nodes 1) totalBytes

inductive Outcome where
  | ok (a : Assignment)
  | panic            -- arithmetic overflow in `node_bytes[best] += …` / `node_rows[best] += …`
deriving Repr, DecidableEq

/-- `assign_lpt` as compiled with overflow checks. -/
def assignRust (splits : List Split) (totalBytes nodes : Nat) : Outcome :=
  if (greedy splits nodes).ovf then .panic else .ok (assign splits totalBytes nodes)

/-- largest node load -/
def maxLoad (l : List Nat) : Nat := l.foldr max 0

/-- The split that finishes last on the (first) most loaded node: `none` iff every node is empty-handed. -/
def heaviest : List Nat → Nat
  | [] => 0
  | x :: xs => if maxLoad xs ≤ x then 0 else heaviest xs + 1

def critical (splits : List Split) (nodes : Nat) : Option (Split × Nat) :=
  let st := greedy splits nodes
  (st.perNode.getD (heaviest st.nodeBytes) []).getLast?

/-! ### Reference notions for the bound: any other assignment and its makespan -/

/-- load of node `j` when split `i` goes to node `alt[i]` -/
def loadOf : List Nat → List Nat → Nat → Nat
  | b :: bs, x :: xs, j => (if x = j then b else 0) + loadOf bs xs j
  | _, _, _ => 0

def makespan (bytes alt : List Nat) (n : Nat) : Nat := maxLoad ((List.range n).map (loadOf bytes alt))

/-- brute-force optimum makespan (used by the ORACLE on small instances only; enumeration, not proof):
    branch over the node of each split, first-fit symmetry breaking (a split may open at most one new node). -/
def bruteGo : List Nat → List Nat → Nat → Nat → Nat
  | [], loads, _, best => min best (maxLoad loads)
  | b :: bs, loads, used, best =>
    (List.range (min (used + 1) loads.length)).foldl
      (fun acc j =>
        let l' := loads.modify j (· + b)
        if maxLoad l' ≥ acc then acc else bruteGo bs l' (max used (j + 1)) acc) best

def bruteOpt (bytes : List Nat) (n : Nat) : Nat :=
  bruteGo bytes (List.replicate (max n 1) 0) 0 (bytes.sum)

end IQE.Engine.Lpt
