/-
  C21Gen — tie T for the morsel accumulator (C21): the per-variant arms of
  `morsel_agg::AccumulatorState::{merge, finalize}` for COUNT / SUM (f64 and i64) / AVG / MIN / MAX are TRANSLATED from
  the Rust source on every check run (`IQE.Gen.AggState`), and proved here to be the hand model
  `IQE.Engine.Acc.{morselMerge, morselFinalize}` — the `merge` / `finalize` components of the algebra
  `Engine.Acc.morsel` that `C21_morsel_hom` (IQE/Props/C21.lean) is stated over.

  What is translated and what is a parameter.  Integer arithmetic, booleans, `Option`, the enum dispatch and the
  control flow of every arm are translated.  f64 `+` / `/`, the cast `i64 as f64` and `compare_scalar_values` are
  outside the translator's subset and appear as PARAMETERS of the generated definitions; they are instantiated with
  the model's `FloatOps` (`fo.add`, `fo.div`, `fo.ofInt`) and with any comparator `cmp` that satisfies `Embed`
  (less / greater agree with the model order `valLt`; satisfiable: `embed₀`).
  The arms are separate items; the ORDER in which the source tries them is pinned by `C21Gen_dispatch_order`
  (a new arm inserted before one of these, a guard added to one, or a reordering changes the generated list).
  i64 overflow: every generated arm carries `…_inRange` (no wrap-around); `C21Gen_merge_inRange` discharges it for
  states in [-2^62, 2^62) (row counts and the partial sums of the `Ok` side condition of C21).
-/
import IQE.Lemmas.AggStateGen
namespace IQE.Props.C21Gen
open IQE IQE.Engine.Acc IQE.Gen.AggState IQE.AggStateGen

/-- The arm lists of `merge` and `finalize`, in source order, are exactly these: the six modelled variants are
    each handled by their own unguarded arm, no arm before them can capture their states, and `merge` ends in the
    catch-all that leaves mismatched states unchanged. -/
theorem C21Gen_dispatch_order :
    merge_arms =
      ["(AccumulatorState::Count(a),AccumulatorState::Count(b))",
       "(AccumulatorState::Sum(a,sa),AccumulatorState::Sum(b,sb))",
       "(AccumulatorState::SumInt(a,sa),AccumulatorState::SumInt(b,sb))",
       "(AccumulatorState::Avg{sum:s1,count:c1},AccumulatorState::Avg{sum:s2,count:c2},)",
       "(AccumulatorState::First(a),AccumulatorState::First(b))",
       "(AccumulatorState::Min(a),AccumulatorState::Min(b))",
       "(AccumulatorState::Max(a),AccumulatorState::Max(b))",
       "(AccumulatorState::BoolAnd(a),AccumulatorState::BoolAnd(b))",
       "(AccumulatorState::BoolOr(a),AccumulatorState::BoolOr(b))",
       "(AccumulatorState::Variance{count:ca,mean:ma,m2:m2a,},AccumulatorState::Variance{count:cb,mean:mb,m2:m2b,},)",
       "_"] ∧
    finalize_arms =
      ["AccumulatorState::Count(c)",
       "AccumulatorState::Sum(s,seen)",
       "AccumulatorState::SumInt(s,seen)",
       "AccumulatorState::Avg{sum,count}",
       "AccumulatorState::Min(v)",
       "AccumulatorState::First(v)",
       "AccumulatorState::Max(v)",
       "AccumulatorState::BoolAnd(v)",
       "AccumulatorState::BoolOr(v)",
       "AccumulatorState::Variance{count,m2,..}"] := ⟨rfl, rfl⟩

/-! ### merge: generated arm = model arm -/

theorem C21Gen_merge_count (fo : FloatOps) (ι : ScalarValue → Val) (a b : Int) :
    stOf ι (merge_count a b) = some (morselMerge fo (.count a) (.count b)) := rfl

theorem C21Gen_merge_sum (fo : FloatOps) (ι : ScalarValue → Val) (a b : F64) (sa sb : Bool) :
    stOf ι (merge_sum a sa b sb fo.add) = some (morselMerge fo (.sum a sa) (.sum b sb)) := rfl

theorem C21Gen_merge_sum_int (fo : FloatOps) (ι : ScalarValue → Val) (a b : Int) (sa sb : Bool) :
    stOf ι (merge_sum_int a sa b sb) = some (morselMerge fo (.sumInt a sa) (.sumInt b sb)) := rfl

theorem C21Gen_merge_avg (fo : FloatOps) (ι : ScalarValue → Val) (s1 s2 : F64) (c1 c2 : Int) :
    stOf ι (merge_avg s1 c1 s2 c2 fo.add) = some (morselMerge fo (.avg s1 c1) (.avg s2 c2)) := rfl

theorem C21Gen_merge_min (fo : FloatOps) {cmp : ScalarValue → ScalarValue → Ordering} (e : Embed cmp)
    (a b : Option ScalarValue) :
    stOf e.ι (merge_min a b cmp) = some (morselMerge fo (.min (a.map e.ι)) (.min (b.map e.ι))) := by
  cases a with
  | none => cases b <;> rfl
  | some av =>
    cases b with
    | none => rfl
    | some bv =>
      have h := e.lt bv av
      cases hc : valLt (e.ι bv) (e.ι av) <;> rw [hc] at h <;>
        simp [merge_min, stOf, morselMerge, Id.run, pure, hc] <;> simp_all

theorem C21Gen_merge_max (fo : FloatOps) {cmp : ScalarValue → ScalarValue → Ordering} (e : Embed cmp)
    (a b : Option ScalarValue) :
    stOf e.ι (merge_max a b cmp) = some (morselMerge fo (.max (a.map e.ι)) (.max (b.map e.ι))) := by
  cases a with
  | none => cases b <;> rfl
  | some av =>
    cases b with
    | none => rfl
    | some bv =>
      have h := e.gt bv av
      cases hc : valLt (e.ι av) (e.ι bv) <;> rw [hc] at h <;>
        simp [merge_max, stOf, morselMerge, Id.run, pure, hc] <;> simp_all

/-- The whole `merge` on the modelled variants: reading the translated states as model states commutes with merging
    (`genMerge` = the generated arms under the dispatch pinned by `C21Gen_dispatch_order`; `(morsel fo a).merge` is the
    `merge` of the algebra of `C21_morsel_hom`). -/
theorem C21Gen_merge_eq_model (fo : FloatOps) (a : Agg) {cmp : ScalarValue → ScalarValue → Ordering} (e : Embed cmp)
    (t s : AccumulatorState) (T S : MorselSt) (ht : stOf e.ι t = some T) (hs : stOf e.ι s = some S) :
    stOf e.ι (genMerge fo cmp t s) = some ((morsel fo a).merge T S) := by
  cases t <;> cases s <;> simp only [stOf, Option.some.injEq, reduceCtorEq] at ht hs <;> subst ht <;> subst hs <;>
    first
    | rfl
    | exact C21Gen_merge_min fo e _ _
    | exact C21Gen_merge_max fo e _ _

/-! ### finalize: generated arm = model arm -/

theorem C21Gen_finalize_count (fo : FloatOps) {cmp : ScalarValue → ScalarValue → Ordering} (e : Embed cmp) (c : Int) :
    e.ι (finalize_count c) = morselFinalize fo (.count c) := by
  simp [finalize_count, morselFinalize, e.int64]

theorem C21Gen_finalize_sum (fo : FloatOps) {cmp : ScalarValue → ScalarValue → Ordering} (e : Embed cmp) (s : F64) (seen : Bool) :
    e.ι (finalize_sum s seen) = morselFinalize fo (.sum s seen) := by
  cases seen <;> simp [finalize_sum, morselFinalize, e.float64, e.null]

theorem C21Gen_finalize_sum_int (fo : FloatOps) {cmp : ScalarValue → ScalarValue → Ordering} (e : Embed cmp) (s : Int) (seen : Bool) :
    e.ι (finalize_sum_int s seen) = morselFinalize fo (.sumInt s seen) := by
  cases seen <;> simp [finalize_sum_int, morselFinalize, e.int64, e.null]

/-- AVG: NULL on a zero count, otherwise `sum / (count as f64)` with the model's division and int→float cast -/
theorem C21Gen_finalize_avg (fo : FloatOps) {cmp : ScalarValue → ScalarValue → Ordering} (e : Embed cmp) (s : F64) (c : Int) :
    e.ι (finalize_avg s c fo.ofInt fo.div) = morselFinalize fo (.avg s c) := by
  by_cases h : c = 0 <;> simp [finalize_avg, morselFinalize, Rs.Cmp.eq, h, e.float64, e.null]

theorem C21Gen_finalize_min (fo : FloatOps) {cmp : ScalarValue → ScalarValue → Ordering} (e : Embed cmp) (v : Option ScalarValue) :
    e.ι (finalize_min v) = morselFinalize fo (.min (v.map e.ι)) := by
  cases v <;> simp [finalize_min, morselFinalize, Rs.unwrapOr, e.null]

theorem C21Gen_finalize_max (fo : FloatOps) {cmp : ScalarValue → ScalarValue → Ordering} (e : Embed cmp) (v : Option ScalarValue) :
    e.ι (finalize_max v) = morselFinalize fo (.max (v.map e.ι)) := by
  cases v <;> simp [finalize_max, morselFinalize, Rs.unwrapOr, e.null]

/-- The whole `finalize` on the modelled variants (`(morsel fo a).finalize` is the `finalize` of the algebra of
    `C21_morsel_hom`). -/
theorem C21Gen_finalize_eq_model (fo : FloatOps) (a : Agg) {cmp : ScalarValue → ScalarValue → Ordering} (e : Embed cmp)
    (t : AccumulatorState) (T : MorselSt) (ht : stOf e.ι t = some T) :
    (genFinalize fo t).map e.ι = some ((morsel fo a).finalize T) := by
  cases t <;> simp only [stOf, Option.some.injEq, reduceCtorEq] at ht <;> subst ht <;>
    simp only [genFinalize, Option.map_some, Option.some.injEq, morsel]
  · exact C21Gen_finalize_count fo e _
  · exact C21Gen_finalize_sum fo e _ _
  · exact C21Gen_finalize_sum_int fo e _ _
  · exact C21Gen_finalize_avg fo e _ _
  · exact C21Gen_finalize_min fo e _
  · exact C21Gen_finalize_max fo e _

/-! ### no i64 wrap-around in the generated arms -/

/-- States in [-2^62, 2^62) (row counts; partial integer sums under the `Ok` side condition of C21) merge without
    overflow: the range side conditions the translator attached to `*a += b` / `*c1 += c2` hold. -/
theorem C21Gen_merge_inRange (a b : Int) (ha : -(2:Int)^62 ≤ a ∧ a < (2:Int)^62) (hb : -(2:Int)^62 ≤ b ∧ b < (2:Int)^62)
    (sa sb : Bool) (s1 s2 : F64) (fadd : F64 → F64 → F64) :
    merge_count_inRange a b ∧ merge_sum_int_inRange a sa b sb ∧ merge_avg_inRange s1 a s2 b fadd := by
  have h : Rs.I64_MIN ≤ a + b ∧ a + b ≤ Rs.I64_MAX := by
    simp only [Rs.I64_MIN, Rs.I64_MAX]; omega
  simp [merge_count_inRange, merge_sum_int_inRange, merge_avg_inRange, Id.run, pure, h]

/-- …and the side condition is not vacuous: `i64::MAX + 1` is rejected -/
example : ¬ merge_count_inRange Rs.I64_MAX 1 := by
  simp [merge_count_inRange, Id.run, pure, Rs.I64_MAX, Rs.I64_MIN]

/-! ### non-vacuity: the hypotheses are satisfiable and the arms compute -/

example : Nonempty (Embed cmp₀) := ⟨embed₀⟩
/-- MIN merge keeps the smaller value, NULL-free side wins over an empty one -/
example : merge_min (some (.Int64 5)) (some (.Int64 3)) cmp₀ = .Min (some (.Int64 3)) := by decide
example : merge_min none (some (.Int64 3)) cmp₀ = .Min (some (.Int64 3)) := by decide
example : merge_max (some (.Int64 5)) (some (.Int64 3)) cmp₀ = .Max (some (.Int64 5)) := by decide
/-- SUM over no non-NULL input is NULL; COUNT is its count; AVG of an empty state is NULL -/
example : finalize_sum_int 0 false = .Null := by decide
example : finalize_sum_int 7 true = .Int64 7 := by decide
example (fo : FloatOps) : finalize_avg F64.posZero 0 fo.ofInt fo.div = .Null := rfl
example : merge_sum_int 1 false 2 true = .SumInt 3 true := by decide

end IQE.Props.C21Gen
