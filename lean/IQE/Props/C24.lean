/-
  C24 — set operations have SQL multiset semantics.

  Reference semantics, for ALL tables (multiplicities by `List.count`; row equality is `Val` equality, so NULLs are
  not distinct):
    C24_run_setop        `Spec.run` on a set-operation node = `specSetop` on its evaluated operands
    C24_union_all        count = sum                       C24_union       count = 1 iff in either side
    C24_intersect_all    count = min                       C24_intersect   count = 1 iff in both sides
    C24_except_all       count = monus (truncated minus)   C24_except      count = 1 iff in the left and not in the right
    C24_null_not_distinct  a row of NULLs intersects with / is removed by an equal row of NULLs
  Engine model (`Engine.SetOps`: INTERSECT = [Distinct ∘] SemiJoin, EXCEPT = [Distinct ∘] AntiJoin on all columns):
    C24_model_refines    with all deviation switches off the model has the reference multiplicities (every operator, every input)
    C24_semi_encoding_partial   the encoding of the unchanged tree agrees with the reference on INTERSECT ALL
                         **iff** every row common to both sides is NULL-free and at most as frequent on the left as on the right
    C24_anti_encoding_partial   the same exact condition for EXCEPT ALL
    C24_distinct_encoding_partial   INTERSECT / EXCEPT (DISTINCT forms, correct de-duplication) agree iff every common row is NULL-free
    C24_today_nullfree   on NULL-free inputs the unchanged tree is right for UNION [ALL], INTERSECT, EXCEPT (only the ALL forms can differ)
  Negation witnesses (kernel-checked): {NULL} ∩ {NULL}, {1,1} ∩ALL {1}, {1,1} −ALL {1}, {NULL} ∪ {NULL}.
-/
import IQE.Lemmas.SetOps
namespace IQE.Props.C24
open IQE IQE.Spec IQE.Engine.SetOps IQE.Lemmas.SetOps

/-! ### reference semantics -/

theorem C24_run_setop (fo : FloatOps) (fns : String → List Val → Except Err Val) (cat : List Table)
    (op : SetOp) (all : Bool) (l r : Query) (ctes : List Table) (env : Env) :
    run fo fns cat (.setop op all l r) ctes env =
      (do let ls ← run fo fns cat l ctes env
          let rs ← run fo fns cat r ctes env
          pure (specSetop op all ls rs)) := by
  simp only [run, specSetop]
  rfl

theorem C24_union_all (x : Row) (l r : Table) : (specSetop .union true l r).count x = l.count x + r.count x := by
  simp [specSetop]

theorem C24_union (x : Row) (l r : Table) : (specSetop .union false l r).count x = if x ∈ l ∨ x ∈ r then 1 else 0 := by
  simp [specSetop, count_dedupRows]

theorem C24_intersect_all (x : Row) (l r : Table) : (specSetop .intersect true l r).count x = min (l.count x) (r.count x) := by
  simp [specSetop, count_intersectAll]

theorem C24_except_all (x : Row) (l r : Table) : (specSetop .except true l r).count x = l.count x - r.count x := by
  simp [specSetop, count_exceptAll]

theorem C24_intersect (x : Row) (l r : Table) : (specSetop .intersect false l r).count x = if x ∈ l ∧ x ∈ r then 1 else 0 := by
  simp [specSetop, count_dedupRows, mem_intersectAll]

theorem C24_except (x : Row) (l r : Table) : (specSetop .except false l r).count x = if x ∈ l ∧ x ∉ r then 1 else 0 := by
  simp only [specSetop, count_filter_pred, count_dedupRows]
  by_cases h1 : x ∈ l <;> by_cases h2 : x ∈ r <;> simp [h1, h2]

/-- NULLs are not distinct for set operations: `{(NULL, 1)} ∩ {(NULL, 1)}` keeps the row, `−` removes it -/
theorem C24_null_not_distinct (x : Row) (all : Bool) :
    (specSetop .intersect all [x] [x]).count x = 1 ∧ (specSetop .except all [x] [x]).count x = 0 := by
  cases all <;> simp [C24_intersect_all, C24_except_all, C24_intersect, C24_except]

/-! ### the engine's encoding -/

theorem count_semi (dev : Dev) (x : Row) (l r : Table) :
    (semi dev l r).count x = if matchable dev x ∧ x ∈ r then l.count x else 0 := by
  simp [semi, count_filter_pred]

theorem count_anti (dev : Dev) (x : Row) (l r : Table) :
    (anti dev l r).count x = if matchable dev x ∧ x ∈ r then 0 else l.count x := by
  simp only [anti, count_filter_pred]
  by_cases h1 : matchable dev x = true <;> by_cases h2 : x ∈ r <;> simp [h1, h2]

theorem mem_semi (dev : Dev) (x : Row) (l r : Table) : x ∈ semi dev l r ↔ x ∈ l ∧ matchable dev x = true ∧ x ∈ r := by
  simp [Engine.SetOps.semi, List.mem_filter]

theorem mem_anti (dev : Dev) (x : Row) (l r : Table) : x ∈ anti dev l r ↔ x ∈ l ∧ ¬(matchable dev x = true ∧ x ∈ r) := by
  simp only [Engine.SetOps.anti, List.mem_filter, Bool.not_eq_true', Bool.and_eq_false_iff, List.contains_iff_mem, decide_eq_false_iff_not,
             Bool.and_eq_true, Bool.not_eq_eq_eq_not, Bool.not_true, decide_eq_true_eq, not_and]
  by_cases h : matchable dev x = true <;> simp [h]

theorem matchable_off (x : Row) : matchable {} x = true := by simp [matchable]

theorem count_distinct_off (x : Row) (t : Table) : (distinct {} t).count x = if x ∈ t then 1 else 0 := by
  simp [distinct, count_dedupRows]

/-- With all switches off the model computes the reference multiplicities: for every operator, every pair of inputs, every row. -/
theorem C24_model_refines (op : SetOp) (all : Bool) (l r : Table) (x : Row) :
    (setop {} op all l r).count x = (specSetop op all l r).count x := by
  have hf : l.filter (matchable {}) = l := List.filter_eq_self.mpr (fun a _ => matchable_off a)
  have hg : l.filter (fun a => !matchable {} a) = [] := List.filter_eq_nil_iff.mpr (fun a _ => by simp [matchable_off])
  cases op <;> cases all
  · simp [setop, specSetop, count_distinct_off, count_dedupRows]
  · rfl
  · simp only [setop, C24_intersect, count_distinct_off, mem_semi, matchable_off, true_and]
  · simp only [setop, specSetop, Engine.SetOps.intersectAll, Bool.false_eq_true, if_false, hf]
  · simp only [setop, C24_except, count_distinct_off, mem_anti, matchable_off, true_and]
  · simp only [setop, specSetop, Engine.SetOps.exceptAll, Bool.false_eq_true, if_false, hf, hg, List.append_nil]

/-- INTERSECT ALL as a semi join (the unchanged tree) is right exactly when every common row is NULL-free and not more frequent on the left. -/
theorem C24_semi_encoding_partial (l r : Table) :
    (∀ x, (setop today .intersect true l r).count x = (specSetop .intersect true l r).count x) ↔
    (∀ x, x ∈ l → x ∈ r → nullFree x = true ∧ l.count x ≤ r.count x) := by
  simp only [setop, specSetop, Engine.SetOps.intersectAll, today, if_true, count_semi, count_intersectAll, matchable, Bool.not_true, Bool.false_or]
  constructor
  · intro h x hl hr
    have := h x
    have hl' : 0 < l.count x := List.count_pos_iff.mpr hl
    have hr' : 0 < r.count x := List.count_pos_iff.mpr hr
    by_cases hn : nullFree x = true
    · simp [hn, hr] at this; exact ⟨hn, by omega⟩
    · simp [hn] at this; omega
  · intro h x
    by_cases hr : x ∈ r
    · by_cases hl : x ∈ l
      · have ⟨hn, hc⟩ := h x hl hr
        simp [hn, hr]; omega
      · have : l.count x = 0 := List.count_eq_zero.mpr hl
        simp [this]
    · have : r.count x = 0 := List.count_eq_zero.mpr hr
      simp [hr, this]

/-- EXCEPT ALL as an anti join: the same exact condition. -/
theorem C24_anti_encoding_partial (l r : Table) :
    (∀ x, (setop today .except true l r).count x = (specSetop .except true l r).count x) ↔
    (∀ x, x ∈ l → x ∈ r → nullFree x = true ∧ l.count x ≤ r.count x) := by
  simp only [setop, specSetop, Engine.SetOps.exceptAll, today, if_true, count_anti, count_exceptAll, matchable, Bool.not_true, Bool.false_or]
  constructor
  · intro h x hl hr
    have := h x
    have hl' : 0 < l.count x := List.count_pos_iff.mpr hl
    have hr' : 0 < r.count x := List.count_pos_iff.mpr hr
    by_cases hn : nullFree x = true
    · simp [hn, hr] at this; exact ⟨hn, by omega⟩
    · simp [hn] at this; omega
  · intro h x
    by_cases hr : x ∈ r
    · by_cases hl : x ∈ l
      · have ⟨hn, hc⟩ := h x hl hr
        simp [hn, hr]; omega
      · have : l.count x = 0 := List.count_eq_zero.mpr hl
        simp [this]
    · have : r.count x = 0 := List.count_eq_zero.mpr hr
      simp [hr, this]

/-- DISTINCT forms with a correct Distinct operator but NULL-blind join keys: right exactly when every common row is NULL-free. -/
theorem C24_distinct_encoding_partial (l r : Table) :
    ((∀ x, (setop { nullNeverMatches := true } .intersect false l r).count x = (specSetop .intersect false l r).count x) ↔
      (∀ x, x ∈ l → x ∈ r → nullFree x = true)) ∧
    ((∀ x, (setop { nullNeverMatches := true } .except false l r).count x = (specSetop .except false l r).count x) ↔
      (∀ x, x ∈ l → x ∈ r → nullFree x = true)) := by
  constructor
  · simp only [setop, C24_intersect, distinct, Bool.false_eq_true, if_false, count_dedupRows, semi, matchable, Bool.not_true, Bool.false_or, List.mem_filter,
               Bool.and_eq_true, List.contains_iff_mem]
    constructor
    · intro h x hl hr
      have := h x
      by_cases hn : nullFree x = true
      · exact hn
      · simp [hl, hr, hn] at this
    · intro h x
      by_cases hl : x ∈ l <;> by_cases hr : x ∈ r <;> simp [hl, hr]
      exact h x hl hr
  · simp only [setop, C24_except, distinct, Bool.false_eq_true, if_false, count_dedupRows, anti, matchable, Bool.not_true, Bool.false_or, List.mem_filter,
               Bool.and_eq_true, List.contains_iff_mem]
    constructor
    · intro h x hl hr
      have := h x
      by_cases hn : nullFree x = true
      · exact hn
      · simp [hl, hr, hn] at this
    · intro h x
      by_cases hl : x ∈ l <;> by_cases hr : x ∈ r <;> simp [hl, hr]
      exact h x hl hr

theorem filter_nullFree_of_all (t : Table) (h : ∀ x ∈ t, nullFree x = true) :
    t.filter nullFree = t ∧ t.filter (fun x => !nullFree x) = [] := by
  constructor
  · exact List.filter_eq_self.mpr h
  · apply List.filter_eq_nil_iff.mpr; intro x hx; simp [h x hx]

theorem count_distinct_today_nullfree (t : Table) (h : ∀ y ∈ t, nullFree y = true) (x : Row) :
    (distinct today t).count x = if x ∈ t then 1 else 0 := by
  simp only [distinct, today, if_true, (filter_nullFree_of_all t h).1, (filter_nullFree_of_all t h).2, List.nil_append, count_dedupRows]

/-- On NULL-free inputs the unchanged tree answers UNION ALL, UNION, INTERSECT and EXCEPT correctly; only the ALL forms of
    INTERSECT / EXCEPT can still differ (`C24_semi_encoding_partial`). -/
theorem C24_today_nullfree (l r : Table) (hl : ∀ x ∈ l, nullFree x = true) (hr : ∀ x ∈ r, nullFree x = true) (x : Row) :
    (setop today .union true l r).count x = (specSetop .union true l r).count x ∧
    (setop today .union false l r).count x = (specSetop .union false l r).count x ∧
    (setop today .intersect false l r).count x = (specSetop .intersect false l r).count x ∧
    (setop today .except false l r).count x = (specSetop .except false l r).count x := by
  have hlr : ∀ y ∈ l ++ r, nullFree y = true := by
    intro y hy; rcases List.mem_append.mp hy with h | h; exact hl y h; exact hr y h
  have hsemi : ∀ y ∈ semi today l r, nullFree y = true := by
    intro y hy; exact hl y ((mem_semi _ _ _ _).mp hy).1
  have hanti : ∀ y ∈ anti today l r, nullFree y = true := by
    intro y hy; exact hl y ((mem_anti _ _ _ _).mp hy).1
  have hm : ∀ y ∈ l, matchable today y = true := by intro y hy; simp [matchable, hl y hy]
  refine ⟨rfl, ?_, ?_, ?_⟩
  · show (distinct today (l ++ r)).count x = _
    rw [count_distinct_today_nullfree _ hlr, C24_union]; simp
  · show (distinct today (semi today l r)).count x = _
    rw [count_distinct_today_nullfree _ hsemi, C24_intersect]
    by_cases h1 : x ∈ l <;> by_cases h2 : x ∈ r <;> simp [h1, h2, mem_semi]
    exact hm x h1
  · show (distinct today (anti today l r)).count x = _
    rw [count_distinct_today_nullfree _ hanti, C24_except]
    by_cases h1 : x ∈ l <;> by_cases h2 : x ∈ r <;> simp [h1, h2, mem_anti]
    exact hm x h1

/-! ### negation witnesses for the unchanged tree (Appendix A.15, A.24) -/

/-- `{NULL} INTERSECT {NULL}` is `{NULL}`; the semi-join encoding returns nothing -/
example : specSetop .intersect false [[.null]] [[.null]] = [[.null]] ∧ setop today .intersect false [[.null]] [[.null]] = [] := by decide
/-- `{1,1} INTERSECT ALL {1}` has one row; the encoding returns two -/
example : specSetop .intersect true [[.int 1], [.int 1]] [[.int 1]] = [[.int 1]] ∧
          setop today .intersect true [[.int 1], [.int 1]] [[.int 1]] = [[.int 1], [.int 1]] := by decide
/-- `{1,1} EXCEPT ALL {1}` has one row; the encoding returns none -/
example : specSetop .except true [[.int 1], [.int 1]] [[.int 1]] = [[.int 1]] ∧
          setop today .except true [[.int 1], [.int 1]] [[.int 1]] = [] := by decide
/-- `{NULL} UNION {NULL}` has one row; the Distinct operator keeps both -/
example : specSetop .union false [[.null]] [[.null]] = [[.null]] ∧ setop today .union false [[.null]] [[.null]] = [[.null], [.null]] := by decide
/-- `{NULL,1} EXCEPT {NULL}` is `{1}`; the anti join keeps the NULL row -/
example : specSetop .except false [[.null], [.int 1]] [[.null]] = [[.int 1]] ∧
          setop today .except false [[.null], [.int 1]] [[.null]] = [[.null], [.int 1]] := by decide

end IQE.Props.C24
