/-
  C15Gen — tie T for the per-peer steps of `Membership::record_up` / `record_down` (src/distributed/membership.rs):
  the status transition, the `was_down` / `was_up` tests that decide the generation bump, the generation increment and
  the `consecutive_failures` arithmetic are TRANSLATED on every check run (`IQE.Gen.MembershipGen`, expression slices of
  the two methods) and proved equal to what the hand model `IQE.Engine.Membership.{recordUp, recordDown}` does — the model
  the C15 theorems are stated over.  Not translated (still hand-modelled): the `BTreeMap` lookup (`get_mut`), the
  `if node_id.is_some()` / `if flight.is_some()` field updates, the clock reading, and the order of the statements.
  `st` reads the translated `PeerStatus` as the model's `Status`.
-/
import IQE.Engine.Membership
import IQE.Gen.MembershipGen
namespace IQE.Props.C15Gen
open IQE IQE.Engine.Membership IQE.Gen.MembershipGen

/-- the model's `Status` is the translated `PeerStatus` (same three variants) -/
theorem C15Gen_status_bijection :
    ∃ (st : PeerStatus → Status) (ts : Status → PeerStatus), (∀ x, ts (st x) = x) ∧ (∀ y, st (ts y) = y) ∧
      st .Unknown = .unknown ∧ st .Up = .up ∧ st .Down = .down :=
  ⟨fun | .Unknown => .unknown | .Up => .up | .Down => .down, fun | .unknown => .Unknown | .up => .Up | .down => .Down,
   fun x => by cases x <;> rfl, fun y => by cases y <;> rfl, rfl, rfl, rfl⟩

/-- `record_up` on a known peer: the translated pieces are exactly the model's update of that peer and of the generation.
    `P` is the translated status of the peer before the call, `p` the model record with the same status. -/
theorem C15Gen_record_up_step {α : Type} [DecidableEq α] (s : State α) (a : α) (nodeId flight : Option Nat) (p : PeerRec)
    (P : PeerStatus) (hl : lookup a s.peers = some p)
    (hP : p.status = (match P with | .Unknown => Status.unknown | .Up => .up | .Down => .down)) :
    let s' := recordUp s a nodeId flight
    s'.generation = (if up_was_down P then up_generation s.generation else s.generation) ∧
    s'.peers = modify a (fun q => { q with
        status := (match up_status with | .Unknown => Status.unknown | .Up => .up | .Down => .down),
        seen := true, lastError := none, fails := up_failures.toNat,
        nodeId := if nodeId.isSome then nodeId else q.nodeId,
        flight := if flight.isSome then flight else q.flight }) s.peers := by
  cases P <;> simp_all [recordUp, up_was_down, up_generation, up_status, up_failures]

/-- `record_down` on a known peer, likewise; the failure counter saturates at `u32::MAX` in both -/
theorem C15Gen_record_down_step {α : Type} [DecidableEq α] (s : State α) (a : α) (err : Nat) (p : PeerRec)
    (P : PeerStatus) (hl : lookup a s.peers = some p)
    (hP : p.status = (match P with | .Unknown => Status.unknown | .Up => .up | .Down => .down)) :
    let s' := recordDown s a err
    s'.generation = (if down_was_up P then down_generation s.generation else s.generation) ∧
    s'.peers = modify a (fun q => { q with
        status := (match down_status with | .Unknown => Status.unknown | .Up => .up | .Down => .down),
        lastError := some err, fails := (down_failures q.fails).toNat }) s.peers := by
  have hf : ∀ n : Nat, (down_failures (n : Int)).toNat = Nat.min (n + 1) 4294967295 := by
    intro n
    have hm : Rs.U32_MAX = 4294967295 := by simp [Rs.U32_MAX]
    unfold down_failures Rs.satAddU
    rw [hm]
    by_cases h : (n : Int) + 1 ≤ 4294967295
    · rw [if_pos h]; simp only [Nat.min_def]; split <;> omega
    · rw [if_neg h]; simp only [Nat.min_def]; split <;> omega
  cases P <;> simp_all [recordDown, down_was_up, down_generation, down_status]

/-- the translated counter stays a `u32`, and the generation bump cannot wrap below 2^64 - 1 bumps -/
theorem C15Gen_inRange (f g : Int) (hf : 0 ≤ f ∧ f ≤ Rs.U32_MAX) (hg : 0 ≤ g ∧ g < Rs.U64_MAX) :
    0 ≤ down_failures f ∧ down_failures f ≤ Rs.U32_MAX ∧ down_failures_inRange f ∧
    up_generation_inRange g ∧ down_generation_inRange g := by
  simp only [down_failures, Rs.satAddU, down_failures_inRange, up_generation_inRange, down_generation_inRange,
    Rs.U32_MAX, Rs.U64_MAX] at *
  refine ⟨?_, ?_, trivial, ?_, ?_⟩ <;> (try split) <;> omega

example : up_was_down .Unknown = true ∧ up_was_down .Down = true ∧ up_was_down .Up = false := by decide
example : down_was_up .Up = true ∧ down_was_up .Unknown = false := by decide
example : down_failures 4294967295 = 4294967295 ∧ down_failures 7 = 8 := by decide

end IQE.Props.C15Gen
