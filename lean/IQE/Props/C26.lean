/-
  C26 — window functions match their SQL definition.

  Model: IQE.Engine.Window (mirror of src/physical/operators/window.rs; the ROWS arm of `frame_range` is the TRANSLATED
  `rows_start` / `rows_end` / `frame_clip` of IQE.Gen.Window).  Reference: IQE.Spec.Window (declarative: per row its
  partition, the rows before it, its peers, its frame).

  The theorems are stated for ONE ordered partition `l` (the rows of a partition in window order, positions 0 … |l|-1;
  `SortedTies le eq l`: sorted under the total preorder `le`, `eq` decides ties).  That the engine's single permutation sort
  by (partition keys, order keys) makes every partition a contiguous, ordered slice is tied by correspondence only.
-/
import IQE.Lemmas.WindowFrames
import IQE.Lemmas.WindowFuncs
import IQE.Lemmas.WindowPeers
import IQE.Lemmas.KeyOrder
import IQE.Lemmas.WindowNtile
namespace IQE.Props.C26
open IQE IQE.Spec IQE.Engine.Window
open IQE.Lemmas.WindowFrames IQE.Lemmas.WindowFuncs IQE.Lemmas.WindowPeers IQE.Lemmas.KeyOrder IQE.Lemmas.Sorting

/-! ### ranking functions (peer ranges) -/

/-- RANK: the peer range of row `p` starts right after the rows that sort strictly before it, so
    `peers[peer_of[i]].start − part.start + 1` is one plus the number of rows strictly before the row. -/
theorem C26_rank {α : Type} [Inhabited α] (le eq : α → α → Bool) (l : List α) (h : SortedTies le eq l) (p : Nat) (hp : p < l.length) :
    peerStart eq l p + 1 = (l.filter (fun x => le x (l.getD p default) && !le (l.getD p default) x)).length + 1 := by
  rw [peerStart_eq_countP_lt h p hp, List.countP_eq_length_filter]

/-- CUME_DIST: the peer range of row `p` ends after exactly the rows that sort before or with it:
    `(peers[peer_of[i]].end − part.start) / rows` is the fraction of rows `≤` the row. -/
theorem C26_cume_dist {α : Type} [Inhabited α] (le eq : α → α → Bool) (l : List α) (h : SortedTies le eq l) (p : Nat) (hp : p < l.length) :
    peerEnd eq l p = (l.filter (fun x => le x (l.getD p default))).length ∧ 0 < peerEnd eq l p ∧ peerEnd eq l p ≤ l.length := by
  refine ⟨?_, ?_, (peerEnd_spec h p hp).2.1⟩
  · rw [peerEnd_eq_countP_le h p hp, List.countP_eq_length_filter]
  · have := (peerEnd_spec h p hp).1; omega

/-- PERCENT_RANK = (RANK − 1) / (rows − 1): same numerator as the reference (rows strictly before), never above `rows − 1`;
    both sides return 0 for a single-row partition by the same test `rows ≤ 1`. -/
theorem C26_percent_rank {α : Type} [Inhabited α] (le eq : α → α → Bool) (l : List α) (h : SortedTies le eq l) (p : Nat) (hp : p < l.length) :
    peerStart eq l p = (l.filter (fun x => le x (l.getD p default) && !le (l.getD p default) x)).length ∧
    peerStart eq l p ≤ l.length - 1 := by
  refine ⟨by rw [peerStart_eq_countP_lt h p hp, List.countP_eq_length_filter], ?_⟩
  have := peerStart_le (eq := eq) (l := l) p
  omega

/-- DENSE_RANK: one plus the number of peer boundaries of the partition up to row `p` (`dense += 1` whenever `peer_of[i]`
    changes) is one plus the number of distinct tie classes among the rows that sort strictly before row `p` — the declarative
    `Spec.Win.distinctKeys` count (`distinctBy` with the comparator's tie test is that function: `C26_distinctKeys_is_distinctBy`). -/
theorem C26_dense_rank {α : Type} [Inhabited α] (le eq : α → α → Bool) (l : List α) (h : SortedTies le eq l) (p : Nat) (hp : p < l.length) :
    boundariesIn eq l 0 p + 1 =
      (distinctBy eq (l.filter (fun x => le x (l.getD p default) && !le (l.getD p default) x))).length + 1 := by
  have hsp := peerStart_le (eq := eq) (l := l) p
  rw [boundariesIn_eq_distinct h p hp]
  congr 3
  symm
  apply filter_eq_take_of_prefix _ l (peerStart eq l p) (by omega)
  · intro j hj hjs
    have := lt_of_lt_peerStart h p hp j hjs
    rw [getD_eq l j hj] at this
    rw [this.1, this.2]; rfl
  · intro j hj hjs
    have hge : le (l.getD p default) (l.getD j default) = true := by
      by_cases hjp : j ≤ p
      · exact (peerStart_tied h p j hjs hjp).2
      · exact h.le_of_le p j (by omega) hj
    rw [getD_eq l j hj] at hge
    rw [hge]; simp

theorem C26_distinctKeys_is_distinctBy (fo : FloatOps) (flags : List (Bool × Bool)) (ks : List (List Val)) :
    Win.distinctKeys fo flags ks = distinctBy (fun a b => cmpKeys fo flags a b == .eq) ks := by
  induction ks with
  | nil => rfl
  | cons k ks ih =>
    simp only [Win.distinctKeys, distinctBy, ih]
    congr 1

/-- the tie test the engine uses (equal key vectors) IS the tie of the lawful ORDER BY comparator, for rows of one partition -/
theorem C26_peerEq_is_tie (flags : List (Bool × Bool)) (a b : SRow) (hpk : a.pk = b.pk)
    (ha : a.ok.length = flags.length) (hb : b.ok.length = flags.length) :
    peerEq a b = (leT flags a.ok b.ok && leT flags b.ok a.ok) := by
  rw [tied_iff_eq flags a.ok b.ok ha hb]
  simp only [peerEq, hpk, beq_self_eq_true, Bool.true_and]
  by_cases h : a.ok = b.ok <;> simp [h]

/-- ROW_NUMBER: along the window order of a partition of `m` rows the engine assigns 1, 2, …, m — a bijection onto 1 … m
    that is increasing in the order (whatever order the sort gave to peers: that choice is the relation K allows). -/
theorem C26_row_number (ps m : Nat) : (List.range' ps m).map (fun i => i - ps + 1) = List.range' 1 m :=
  row_numbers ps m

/-- NTILE(b): for every position `p` of a partition of `n` rows the engine's closed formula (`size = n / b`, `rem = n % b`,
    `big = rem·(size+1)`: `p+1` if `size = 0`, `p/(size+1)+1` if `p < big`, else `rem + (p−big)/size + 1`) is the bucket the
    declarative definition assigns: the first `n % b` buckets hold `n / b + 1` rows, the others `n / b`. -/
theorem C26_ntile (n b p : Nat) (hb : 0 < b) (hp : p < n) :
    (Win.ntileBuckets n b).getD p 0 =
      (if n / b == 0 then p + 1 else if p < n % b * (n / b + 1) then p / (n / b + 1) + 1 else n % b + (p - n % b * (n / b + 1)) / (n / b) + 1) :=
  IQE.Lemmas.WindowNtile.ntile_eq n b p hb hp

/-! ### frames -/

/-- ROWS frames, over the TRANSLATED `rows_start` / `rows_end` / `frame_clip`: for every combination of bound kinds, for
    every row `i` of the partition `[ps, pe)`, a row `q` of the partition lies in the computed index range iff it satisfies the
    declarative "a PRECEDING … b FOLLOWING" conditions; the range lies inside the partition and may be empty.  Since
    2f0b366 (`saturating_add`) the only side condition is that positions fit `usize`. -/
theorem C26_frame_rows (bs be : FrameBound) (ps pe i : Nat) (hi1 : ps ≤ i) (hi2 : i < pe)
    (hs : bs ≠ .unboundedFollowing) (he : be ≠ .unboundedPreceding) (hU : (pe : Int) ≤ Rs.USIZE_MAX) :
    let r := Gen.Window.frame_clip (Gen.Window.rows_start (toGenBound bs) i ps pe) (Gen.Window.rows_end (toGenBound be) i ps pe) ps pe
    (∀ q : Nat, ps ≤ q → q < pe → ((r.1 ≤ (q : Int) ∧ (q : Int) < r.2) ↔ (startP bs (i - ps) (q - ps) ∧ endP be (i - ps) (q - ps)))) ∧
    (ps : Int) ≤ r.1 ∧ r.1 ≤ r.2 ∧ (r.1 < r.2 → r.2 ≤ pe) := by
  intro r
  have hwf := clip_wf (Gen.Window.rows_start (toGenBound bs) i ps pe) (Gen.Window.rows_end (toGenBound be) i ps pe) ps pe (by omega)
  exact ⟨fun q hq1 hq2 => frame_rows_mem bs be ps pe i hi1 hs he q hq1 hq2 hU, hwf.1, hwf.2.1, hwf.2.2⟩

/-- … and that index range, cut out of the ordered partition, is the reference semantics' frame `Spec.Win.frameOf`. -/
theorem C26_frame_rows_spec (fo : FloatOps) (flags : List (Bool × Bool)) (order : List SortKey) (bs be : FrameBound)
    (ord : List Win.Info) (p : Nat) (cur : Win.Info)
    (hs : bs ≠ .unboundedFollowing) (he : be ≠ .unboundedPreceding) (hU : (ord.length : Int) ≤ Rs.USIZE_MAX) :
    Win.frameOf fo flags order { units := .rows, start := bs, stop := be } ord p cur =
      .ok ((ord.drop (Gen.Window.frame_clip (Gen.Window.rows_start (toGenBound bs) p 0 ord.length) (Gen.Window.rows_end (toGenBound be) p 0 ord.length) 0 ord.length).1.toNat).take
        ((Gen.Window.frame_clip (Gen.Window.rows_start (toGenBound bs) p 0 ord.length) (Gen.Window.rows_end (toGenBound be) p 0 ord.length) 0 ord.length).2.toNat -
         (Gen.Window.frame_clip (Gen.Window.rows_start (toGenBound bs) p 0 ord.length) (Gen.Window.rows_end (toGenBound be) p 0 ord.length) 0 ord.length).1.toNat)) :=
  frameOf_rows fo flags order bs be ord p cur hs he hU

/-- RANGE frames — partial.  Proved: with UNBOUNDED / CURRENT ROW bounds the frame is made of whole peer groups — a row `j` is
    at or after `peer.start` iff it does not sort strictly before row `p`, and before `peer.end` iff it does not sort strictly
    after it (the declarative `cmp ≠ lt` / `cmp ≠ gt` tests of `Spec.Win.startKeeps/endKeeps`).  NOT proved: the two scanning
    loops of the numeric-offset bounds (`range_offset_bound` / `range_offset_end`); they are modelled, compared with the
    implementation on every generated case (K), with the declarative frame (O) and were cross-checked against SQLite 3.40;
    keys beyond 2^53 (the code's `as f64`) are a named gap. -/
theorem C26_frame_range_partial {α : Type} [Inhabited α] (le eq : α → α → Bool) (l : List α) (h : SortedTies le eq l) (p : Nat) (hp : p < l.length)
    (j : Nat) (hj : j < l.length) :
    (peerStart eq l p ≤ j ↔ le (l.getD p default) (l.getD j default) = true) ∧
    (j < peerEnd eq l p ↔ le (l.getD j default) (l.getD p default) = true) := by
  obtain ⟨e1, e2, e3, e4⟩ := peerEnd_spec h p hp
  have hsp := peerStart_le (eq := eq) (l := l) p
  constructor
  · constructor
    · intro hge
      by_cases hjp : j ≤ p
      · exact (peerStart_tied h p j hge hjp).2
      · exact h.le_of_le p j (by omega) hj
    · intro hle
      by_cases hlt : j < peerStart eq l p
      · have := (lt_of_lt_peerStart h p hp j hlt).2
        rw [hle] at this; cases this
      · omega
  · constructor
    · intro hlt
      by_cases hjp : j ≤ p
      · exact h.le_of_le j p hjp hp
      · exact (e3 j (by omega) hlt).2
    · intro hle
      by_cases hge : peerEnd eq l p ≤ j
      · rcases e4 with hend | hb
        · omega
        · have h1 := h.le_of_le (peerEnd eq l p) j hge hj
          have h2 := (e3 (peerEnd eq l p - 1) (by omega) (by omega)).1
          have := h.trans _ _ _ (h.trans _ _ _ h1 hle) h2
          rw [hb] at this; cases this
      · omega

/-! ### aggregates over a frame -/

/-- COUNT / SUM by prefix sums = the aggregate over the frame slice `[s, e)`, for every range including the empty one:
    `prefix[e] − prefix[s]` is the slice sum; for COUNT(*) / COUNT(x) that is the reference `aggVal` (row count / non-NULL count,
    0 on an empty frame); for an integer SUM it is the value the reference fold returns whenever that fold succeeds
    (the reference reports i64 overflow as an error: engine-defined). -/
theorem C26_frame_agg (fo : FloatOps) (rows : List SRow) (s e : Nat) (hse : s ≤ e) (he : e ≤ rows.length) (star : Bool) :
    let slice := (rows.drop s).take (e - s)
    let pre := prefixes (0 : Int) (fun acc r => acc + (if star || !(arg0 r).isNull then 1 else 0)) rows
    aggVal fo (if star then .countStar else .count) false slice.length (slice.map arg0) = .ok (.int (pre.getD e 0 - pre.getD s 0)) ∧
    (∀ (f : SRow → Int), (prefixes (0 : Int) (fun acc r => acc + f r) rows).getD e 0 - (prefixes (0 : Int) (fun acc r => acc + f r) rows).getD s 0 =
        (slice.map f).sum) ∧
    (∀ (i : Int) (is : List Int) (v : Val), sumVals fo ((i :: is).map Val.int) = .ok v → v = .int ((i :: is).sum)) ∧
    sumVals fo [] = .ok .null := by
  intro slice pre
  refine ⟨?_, fun f => prefix_diff_eq_slice_sum f rows s e hse he, ?_, rfl⟩
  · have h1 := prefix_diff_eq_slice_sum (fun r => (if star || !(arg0 r).isNull then 1 else 0 : Int)) rows s e hse he
    have h2 := count_slice star slice
    show aggVal fo (if star then .countStar else .count) false slice.length (slice.map arg0) = .ok (.int (pre.getD e 0 - pre.getD s 0))
    rw [show pre.getD e 0 - pre.getD s 0 = _ from h1, h2]
    cases star <;> simp [aggVal]
  · intro i is v hv
    simp only [List.map_cons, sumVals] at hv
    have hfold : (is.map Val.int).foldlM (fun acc x => Val.arith fo .add acc x) (Val.int i) =
        is.foldlM (fun acc x => Val.arith fo .add acc (.int x)) (Val.int i) := by
      rw [List.foldlM_map]
    rw [hfold] at hv
    rw [sumVals_ints fo i is v hv, List.sum_cons]

/-! ### navigation -/

/-- LAG / LEAD: the engine's source index (`i ± offset`, tested against the partition bounds) picks the row the reference
    picks (`ord[p ± offset]?` on the partition slice); outside the partition both fall back to the default. -/
theorem C26_lag_lead (sorted : List SRow) (ps pe i off : Nat) (hps : ps ≤ i) (hi : i < pe) (hpe : pe ≤ sorted.length) :
    (if i + off < pe then some (sorted.getD (i + off) default) else none) = ((sorted.drop ps).take (pe - ps))[i - ps + off]? ∧
    (if off ≤ i ∧ ps ≤ i - off then some (sorted.getD (i - off) default) else none) =
      (if off ≤ i - ps then ((sorted.drop ps).take (pe - ps))[i - ps - off]? else none) :=
  ⟨lead_index sorted ps pe i off hps hi hpe, lag_index sorted ps pe i off hps hi hpe⟩

/-- FIRST_VALUE / LAST_VALUE / NTH_VALUE over the frame range `[s, e)`: `f.start`, `f.end − 1`, `f.start + (k − 1)` (if inside)
    are the head, the last and the k-th row of the frame slice; an empty range gives an empty frame (NULL). -/
theorem C26_first_last_nth (sorted : List SRow) (s e k : Nat) (hk : 0 < k) (he : e ≤ sorted.length) :
    (s < e → ((sorted.drop s).take (e - s)).head? = some (sorted.getD s default) ∧
             ((sorted.drop s).take (e - s)).getLast? = some (sorted.getD (e - 1) default)) ∧
    ((sorted.drop s).take (e - s))[k - 1]? = (if s + (k - 1) < e then some (sorted.getD (s + (k - 1)) default) else none) ∧
    (e ≤ s → (sorted.drop s).take (e - s) = []) :=
  ⟨fun hse => ⟨first_of_slice sorted s e hse he, last_of_slice sorted s e hse he⟩, nth_of_slice sorted s e k hk he, empty_slice sorted s e⟩

/-! ### scatter -/

/-- The value computed at sorted position `i` lands on the original row `indices[i]` (for any permutation `indices`), and the
    Window node's output keeps every input column of every row unchanged, in input order, followed by one column per call. -/
theorem C26_scatter (indices : List Nat) (vals : List Val) (n : Nat) (hnd : indices.Nodup) (i : Nat) (hi : i < indices.length)
    (hlt : indices[i] < n) (rows : Table) (cols : List (List Val)) (r : Nat) (hr : r < rows.length) :
    ((List.range n).map (fun orig => vals.getD (indices.idxOf orig) .null)).getD indices[i] .null = vals.getD i .null ∧
    (Win.appendCols rows cols).length = rows.length ∧
    ((Win.appendCols rows cols).getD r []).take (rows.getD r []).length = rows.getD r [] ∧
    ((Win.appendCols rows cols).getD r []).drop (rows.getD r []).length = cols.map (fun col => col.getD r .null) :=
  ⟨scatter_getD indices vals n hnd i hi hlt, appendCols_spec rows cols r hr⟩

/-! ### non-vacuity and the (repaired) deviations -/

def fo0 : FloatOps := ⟨fun a _ => a, fun a _ => a, fun a _ => a, fun a _ => a, id, fun _ => ⟨0⟩, fun _ => none⟩

/-- COUNT(*) OVER (ORDER BY k NULLS LAST RANGE BETWEEN 5 FOLLOWING AND UNBOUNDED FOLLOWING) over k = 1, 2, NULL (in window order) -/
def wF1 : WinCall := { fn := .agg .countStar, args := [], partition := [], order := [{ e := .col 0 }],
                       frame := some { units := .range, start := .following 5, stop := .unboundedFollowing } }
def rowsF1 : List SRow := [⟨[], [.int 1], []⟩, ⟨[], [.int 2], []⟩, ⟨[], [.null], []⟩]
def ordF1 : List Win.Info := [⟨0, [], [.int 1], []⟩, ⟨1, [], [.int 2], []⟩, ⟨2, [], [.null], []⟩]

/-- C26-F1 (fixed by 71f6bb2): the reference frame of the row k = 1 is the NULL peer group … -/
example : (Win.valueAt fo0 wF1 ordF1 0 ⟨0, [], [.int 1], []⟩).toOption = some (.int 1) := by decide
/-- … the model with all switches off agrees, the model with `rangeNullSkip` (the code before the fix) returns 0 -/
example : (evaluateWith fo0 {} wF1 rowsF1 [0, 1, 2]).toOption = some [.int 1, .int 1, .int 1] := by decide
example : (evaluateWith fo0 { rangeNullSkip := true } wF1 rowsF1 [0, 1, 2]).toOption = some [.int 0, .int 0, .int 1] := by decide

/-- C26-F2 (fixed by 2f0b366): ROWS BETWEEN CURRENT ROW AND 18446744073709551615 FOLLOWING -/
def wF2 : WinCall := { fn := .agg .countStar, args := [], partition := [], order := [{ e := .col 0 }],
                       frame := some { units := .rows, start := .currentRow, stop := .following 18446744073709551615 } }
example : (evaluateWith fo0 {} wF2 rowsF1 [0, 1, 2]).toOption = some [.int 3, .int 2, .int 1] := by decide
example : (match evaluateWith fo0 { followingOverflow := true } wF2 rowsF1 [0, 1, 2] with | .error (.panic _) => true | _ => false) = true := by decide

/-- a ROWS frame that is empty at the first row: `ROWS BETWEEN 2 PRECEDING AND 1 PRECEDING` (hypotheses of C26_frame_rows hold) -/
example : Gen.Window.frame_clip (Gen.Window.rows_start (toGenBound (.preceding 2)) 0 0 3) (Gen.Window.rows_end (toGenBound (.preceding 1)) 0 0 3) 0 3 = (0, 0) := by decide
example : Gen.Window.frame_clip (Gen.Window.rows_start (toGenBound (.preceding 2)) 2 0 3) (Gen.Window.rows_end (toGenBound (.preceding 1)) 2 0 3) 0 3 = (0, 2) := by decide

/-- peer ranges over keys 1, 1, 2 with `le` on Nat: rows 0 and 1 are peers (RANK 1, 1, 3; CUME_DIST 2/3, 2/3, 1) -/
example : (peerStart (fun a b : Nat => a == b) [1, 1, 2] 1, peerEnd (fun a b : Nat => a == b) [1, 1, 2] 1,
           peerStart (fun a b : Nat => a == b) [1, 1, 2] 2, peerEnd (fun a b : Nat => a == b) [1, 1, 2] 2) = (0, 2, 2, 3) := by decide

end IQE.Props.C26
