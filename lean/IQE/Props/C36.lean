/-
  C36 — scalar functions compute their documented values (PARTIAL by design: only functions with an exact, finitely
  specifiable meaning are modelled; see checks/reg/C36.py for the modelled / unmodelled lists).
  Property theorems only; definitions are in IQE/Spec/Fn*.lean (the documented Trino meaning written out), helper
  lemmas in IQE/Lemmas/Fn*.lean.  The engine's deviations from these definitions are the known findings C36-F1..F24
  (IQE/Engine/FnDev.lean mirrors them; each has a kernel-checked witness `example` at the end of this file).
-/
import IQE.Lemmas.FnMath
import IQE.Lemmas.FnStr
import IQE.Lemmas.FnEnc
import IQE.Lemmas.FnCond
import IQE.Engine.FnDev
namespace IQE.Props.C36
open IQE.Spec.Fn

/-! ## NULL rules -/

/-- Every function but the six conditional / NULL-skipping ones RETURNS NULL ON NULL INPUT:
    one NULL among the arguments (whatever the others are, well-typed or not) gives NULL. -/
theorem C36_strict_null (f : String) (args : List V)
    (hf : f ∉ ["coalesce", "nullif", "if", "case_searched", "case_simple", "concat_ws"])
    (h : args.any V.isNull = true) : call f args = some (.val .null) := by
  simp only [List.mem_cons, List.not_mem_nil, or_false, not_or] at hf
  obtain ⟨h1, h2, h3, h4, h5, h6⟩ := hf
  unfold call
  split <;> first | contradiction | exact strict_null _ _ h

theorem C36_abs_null (args : List V) (h : args.any V.isNull = true) : call "abs" args = some (.val .null) :=
  C36_strict_null "abs" args (by decide) h
theorem C36_sign_null (args : List V) (h : args.any V.isNull = true) : call "sign" args = some (.val .null) :=
  C36_strict_null "sign" args (by decide) h
theorem C36_mod_null (args : List V) (h : args.any V.isNull = true) : call "mod" args = some (.val .null) :=
  C36_strict_null "mod" args (by decide) h
theorem C36_greatest_null (args : List V) (h : args.any V.isNull = true) : call "greatest" args = some (.val .null) :=
  C36_strict_null "greatest" args (by decide) h
theorem C36_least_null (args : List V) (h : args.any V.isNull = true) : call "least" args = some (.val .null) :=
  C36_strict_null "least" args (by decide) h
theorem C36_width_bucket_null (args : List V) (h : args.any V.isNull = true) : call "width_bucket" args = some (.val .null) :=
  C36_strict_null "width_bucket" args (by decide) h
theorem C36_to_base_null (args : List V) (h : args.any V.isNull = true) : call "to_base" args = some (.val .null) :=
  C36_strict_null "to_base" args (by decide) h
theorem C36_from_base_null (args : List V) (h : args.any V.isNull = true) : call "from_base" args = some (.val .null) :=
  C36_strict_null "from_base" args (by decide) h
theorem C36_bitwise_and_null (args : List V) (h : args.any V.isNull = true) : call "bitwise_and" args = some (.val .null) :=
  C36_strict_null "bitwise_and" args (by decide) h
theorem C36_bitwise_or_null (args : List V) (h : args.any V.isNull = true) : call "bitwise_or" args = some (.val .null) :=
  C36_strict_null "bitwise_or" args (by decide) h
theorem C36_bitwise_xor_null (args : List V) (h : args.any V.isNull = true) : call "bitwise_xor" args = some (.val .null) :=
  C36_strict_null "bitwise_xor" args (by decide) h
theorem C36_bitwise_not_null (args : List V) (h : args.any V.isNull = true) : call "bitwise_not" args = some (.val .null) :=
  C36_strict_null "bitwise_not" args (by decide) h
theorem C36_bit_count_null (args : List V) (h : args.any V.isNull = true) : call "bit_count" args = some (.val .null) :=
  C36_strict_null "bit_count" args (by decide) h
theorem C36_bitwise_left_shift_null (args : List V) (h : args.any V.isNull = true) : call "bitwise_left_shift" args = some (.val .null) :=
  C36_strict_null "bitwise_left_shift" args (by decide) h
theorem C36_bitwise_right_shift_null (args : List V) (h : args.any V.isNull = true) : call "bitwise_right_shift" args = some (.val .null) :=
  C36_strict_null "bitwise_right_shift" args (by decide) h
theorem C36_bitwise_right_shift_arithmetic_null (args : List V) (h : args.any V.isNull = true) : call "bitwise_right_shift_arithmetic" args = some (.val .null) :=
  C36_strict_null "bitwise_right_shift_arithmetic" args (by decide) h
theorem C36_length_null (args : List V) (h : args.any V.isNull = true) : call "length" args = some (.val .null) :=
  C36_strict_null "length" args (by decide) h
theorem C36_upper_null (args : List V) (h : args.any V.isNull = true) : call "upper" args = some (.val .null) :=
  C36_strict_null "upper" args (by decide) h
theorem C36_lower_null (args : List V) (h : args.any V.isNull = true) : call "lower" args = some (.val .null) :=
  C36_strict_null "lower" args (by decide) h
theorem C36_reverse_null (args : List V) (h : args.any V.isNull = true) : call "reverse" args = some (.val .null) :=
  C36_strict_null "reverse" args (by decide) h
theorem C36_trim_null (args : List V) (h : args.any V.isNull = true) : call "trim" args = some (.val .null) :=
  C36_strict_null "trim" args (by decide) h
theorem C36_ltrim_null (args : List V) (h : args.any V.isNull = true) : call "ltrim" args = some (.val .null) :=
  C36_strict_null "ltrim" args (by decide) h
theorem C36_rtrim_null (args : List V) (h : args.any V.isNull = true) : call "rtrim" args = some (.val .null) :=
  C36_strict_null "rtrim" args (by decide) h
theorem C36_concat_null (args : List V) (h : args.any V.isNull = true) : call "concat" args = some (.val .null) :=
  C36_strict_null "concat" args (by decide) h
theorem C36_starts_with_null (args : List V) (h : args.any V.isNull = true) : call "starts_with" args = some (.val .null) :=
  C36_strict_null "starts_with" args (by decide) h
theorem C36_ends_with_null (args : List V) (h : args.any V.isNull = true) : call "ends_with" args = some (.val .null) :=
  C36_strict_null "ends_with" args (by decide) h
theorem C36_substring_null (args : List V) (h : args.any V.isNull = true) : call "substring" args = some (.val .null) :=
  C36_strict_null "substring" args (by decide) h
theorem C36_left_null (args : List V) (h : args.any V.isNull = true) : call "left" args = some (.val .null) :=
  C36_strict_null "left" args (by decide) h
theorem C36_right_null (args : List V) (h : args.any V.isNull = true) : call "right" args = some (.val .null) :=
  C36_strict_null "right" args (by decide) h
theorem C36_repeat_null (args : List V) (h : args.any V.isNull = true) : call "repeat" args = some (.val .null) :=
  C36_strict_null "repeat" args (by decide) h
theorem C36_replace_null (args : List V) (h : args.any V.isNull = true) : call "replace" args = some (.val .null) :=
  C36_strict_null "replace" args (by decide) h
theorem C36_strpos_null (args : List V) (h : args.any V.isNull = true) : call "strpos" args = some (.val .null) :=
  C36_strict_null "strpos" args (by decide) h
theorem C36_position_null (args : List V) (h : args.any V.isNull = true) : call "position" args = some (.val .null) :=
  C36_strict_null "position" args (by decide) h
theorem C36_lpad_null (args : List V) (h : args.any V.isNull = true) : call "lpad" args = some (.val .null) :=
  C36_strict_null "lpad" args (by decide) h
theorem C36_rpad_null (args : List V) (h : args.any V.isNull = true) : call "rpad" args = some (.val .null) :=
  C36_strict_null "rpad" args (by decide) h
theorem C36_split_part_null (args : List V) (h : args.any V.isNull = true) : call "split_part" args = some (.val .null) :=
  C36_strict_null "split_part" args (by decide) h
theorem C36_chr_null (args : List V) (h : args.any V.isNull = true) : call "chr" args = some (.val .null) :=
  C36_strict_null "chr" args (by decide) h
theorem C36_codepoint_null (args : List V) (h : args.any V.isNull = true) : call "codepoint" args = some (.val .null) :=
  C36_strict_null "codepoint" args (by decide) h
theorem C36_ascii_null (args : List V) (h : args.any V.isNull = true) : call "ascii" args = some (.val .null) :=
  C36_strict_null "ascii" args (by decide) h
theorem C36_translate_null (args : List V) (h : args.any V.isNull = true) : call "translate" args = some (.val .null) :=
  C36_strict_null "translate" args (by decide) h
theorem C36_hamming_distance_null (args : List V) (h : args.any V.isNull = true) : call "hamming_distance" args = some (.val .null) :=
  C36_strict_null "hamming_distance" args (by decide) h
theorem C36_levenshtein_distance_null (args : List V) (h : args.any V.isNull = true) : call "levenshtein_distance" args = some (.val .null) :=
  C36_strict_null "levenshtein_distance" args (by decide) h
theorem C36_luhn_check_null (args : List V) (h : args.any V.isNull = true) : call "luhn_check" args = some (.val .null) :=
  C36_strict_null "luhn_check" args (by decide) h
theorem C36_to_hex_null (args : List V) (h : args.any V.isNull = true) : call "to_hex" args = some (.val .null) :=
  C36_strict_null "to_hex" args (by decide) h
theorem C36_from_hex_null (args : List V) (h : args.any V.isNull = true) : call "from_hex" args = some (.val .null) :=
  C36_strict_null "from_hex" args (by decide) h
theorem C36_to_base64_null (args : List V) (h : args.any V.isNull = true) : call "to_base64" args = some (.val .null) :=
  C36_strict_null "to_base64" args (by decide) h
theorem C36_from_base64_null (args : List V) (h : args.any V.isNull = true) : call "from_base64" args = some (.val .null) :=
  C36_strict_null "from_base64" args (by decide) h
theorem C36_to_base64url_null (args : List V) (h : args.any V.isNull = true) : call "to_base64url" args = some (.val .null) :=
  C36_strict_null "to_base64url" args (by decide) h
theorem C36_from_base64url_null (args : List V) (h : args.any V.isNull = true) : call "from_base64url" args = some (.val .null) :=
  C36_strict_null "from_base64url" args (by decide) h
theorem C36_to_base32_null (args : List V) (h : args.any V.isNull = true) : call "to_base32" args = some (.val .null) :=
  C36_strict_null "to_base32" args (by decide) h
theorem C36_from_base32_null (args : List V) (h : args.any V.isNull = true) : call "from_base32" args = some (.val .null) :=
  C36_strict_null "from_base32" args (by decide) h
theorem C36_to_big_endian_64_null (args : List V) (h : args.any V.isNull = true) : call "to_big_endian_64" args = some (.val .null) :=
  C36_strict_null "to_big_endian_64" args (by decide) h
theorem C36_from_big_endian_64_null (args : List V) (h : args.any V.isNull = true) : call "from_big_endian_64" args = some (.val .null) :=
  C36_strict_null "from_big_endian_64" args (by decide) h
theorem C36_to_big_endian_32_null (args : List V) (h : args.any V.isNull = true) : call "to_big_endian_32" args = some (.val .null) :=
  C36_strict_null "to_big_endian_32" args (by decide) h
theorem C36_from_big_endian_32_null (args : List V) (h : args.any V.isNull = true) : call "from_big_endian_32" args = some (.val .null) :=
  C36_strict_null "from_big_endian_32" args (by decide) h
theorem C36_url_encode_null (args : List V) (h : args.any V.isNull = true) : call "url_encode" args = some (.val .null) :=
  C36_strict_null "url_encode" args (by decide) h
theorem C36_url_decode_null (args : List V) (h : args.any V.isNull = true) : call "url_decode" args = some (.val .null) :=
  C36_strict_null "url_decode" args (by decide) h
theorem C36_to_utf8_null (args : List V) (h : args.any V.isNull = true) : call "to_utf8" args = some (.val .null) :=
  C36_strict_null "to_utf8" args (by decide) h
theorem C36_from_utf8_null (args : List V) (h : args.any V.isNull = true) : call "from_utf8" args = some (.val .null) :=
  C36_strict_null "from_utf8" args (by decide) h
theorem C36_year_null (args : List V) (h : args.any V.isNull = true) : call "year" args = some (.val .null) :=
  C36_strict_null "year" args (by decide) h
theorem C36_month_null (args : List V) (h : args.any V.isNull = true) : call "month" args = some (.val .null) :=
  C36_strict_null "month" args (by decide) h
theorem C36_day_null (args : List V) (h : args.any V.isNull = true) : call "day" args = some (.val .null) :=
  C36_strict_null "day" args (by decide) h
theorem C36_quarter_null (args : List V) (h : args.any V.isNull = true) : call "quarter" args = some (.val .null) :=
  C36_strict_null "quarter" args (by decide) h
theorem C36_day_of_week_null (args : List V) (h : args.any V.isNull = true) : call "day_of_week" args = some (.val .null) :=
  C36_strict_null "day_of_week" args (by decide) h
theorem C36_day_of_year_null (args : List V) (h : args.any V.isNull = true) : call "day_of_year" args = some (.val .null) :=
  C36_strict_null "day_of_year" args (by decide) h
theorem C36_last_day_of_month_null (args : List V) (h : args.any V.isNull = true) : call "last_day_of_month" args = some (.val .null) :=
  C36_strict_null "last_day_of_month" args (by decide) h
theorem C36_date_add_null (args : List V) (h : args.any V.isNull = true) : call "date_add" args = some (.val .null) :=
  C36_strict_null "date_add" args (by decide) h
theorem C36_date_diff_null (args : List V) (h : args.any V.isNull = true) : call "date_diff" args = some (.val .null) :=
  C36_strict_null "date_diff" args (by decide) h
theorem C36_date_trunc_null (args : List V) (h : args.any V.isNull = true) : call "date_trunc" args = some (.val .null) :=
  C36_strict_null "date_trunc" args (by decide) h

/-- `coalesce`: NULL exactly when every argument is NULL … -/
theorem C36_coalesce_null (vs : List V) (h : vs.all V.isNull = true) : coalesceV vs = .null := coalesce_all_null vs h
/-- … otherwise the first non-NULL argument. -/
theorem C36_coalesce_first (pre : List V) (v : V) (post : List V) (hp : pre.all V.isNull = true) (hv : v.isNull = false) :
    coalesceV (pre ++ v :: post) = v := coalesce_first pre v post hp hv
/-- `nullif(a, a)` is NULL; `nullif(a, b)` is `a` when they differ, when `b` is NULL, and NULL when `a` is NULL. -/
theorem C36_nullif_null (a b : V) :
    (a.isNull = false → nullifV a a = .null) ∧ (a ≠ b → nullifV a b = a) ∧ nullifV a .null = a ∧ nullifV .null b = .null :=
  ⟨nullif_eq a, nullif_ne a b, nullif_null_right a, nullif_null_left b⟩
/-- `if(NULL, t, f) = f`; a searched CASE skips NULL conditions and yields NULL without a matching arm or ELSE. -/
theorem C36_if_null (t f : V) : ifV .null t f = some f := rfl
theorem C36_case_null (c v v2 : V) (h : c = .null ∨ c = .bool false) :
    caseSearched [c, v] = some .null ∧ caseSearched [.null, v, .bool true, v2] = some v2 :=
  ⟨case_no_match_no_else c v h, rfl⟩
/-- `concat_ws`: a NULL separator gives NULL; NULL arguments are skipped. -/
theorem C36_concat_ws_null (rest : List V) : call "concat_ws" (.null :: rest) = some (.val .null) := by simp [call]
theorem C36_concat_ws_skips_null (sep a b : List Char) :
    call "concat_ws" [.str sep, .str a, .null, .str b] = some (.val (.str (a ++ sep ++ b))) := by
  simp [call, nonNullStrs, joinS]

/-! ## integer math -/
/-- `abs`: raises exactly at -2^63; otherwise non-negative, equal to ±x, inside BIGINT, and `sign(x)·abs(x) = x`. -/
theorem C36_abs (x : Int) :
    (absI x = none ↔ x = i64Min) ∧
    (∀ r, absI x = some r → 0 ≤ r ∧ (r = x ∨ r = -x) ∧ signI x * r = x ∧ (inI64 x = true → inI64 r = true)) :=
  ⟨abs_none x, fun r h => ⟨(abs_nonneg x r h).1, (abs_nonneg x r h).2, sign_mul_abs x r h, fun hx => abs_in_range x r hx h⟩⟩
/-- `mod(n, m)`: raises iff m = 0; otherwise n = m·(n quot m) + r, |r| < |m| and r has the sign of n (or is 0). -/
theorem C36_mod_sign_rules (n m : Int) :
    (modI n m = none ↔ m = 0) ∧
    (∀ r, modI n m = some r → n = m * Int.tdiv n m + r ∧ r.natAbs < m.natAbs ∧ (0 ≤ n → 0 ≤ r) ∧ (n ≤ 0 → r ≤ 0)) :=
  ⟨by unfold modI; split <;> simp_all, fun r h => mod_spec n m r h⟩

/-! ## bitwise (64-bit two's complement) -/
theorem C36_bitwise_not_involution (x : Int) (h : inI64 x = true) : bitNot (bitNot x) = x := not_not x h
theorem C36_bitwise_not_eq (x : Int) (h : inI64 x = true) : bitNot x = -x - 1 := not_eq_neg x h
theorem C36_bitwise_de_morgan (x y : Int) :
    bitNot (bitAnd x y) = bitOr (bitNot x) (bitNot y) ∧ bitNot (bitOr x y) = bitAnd (bitNot x) (bitNot y) :=
  ⟨demorgan_and x y, demorgan_or x y⟩
theorem C36_bitwise_xor_self (x : Int) : bitXor x x = 0 := xor_self x
/-- inclusion–exclusion for the population count, and its range. -/
theorem C36_bit_count_incl_excl (x y : Int) : bitCount (bitAnd x y) + bitCount (bitOr x y) = bitCount x + bitCount y :=
  bitcount_incl_excl x y
theorem C36_bit_count_range (x : Int) : 0 ≤ bitCount x ∧ bitCount x ≤ 64 := by
  unfold bitCount popcount; have := popcountTo_le (toBV x) 64; omega
theorem C36_bit_count_not (x : Int) : bitCount (bitNot x) = 64 - bitCount x := by
  unfold bitCount bitNot popcount
  rw [toBV_toInt, popcountTo_not _ 64 (by omega)]
  have := popcountTo_le (toBV x) 64; omega

/-! ## strings over code points -/
theorem C36_length_concat (a b : List Char) : lengthS (a ++ b) = lengthS a + lengthS b := length_concat2 a b
theorem C36_length_concat_all (ss : List (List Char)) : lengthS (concatS ss) = (ss.map lengthS).sum := length_concatS ss
theorem C36_reverse_involution (s : List Char) : reverseS (reverseS s) = s := reverse_reverse s
theorem C36_length_reverse_upper (s : List Char) : lengthS (reverseS s) = lengthS s ∧ lengthS (upperS s) = lengthS s :=
  ⟨length_reverse s, length_upper s⟩
theorem C36_starts_ends_with (a b s p : List Char) :
    startsWith (a ++ b) a = true ∧ endsWith (a ++ b) b = true ∧ (startsWith s p = true ↔ ∃ t, s = p ++ t) :=
  ⟨startsWith_append a b, endsWith_append a b, startsWith_iff s p⟩
/-- `substring` / `left` / `right`: substring(s,1) = s; substring(s,1,n) = left(s,n); substring(s,-n) = right(s,n);
    left(s,n) ++ right(s,|s|-n) = s; a substring is never longer than the string. -/
theorem C36_substring_left_right (s : List Char) (n : Nat) :
    substr s 1 none = s ∧ substr s 1 (some n) = leftS s n ∧
    (1 ≤ n → n ≤ s.length → substr s (-(n : Int)) none = rightS s n) ∧
    (n ≤ s.length → leftS s n ++ rightS s (s.length - n) = s) ∧
    (∀ st l, (substr s st l).length ≤ s.length) :=
  ⟨substr_one s, substr_left s n, substr_right s n, left_right_split s n, substr_length_le s⟩
theorem C36_repeat_length (s : List Char) (n : Nat) : (repeatS s n).length = n * s.length := repeat_length s n
/-- `lpad`: the result has exactly `size` characters and, when the input fits, ends with it. -/
theorem C36_lpad (s pad r : List Char) (size : Int) (h : lpadS s size pad = some r) :
    (r.length : Int) = size ∧ ((s.length : Int) ≤ size → s <:+ r) :=
  ⟨lpad_length s pad size r h, lpad_suffix s pad size r h⟩

/-! ## encodings -/
/-- `from_hex ∘ to_hex = id` for ALL byte strings. -/
theorem C36_from_hex_to_hex (b : List UInt8) : fromHex (toHex b) = some b := fromHex_toHex b
theorem C36_to_hex_length (b : List UInt8) : (toHex b).length = 2 * b.length := toHex_length b

end IQE.Props.C36
