/-
  C36 — scalar functions compute their documented values (PARTIAL by design: only functions with an exact, finitely
  specifiable meaning are modelled; checks/reg/C36.py lists the modelled and the unmodelled functions).
  Property theorems only.  Definitions: IQE/Spec/Fn*.lean — the documented (Trino) meaning written out, with the few
  variants the project's own tests pin (lower-case to_hex, percent-encoding url_encode, NULL for undecodable input).
  Helper lemmas: IQE/Lemmas/Fn*.lean.  The engine's deviations from these definitions are the known findings C36-F*
  (IQE/Engine/FnDev.lean mirrors them); the `example`s at the end are kernel-checked witnesses that the documented value
  on each finding's witness input is not what the engine returns.
-/
import IQE.Lemmas.FnMath
import IQE.Lemmas.FnStr
import IQE.Lemmas.FnStr2
import IQE.Lemmas.FnLev
import IQE.Lemmas.FnMisc
import IQE.Lemmas.FnEnc
import IQE.Lemmas.FnCodec
import IQE.Lemmas.FnEndian
import IQE.Lemmas.FnUrl
import IQE.Lemmas.FnUtf8
import IQE.Lemmas.FnBase
import IQE.Lemmas.FnCond
import IQE.Lemmas.FnDate2
import IQE.Engine.FnDev
namespace IQE.Props.C36
open IQE.Spec.Fn

/-! ## NULL rules -/

/-- Every function but the six conditional / NULL-skipping ones RETURNS NULL ON NULL INPUT:
    one NULL among the arguments (whatever the others are, well-typed or not) gives NULL. -/
theorem C36_strict_null (f : String) (args : List V)
    (hf : f ∉ ["coalesce", "nullif", "if", "case_searched", "case_simple", "concat_ws"])
    (h : args.any V.isNull = true) : call f args = some (.val .null) := by
  simp only [List.mem_cons, List.not_mem_nil, or_false, not_or] at hf
  obtain ⟨h1, h2, h3, h4, h5, h6⟩ := hf
  unfold call
  split <;> first | contradiction | exact strict_null _ _ h

theorem C36_abs_null (args : List V) (h : args.any V.isNull = true) : call "abs" args = some (.val .null) :=
  C36_strict_null "abs" args (by decide) h
theorem C36_sign_null (args : List V) (h : args.any V.isNull = true) : call "sign" args = some (.val .null) :=
  C36_strict_null "sign" args (by decide) h
theorem C36_mod_null (args : List V) (h : args.any V.isNull = true) : call "mod" args = some (.val .null) :=
  C36_strict_null "mod" args (by decide) h
theorem C36_greatest_null (args : List V) (h : args.any V.isNull = true) : call "greatest" args = some (.val .null) :=
  C36_strict_null "greatest" args (by decide) h
theorem C36_least_null (args : List V) (h : args.any V.isNull = true) : call "least" args = some (.val .null) :=
  C36_strict_null "least" args (by decide) h
theorem C36_width_bucket_null (args : List V) (h : args.any V.isNull = true) : call "width_bucket" args = some (.val .null) :=
  C36_strict_null "width_bucket" args (by decide) h
theorem C36_to_base_null (args : List V) (h : args.any V.isNull = true) : call "to_base" args = some (.val .null) :=
  C36_strict_null "to_base" args (by decide) h
theorem C36_from_base_null (args : List V) (h : args.any V.isNull = true) : call "from_base" args = some (.val .null) :=
  C36_strict_null "from_base" args (by decide) h
theorem C36_bitwise_and_null (args : List V) (h : args.any V.isNull = true) : call "bitwise_and" args = some (.val .null) :=
  C36_strict_null "bitwise_and" args (by decide) h
theorem C36_bitwise_or_null (args : List V) (h : args.any V.isNull = true) : call "bitwise_or" args = some (.val .null) :=
  C36_strict_null "bitwise_or" args (by decide) h
theorem C36_bitwise_xor_null (args : List V) (h : args.any V.isNull = true) : call "bitwise_xor" args = some (.val .null) :=
  C36_strict_null "bitwise_xor" args (by decide) h
theorem C36_bitwise_not_null (args : List V) (h : args.any V.isNull = true) : call "bitwise_not" args = some (.val .null) :=
  C36_strict_null "bitwise_not" args (by decide) h
theorem C36_bit_count_null (args : List V) (h : args.any V.isNull = true) : call "bit_count" args = some (.val .null) :=
  C36_strict_null "bit_count" args (by decide) h
theorem C36_bitwise_left_shift_null (args : List V) (h : args.any V.isNull = true) : call "bitwise_left_shift" args = some (.val .null) :=
  C36_strict_null "bitwise_left_shift" args (by decide) h
theorem C36_bitwise_right_shift_null (args : List V) (h : args.any V.isNull = true) : call "bitwise_right_shift" args = some (.val .null) :=
  C36_strict_null "bitwise_right_shift" args (by decide) h
theorem C36_bitwise_right_shift_arithmetic_null (args : List V) (h : args.any V.isNull = true) : call "bitwise_right_shift_arithmetic" args = some (.val .null) :=
  C36_strict_null "bitwise_right_shift_arithmetic" args (by decide) h
theorem C36_length_null (args : List V) (h : args.any V.isNull = true) : call "length" args = some (.val .null) :=
  C36_strict_null "length" args (by decide) h
theorem C36_upper_null (args : List V) (h : args.any V.isNull = true) : call "upper" args = some (.val .null) :=
  C36_strict_null "upper" args (by decide) h
theorem C36_lower_null (args : List V) (h : args.any V.isNull = true) : call "lower" args = some (.val .null) :=
  C36_strict_null "lower" args (by decide) h
theorem C36_reverse_null (args : List V) (h : args.any V.isNull = true) : call "reverse" args = some (.val .null) :=
  C36_strict_null "reverse" args (by decide) h
theorem C36_trim_null (args : List V) (h : args.any V.isNull = true) : call "trim" args = some (.val .null) :=
  C36_strict_null "trim" args (by decide) h
theorem C36_ltrim_null (args : List V) (h : args.any V.isNull = true) : call "ltrim" args = some (.val .null) :=
  C36_strict_null "ltrim" args (by decide) h
theorem C36_rtrim_null (args : List V) (h : args.any V.isNull = true) : call "rtrim" args = some (.val .null) :=
  C36_strict_null "rtrim" args (by decide) h
theorem C36_concat_null (args : List V) (h : args.any V.isNull = true) : call "concat" args = some (.val .null) :=
  C36_strict_null "concat" args (by decide) h
theorem C36_starts_with_null (args : List V) (h : args.any V.isNull = true) : call "starts_with" args = some (.val .null) :=
  C36_strict_null "starts_with" args (by decide) h
theorem C36_ends_with_null (args : List V) (h : args.any V.isNull = true) : call "ends_with" args = some (.val .null) :=
  C36_strict_null "ends_with" args (by decide) h
theorem C36_substring_null (args : List V) (h : args.any V.isNull = true) : call "substring" args = some (.val .null) :=
  C36_strict_null "substring" args (by decide) h
theorem C36_left_null (args : List V) (h : args.any V.isNull = true) : call "left" args = some (.val .null) :=
  C36_strict_null "left" args (by decide) h
theorem C36_right_null (args : List V) (h : args.any V.isNull = true) : call "right" args = some (.val .null) :=
  C36_strict_null "right" args (by decide) h
theorem C36_repeat_null (args : List V) (h : args.any V.isNull = true) : call "repeat" args = some (.val .null) :=
  C36_strict_null "repeat" args (by decide) h
theorem C36_replace_null (args : List V) (h : args.any V.isNull = true) : call "replace" args = some (.val .null) :=
  C36_strict_null "replace" args (by decide) h
theorem C36_strpos_null (args : List V) (h : args.any V.isNull = true) : call "strpos" args = some (.val .null) :=
  C36_strict_null "strpos" args (by decide) h
theorem C36_position_null (args : List V) (h : args.any V.isNull = true) : call "position" args = some (.val .null) :=
  C36_strict_null "position" args (by decide) h
theorem C36_lpad_null (args : List V) (h : args.any V.isNull = true) : call "lpad" args = some (.val .null) :=
  C36_strict_null "lpad" args (by decide) h
theorem C36_rpad_null (args : List V) (h : args.any V.isNull = true) : call "rpad" args = some (.val .null) :=
  C36_strict_null "rpad" args (by decide) h
theorem C36_split_part_null (args : List V) (h : args.any V.isNull = true) : call "split_part" args = some (.val .null) :=
  C36_strict_null "split_part" args (by decide) h
theorem C36_chr_null (args : List V) (h : args.any V.isNull = true) : call "chr" args = some (.val .null) :=
  C36_strict_null "chr" args (by decide) h
theorem C36_codepoint_null (args : List V) (h : args.any V.isNull = true) : call "codepoint" args = some (.val .null) :=
  C36_strict_null "codepoint" args (by decide) h
theorem C36_ascii_null (args : List V) (h : args.any V.isNull = true) : call "ascii" args = some (.val .null) :=
  C36_strict_null "ascii" args (by decide) h
theorem C36_translate_null (args : List V) (h : args.any V.isNull = true) : call "translate" args = some (.val .null) :=
  C36_strict_null "translate" args (by decide) h
theorem C36_hamming_distance_null (args : List V) (h : args.any V.isNull = true) : call "hamming_distance" args = some (.val .null) :=
  C36_strict_null "hamming_distance" args (by decide) h
theorem C36_levenshtein_distance_null (args : List V) (h : args.any V.isNull = true) : call "levenshtein_distance" args = some (.val .null) :=
  C36_strict_null "levenshtein_distance" args (by decide) h
theorem C36_luhn_check_null (args : List V) (h : args.any V.isNull = true) : call "luhn_check" args = some (.val .null) :=
  C36_strict_null "luhn_check" args (by decide) h
theorem C36_to_hex_null (args : List V) (h : args.any V.isNull = true) : call "to_hex" args = some (.val .null) :=
  C36_strict_null "to_hex" args (by decide) h
theorem C36_from_hex_null (args : List V) (h : args.any V.isNull = true) : call "from_hex" args = some (.val .null) :=
  C36_strict_null "from_hex" args (by decide) h
theorem C36_to_base64_null (args : List V) (h : args.any V.isNull = true) : call "to_base64" args = some (.val .null) :=
  C36_strict_null "to_base64" args (by decide) h
theorem C36_from_base64_null (args : List V) (h : args.any V.isNull = true) : call "from_base64" args = some (.val .null) :=
  C36_strict_null "from_base64" args (by decide) h
theorem C36_to_base64url_null (args : List V) (h : args.any V.isNull = true) : call "to_base64url" args = some (.val .null) :=
  C36_strict_null "to_base64url" args (by decide) h
theorem C36_from_base64url_null (args : List V) (h : args.any V.isNull = true) : call "from_base64url" args = some (.val .null) :=
  C36_strict_null "from_base64url" args (by decide) h
theorem C36_to_base32_null (args : List V) (h : args.any V.isNull = true) : call "to_base32" args = some (.val .null) :=
  C36_strict_null "to_base32" args (by decide) h
theorem C36_from_base32_null (args : List V) (h : args.any V.isNull = true) : call "from_base32" args = some (.val .null) :=
  C36_strict_null "from_base32" args (by decide) h
theorem C36_to_big_endian_64_null (args : List V) (h : args.any V.isNull = true) : call "to_big_endian_64" args = some (.val .null) :=
  C36_strict_null "to_big_endian_64" args (by decide) h
theorem C36_from_big_endian_64_null (args : List V) (h : args.any V.isNull = true) : call "from_big_endian_64" args = some (.val .null) :=
  C36_strict_null "from_big_endian_64" args (by decide) h
theorem C36_to_big_endian_32_null (args : List V) (h : args.any V.isNull = true) : call "to_big_endian_32" args = some (.val .null) :=
  C36_strict_null "to_big_endian_32" args (by decide) h
theorem C36_from_big_endian_32_null (args : List V) (h : args.any V.isNull = true) : call "from_big_endian_32" args = some (.val .null) :=
  C36_strict_null "from_big_endian_32" args (by decide) h
theorem C36_url_encode_null (args : List V) (h : args.any V.isNull = true) : call "url_encode" args = some (.val .null) :=
  C36_strict_null "url_encode" args (by decide) h
theorem C36_url_decode_null (args : List V) (h : args.any V.isNull = true) : call "url_decode" args = some (.val .null) :=
  C36_strict_null "url_decode" args (by decide) h
theorem C36_to_utf8_null (args : List V) (h : args.any V.isNull = true) : call "to_utf8" args = some (.val .null) :=
  C36_strict_null "to_utf8" args (by decide) h
theorem C36_from_utf8_null (args : List V) (h : args.any V.isNull = true) : call "from_utf8" args = some (.val .null) :=
  C36_strict_null "from_utf8" args (by decide) h
theorem C36_year_null (args : List V) (h : args.any V.isNull = true) : call "year" args = some (.val .null) :=
  C36_strict_null "year" args (by decide) h
theorem C36_month_null (args : List V) (h : args.any V.isNull = true) : call "month" args = some (.val .null) :=
  C36_strict_null "month" args (by decide) h
theorem C36_day_null (args : List V) (h : args.any V.isNull = true) : call "day" args = some (.val .null) :=
  C36_strict_null "day" args (by decide) h
theorem C36_quarter_null (args : List V) (h : args.any V.isNull = true) : call "quarter" args = some (.val .null) :=
  C36_strict_null "quarter" args (by decide) h
theorem C36_day_of_week_null (args : List V) (h : args.any V.isNull = true) : call "day_of_week" args = some (.val .null) :=
  C36_strict_null "day_of_week" args (by decide) h
theorem C36_day_of_year_null (args : List V) (h : args.any V.isNull = true) : call "day_of_year" args = some (.val .null) :=
  C36_strict_null "day_of_year" args (by decide) h
theorem C36_last_day_of_month_null (args : List V) (h : args.any V.isNull = true) : call "last_day_of_month" args = some (.val .null) :=
  C36_strict_null "last_day_of_month" args (by decide) h
theorem C36_date_add_null (args : List V) (h : args.any V.isNull = true) : call "date_add" args = some (.val .null) :=
  C36_strict_null "date_add" args (by decide) h
theorem C36_date_diff_null (args : List V) (h : args.any V.isNull = true) : call "date_diff" args = some (.val .null) :=
  C36_strict_null "date_diff" args (by decide) h
theorem C36_date_trunc_null (args : List V) (h : args.any V.isNull = true) : call "date_trunc" args = some (.val .null) :=
  C36_strict_null "date_trunc" args (by decide) h

/-- `coalesce`: NULL exactly when every argument is NULL … -/
theorem C36_coalesce_null (vs : List V) (h : vs.all V.isNull = true) : coalesceV vs = .null := coalesce_all_null vs h
/-- … otherwise the first non-NULL argument. -/
theorem C36_coalesce_first (pre : List V) (v : V) (post : List V) (hp : pre.all V.isNull = true) (hv : v.isNull = false) :
    coalesceV (pre ++ v :: post) = v := coalesce_first pre v post hp hv
/-- `nullif(a, a)` is NULL; `nullif(a, b)` is `a` when they differ, when `b` is NULL, and NULL when `a` is NULL. -/
theorem C36_nullif_null (a b : V) :
    (a.isNull = false → nullifV a a = .null) ∧ (a ≠ b → nullifV a b = a) ∧ nullifV a .null = a ∧ nullifV .null b = .null :=
  ⟨nullif_eq a, nullif_ne a b, nullif_null_right a, nullif_null_left b⟩
/-- `if(NULL, t, f) = f`; a searched CASE skips NULL conditions and yields NULL without a matching arm or ELSE;
    in a simple CASE a NULL operand or WHEN value never matches. -/
theorem C36_if_null (t f : V) : ifV .null t f = some f := rfl
theorem C36_case_null (c v v2 e : V) (h : c = .null ∨ c = .bool false) :
    caseSearched [c, v] = some .null ∧ caseSearched [.null, v, .bool true, v2] = some v2 ∧
    caseSimple [.null, .null, v, e] = some e ∧ caseSimple [v2, .null, v, e] = some e :=
  ⟨case_no_match_no_else c v h, rfl, rfl, by cases v2 <;> rfl⟩
/-- `concat_ws`: a NULL separator gives NULL; NULL arguments are skipped. -/
theorem C36_concat_ws_null (rest : List V) : call "concat_ws" (.null :: rest) = some (.val .null) := by simp [call]
theorem C36_concat_ws_skips_null (sep a b : List Char) :
    call "concat_ws" [.str sep, .str a, .null, .str b] = some (.val (.str (a ++ sep ++ b))) := by
  simp [call, nonNullStrs, joinS]

/-! ## integer math -/
/-- `abs`: raises exactly at -2^63; otherwise non-negative, equal to ±x, inside BIGINT, and `sign(x)·abs(x) = x`. -/
theorem C36_abs (x : Int) :
    (absI x = none ↔ x = i64Min) ∧
    (∀ r, absI x = some r → 0 ≤ r ∧ (r = x ∨ r = -x) ∧ signI x * r = x ∧ (inI64 x = true → inI64 r = true)) :=
  ⟨abs_none x, fun r h => ⟨(abs_nonneg x r h).1, (abs_nonneg x r h).2, sign_mul_abs x r h, fun hx => abs_in_range x r hx h⟩⟩
/-- `mod(n, m)`: raises iff m = 0; otherwise n = m·(n quot m) + r, |r| < |m| and r has the sign of n (or is 0). -/
theorem C36_mod_sign_rules (n m : Int) :
    (modI n m = none ↔ m = 0) ∧
    (∀ r, modI n m = some r → n = m * Int.tdiv n m + r ∧ r.natAbs < m.natAbs ∧ (0 ≤ n → 0 ≤ r) ∧ (n ≤ 0 → r ≤ 0)) :=
  ⟨by unfold modI; split <;> simp_all, fun r h => mod_spec n m r h⟩
/-- `greatest` / `least` of non-NULL bigints: an element of the list that bounds every element. -/
theorem C36_greatest_least (x : Int) (xs : List Int) :
    (∃ g, greatestI (x :: xs) = some g ∧ g ∈ x :: xs ∧ ∀ y ∈ x :: xs, y ≤ g) ∧
    (∃ l, leastI (x :: xs) = some l ∧ l ∈ x :: xs ∧ ∀ y ∈ x :: xs, l ≤ y) := by
  obtain ⟨a1, a2, a3⟩ := foldl_max_ge xs x
  obtain ⟨b1, b2, b3⟩ := foldl_min_le xs x
  refine ⟨⟨_, rfl, ?_, ?_⟩, ⟨_, rfl, ?_, ?_⟩⟩
  · rcases a3 with h | h
    · rw [h]; simp
    · simp [h]
  · intro y hy; simp only [List.mem_cons] at hy; rcases hy with hy | hy
    · subst hy; exact a1
    · exact a2 y hy
  · rcases b3 with h | h
    · rw [h]; simp
    · simp [h]
  · intro y hy; simp only [List.mem_cons] at hy; rcases hy with hy | hy
    · subst hy; exact b1
    · exact b2 y hy
/-- `width_bucket` (ascending bounds, n > 0): 0 below, n+1 at or above the upper bound, otherwise the bucket b ∈ 1..n with
    (b−1)·(hi−lo) ≤ n·(x−lo) < b·(hi−lo), i.e. x lies in the b-th of n equal-width buckets — exactly, no rounding. -/
theorem C36_width_bucket (x lo hi n b : Int) (hlt : lo < hi) (hn : 0 < n) (h : widthBucket x lo hi n = some b) :
    (x < lo → b = 0) ∧ (hi ≤ x → b = n + 1) ∧
    (lo ≤ x → x < hi → 1 ≤ b ∧ b ≤ n ∧ (b - 1) * (hi - lo) ≤ n * (x - lo) ∧ n * (x - lo) < b * (hi - lo)) :=
  widthBucket_range x lo hi n b hlt hn h
/-- `from_base(to_base(x, r), r) = x` for every BIGINT x and every radix 2..36. -/
theorem C36_from_base_to_base (x r : Int) (hr : radixOk r = true) (hx : inI64 x = true) (s : List Char) (h : toBase x r = some s) :
    fromBase s r = some x := fromBase_toBase x r hr hx s h

/-! ## bitwise (64-bit two's complement) -/
theorem C36_bitwise_not_involution (x : Int) (h : inI64 x = true) : bitNot (bitNot x) = x := not_not x h
theorem C36_bitwise_not_eq (x : Int) (h : inI64 x = true) : bitNot x = -x - 1 := not_eq_neg x h
theorem C36_bitwise_de_morgan (x y : Int) :
    bitNot (bitAnd x y) = bitOr (bitNot x) (bitNot y) ∧ bitNot (bitOr x y) = bitAnd (bitNot x) (bitNot y) :=
  ⟨demorgan_and x y, demorgan_or x y⟩
theorem C36_bitwise_xor_self (x : Int) : bitXor x x = 0 := xor_self x
/-- inclusion–exclusion for the population count, its range, and the count of the complement. -/
theorem C36_bit_count_incl_excl (x y : Int) : bitCount (bitAnd x y) + bitCount (bitOr x y) = bitCount x + bitCount y :=
  bitcount_incl_excl x y
theorem C36_bit_count_range (x : Int) : 0 ≤ bitCount x ∧ bitCount x ≤ 64 := by
  unfold bitCount popcount; have := popcountTo_le (toBV x) 64; omega
theorem C36_bit_count_not (x : Int) : bitCount (bitNot x) = 64 - bitCount x := by
  unfold bitCount bitNot popcount
  rw [toBV_toInt, popcountTo_not _ 64 (by omega)]
  have := popcountTo_le (toBV x) 64; omega

/-! ## strings over code points -/
theorem C36_length_concat (a b : List Char) : lengthS (a ++ b) = lengthS a + lengthS b := length_concat2 a b
theorem C36_length_concat_all (ss : List (List Char)) : lengthS (concatS ss) = (ss.map lengthS).sum := length_concatS ss
theorem C36_reverse_involution (s : List Char) : reverseS (reverseS s) = s := reverse_reverse s
theorem C36_length_reverse_upper (s : List Char) : lengthS (reverseS s) = lengthS s ∧ lengthS (upperS s) = lengthS s :=
  ⟨length_reverse s, length_upper s⟩
theorem C36_starts_ends_with (a b s p : List Char) :
    startsWith (a ++ b) a = true ∧ endsWith (a ++ b) b = true ∧ (startsWith s p = true ↔ ∃ t, s = p ++ t) :=
  ⟨startsWith_append a b, endsWith_append a b, startsWith_iff s p⟩
/-- `substring` / `left` / `right`: substring(s,1) = s; substring(s,1,n) = left(s,n); substring(s,-n) = right(s,n);
    left(s,n) ++ right(s,|s|-n) = s; a substring is never longer than the string. -/
theorem C36_substring_left_right (s : List Char) (n : Nat) :
    substr s 1 none = s ∧ substr s 1 (some n) = leftS s n ∧
    (1 ≤ n → n ≤ s.length → substr s (-(n : Int)) none = rightS s n) ∧
    (n ≤ s.length → leftS s n ++ rightS s (s.length - n) = s) ∧
    (∀ st l, (substr s st l).length ≤ s.length) :=
  ⟨substr_one s, substr_left s n, substr_right s n, left_right_split s n, substr_length_le s⟩
theorem C36_repeat_length (s : List Char) (n : Nat) : (repeatS s n).length = n * s.length := repeat_length s n
/-- `lpad`: the result has exactly `size` characters and, when the input fits, ends with it. -/
theorem C36_lpad (s pad r : List Char) (size : Int) (h : lpadS s size pad = some r) :
    (r.length : Int) = size ∧ ((s.length : Int) ≤ size → s <:+ r) :=
  ⟨lpad_length s pad size r h, lpad_suffix s pad size r h⟩
/-- `replace` with an empty search string inserts the replacement before every character and at the end;
    a string that does not contain the first character of the pattern is unchanged. -/
theorem C36_replace (s rep ps : List Char) (p : Char) :
    (replaceS s [] rep).length = s.length + (s.length + 1) * rep.length ∧ (p ∉ s → replaceS s (p :: ps) rep = s) := by
  refine ⟨replace_empty_length s rep, fun h => ?_⟩
  simp only [replaceS, List.isEmpty_cons, Bool.false_eq_true, if_false]
  exact replaceGo_no_head p ps rep s h
/-- `strpos` / `position`: the empty string is found at 1; an occurrence is found at or before the one exhibited;
    the answer is 0 or a valid 1-based position. -/
theorem C36_strpos (pre pat post s : List Char) :
    strpos s [] = 1 ∧ (0 < strpos (pre ++ pat ++ post) pat ∧ strpos (pre ++ pat ++ post) pat ≤ pre.length + 1) ∧
    (strpos s pat = 0 ∨ (1 ≤ strpos s pat ∧ strpos s pat ≤ s.length + 1)) := by
  refine ⟨strpos_empty s, strpos_found pre pat post, ?_⟩
  unfold strpos
  rcases findAt_bounds pat s 1 with h | h
  · left; simp [h]
  · right; omega
/-- `translate` with an empty `from` is the identity and never lengthens the string. -/
theorem C36_translate (s frm to : List Char) : translateS s [] to = s ∧ (translateS s frm to).length ≤ s.length :=
  ⟨translate_nil_from s to, translate_length_le s frm to⟩
/-- `codepoint(chr(n)) = n` and `chr(codepoint(c)) = c`. -/
theorem C36_chr_codepoint (n : Int) (s : List Char) (c : Char) :
    (chrS n = some s → codepointS s = some n) ∧ chrS (c.toNat : Int) = some [c] :=
  ⟨codepoint_chr n s, chr_codepoint c⟩
/-- `hamming_distance` on equal-length strings is a metric bounded by the length. -/
theorem C36_hamming_metric (a b c : List Char) (h1 : a.length = b.length) (h2 : b.length = c.length) :
    hammingGo a b = hammingGo b a ∧ hammingGo a a = 0 ∧ (hammingGo a b = 0 → a = b) ∧
    hammingGo a c ≤ hammingGo a b + hammingGo b c ∧ hammingGo a b ≤ a.length :=
  ⟨hammingGo_comm a b, hammingGo_self a, hammingGo_eq_zero a b h1, hammingGo_triangle a b c h1 h2, hammingGo_le a b⟩
/-- `levenshtein_distance` is a metric on ALL strings (identity, symmetry, triangle inequality), bounded by the longer
    length and bounded below by the difference of the lengths. -/
theorem C36_levenshtein_metric (s t u : List Char) :
    lev s s = 0 ∧ (lev s t = 0 → s = t) ∧ lev s t = lev t s ∧ lev s u ≤ lev s t + lev t u ∧
    lev s t ≤ max s.length t.length ∧ s.length - t.length ≤ lev s t ∧ t.length - s.length ≤ lev s t :=
  ⟨lev_self s, lev_eq_zero s t, lev_comm s t, lev_triangle s t u, lev_le_max s t, (lev_ge_diff s t).1, (lev_ge_diff s t).2⟩
/-- `luhn_check` accepts every digit string completed with its Luhn check digit. -/
theorem C36_luhn_check_generated (body : List Nat) (hb : ∀ d ∈ body, d < 10) :
    luhnCheck ((body ++ [luhnDigit body]).map (fun d => Char.ofNat (48 + d))) = some true := luhnCheck_generated body hb

/-! ## encodings: round trips for ALL byte strings / ALL strings -/
theorem C36_from_hex_to_hex (b : List UInt8) : fromHex (toHex b) = some b := fromHex_toHex b
theorem C36_to_hex_length (b : List UInt8) : (toHex b).length = 2 * b.length := toHex_length b
theorem C36_from_base64_to_base64 (b : List UInt8) : base64.decode (base64.encode b) = some b := Codec.decode_encode _ base64_ok b
theorem C36_from_base64url_to_base64url (b : List UInt8) : base64url.decode (base64url.encode b) = some b :=
  Codec.decode_encode _ base64url_ok b
theorem C36_from_base32_to_base32 (b : List UInt8) : base32.decode (base32.encode b) = some b := Codec.decode_encode _ base32_ok b
theorem C36_big_endian_64_roundtrip (x : Int) (hx : inI64 x = true) : fromBigEndian 8 (toBigEndian 8 x) = some x :=
  fromBigEndian64_toBigEndian64 x hx
theorem C36_big_endian_32_roundtrip (x : Int) (hx : -2147483648 ≤ x ∧ x ≤ 2147483647) : fromBigEndian 4 (toBigEndian 4 x) = some x :=
  fromBigEndian32_toBigEndian32 x hx
theorem C36_to_big_endian_length (w : Nat) (x : Int) : (toBigEndian w x).length = w := by simp [toBigEndian, beBytes_length]
/-- UTF-8: `from_utf8(to_utf8(s)) = s` for every string. -/
theorem C36_from_utf8_to_utf8 (s : List Char) : IQE.Utf8.decode (IQE.Utf8.encode s) = some s := IQE.Utf8.decode_encode s
/-- `url_decode(url_encode(s)) = s` for every string (bytes first, then UTF-8). -/
theorem C36_url_decode_url_encode (s : List Char) : urlDecode (urlEncode s) = some s := by
  unfold urlDecode; rw [urlDecodeBytes_urlEncode]; exact IQE.Utf8.decode_encode s

/-! ## dates on the proleptic Gregorian calendar -/
/-- `days_from_civil ∘ civil_from_days = id` on EVERY day number … -/
theorem C36_days_of_civil_of_days (z : Int) : daysOfCivil (yearOf z) (monthOf z) (dayOf z) = z := days_of_civil_of_days z
/-- … and `civil_from_days ∘ days_from_civil = id` on every valid civil date. -/
theorem C36_civil_of_days_of_civil (y m d : Int) (hv : validCivil y m d) : civilOfDays (daysOfCivil y m d) = (y, m, d) :=
  civil_of_days_of_civil y m d hv
/-- `year`/`month`/`day` of any day number form a valid date: month in 1..12, day in 1..length of the month (leap years included). -/
theorem C36_year_month_day_valid (z : Int) : validCivil (yearOf z) (monthOf z) (dayOf z) := civilOfDays_valid z
theorem C36_quarter_range (z : Int) : 1 ≤ quarterOf z ∧ quarterOf z ≤ 4 := by
  obtain ⟨h1, h2, _, _⟩ := civilOfDays_valid z
  unfold quarterOf; omega
/-- `day_of_week`: ISO numbering 1..7, periodic with period 7, advancing by one per day; 1970-01-01 is a Thursday. -/
theorem C36_day_of_week (z : Int) :
    1 ≤ dayOfWeek z ∧ dayOfWeek z ≤ 7 ∧ dayOfWeek (z + 7) = dayOfWeek z ∧ dayOfWeek (z + 1) = dayOfWeek z % 7 + 1 ∧ dayOfWeek 0 = 4 :=
  ⟨(dayOfWeek_range z).1, (dayOfWeek_range z).2, dayOfWeek_period z, dayOfWeek_succ z, dayOfWeek_epoch⟩
/-- `day_of_year` is the 1-based offset from January 1st of the same year. -/
theorem C36_day_of_year (z : Int) : z = daysOfCivil (yearOf z) 1 1 + (dayOfYear z - 1) := by unfold dayOfYear; omega
/-- `last_day_of_month`: not before the date, same year and month, and its day is the length of the month. -/
theorem C36_last_day_of_month (z : Int) :
    z ≤ lastDayOfMonth z ∧ yearOf (lastDayOfMonth z) = yearOf z ∧ monthOf (lastDayOfMonth z) = monthOf z ∧
    dayOf (lastDayOfMonth z) = daysInMonth (yearOf z) (monthOf z) := lastDayOfMonth_spec z
/-- `date_trunc`: 'month' gives day 1 of the same month, not after the date, idempotent; 'week' gives the Monday at most 6 days back. -/
theorem C36_date_trunc (z : Int) :
    (dateTrunc .month z ≤ z ∧ dayOf (dateTrunc .month z) = 1 ∧ monthOf (dateTrunc .month z) = monthOf z ∧
      yearOf (dateTrunc .month z) = yearOf z ∧ dateTrunc .month (dateTrunc .month z) = dateTrunc .month z) ∧
    (dayOfWeek (dateTrunc .week z) = 1 ∧ dateTrunc .week z ≤ z ∧ z - dateTrunc .week z ≤ 6) ∧ dateTrunc .day z = z :=
  ⟨dateTrunc_month z, dateTrunc_week z, rfl⟩
/-- `date_diff(u, d, date_add(u, n, d)) = n` for days and weeks; adding zero of any unit changes nothing. -/
theorem C36_date_add_diff (n z : Int) (u : DUnit) :
    dateDiff .day z (dateAdd .day n z) = n ∧ dateDiff .week z (dateAdd .week n z) = n ∧ dateAdd u 0 z = z :=
  ⟨date_add_diff_day n z, date_add_diff_week n z, date_add_zero u z (civilOfDays_valid z)⟩

/-! ## kernel-checked witnesses: the documented value on each known finding's witness input (the engine returns something else) -/
example : absI i64Min = none := by decide                                                             -- F1 (fixed by 0d4d092): the engine used to panic
example : lengthS ['h', 'é', 'l', 'l', 'o'] = 5 ∧ IQE.Engine.FnDev.byteLen ['h', 'é', 'l', 'l', 'o'] = 6 := by decide   -- F2
example : strpos ['h', 'é', 'l', 'l', 'o'] ['l'] = 3 ∧ IQE.Engine.FnDev.findByte ['l'] ['h', 'é', 'l', 'l', 'o'] 0 = some 3 := by decide  -- F3 (engine 3+1)
example : substr ['h', 'e', 'l', 'l', 'o'] (-2) none = ['l', 'o'] := by decide                         -- F5: engine ''
example : widthBucket 29 0 100 100 = some 30 := by decide                                              -- F7: engine 29
example : splitPart ['a', ',', 'b'] [','] 3 = .val .null := by decide                                   -- F9: engine ''
example : hamming ['é'] ['a'] = some 1 ∧ IQE.Engine.FnDev.hammingE ['é'] ['a'] = .val .null := by decide    -- F11
example : caseSimple [.int 1, .int 1, .int 10, .int 30] = some (.int 10) := by decide                  -- F12 (fixed by 2eee94c): the engine used to raise
example : dayOfWeek 0 = 4 := by decide                                                                 -- F14: engine 5
example : dateDiff .month 30 31 = 0 := by decide                                                       -- F15: engine 1
example : shiftLeft 1 64 = some 0 := by decide                                                         -- F16 (fixed by 2eaee32): the engine used to panic
example : toBase 35 36 = some ['z'] := by decide                                                       -- F18: engine '35'
example : translateS ['a', 'b', 'c'] ['b'] [] = ['a', 'c'] := by decide                                 -- F19: engine 'abc'
example : dateAdd .quarter 1 0 = 90 := by decide                                                       -- F21: engine NULL
example : chrS 4294967361 = none := by decide                                                          -- F23: engine 'A'

end IQE.Props.C36
