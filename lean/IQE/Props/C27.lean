/-
  C27 — GROUPING SETS, ROLLUP and CUBE match their SQL definition.

  Node semantics: `Spec.Query.groupingSets keys sets aggs q` (`Spec.aggregateSets`): for every set, group the input by the
  key vector with the absent keys replaced by NULL; output keys ++ aggregates ++ [GROUPING(all keys)].
  Engine model (`Engine.GroupingSets`, the binder's `bind_grouping_sets`): expansion of ROLLUP / CUBE, then UNION ALL of one
  ordinary aggregate per set (grouped by that set's key expressions only) under a NULL-padding projection with GROUPING()
  replaced by per-branch constants.

    C27_expand         ROLLUP(k₀…kₙ₋₁) = exactly the n+1 prefixes, CUBE = exactly the 2ⁿ ascending sub-lists of [0…n−1]
                       (membership, count, no duplicates), each a duplicate-free set of valid key positions
    C27_desugar        for duplicate-free sets of valid positions and inputs on which the key expressions evaluate, the node
                       semantics equals the binder's UNION ALL desugaring — for every input table (with or without NULLs in
                       the keys), every aggregate list, every list of sets (induction over the sets; `groupBy` under the
                       injective padding of the group key)
    C27_desugar_run    the same at the level of `Spec.run`
    C27_grouping_bits  bit j (most significant first) of GROUPING(a₀,…,aₘ₋₁) in the branch of a set is 1 iff aⱼ is absent from
                       the set; the node's mask column is GROUPING(all keys), so bit i of `groupingMask n set` is 1 iff key i is absent
    C27_mask_determines_set  equal masks ⇒ the same keys are present: a padded NULL and a real NULL key are told apart by the mask
-/
import IQE.Lemmas.GroupingSets
namespace IQE.Props.C27
open IQE IQE.Spec IQE.Engine.GroupingSets IQE.Lemmas.GroupingSets

theorem goodSet_range (n k : Nat) (h : k ≤ n) : GoodSet n (List.range k) :=
  ⟨List.nodup_range, fun _ hi => by have := List.mem_range.mp hi; omega⟩

theorem goodSet_sublist (n : Nat) (s : List Nat) (h : s.Sublist (List.range n)) : GoodSet n s :=
  ⟨h.nodup List.nodup_range, fun i hi => List.mem_range.mp (h.subset hi)⟩

theorem C27_expand (n : Nat) :
    (∀ s, s ∈ rollupSets n ↔ ∃ k, k ≤ n ∧ s = List.range k) ∧ (rollupSets n).length = n + 1 ∧ (rollupSets n).Nodup ∧
    (∀ s, s ∈ cubeSets n ↔ s.Sublist (List.range n)) ∧ (cubeSets n).length = 2 ^ n ∧ (cubeSets n).Nodup ∧
    (∀ s, s ∈ rollupSets n → GoodSet n s) ∧ (∀ s, s ∈ cubeSets n → GoodSet n s) := by
  refine ⟨mem_rollupSets n, length_rollupSets n, nodup_rollupSets n, mem_cubeSets n, length_cubeSets n, nodup_cubeSets n, ?_, ?_⟩
  · intro s hs
    obtain ⟨k, hk, rfl⟩ := (mem_rollupSets n s).mp hs
    exact goodSet_range n k hk
  · intro s hs
    exact goodSet_sublist n s ((mem_cubeSets n s).mp hs)

theorem C27_desugar (cx : EvalCtx) (env : Env) (keys : List Expr) (sets : List (List Nat)) (aggs : List AggCall) (rows : Table)
    (hsets : ∀ set, set ∈ sets → GoodSet keys.length set)
    (hkeys : ∀ r, r ∈ rows → ∃ kv, evalList cx (r :: env) keys = .ok kv) :
    aggregateSets cx env keys sets aggs rows = desugar cx env keys sets aggs rows :=
  desugar_eq cx env keys aggs rows sets hsets hkeys

/-- the evaluation context `Spec.run` gives an aggregate node -/
def aggCx (fo : FloatOps) (fns : String → List Val → Except Err Val) : EvalCtx :=
  { fo := fo, fn := fns, runSub := fun _ _ => .error (.unsupported "subquery inside an aggregate") }

theorem C27_desugar_run (fo : FloatOps) (fns : String → List Val → Except Err Val) (cat : List Table)
    (keys : List Expr) (sets : List (List Nat)) (aggs : List AggCall) (q : Query) (ctes : List Table) (env : Env) (rows : Table)
    (hq : run fo fns cat q ctes env = .ok rows)
    (hsets : ∀ set, set ∈ sets → GoodSet keys.length set)
    (hkeys : ∀ r, r ∈ rows → ∃ kv, evalList (aggCx fo fns) (r :: env) keys = .ok kv) :
    run fo fns cat (.groupingSets keys sets aggs q) ctes env = desugar (aggCx fo fns) env keys sets aggs rows := by
  rw [← C27_desugar (aggCx fo fns) env keys sets aggs rows hsets hkeys]
  simp only [run, hq, aggCx]
  rfl

theorem C27_grouping_bits :
    (∀ (args set : List Nat) (j : Nat) (hj : j < args.length),
      (groupingOf args set / 2 ^ (args.length - 1 - j)) % 2 = if args[j] ∈ set then 0 else 1) ∧
    (∀ (n : Nat) (set : List Nat) (i : Nat), i < n →
      (groupingMask n set / 2 ^ (n - 1 - i)) % 2 = if i ∈ set then 0 else 1) := by
  constructor
  · intro args set j hj
    rw [groupingOf_bit args set j hj]
    simp [absentBit]
  · intro n set i hi
    have h := groupingOf_bit (List.range n) set i (by simpa using hi)
    simp only [List.length_range, List.getElem_range] at h
    rw [groupingMask_eq, h]
    simp [absentBit]

theorem C27_mask_determines_set (n : Nat) (s1 s2 : List Nat) (h : groupingMask n s1 = groupingMask n s2) (i : Nat) (hi : i < n) :
    i ∈ s1 ↔ i ∈ s2 := by
  have h1 := C27_grouping_bits.2 n s1 i hi
  have h2 := C27_grouping_bits.2 n s2 i hi
  rw [h] at h1
  rw [h1] at h2
  by_cases a : i ∈ s1 <;> by_cases b : i ∈ s2 <;> simp [a, b] at h2 ⊢

/-! ### non-vacuity and small instances -/

example : rollupSets 2 = [[0, 1], [0], []] := by decide
example : cubeSets 2 = [[0, 1], [0], [1], []] := by decide
/-- the recursive `cubeSets` is the binder's mask loop, for the 0 … 3 columns of the property (a test, not a proof) -/
example : cubeSets 0 = cubeSetsMask 0 ∧ cubeSets 1 = cubeSetsMask 1 ∧ cubeSets 2 = cubeSetsMask 2 ∧ cubeSets 3 = cubeSetsMask 3 := by decide
example : groupingMask 2 [0] = 1 ∧ groupingMask 2 [] = 3 ∧ groupingMask 2 [0, 1] = 0 ∧ groupingOf [1, 0] [0] = 2 := by decide

def fo0 : FloatOps := { add := fun a _ => a, sub := fun a _ => a, mul := fun a _ => a, div := fun a _ => a, neg := id, ofInt := fun _ => ⟨0⟩, toInt := fun _ => none }
def fns0 : String → List Val → Except Err Val := fun n _ => .error (.unsupported n)

/-- `SELECT k, COUNT(*), GROUPING(k) FROM t GROUP BY ROLLUP(k)` over k = {NULL, 1}: the real NULL key keeps mask 0, the
    padded NULL of the grand total has mask 1 — and the desugared form gives the same three rows -/
example : run fo0 fns0 [[[.null], [.int 1]]] (.groupingSets [.col 0] (rollupSets 1) [{ fn := .countStar, arg := .lit .null }] (.scan 0)) [] [] =
    .ok [[.null, .int 1, .int 0], [.int 1, .int 1, .int 0], [.null, .int 2, .int 1]] := by rfl
example : desugar (aggCx fo0 fns0) [] [.col 0] (rollupSets 1) [{ fn := .countStar, arg := .lit .null }] [[.null], [.int 1]] =
    .ok [[.null, .int 1, .int 0], [.int 1, .int 1, .int 0], [.null, .int 2, .int 1]] := by rfl

end IQE.Props.C27
