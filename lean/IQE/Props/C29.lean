/-
  C29 — No SQL input crashes or hangs the engine.  LEVEL: other (partial proof + search).

  What is proved here (about the MODELLED layers only):
  * totality with explicit failure modes: the reference evaluator `Spec.eval`, the engine's expression
    interpreter model `Engine.Filter.eval` and the plan interpreter `Spec.run` return `.ok` or `.error`
    (`C29_eval_total`, `C29_engine_eval_total`, `C29_run_total`).  In Lean this is true of every function by
    construction; the content is that Lean ACCEPTED the definitions: `eval`/`evalList`/`evalCase`/`evalCoalesce`
    and `run`/`runList`/`runDefs` by structural recursion over the nested inductive `Expr`/`Query`, `likeMatch`
    by well-founded recursion on |pattern|+|string|, the optimizer driver by recursion on the iteration
    counter — no `partial`, no fuel that can run out silently.
  * progress + preservation for the typing judgment `Spec.typeOf` (IQE/Spec/Typing.lean): a typed expression
    evaluated on conforming rows never ends in a type error nor in an out-of-range column/subquery
    reference, and its value is NULL or of the synthesised type (`C29_typed_no_type_error`,
    `C29_typed_no_bad_reference`, `C29_typed_preservation`).  The remaining errors are the dynamic ones
    (division by zero, overflow, scalar-subquery cardinality, unsupported construct).
  * the optimizer's fix-point driver (src/optimizer/mod.rs: `max_iterations`, loop rules, change detection by
    Debug string, `PackedJoinKeys` once after the loop) performs at most
    `max_iterations × |loop rules| + |final rules|` rule applications whatever the rules do
    (`C29_optimizer_terminates`), and the fuelled driver given exactly that much fuel computes the same result
    (`C29_optimizer_fuel_suffices`).  A rule application itself is a parameter (13 rule bodies are not modelled).

  What is NOT proved and is decided only by the supporting search (harness family C29): panic-, stack- and
  hang-freedom of the unmodelled code (sqlparser, binder recursion, physical planner, operators, Arrow kernels).
-/
import IQE.Lemmas.Typing
import IQE.Lemmas.OptDriver
import IQE.Engine.Filter
import IQE.Spec.Query
namespace IQE.Props.C29
open IQE IQE.Spec IQE.Engine

/-- `Spec.eval` is total with explicit failure: a value or an error, for every context, environment and expression. -/
theorem C29_eval_total (cx : EvalCtx) (env : Env) (e : Expr) :
    (∃ v, eval cx env e = .ok v) ∨ (∃ err, eval cx env e = .error err) := by
  cases eval cx env e with
  | ok v => exact Or.inl ⟨v, rfl⟩
  | error err => exact Or.inr ⟨err, rfl⟩

/-- the engine's expression-interpreter model is total with explicit failure, for every deviation switch. -/
theorem C29_engine_eval_total (dev : Filter.Dev) (fo : FloatOps) (r : Row) (e : Expr) :
    (∃ v, Filter.eval dev fo r e = .ok v) ∨ (∃ err, Filter.eval dev fo r e = .error err) := by
  cases Filter.eval dev fo r e with
  | ok v => exact Or.inl ⟨v, rfl⟩
  | error err => exact Or.inr ⟨err, rfl⟩

/-- the plan interpreter is total with explicit failure. -/
theorem C29_run_total (fo : FloatOps) (fns : String → List Val → Except Err Val) (cat : List Table) (q : Query)
    (ctes : List Table) (env : Env) :
    (∃ t, run fo fns cat q ctes env = .ok t) ∨ (∃ err, run fo fns cat q ctes env = .error err) := by
  cases run fo fns cat q ctes env with
  | ok t => exact Or.inl ⟨t, rfl⟩
  | error err => exact Or.inr ⟨err, rfl⟩

/-- Progress: a typed expression on conforming rows never raises a type error. -/
theorem C29_typed_no_type_error (cx : EvalCtx) (Γ : TyCtx) (env : Env) (hc : CtxOk cx Γ)
    (he : envHasTys env Γ.env = true) (e : Expr) (σ : STy) (ht : typeOf Γ e = some σ) :
    ∀ msg, eval cx env e ≠ .error (.type msg) := by
  intro msg h
  have := eval_good cx Γ env hc he e σ ht
  rw [h] at this
  simp [Good, Safe, Err.isStatic] at this

/-- … nor an out-of-range column / outer / subquery reference (`Err.bad`): typed expressions are well scoped. -/
theorem C29_typed_no_bad_reference (cx : EvalCtx) (Γ : TyCtx) (env : Env) (hc : CtxOk cx Γ)
    (he : envHasTys env Γ.env = true) (e : Expr) (σ : STy) (ht : typeOf Γ e = some σ) :
    ∀ msg, eval cx env e ≠ .error (.bad msg) := by
  intro msg h
  have := eval_good cx Γ env hc he e σ ht
  rw [h] at this
  simp [Good, Safe, Err.isStatic] at this

/-- Preservation: the value of a typed expression is NULL or has the synthesised type. -/
theorem C29_typed_preservation (cx : EvalCtx) (Γ : TyCtx) (env : Env) (hc : CtxOk cx Γ)
    (he : envHasTys env Γ.env = true) (e : Expr) (σ : STy) (ht : typeOf Γ e = some σ) (v : Val)
    (hv : eval cx env e = .ok v) : v = .null ∨ v.tyOf = σ := by
  have := eval_good cx Γ env hc he e σ ht
  rw [hv] at this
  exact (valHasTy_iff v σ).1 this

/-- The fix-point driver performs at most `max_iterations × |loop rules| + |final rules|` rule applications,
    for every rule set (rules may fail, may never converge) and every change-detection function. -/
theorem C29_optimizer_terminates {P E : Type} (same : P → P → Bool) (maxIter : Nat) (rules : List (OptDriver.Rule P E)) (p : P) :
    (OptDriver.optimize same maxIter rules p).apps
      ≤ maxIter * (OptDriver.loopRules rules).length + (OptDriver.finalRules rules).length :=
  OptDriver.optimize_apps same maxIter rules p

/-- The driver that pays one unit of fuel per rule application never runs dry on that budget and returns the same plan/error. -/
theorem C29_optimizer_fuel_suffices {P E : Type} (same : P → P → Bool) (maxIter : Nat) (rules : List (OptDriver.Rule P E)) (p : P) :
    OptDriver.optimizeFuel same maxIter rules p (OptDriver.bound maxIter rules) =
      some ((OptDriver.optimize same maxIter rules p).out,
            OptDriver.bound maxIter rules - (OptDriver.optimize same maxIter rules p).apps) :=
  OptDriver.optimizeFuel_eq same maxIter rules p _ (OptDriver.optimize_apps same maxIter rules p)

/-! ### non-vacuity -/

/-- a typing context: one row (BIGINT, VARCHAR, BOOLEAN) -/
def Γ₀ : TyCtx := { env := [[.int, .str, .bool]] }

/-- `col0 + 1 > 2 AND col2` is typed BOOLEAN … -/
example : typeOf Γ₀ (.bin .and (.bin .gt (.bin .add (.col 0) (.lit (.int 1))) (.lit (.int 2))) (.col 2)) = some (some .bool) := by decide
/-- … `col0 + col1` (BIGINT + VARCHAR) and a column beyond the row are rejected … -/
example : typeOf Γ₀ (.bin .add (.col 0) (.col 1)) = none := by decide
example : typeOf Γ₀ (.col 3) = none := by decide
/-- … `CASE WHEN col2 THEN col0 ELSE NULL END` is BIGINT, `COALESCE(col1, col0)` has no type. -/
example : typeOf Γ₀ (.case_ [.col 2, .col 0, .lit .null]) = some (some .int) := by decide
example : typeOf Γ₀ (.coalesce [.col 1, .col 0]) = none := by decide

/-- the hypothesis matters: the rejected expression does raise a type error on a conforming row -/
example (cx : EvalCtx) : ∃ m, eval cx [[.int 1, .str "a", .bool true]] (.bin .add (.col 0) (.col 1)) = .error (.type m) :=
  ⟨"arithmetic on non-numeric", by simp [eval, getCol, binVal, Val.arith, bind, Except.bind]⟩

/-- the bound is attained: one rule that always changes the plan is applied `max_iterations` times -/
def bump : OptDriver.Rule Nat Unit := { name := "bump", apply := fun n => .ok (n + 1) }
example : (OptDriver.optimize (fun a b => a == b) 10 [bump] 0).apps = 10 := by
  simp [OptDriver.optimize, OptDriver.loopRules, OptDriver.finalRules, OptDriver.iterate, OptDriver.pass, OptDriver.finals, bump]
example : OptDriver.bound 10 [bump] = 10 := by
  simp [OptDriver.bound, OptDriver.loopRules, OptDriver.finalRules, bump]

end IQE.Props.C29
