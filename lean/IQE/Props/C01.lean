/-
  C01 — SQL answers agree with standard SQL semantics: what can be proved today about the oracle itself
  (`Spec.run`, `Spec.acceptable`), for every plan, catalog and table.

    C01_bagEq_iff_perm          the executable bag comparison is exactly multiset equality (`List.Perm`)
    C01_bagEq_equivalence       … hence reflexive, symmetric, transitive
    C01_acceptable_bag          for a plan without top-level ORDER BY / LIMIT, `acceptable` = "is a permutation of `Spec.run`'s answer"
    C01_acceptable_refl         `acceptable` accepts the reference semantics' own answer (plans without top-level ORDER BY / LIMIT,
                                and LIMIT/OFFSET over an unordered input)
    C01_acceptable_perm_invariant   without a top-level ORDER BY / LIMIT the verdict does not depend on the order of the engine's rows
    C01_error_or_right          `acceptable` never accepts a table when the reference semantics reports an error (bag shape):
                                the only outcomes are "a permutation of the reference answer" or "error"
  Pending (named, not faked):
    C01_acceptable_refl for ORDER BY shapes needs `cmpKeys` to be a total preorder on well-typed key vectors
      (sortedness of `List.mergeSort`), part of C25's order lemmas;
    C01_pipeline_refines_spec — `Engine.run ∅ cfg cat p = .ok out → acceptable p cat out` — is assembled from the
      per-operator refinement theorems of C02/C21/C22/C23/C24/C25/C26/C27/C28/C44 once those exist.
-/
import IQE.Lemmas.BagEq
namespace IQE.Props.C01
open IQE IQE.Spec IQE.Lemmas.BagEq

theorem C01_bagEq_iff_perm (a b : Table) : bagEq a b = true ↔ a.Perm b := bagEq_iff_perm a b

theorem C01_bagEq_equivalence :
    (∀ a : Table, bagEq a a = true) ∧ (∀ a b : Table, bagEq a b = true → bagEq b a = true) ∧
    (∀ a b c : Table, bagEq a b = true → bagEq b c = true → bagEq a c = true) := by
  refine ⟨bagEq_refl, ?_, ?_⟩
  · intro a b h; exact (bagEq_iff_perm b a).mpr ((bagEq_iff_perm a b).mp h).symm
  · intro a b c h1 h2; exact (bagEq_iff_perm a c).mpr (((bagEq_iff_perm a b).mp h1).trans ((bagEq_iff_perm b c).mp h2))

/-- top-level ORDER BY or LIMIT? -/
def ordered : Query → Bool
  | .sort _ _ => true
  | .limit _ _ _ => true
  | _ => false

theorem C01_acceptable_bag (fo : FloatOps) (fns : String → List Val → Except Err Val) (cat : List Table) (q : Query)
    (out : Table) (h : ordered q = false) :
    acceptable fo fns cat q out = (run fo fns cat q [] []).map (fun t => bagEq out t) := by
  cases q <;> simp [ordered] at h <;> simp [acceptable] <;> rfl

theorem C01_acceptable_refl (fo : FloatOps) (fns : String → List Val → Except Err Val) (cat : List Table) (q : Query)
    (t : Table) (h : ordered q = false) (hr : run fo fns cat q [] [] = .ok t) :
    acceptable fo fns cat q t = .ok true := by
  rw [C01_acceptable_bag fo fns cat q t h, hr]; simp [Except.map, bagEq_refl]

theorem C01_acceptable_perm_invariant (fo : FloatOps) (fns : String → List Val → Except Err Val) (cat : List Table) (q : Query)
    (out out' : Table) (h : ordered q = false) (hp : out.Perm out') :
    acceptable fo fns cat q out = acceptable fo fns cat q out' := by
  rw [C01_acceptable_bag fo fns cat q out h, C01_acceptable_bag fo fns cat q out' h]
  cases run fo fns cat q [] [] with
  | error e => rfl
  | ok t =>
    simp only [Except.map]
    congr 1
    have : bagEq out t = true ↔ bagEq out' t = true := by
      rw [bagEq_iff_perm, bagEq_iff_perm]; exact ⟨fun h => hp.symm.trans h, fun h => hp.trans h⟩
    cases h1 : bagEq out t <;> cases h2 : bagEq out' t <;> simp_all

theorem C01_error_or_right (fo : FloatOps) (fns : String → List Val → Except Err Val) (cat : List Table) (q : Query)
    (out : Table) (h : ordered q = false) (hacc : acceptable fo fns cat q out = .ok true) :
    ∃ t, run fo fns cat q [] [] = .ok t ∧ out.Perm t := by
  rw [C01_acceptable_bag fo fns cat q out h] at hacc
  cases hr : run fo fns cat q [] [] with
  | error e => rw [hr] at hacc; simp [Except.map] at hacc
  | ok t =>
    rw [hr] at hacc; simp [Except.map] at hacc
    exact ⟨t, rfl, (bagEq_iff_perm out t).mp hacc⟩

/-- LIMIT / OFFSET over an unordered input: the reference answer `(rows.drop m).take n` is accepted -/
theorem C01_acceptable_refl_limit (fo : FloatOps) (fns : String → List Val → Except Err Val) (cat : List Table)
    (skip : Nat) (fetch : Option Nat) (q : Query) (full : Table) (hq : (match q with | .sort _ _ => true | _ => false) = false)
    (hr : run fo fns cat q [] [] = .ok full) :
    acceptable fo fns cat (.limit skip fetch q)
      (match fetch with | some n => (full.drop skip).take n | none => full.drop skip) = .ok true := by
  have hsub : ∀ n, subBag ((full.drop skip).take n) full = true := fun n =>
    subBag_of_sublist _ _ ((List.take_sublist _ _).trans (List.drop_sublist _ _))
  have hsub' : subBag (full.drop skip) full = true := subBag_of_sublist _ _ (List.drop_sublist _ _)
  cases q <;> simp at hq <;> cases fetch <;>
    simp [acceptable, hr, hsub, hsub', List.length_take, List.length_drop, bind, Except.bind, pure, Except.pure]

/-! ### non-vacuity -/
def fo0 : FloatOps := { add := fun a _ => a, sub := fun a _ => a, mul := fun a _ => a, div := fun a _ => a, neg := id, ofInt := fun _ => ⟨0⟩, toInt := fun _ => none }
def fns0 : String → List Val → Except Err Val := fun n _ => .error (.unsupported n)

/-- the oracle accepts any row order of `SELECT * FROM t` and rejects a lost row -/
example : acceptable fo0 fns0 [[[.int 1], [.null], [.int 1]]] (.scan 0) [[.null], [.int 1], [.int 1]] = .ok true := by rfl
example : acceptable fo0 fns0 [[[.int 1], [.null], [.int 1]]] (.scan 0) [[.null], [.int 1]] = .ok false := by rfl

end IQE.Props.C01
