/-
  C30GenFindings — kernel-checked witnesses of the disagreements between the translated coercion tables
  (`IQE.Gen.Coerce`) on the UNCHANGED tree. Not wired into ./check: a repair of /repo (proposed_fixes/
  C30-decimal-int-coercion.patch) legitimately changes these statements. See IQE/Props/C30Gen.lean.
-/
import IQE.Gen.Coerce
namespace IQE.Props.C30GenFindings
open IQE IQE.Gen.Coerce

/-- DEFECT (unchanged tree): DECIMAL with an integer is executed in the integer type — the decimal operand is cast to
    an integer and loses its fraction — while the planner reports Decimal128(38, 10). -/
theorem C30Gen_decimal_int_disagree (p s : Int) :
    exec_coerce (.Decimal128 p s) .Int64 = .ok .Int64 ∧ exec_coerce .Int32 (.Decimal128 p s) = .ok .Int64 ∧
    plan_coerce (.Decimal128 p s) .Int64 = .Decimal128 38 10 ∧ plan_coerce .Int32 (.Decimal128 p s) = .Decimal128 38 10 := by
  refine ⟨?_, ?_, rfl, rfl⟩ <;> simp [exec_coerce]

/-- Disagreement (unchanged tree): unsigned operands are executed in an unsigned type and reported as Float64. -/
theorem C30Gen_unsigned_disagree :
    exec_coerce .UInt32 .UInt32 = .ok .UInt32 ∧ plan_coerce .UInt32 .UInt32 = .Float64 ∧
    exec_coerce .UInt32 .UInt64 = .ok .UInt64 ∧ plan_coerce .UInt32 .UInt64 = .Float64 := ⟨rfl, rfl, rfl, rfl⟩

end IQE.Props.C30GenFindings
