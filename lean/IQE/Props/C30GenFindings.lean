/-
  C30GenFindings — kernel-checked witnesses of the disagreements between the translated coercion tables
  (`IQE.Gen.Coerce`) at /repo HEAD. Not wired into ./check: a repair of /repo legitimately changes these statements
  (the decimal/integer one did, with fix commit e24f569). See IQE/Props/C30Gen.lean.
-/
import IQE.Gen.Coerce
namespace IQE.Props.C30GenFindings
open IQE IQE.Gen.Coerce

/-- Was a DEFECT until /repo commit e24f569 (C30-F3): DECIMAL with an integer was executed in the INTEGER type (the decimal
    operand lost its fraction). Since the fix the executor computes in Decimal128(38, s). What remains open: the planner
    still reports Decimal128(38, 10) whatever the operand's scale. -/
theorem C30Gen_decimal_int_after_fix (p s : Int) :
    exec_coerce (.Decimal128 p s) .Int64 = .ok (.Decimal128 38 s) ∧ exec_coerce .Int32 (.Decimal128 p s) = .ok (.Decimal128 38 s) ∧
    plan_coerce (.Decimal128 p s) .Int64 = .Decimal128 38 10 ∧ plan_coerce .Int32 (.Decimal128 p s) = .Decimal128 38 10 := by
  refine ⟨?_, ?_, rfl, rfl⟩ <;> simp [exec_coerce]

/-- Disagreement (unchanged tree): unsigned operands are executed in an unsigned type and reported as Float64. -/
theorem C30Gen_unsigned_disagree :
    exec_coerce .UInt32 .UInt32 = .ok .UInt32 ∧ plan_coerce .UInt32 .UInt32 = .Float64 ∧
    exec_coerce .UInt32 .UInt64 = .ok .UInt64 ∧ plan_coerce .UInt32 .UInt64 = .Float64 := ⟨rfl, rfl, rfl, rfl⟩

end IQE.Props.C30GenFindings
