/-
  C07 — answers do not depend on parallelism, batching or scheduling.
  Property theorems only (helper lemmas: IQE/Lemmas/{Tracker,Partition,Bag}.lean).
  Models: IQE.Engine.Partition (MemoryTableExec's modulo split, LimitExec's unfold loop, UnionExec's pair walk, the
  partition contract over a plan algebra, partial aggregation) and IQE.Engine.Tracker (HashJoinExec's shared match
  tracker, small-step, any number of probe partitions).
  Stated assumption for the tracker: every atomic location is sequentially consistent (see Engine/Tracker.lean).
  NOT covered by any theorem here: the tokio / rayon runtimes themselves and weak-memory effects (correspondence runs
  only), and the callers that drive partition 0 only (`run_subquery_blocking`, `DelimJoinExec`, `VectorSearchExec`) —
  those violate `C07_declared_partitions`' premise "a parent drives 0..output_partitions" and are known finding C07-F1.
-/
import IQE.Lemmas.Tracker
import IQE.Lemmas.Partition
namespace IQE.Props.C07
open IQE.Engine IQE.Engine.Partition IQE.Engine.Tracker List

variable {α β : Type}

/-! ### MemoryTableExec: `i % n == p` -/

/-- For every `n ≥ 1` and every batch list, the partitions `0..n` of `MemoryTableExec::execute` together yield every
    batch exactly once (as a bag of batches).  Applied to the index-tagged list `batches.zipIdx`, whose elements are
    pairwise distinct, "`~`" literally says: each batch position is produced by exactly one partition. -/
theorem C07_mod_partition (n : Nat) (hn : 1 ≤ n) (batches : List α) :
    (List.range n).flatMap (fun p => scanExecute n p batches) ~ batches :=
  scanExecute_cover n hn batches

/-- The same with the real gate: whatever the rayon thread count (≥ 1) and the batch sizes, the declared partition
    count is ≥ 1, at most the number of batches (or 1), exactly 1 below 1000 rows, and the declared partitions cover
    every batch exactly once. -/
theorem C07_mod_partition_gate (threads : Nat) (ht : 1 ≤ threads) (batches : List (List α)) :
    let n := scanOutputPartitions threads (batches.map List.length)
    1 ≤ n ∧ n ≤ max batches.length 1 ∧
    ((batches.map List.length).sum < 1000 → n = 1) ∧
    (List.range n).flatMap (fun p => scanExecute (max n 1) p batches) ~ batches := by
  have hpos := scanOutputPartitions_pos threads (batches.map List.length) ht
  refine ⟨hpos, by simpa using scanOutputPartitions_le threads (batches.map List.length),
    scanOutputPartitions_small threads _, ?_⟩
  rw [Nat.max_eq_left hpos]
  exact scanExecute_cover _ hpos batches

/-! ### batching and partition assignment are invisible -/

/-- A per-row operator executed batch by batch, partition by partition (FilterExec, ProjectExec, the probe of a hash
    join against a fixed build side): ANY two layouts (partitions × batches) of the same bag of rows give the same
    bag of output rows. -/
theorem C07_batching (g : α → List β) (L₁ L₂ : List (List (List α)))
    (h : L₁.flatten.flatten ~ L₂.flatten.flatten) :
    (L₁.map (fun bs => bs.map (fun b => b.flatMap g))).flatten.flatten ~
      (L₂.map (fun bs => bs.map (fun b => b.flatMap g))).flatten.flatten := by
  rw [rowLocal_layout, rowLocal_layout]
  exact h.flatMap_right g

/-- Hash join (inner part): the build side is collected from all its partitions in completion order, the probe side
    is processed partition by partition — any layout of either side gives the same bag of joined rows. -/
theorem C07_batching_join (m : α → α → Bool) (comb : α → α → β) (B₁ B₂ P₁ P₂ : List (List (List α)))
    (hb : B₁.flatten.flatten ~ B₂.flatten.flatten) (hp : P₁.flatten.flatten ~ P₂.flatten.flatten) :
    (P₁.map (fun bs => bs.map (fun b => b.flatMap
        (fun r => (B₁.flatten.flatten.filter (fun l => m l r)).map (fun l => comb l r))))).flatten.flatten ~
    (P₂.map (fun bs => bs.map (fun b => b.flatMap
        (fun r => (B₂.flatten.flatten.filter (fun l => m l r)).map (fun l => comb l r))))).flatten.flatten := by
  rw [rowLocal_layout, rowLocal_layout]
  exact IQE.Bag.perm_flatMap hp (fun r _ => (hb.filter _).map _)

/-- Partial aggregation: for every accumulator whose `merge` is associative, commutative and has the empty state as
    unit, aggregating every batch separately, merging per partition and then across partitions gives the state of
    the whole bag — hence the same state for ANY two layouts of the same rows. -/
theorem C07_merge_order {σ : Type} (A : Acc α σ) (hA : A.Lawful) (L₁ L₂ : List (List (List α)))
    (h : L₁.flatten.flatten ~ L₂.flatten.flatten) : A.foldLayout L₁ = A.foldLayout L₂ := by
  rw [Acc.foldLayout_eq A hA, Acc.foldLayout_eq A hA]
  exact Acc.fold_perm A hA h

/-- …and the per-partition states may be merged in any order (`merge_accumulator_states` receives them in task
    completion order). -/
theorem C07_merge_order_states {σ : Type} (A : Acc α σ) (hA : A.Lawful) (s₁ s₂ : List σ) (h : s₁ ~ s₂) :
    s₁.foldl A.merge A.e = s₂.foldl A.merge A.e :=
  Acc.foldl_perm A hA (fun s => s) h

/-- COUNT(*) / COUNT / SUM / MIN / MAX over a nullable integer column form such an accumulator. -/
theorem C07_merge_order_intAgg (L₁ L₂ : List (List (List (Option Int))))
    (h : L₁.flatten.flatten ~ L₂.flatten.flatten) : intAgg.foldLayout L₁ = intAgg.foldLayout L₂ :=
  C07_merge_order intAgg intAgg_lawful L₁ L₂ h

/-! ### LimitExec and UnionExec -/

/-- `LimitExec::execute(0)` over ANY layout of its input: the emitted rows are exactly OFFSET/LIMIT applied to the
    concatenation of all input partitions in index order (a *global* limit, not per batch or per partition); the
    input partitions opened are `0, 1, …, k-1` — each once, in order, none skipped — and the walk stops early
    (`k < #partitions`) only when `fetch` rows have been emitted. -/
theorem C07_limit_global (skip : Nat) (fetch : Option Nat) (parts : List (List (List α))) :
    let r := limitExecute skip fetch parts
    r.1.flatten = takeOpt fetch (parts.flatten.flatten.drop skip) ∧
    r.2 = List.range r.2.length ∧ r.2.length ≤ parts.length ∧
    (r.2.length < parts.length → ∃ l, fetch = some l ∧ r.1.flatten.length = l) := by
  have h := limitLoop_spec parts { skip := skip, fetch := fetch } 0
  have hrows := limitExecute_rows skip fetch parts
  simp only at h
  obtain ⟨_, h2, h3, h4⟩ := h
  refine ⟨hrows, ?_, h3, ?_⟩
  · simp only [limitExecute]; rw [List.range_eq_range']; exact h2
  · intro hlt
    obtain ⟨l, hl, hle⟩ := h4 hlt
    refine ⟨l, hl, ?_⟩
    have hlen : (limitExecute skip fetch parts).1.flatten.length ≤ l := by
      rw [hrows, hl]; simp only [takeOpt, List.length_take]; exact Nat.min_le_left ..
    simp only [Nat.zero_add] at hle
    exact Nat.le_antisymm hlen hle

/-- `UnionExec::execute(0)` walks every `(input, local partition)` pair the inputs declare — each exactly once, and
    only those — and its output is the concatenation of all of them. -/
theorem C07_union_drains_all (inputs : List (List (List (List α)))) :
    (unionPairs (inputs.map List.length)).Nodup ∧
    (∀ i p, (i, p) ∈ unionPairs (inputs.map List.length) ↔ ∃ parts, inputs[i]? = some parts ∧ p < parts.length) ∧
    unionExecute inputs = inputs.flatten.flatten := by
  refine ⟨nodup_unionPairs _, ?_, unionExecute_eq inputs⟩
  intro i p
  rw [mem_unionPairs]
  simp only [List.getElem?_map]
  constructor
  · rintro ⟨c, hc, hp⟩
    cases hi : inputs[i]? with
    | none => simp [hi] at hc
    | some parts => simp only [hi, Option.map_some, Option.some.injEq] at hc; exact ⟨parts, rfl, hc ▸ hp⟩
  · rintro ⟨parts, hparts, hp⟩
    exact ⟨parts.length, by simp [hparts], hp⟩

/-! ### the shared match tracker of HashJoinExec -/

/-- **Safety, for any number of probe partitions and every interleaving.**  In every state reachable from a fresh
    tracker by atomic actions of the partitions:
    * at most one partition ever scans the flags / emits unmatched build rows;
    * while one does, EVERY partition has already published all its match bits and incremented the counter
      (no partition is still publishing, the counter is full, and the flags are final);
    * whatever has been emitted is exactly the set of build rows matched by no partition. -/
theorem C07_tracker_safety (B : Nat) (ms : List (List Nat)) (c : Cfg) (h : Reach (init B ms) c) :
    c.pcs.countP Pc.isEmitter ≤ 1 ∧
    (∀ (t : Nat) (pc : Pc), c.pcs[t]? = some pc → pc.isEmitter = true →
        c.completed = ms.length ∧ (∀ (t' : Nat) (pc' : Pc), c.pcs[t']? = some pc' → pc'.isPublish = false) ∧
        (∀ i, i < B → (c.bits.getD i false = true ↔ ∃ m ∈ ms, i ∈ m))) ∧
    (∀ (t : Nat) (l : List Nat), c.pcs[t]? = some (Pc.finished (some l)) → l = unmatched B ms) := by
  have I := inv_reach h
  refine ⟨?_, ?_, I.fin_ok⟩
  · rw [I.emit_count]; split <;> omega
  · intro t pc hpc he
    have hfull := I.completed_full_of_emitter t pc hpc he
    refine ⟨hfull, ?_, ?_⟩
    · intro t' pc' hpc'
      have hall : c.pcs.countP (fun pc => !pc.isPublish) = c.pcs.length := by
        rw [← I.completed_eq, hfull, I.len_pcs]
      have := (List.countP_eq_length.mp hall) pc' (List.mem_iff_getElem?.mpr ⟨t', hpc'⟩)
      simpa using this
    · intro i hi
      rw [I.bits_final hfull i hi, free_eq_false]

/-- **No blocking, termination.**  A partition is disabled only when it has returned; every atomic action strictly
    decreases `measure`, so every execution — under any scheduler, fair or not — is finite. -/
theorem C07_tracker_terminates (c c' : Cfg) (h : Step c c') : measure c' < measure c := by
  obtain ⟨t, ht⟩ := h
  exact measure_step ht

theorem C07_tracker_no_blocking (c : Cfg) (t : Nat) (pc : Pc) (h : c.pcs[t]? = some pc) (hnf : pc.isFinished = false) :
    ∃ c', step c t = some c' := by
  cases hs : step c t with
  | some c' => exact ⟨c', rfl⟩
  | none =>
    rcases (step_none_iff c t).mp hs with h' | ⟨e, h'⟩
    · rw [h] at h'; cases h'
    · rw [h] at h'; cases h'; simp [Pc.isFinished] at hnf

/-- **Exactly once.**  In every reachable state the list of emitted build-only batches is empty or the single batch
    `unmatched B ms` (never twice, never a wrong set); and in every reachable state where no partition can move any
    more (with at least one partition) it IS that single batch: the unmatched build rows are emitted exactly once. -/
theorem C07_tracker (B : Nat) (ms : List (List Nat)) (c : Cfg) (h : Reach (init B ms) c) :
    (emissions c = [] ∨ emissions c = [unmatched B ms]) ∧
    ((∀ t, step c t = none) → 0 < ms.length → emissions c = [unmatched B ms]) := by
  have I := inv_reach h
  have hall : ∀ l ∈ emissions c, l = unmatched B ms := by
    intro l hl
    obtain ⟨pc, hpc, hf⟩ := List.mem_filterMap.mp hl
    obtain ⟨t, ht⟩ := List.mem_iff_getElem?.mp hpc
    cases pc with
    | publish todo => simp [Pc.emitted] at hf
    | scan i acc => simp [Pc.emitted] at hf
    | finished e =>
      cases e with
      | none => simp [Pc.emitted] at hf
      | some l' =>
        simp only [Pc.emitted, Option.some.injEq] at hf
        subst hf
        exact I.fin_ok t l' ht
  have hlen : (emissions c).length ≤ 1 := by
    have h1 := emissions_length_le c.pcs
    have h2 := I.emit_count
    unfold emissions
    split at h2 <;> omega
  have shape : ∀ (e : List (List Nat)), e.length ≤ 1 → (∀ l ∈ e, l = unmatched B ms) → e = [] ∨ e = [unmatched B ms] := by
    intro e he hm
    match e, he, hm with
    | [], _, _ => exact Or.inl rfl
    | [x], _, hm => exact Or.inr (by rw [hm x (by simp)])
    | _ :: _ :: _, he, _ => simp at he
  refine ⟨shape _ hlen hall, ?_⟩
  intro hterm hpos
  have hfin : ∀ pc ∈ c.pcs, pc.isFinished = true := by
    intro pc hpc
    obtain ⟨t, ht⟩ := List.mem_iff_getElem?.mp hpc
    rcases (step_none_iff c t).mp (hterm t) with h' | ⟨e, h'⟩
    · rw [ht] at h'; cases h'
    · rw [ht] at h'; cases h'; rfl
  have hnp : c.pcs.countP (fun pc => !pc.isPublish) = c.pcs.length := by
    rw [List.countP_eq_length]
    intro pc hpc
    have := hfin pc hpc
    cases pc <;> simp_all [Pc.isFinished, Pc.isPublish]
  have hcomp : c.completed = ms.length := by rw [I.completed_eq, hnp, I.len_pcs]
  have hcount : c.pcs.countP Pc.isEmitter = 1 := by
    rw [I.emit_count]; simp [hcomp, hpos]
  have hlen1 : (emissions c).length = 1 := by
    unfold emissions
    rw [emissions_length_eq_of_finished c.pcs hfin, hcount]
  rcases shape _ hlen hall with h0 | h1
  · rw [h0] at hlen1; simp at hlen1
  · exact h1

/-! ### the partition contract -/

/-- For every plan of the modelled algebra (scan, per-row operator, LIMIT, UNION ALL, inner hash join, pipeline
    breaker) whose scans were planned with ≥ 1 thread: every DECLARED partition is accepted by `check_partition` —
    here and, transitively, in every child call the operator makes — every undeclared one is rejected, and the union
    of the declared partitions' outputs is a correct answer of the plan (`Plan.Sem`: the layout-free bag semantics). -/
theorem C07_declared_partitions (pl : Plan α) (hwf : pl.WF) :
    1 ≤ pl.outputPartitions ∧
    (∀ p, p < pl.outputPartitions → ∃ out, pl.execute p = some out) ∧
    (∀ p, ¬ p < pl.outputPartitions → pl.execute p = none) ∧
    ∃ rows, pl.executeAll = some rows ∧ pl.Sem rows := by
  obtain ⟨f, hf, hsem⟩ := Plan.exec_sem pl hwf
  have hpos := Plan.outputPartitions_pos pl hwf
  refine ⟨hpos, fun p hp => ⟨f p, hf p hp⟩, Plan.execute_out_of_range pl, ?_⟩
  refine ⟨_, ?_, hsem⟩
  unfold Plan.executeAll
  rw [Nat.max_eq_left hpos, collect_eq _ f _ hf]
  rfl

/-! ### non-vacuity: concrete evaluations of the models -/

-- 5 batches over 3 partitions: 0,3 | 1,4 | 2
example : (List.range 3).map (fun p => scanExecute 3 p ["b0", "b1", "b2", "b3", "b4"]) =
    [["b0", "b3"], ["b1", "b4"], ["b2"]] := by decide
-- the gate: 999 rows in 3 batches → 1 partition; 1000 rows in 3 batches on 8 threads → 3; on 2 threads → 2
example : scanOutputPartitions 8 [333, 333, 333] = 1 ∧ scanOutputPartitions 8 [334, 333, 333] = 3 ∧
    scanOutputPartitions 2 [334, 333, 333] = 2 ∧ scanOutputPartitions 8 [1000] = 1 := by decide
-- OFFSET 2 LIMIT 3 across partition and batch boundaries; the third partition is never opened
example : limitExecute 2 (some 3) [[[1], [2, 3]], [[4, 5, 6]], [[7]]] = ([[3], [4, 5]], [0, 1]) := by decide
example : unionPairs [2, 0, 3] = [(0, 0), (0, 1), (2, 0), (2, 1), (2, 2)] := by decide
-- tracker, 2 partitions over 4 build rows, partition 0 matched {0,2}, partition 1 matched {2}:
-- an interleaved schedule in which partition 0 finishes last and emits {1,3}; partition 1 emits nothing
example : (runSchedule (init 4 [[0, 2], [2]]) [0, 1, 1, 0, 0, 0, 0, 0, 0, 0]).pcs =
    [.finished (some [1, 3]), .finished none] := by decide
-- the other order: partition 1 finishes last and is the one that emits
example : (runSchedule (init 4 [[0, 2], [2]]) [0, 0, 0, 1, 1, 1, 1, 1, 1, 1]).pcs =
    [.finished none, .finished (some [1, 3])] := by decide
-- a two-partition scan below a LIMIT 1: partition 1 of the scan is declared and executable, the LIMIT declares 1
example : (Plan.limit 0 (some 1) (Plan.scan 2 [List.replicate 600 (7 : Nat), List.replicate 600 8])).outputPartitions = 1 ∧
    (Plan.scan 2 [List.replicate 600 (7 : Nat), List.replicate 600 8]).outputPartitions = 2 := by
  refine ⟨rfl, ?_⟩
  simp only [Plan.outputPartitions, List.map_cons, List.map_nil, List.length_replicate]
  decide

end IQE.Props.C07
